"""facts_C09.py -- structural facts of the server life-cycle code copied into coq/Gen/FactsC09.v (property C09).

`ast` only; grpclib is never imported.  Fail-closed: if the MEANING of one of the functions that
Model/ServerLife.v transcribes is no longer the one the model was written against, Unsupported is raised,
the generated file disappears and Model/ServerLife.v (which imports the GC intervals from it) stops compiling,
so the tie is reported broken.

Meaning, not spelling.  Every function is first brought to a normal form by a small symbolic executor:
  * docstrings, annotations, asserts, `cast(..)`, logging calls and `pass` are dropped;
  * calls of private helpers of the same class / module (`self._x(..)`, `_x(..)`, also awaited) are executed
    in place (extract-method / inline-method are invisible), tuple results are destructured;
  * locals are renamed in order of appearance, a local bound once to a side-effect-free expression is
    replaced by that expression; private attributes of `self` are renamed by ROLE (order of first use in a
    fixed list of methods), so renaming `_cancelled` is invisible;
  * branching is turned into a decision table over the atomic conditions (if/elif/else, early returns,
    guards, hoisted common tails, De Morgan'd tests all give the same table);
  * `X.update(E)` is `for v in E: X.add(v)`, neighbouring loops over the same iterable are fused, and where
    the order inside a loop body is immaterial (declared per fact) the body is sorted.
Where even that is too literal the fact is stated at the granularity the model needs (which awaits happen in
which order, what is iterated, which object is stored where).

Dropped on purpose: utils._first_stage/_second_stage/_exit_handler (no theorem uses their shape; the stage
logic is tied by executing graceful_exit on every started/not-started vector, see harness/drive_C09.py).
"""
import ast
import copy
import itertools

from extract_facts import Unsupported, parse, func_node, class_node, ceval


def need(cond, what):
    if not cond:
        raise Unsupported('C09 facts: ' + what)


# ---- noise ----------------------------------------------------------------------------------------------

def is_log_call(node):
    return isinstance(node, ast.Call) and isinstance(node.func, ast.Attribute) and \
        isinstance(node.func.value, ast.Name) and node.func.value.id in ('log', 'logger', 'logging')


class Strip(ast.NodeTransformer):
    def visit_Call(self, node):
        self.generic_visit(node)
        if isinstance(node.func, ast.Name) and node.func.id == 'cast' and len(node.args) == 2:
            return node.args[1]
        return node


def clean_body(body):
    out = []
    for s in body:
        if isinstance(s, ast.Expr) and isinstance(s.value, ast.Constant):
            continue
        if isinstance(s, (ast.Pass, ast.Assert)):
            continue
        if isinstance(s, ast.Expr) and is_log_call(s.value):
            continue
        if isinstance(s, ast.AnnAssign):
            if s.value is None:
                continue
            s = ast.Assign(targets=[s.target], value=s.value)
        out.append(s)
    return out


# ---- the symbolic executor ------------------------------------------------------------------------------

class Ctx:
    """one normalisation run: a class (or module) whose private helpers may be executed in place"""

    def __init__(self, tree, cls=None, attr_roles=None, unordered=False):
        self.tree, self.cls = tree, cls
        self.methods = {}
        if cls is not None:
            for c in self._mro(cls):
                for n in c.body:
                    if isinstance(n, (ast.FunctionDef, ast.AsyncFunctionDef)):
                        self.methods.setdefault(n.name, n)
        self.functions = {n.name: n for n in tree.body if isinstance(n, (ast.FunctionDef, ast.AsyncFunctionDef))}
        self.attr_roles = attr_roles if attr_roles is not None else {}
        self.unordered = unordered
        self.nlocal = 0
        self.depth = 0

    def _mro(self, cls):
        out = [cls]
        for b in cls.bases:
            if isinstance(b, ast.Name):
                for n in self.tree.body:
                    if isinstance(n, ast.ClassDef) and n.name == b.id:
                        out += self._mro(n)
        return out

    def helper(self, call):
        """the FunctionDef of a private helper this call refers to, or None"""
        f = call.func
        if isinstance(f, ast.Attribute) and isinstance(f.value, ast.Name) and f.value.id == 'self' \
                and f.attr.startswith('_') and not f.attr.startswith('__') and f.attr in self.methods:
            return self.methods[f.attr], True
        if isinstance(f, ast.Name) and f.id.startswith('_') and not f.id.startswith('__') and f.id in self.functions:
            return self.functions[f.id], False
        return None

    def fresh(self):
        self.nlocal += 1
        return 'v%d' % self.nlocal


class Subst(ast.NodeTransformer):
    def __init__(self, ctx, env):
        self.ctx, self.env = ctx, env

    def visit_Name(self, node):
        if node.id in self.env:
            return copy.deepcopy(self.env[node.id])
        return node

    def visit_Attribute(self, node):
        self.generic_visit(node)
        if isinstance(node.value, ast.Name) and node.value.id == 'self' and node.attr.startswith('_') \
                and not node.attr.startswith('__') and node.attr not in self.ctx.methods:
            role = self.ctx.attr_roles.setdefault(node.attr, 'A%d' % len(self.ctx.attr_roles))
            return ast.Attribute(value=node.value, attr=role, ctx=node.ctx)
        return node

    def visit_Call(self, node):
        self.generic_visit(node)
        if isinstance(node.func, ast.Name) and node.func.id == 'cast' and len(node.args) == 2:
            return node.args[1]
        # list(E) / tuple(E) / set(E) handed straight to another call is E as far as iteration goes
        node.args = [uncopy(a) for a in node.args]
        return node

    def visit_DictComp(self, node):
        self.generic_visit(node)
        # {k: None for k in X if c}: a dict used as an (ordered) set is the set {k for k in X if c}
        if isinstance(node.value, ast.Constant) and node.value.value in (None, True) and len(node.generators) == 1 \
                and isinstance(node.key, ast.Name) and isinstance(node.generators[0].target, ast.Name) \
                and node.key.id == node.generators[0].target.id:
            return ast.SetComp(elt=node.key, generators=node.generators)
        return node


def uncopy(a):
    if isinstance(a, ast.Call) and isinstance(a.func, ast.Name) and a.func.id in ('list', 'tuple', 'set', 'frozenset') \
            and len(a.args) == 1 and not a.keywords and not isinstance(a.args[0], ast.Starred):
        return a.args[0]
    return a


def show(ctx, env, node):
    return ' '.join(ast.unparse(Subst(ctx, env).visit(copy.deepcopy(node))).split())


def pure(node):
    """side-effect free AND without identity: may be substituted for the local it is bound to"""
    return not any(isinstance(n, (ast.Call, ast.Await, ast.Yield, ast.YieldFrom, ast.NamedExpr, ast.List, ast.Dict,
                                  ast.Set, ast.ListComp, ast.SetComp, ast.DictComp, ast.GeneratorExp, ast.Lambda))
                   for n in ast.walk(node))


class Path:
    def __init__(self, cond=(), trace=(), env=None, out=None):
        self.cond, self.trace, self.env, self.out = cond, trace, dict(env or {}), out

    def fork(self, **kw):
        p = Path(self.cond, self.trace, self.env, self.out)
        for k, v in kw.items():
            setattr(p, k, v)
        return p


def atoms_of(test):
    """-> evaluator(valuation) and the list of atomic condition nodes of a boolean test"""
    if isinstance(test, ast.BoolOp):
        subs = [atoms_of(v) for v in test.values]
        if isinstance(test.op, ast.And):
            return ('and', subs)
        return ('or', subs)
    if isinstance(test, ast.UnaryOp) and isinstance(test.op, ast.Not):
        return ('not', atoms_of(test.operand))
    if isinstance(test, ast.Compare) and len(test.ops) == 1 and isinstance(test.ops[0], (ast.IsNot, ast.NotEq)):
        pos = ast.Compare(left=test.left, ops=[ast.Is() if isinstance(test.ops[0], ast.IsNot) else ast.Eq()],
                          comparators=test.comparators)
        return ('not', ('atom', pos))
    if isinstance(test, ast.Constant):
        return ('const', bool(test.value))
    return ('atom', test)


def eval_test(ctx, path, tree):
    """-> [(path', bool)] forking on undecided atoms (short-circuit order)"""
    kind = tree[0]
    if kind == 'const':
        return [(path, tree[1])]
    if kind == 'not':
        return [(p, not v) for p, v in eval_test(ctx, path, tree[1])]
    if kind in ('and', 'or'):
        res = [(path, kind == 'and')]
        for sub in tree[1]:
            nxt = []
            for p, v in res:
                if v != (kind == 'and'):
                    nxt.append((p, v))
                else:
                    nxt += eval_test(ctx, p, sub)
            res = nxt
        return res
    node = tree[1]
    out = []
    # a private predicate helper inside a test is executed in place
    if isinstance(node, ast.Call) and ctx.helper(node):
        for p, val in call_helper(ctx, path, node):
            if isinstance(val, ast.Constant):
                out.append((p, bool(val.value)))
            else:
                out += eval_test(ctx, p, atoms_of(val) if val is not None else ('const', False))
        return out
    key = show(ctx, path.env, node)
    known = dict(path.cond)
    if key in known:
        return [(path, known[key])]
    return [(path.fork(cond=path.cond + ((key, True),)), True), (path.fork(cond=path.cond + ((key, False),)), False)]


def call_helper(ctx, path, call, awaited=False):
    """execute a private helper in place -> [(path', returned expression or None)]"""
    fn, is_method = ctx.helper(call)
    need(ctx.depth < 4, 'helper nesting too deep at ' + ast.unparse(call))
    params = [a.arg for a in fn.args.args]
    if is_method:
        params = params[1:]
    need(len(call.args) <= len(params) and not fn.args.vararg and not fn.args.kwarg, 'helper call shape ' + ast.unparse(call))
    sub = Subst(ctx, path.env)
    env = {}
    actual = {p: a for p, a in zip(params, call.args)}
    for kw in call.keywords:
        actual[kw.arg] = kw.value
    defaults = dict(zip(params[len(params) - len(fn.args.defaults):], fn.args.defaults))
    for p in params:
        a = actual.get(p, defaults.get(p))
        need(a is not None, 'helper argument %s of %s' % (p, fn.name))
        a = sub.visit(copy.deepcopy(a))
        if pure(a):
            env[p] = a
        else:
            name = ctx.fresh()
            path = path.fork(trace=path.trace + ('%s = %s' % (name, ' '.join(ast.unparse(a).split())),))
            env[p] = ast.Name(id=name, ctx=ast.Load())
    ctx.depth += 1
    res = []
    for p in run(ctx, clean_body(fn.body), [path.fork(env=env, out=None)]):
        if p.out is None or p.out[0] == 'return':
            res.append((p.fork(env=path.env, out=None), p.out[1] if p.out else None))
        else:
            res.append((p.fork(env=path.env), None))        # raised: propagates
    ctx.depth -= 1
    return res


def effect_of_value(ctx, path, value, bind=None):
    """evaluate an expression with side effects -> [(path', expression node standing for its value)]"""
    if isinstance(value, ast.Tuple) and bind:
        res = [(path, [])]
        for elt in value.elts:
            nxt = []
            for p, acc in res:
                if p.out is not None:
                    nxt.append((p, acc))
                elif pure(elt):
                    nxt.append((p, acc + [Subst(ctx, p.env).visit(copy.deepcopy(elt))]))
                else:
                    nxt += [(q, acc + [v]) for q, v in effect_of_value(ctx, p, elt, bind=True)]
            res = nxt
        return [(p, ast.Tuple(elts=acc, ctx=ast.Load()) if p.out is None else None) for p, acc in res]
    awaited = isinstance(value, ast.Await)
    inner = value.value if awaited else value
    if isinstance(inner, ast.Call) and ctx.helper(inner):
        return call_helper(ctx, path, inner, awaited)
    text = ('await ' if awaited else '') + show(ctx, path.env, inner)
    if bind is None:
        return [(path.fork(trace=path.trace + (text,)), None)]
    name = ctx.fresh()
    return [(path.fork(trace=path.trace + ('%s = %s' % (name, text),)), ast.Name(id=name, ctx=ast.Load()))]


def assign(ctx, path, target, valnode):
    """bind / store one target"""
    if isinstance(target, ast.Name):
        env = dict(path.env)
        env[target.id] = valnode
        return path.fork(env=env)
    if isinstance(target, (ast.Tuple, ast.List)) and isinstance(valnode, (ast.Tuple, ast.List)) \
            and len(target.elts) == len(valnode.elts):
        for t, v in zip(target.elts, valnode.elts):
            path = assign(ctx, path, t, v)
        return path
    if isinstance(target, ast.Subscript) and isinstance(valnode, ast.Constant) and valnode.value in (None, True):
        # membership in a dict used as an ordered set
        return path.fork(trace=path.trace + ('%s.add(%s)' % (show(ctx, path.env, target.value),
                                                              show(ctx, path.env, target.slice)),))
    return path.fork(trace=path.trace + ('%s := %s' % (show(ctx, path.env, target), show(ctx, {}, valnode)),))


def block_text(ctx, body, env):
    """normal form of a nested block (loop / try body) as text"""
    saved = ctx.nlocal
    table = table_of(ctx, run(ctx, clean_body(body), [Path(env=env)]))
    return '{' + ' | '.join(table) + '}'


def run(ctx, body, paths):
    for stmt in body:
        nxt = []
        for path in paths:
            if path.out is not None:
                nxt.append(path)
                continue
            nxt += step(ctx, stmt, path)
        paths = nxt
    return paths


def step(ctx, s, path):
    if isinstance(s, ast.If) and any(isinstance(n, ast.NamedExpr) for n in ast.walk(s.test)):
        w = Walrus()
        test = w.visit(copy.deepcopy(s.test))
        return run(ctx, w.pre + [ast.If(test=test, body=s.body, orelse=s.orelse)], [path])
    val = getattr(s, 'value', None)
    if isinstance(s, (ast.Return, ast.Assign, ast.Expr)) and isinstance(val, ast.IfExp):
        # v = A if c else B   ==   if c: v = A / else: v = B
        def with_value(v):
            c = copy.copy(s)
            c.value = v
            return c
        return step(ctx, ast.If(test=val.test, body=[with_value(val.body)], orelse=[with_value(val.orelse)]), path)
    if isinstance(s, ast.Return):
        if s.value is None:
            return [path.fork(out=('return', None))]
        if pure(s.value) and ctx.depth == 0 and isinstance(
                Subst(ctx, path.env).visit(copy.deepcopy(s.value)), (ast.BoolOp, ast.UnaryOp)):
            # a boolean result is its truth table (De Morgan'd spellings coincide)
            val = Subst(ctx, path.env).visit(copy.deepcopy(s.value))
            return [p.fork(out=('return', str(v))) for p, v in eval_test(ctx, path, atoms_of(val))]
        if pure(s.value):
            return [path.fork(out=('return', Subst(ctx, path.env).visit(copy.deepcopy(s.value))))]
        return [p.fork(out=('return', v)) if p.out is None else p for p, v in effect_of_value(ctx, path, s.value, bind=True)]
    if isinstance(s, ast.Raise):
        return [path.fork(out=('raise', show(ctx, path.env, s.exc) if s.exc else 'reraise'))]
    if isinstance(s, ast.Expr):
        return [p for p, _ in effect_of_value(ctx, path, s.value)]
    if isinstance(s, ast.Assign):
        if pure(s.value):
            val = Subst(ctx, path.env).visit(copy.deepcopy(s.value))
            for t in s.targets:
                path = assign(ctx, path, t, val)
            return [path]
        out = []
        for p, v in effect_of_value(ctx, path, s.value, bind=True):
            if p.out is None and v is not None:
                for t in s.targets:
                    p = assign(ctx, p, t, v)
            out.append(p)
        return out
    if isinstance(s, ast.AugAssign):
        op = {ast.Add: '+', ast.Sub: '-'}.get(type(s.op), type(s.op).__name__)
        return [path.fork(trace=path.trace + ('%s %s= %s' % (show(ctx, path.env, s.target), op, show(ctx, path.env, s.value)),))]
    if isinstance(s, ast.If):
        out = []
        test = Subst(ctx, path.env).visit(copy.deepcopy(s.test)) if pure(s.test) else s.test
        for p, v in eval_test(ctx, path, atoms_of(test)):
            if p.out is not None:
                out.append(p)
            else:
                out += run(ctx, clean_body(s.body if v else s.orelse), [p])
        return out
    if isinstance(s, (ast.For, ast.AsyncFor)):
        need(not s.orelse, 'for-else')
        var = 'e%d' % (ctx.depth + len([t for t in path.trace if t.startswith('for ')]))
        env = dict(path.env)
        if isinstance(s.target, ast.Name):
            env[s.target.id] = ast.Name(id='item', ctx=ast.Load())
        else:
            need(False, 'loop target ' + ast.unparse(s.target))
        body = block_text(ctx, s.body, env)
        return [path.fork(trace=path.trace + ('for item in %s %s' % (show(ctx, path.env, uncopy(s.iter)), body),))]
    if isinstance(s, (ast.Try, ast.With)) and guarded_delete(s) is not None:
        # try: del o.x / except AttributeError: pass  ==  with suppress(AttributeError): del o.x
        #                                             ==  if hasattr(o, 'x'): del o.x
        return step(ctx, guarded_delete(s), path)
    if isinstance(s, ast.Try):
        parts = ['try ' + block_text(ctx, s.body, path.env)]
        for h in s.handlers:
            parts.append('except %s %s' % (show(ctx, {}, h.type) if h.type else '*', block_text(ctx, h.body, path.env)))
        if s.orelse:
            parts.append('else ' + block_text(ctx, s.orelse, path.env))
        if s.finalbody:
            parts.append('finally ' + block_text(ctx, s.finalbody, path.env))
        return [path.fork(trace=path.trace + (' '.join(parts),))]
    if isinstance(s, ast.Delete):
        return [path.fork(trace=path.trace + ('del ' + ', '.join(show(ctx, path.env, t) for t in s.targets),))]
    if isinstance(s, (ast.With, ast.AsyncWith)):
        items = ', '.join(show(ctx, path.env, i.context_expr) for i in s.items)
        return [path.fork(trace=path.trace + ('with %s %s' % (items, block_text(ctx, s.body, path.env)),))]
    if isinstance(s, (ast.FunctionDef, ast.AsyncFunctionDef)):
        return [path]
    raise Unsupported('C09 facts: statement ' + type(s).__name__)


def guarded_delete(s):
    body = clean_body(s.body)
    if not (len(body) == 1 and isinstance(body[0], ast.Delete) and len(body[0].targets) == 1
            and isinstance(body[0].targets[0], ast.Attribute) and isinstance(body[0].targets[0].value, ast.Name)):
        return None
    if isinstance(s, ast.Try):
        ok = len(s.handlers) == 1 and s.handlers[0].type is not None \
            and ast.unparse(s.handlers[0].type) == 'AttributeError' and not clean_body(s.handlers[0].body) \
            and not clean_body(s.orelse) and not clean_body(s.finalbody)
    else:
        c = s.items[0].context_expr if len(s.items) == 1 else None
        ok = isinstance(c, ast.Call) and ast.unparse(c.func) in ('suppress', 'contextlib.suppress') \
            and [ast.unparse(a) for a in c.args] == ['AttributeError'] and s.items[0].optional_vars is None
    if not ok:
        return None
    t = body[0].targets[0]
    test = ast.Call(func=ast.Name(id='hasattr', ctx=ast.Load()), args=[t.value, ast.Constant(value=t.attr)], keywords=[])
    return ast.If(test=test, body=body, orelse=[])


class Walrus(ast.NodeTransformer):
    """(x := E) inside a test: the binding is done first, the test reads x"""

    def __init__(self):
        self.pre = []

    def visit_NamedExpr(self, node):
        self.generic_visit(node)
        self.pre.append(ast.Assign(targets=[ast.Name(id=node.target.id, ctx=ast.Store())], value=node.value))
        return ast.Name(id=node.target.id, ctx=ast.Load())


def normalise_trace(ctx, trace):
    """update -> loop of add, fuse neighbouring loops over the same iterable, optionally sort loop bodies"""
    out = []
    for t in trace:
        if not t.startswith('for item in ') and '.update(' in t and t.endswith(')') and '=' not in t.split('.update(')[0]:
            recv, arg = t.split('.update(', 1)
            t = 'for item in %s {%s.add(item)}' % (arg[:-1], recv)
        if t.startswith('for item in ') and out and out[-1].startswith('for item in '):
            h1, b1 = out[-1].split(' {', 1)
            h2, b2 = t.split(' {', 1)
            if h1 == h2 and '|' not in b1 and '|' not in b2:
                out[-1] = '%s {%s; %s}' % (h1, b1[:-1].split(' -> ')[0], b2[:-1].split(' -> ')[0])
                continue
        out.append(t)
    if ctx.unordered:
        res = []
        for t in out:
            if t.startswith('for item in ') and '|' not in t:
                h, b = t.split(' {', 1)
                t = '%s {%s}' % (h, '; '.join(sorted(x.strip() for x in b[:-1].split(' -> ')[0].split(';'))))
            res.append(t)
        out = res
    return out


def table_of(ctx, paths):
    """the decision table: one line per complete valuation of the atoms that occur, sorted"""
    atoms = sorted({a for p in paths for a, _ in p.cond})
    lines = set()
    for vals in itertools.product([True, False], repeat=len(atoms)):
        val = dict(zip(atoms, vals))
        for p in paths:
            if all(val[a] == v for a, v in p.cond):
                tr = normalise_trace(ctx, p.trace)
                out = ''
                if p.out is not None and not (p.out[0] == 'return' and (p.out[1] is None or (
                        isinstance(p.out[1], ast.Constant) and p.out[1].value is None))):
                    o = p.out[1]
                    out = ' -> %s %s' % (p.out[0], o if isinstance(o, str) else (show(ctx, {}, o) if o is not None else ''))
                guard = ' & '.join(('' if val[a] else 'not ') + '(' + a + ')' for a in atoms)
                lines.add(('%s: ' % guard if guard else '') + '; '.join(tr) + out.rstrip())
    need(len(atoms) <= 6, 'too many conditions')
    return sorted(lines)


def normal_form(tree, cls_name, fn_name, attr_roles, unordered=False, fn=None):
    cls = class_node(tree, cls_name) if cls_name else None
    ctx = Ctx(tree, cls, attr_roles, unordered)
    fn = fn or func_node(tree, fn_name, cls_name)
    env = {}
    args = [a.arg for a in fn.args.args]
    for k, a in enumerate(args):
        if not (k == 0 and a in ('self', 'cls')):
            env[a] = ast.Name(id='p%d' % k, ctx=ast.Load())
    return table_of(ctx, run(ctx, clean_body(fn.body), [Path(env=env)]))


# ---- expected meanings ------------------------------------------------------------------------------------
# private attributes of self are A0, A1, ... per class in order of first use along the list below;
# parameters p1, p2, ...; locals v1, v2, ...

HANDLER = [   # roles: A0 = _tasks, A1 = _cancelled
    ('accept', False, [
        'self.__gc_step__(); v1 = self.loop.create_task(request_handler(self.mapping, p1, p2, self.codec, '
        'self.status_details_codec, self.dispatch, p3)); self.A0[p1] := v1; '
        'v1.add_done_callback(lambda _: p3())']),
    ('cancel', False, [
        '(v1 is None): v1 = self.A0.pop(p1, None)',
        'not (v1 is None): v1 = self.A0.pop(p1, None); v1.cancel(); self.A1.add(v1)']),
    ('close', True, [
        'for item in self.A0.values() {item.cancel(); self.A1.add(item)}; self.closing := True']),
    ('wait_closed', False, [
        '(self.A1): await asyncio.wait(self.A1)', 'not (self.A1): ']),
    ('check_closed', False, [
        '(self.A0) & (self.A1): self.__gc_collect__() -> return False',
        '(self.A0) & not (self.A1): self.__gc_collect__() -> return False',
        'not (self.A0) & (self.A1): self.__gc_collect__() -> return False',
        'not (self.A0) & not (self.A1): self.__gc_collect__() -> return True']),
    ('__gc_collect__', False, [
        'v1 = {s: t for s, t in self.A0.items() if not t.done()}; self.A0 := v1; '
        'v2 = {t for t in self.A1 if not t.done()}; self.A1 := v2']),
]
GC = [('__gc_step__', False, [   # A0 = _gc_counter
    '(self.A0 % self.__gc_interval__): self.A0 += 1',
    'not (self.A0 % self.__gc_interval__): self.A0 += 1; self.__gc_collect__()'])]
SERVER = [    # A0 = _handlers, A1 = _mapping ...
    ('__gc_collect__', False, ['v1 = {h for h in self.A0 if not (h.closing and h.check_closed())}; self.A0 := v1']),
]
STREAM = [('__terminated__', False, [
    '(self.wrapper is None): ', 'not (self.wrapper is None): self.wrapper.cancel(StreamTerminatedError(p1))'])]
PROCESSOR = [
    ('close', False, [
        "(hasattr(self, 'processors')): self.connection.close(); self.handler.close(); "
        "for item in self.streams.values() {item.__terminated__(p1)}; del self.processors",
        "not (hasattr(self, 'processors')): self.connection.close(); self.handler.close(); "
        "for item in self.streams.values() {item.__terminated__(p1)}"]),
]
WRAPPER = [   # A0 = _tasks (one set PER wrapper, made in __init__), A1 = _error
    ('__init__', False, ['v1 = set(); self.A0 := v1']),
    ('cancel', False, ['self.A1 := p1; for item in self.A0 {item.cancel()}; self.cancelled := True']),
    ('__enter__', False, [
        "(self.A1 is None) & (v1 is None): v1 = _current_task() -> raise RuntimeError('Called not inside a task')",
        '(self.A1 is None) & not (v1 is None): v1 = _current_task(); self.A0.add(v1)',
        'not (self.A1 is None) & (v1 is None):  -> raise self.A1',
        'not (self.A1 is None) & not (v1 is None):  -> raise self.A1']),
]


def check_table(tree, rel, cls, specs, checked):
    roles = {}
    for name, unordered, expected in specs:
        got = normal_form(tree, cls, name, roles, unordered)
        need(got == sorted(expected), '%s %s.%s means something else now:\n  expected %r\n  found    %r'
             % (rel, cls, name, sorted(expected), got))
        checked.append('%s:%s.%s' % (rel, cls, name))
    return roles


# ---- facts stated at a coarser granularity ------------------------------------------------------------------

def linear(tree, cls, name):
    """all effects of a function in program order, helpers executed in place (single path required per guard)"""
    roles = {}
    return normal_form(tree, cls, name, roles), roles


def paths_of(tree, cls_name, fn_name, roles, fn=None, bound=None):
    """the paths of a function after normalisation: [(conditions dict, effects list, outcome)]"""
    cls = class_node(tree, cls_name) if cls_name else None
    ctx = Ctx(tree, cls, roles)
    fn = fn or func_node(tree, fn_name, cls_name)
    env = {}
    for k, a in enumerate(x.arg for x in fn.args.args):
        if not (k == 0 and a in ('self', 'cls')):
            env[a] = ast.Name(id='p%d' % k, ctx=ast.Load())
    for a, v in (bound or {}).items():
        env[a] = v
    out = []
    for p in run(ctx, clean_body(fn.body), [Path(env=env)]):
        o = p.out
        if o is not None and o[0] == 'return' and (o[1] is None or (isinstance(o[1], ast.Constant) and o[1].value is None)):
            o = None
        if o is not None and o[0] == 'return' and o[1] is not None and not isinstance(o[1], str):
            o = ('return', show(ctx, {}, o[1]))
        out.append((dict(p.cond), normalise_trace(ctx, p.trace), o))
    return out


def raises(o, text=None):
    return o is not None and o[0] == 'raise' and (text is None or o[1] == text)


def check_server(tree, checked):
    rel = 'grpclib/server.py'
    roles = check_table(tree, rel, 'Server', SERVER, checked)         # A0 = the handlers collection
    # _protocol_factory: a GC step, then a new Handler joins the handlers collection and is given to the protocol
    # the protocol factory is the method Server.start() hands to the loop (whatever its private name)
    names = set()
    for c in ast.walk(func_node(tree, 'start', 'Server')):
        if isinstance(c, ast.Call) and isinstance(c.func, ast.Attribute) and c.func.attr in ('create_server', 'create_unix_server'):
            a = c.args[0] if c.args else None
            need(isinstance(a, ast.Attribute) and isinstance(a.value, ast.Name) and a.value.id == 'self',
                 'Server.start: protocol factory argument ' + ast.unparse(c)[:80])
            names.add(a.attr)
    need(len(names) == 1, 'Server.start: one protocol factory: %r' % names)
    ps = paths_of(tree, 'Server', names.pop(), roles)
    need(len(ps) == 1, 'protocol factory branches')
    _, eff, o = ps[0]
    hv = [e.split(' = ')[0] for e in eff if ' = Handler(' in e]
    need(eff[0] == 'self.__gc_step__()' and len(hv) == 1 and 'self.A0.add(%s)' % hv[0] in eff
         and any(' = H2Protocol(%s, ' % hv[0] in e for e in eff) and o is not None and o[0] == 'return',
         'Server._protocol_factory: %r' % (eff,))
    checked.append(rel + ':Server._protocol_factory')
    # close(): refuse when not started (nothing done before); close the asyncio server; set the latch unless
    # it is set; close every handler of the collection
    ps = paths_of(tree, 'Server', 'close', roles)
    bad = [p for p in ps if raises(p[2])]
    good = [p for p in ps if not raises(p[2])]
    need(bad and good and all(p[2][1] == "RuntimeError('Server is not started')" and not p[1] for p in bad),
         'Server.close when not started: %r' % (bad,))
    for cond, eff, o in good:
        need(all(not v for a, v in cond.items() if a.endswith(' is None')), 'Server.close start check: %r' % (cond,))
        need(len(eff) >= 2 and eff[0].endswith('.close()') and eff[-1] == 'for item in self.A0 {item.close()}',
             'Server.close effects: %r' % (eff,))
        mid = eff[1:-1]
        done = [v for a, v in cond.items() if a.endswith('.done()')]
        need(len(done) == 1 and len(mid) == (0 if done[0] else 1) and all(m.endswith('.set_result(None)') for m in mid),
             'Server.close latch: %r %r' % (cond, eff))
    checked.append(rel + ':Server.close')
    # wait_closed(): refuse when not started; await the latch, then the asyncio server, then -- reading the
    # handlers collection only now -- asyncio.wait over one task per handler.wait_closed(), unless there is none
    ps = paths_of(tree, 'Server', 'wait_closed', roles)
    bad = [p for p in ps if raises(p[2])]
    good = [p for p in ps if not raises(p[2])]
    need(bad and good and all(p[2][1] == "RuntimeError('Server is not started')" and not p[1] for p in bad),
         'Server.wait_closed when not started')
    waited = False
    for cond, eff, o in good:
        aw = [k for k, t in enumerate(eff) if 'await ' in t]
        need(len(aw) in (2, 3) and eff[aw[1]].endswith('.wait_closed()') and 'asyncio.wait' not in eff[aw[0]] + eff[aw[1]],
             'Server.wait_closed awaits: %r' % (eff,))
        first_read = min([k for k, t in enumerate(eff) if 'self.A0' in t] or [len(eff)])
        need(first_read > aw[1], 'Server.wait_closed reads the handlers before the asyncio server is closed: %r' % (eff,))
        if len(aw) == 3:
            need('asyncio.wait(' in eff[aw[2]] and aw[2] == len(eff) - 1, 'Server.wait_closed last await: %r' % (eff,))
            text = ' '.join(eff[aw[1]:])
            need('.wait_closed())' in text and 'create_task(' in text and 'self.A0' in text,
                 'Server.wait_closed: one task per handler.wait_closed() of the collection: %r' % text)
            waited = True
        else:
            need(any(not v and not a.endswith(' is None') for a, v in cond.items()),
                 'Server.wait_closed skips the handlers unconditionally: %r' % (cond,))
    need(waited, 'Server.wait_closed never waits for the handlers')
    checked.append(rel + ':Server.wait_closed')


def private_closure(tree, fn):
    """fn and the module-level private functions it reaches through calls (extract-function is invisible)"""
    functions = {d.name: d for d in tree.body if isinstance(d, (ast.FunctionDef, ast.AsyncFunctionDef))}
    seen, todo = [], [fn]
    while todo:
        f = todo.pop()
        if f in seen:
            continue
        seen.append(f)
        for c in ast.walk(f):
            if isinstance(c, ast.Call) and isinstance(c.func, ast.Name) and c.func.id.startswith('_') \
                    and c.func.id in functions:
                todo.append(functions[c.func.id])
    return seen


def check_request_handler(tree, checked):
    fn = func_node(tree, 'request_handler')
    body = clean_body(fn.body)
    need(len(body) == 1 and isinstance(body[0], ast.Try), 'request_handler is one try statement')
    t = body[0]
    fin = clean_body(t.finalbody)
    need(len(fin) == 1 and isinstance(fin[0], ast.Expr) and isinstance(fin[0].value, ast.Call)
         and isinstance(fin[0].value.func, ast.Name) and not fin[0].value.args, 'request_handler finally: release_stream()')
    rel_name = fin[0].value.func.id
    need(rel_name in [a.arg for a in fn.args.args], 'the finally clause calls the release callback parameter')
    swallow = ('BaseException', 'asyncio.CancelledError', 'CancelledError')
    for h in t.handlers:
        need(h.type is not None and ast.unparse(h.type) not in swallow,
             'request_handler outer handlers must let CancelledError through')
    # the user function is awaited inside `with <deadline ctx>, <W>` -- in request_handler itself or in a
    # private function it calls; on every path W is a fresh Wrapper or DeadlineWrapper that was stored on the
    # protocol stream (`<stream>.wrapper = W`) before the with-block -- wherever that is written (in place, in
    # both branches, after them, in a private helper)
    found = []
    for f in private_closure(tree, fn):
        for w in ast.walk(f):
            if isinstance(w, ast.With) and any(
                    isinstance(s, ast.Expr) and isinstance(s.value, ast.Await) and isinstance(s.value.value, ast.Call)
                    and isinstance(s.value.value.func, ast.Name) and not s.value.value.func.id.startswith('_')
                    and len(s.value.value.args) == 1 for s in clean_body(w.body)[-1:]) \
                    and len(w.items) >= 1 and all(isinstance(i.context_expr, ast.Name) for i in w.items) \
                    and any('recv_request' in ast.unparse(x) for x in w.body):
                found.append((f, w))
    need(len(found) == 1, 'one with-block around the user function (found %d)' % len(found))
    f, w = found[0]
    wname = w.items[-1].context_expr.id
    # every try statement around that with-block (in its function) lets CancelledError through; the innermost
    # one tells where the preparation ends
    tries = [c for c in ast.walk(f) if isinstance(c, ast.Try) and any(x is w for x in ast.walk(c))
             and any(x is w for b in [c.body] for y in b for x in ast.walk(y))]
    for c in tries:
        for h in c.handlers:
            need(h.type is not None and ast.unparse(h.type) not in swallow, 'a handler around the user function swallows CancelledError')
    inner = [c for c in tries if not any(d is not c and any(x is d for x in ast.walk(c)) for d in tries)]
    anchor = inner[0] if inner else w
    holder = None
    for n in ast.walk(f):
        for fld, val in ast.iter_fields(n):
            if isinstance(val, list) and any(c is anchor for c in val):
                holder = (val, [k for k, c in enumerate(val) if c is anchor][0])
    need(holder is not None, 'the block holding the with-block')
    pre = clean_body(holder[0][:holder[1]])
    ctx = Ctx(tree, None, {})
    paths = run(ctx, pre, [Path()])
    need(paths, 'no path reaches the with-block')
    for p in paths:
        need(p.out is None, 'the statements before the with-block return or raise: %r' % (p.trace,))
        val = p.env.get(wname)
        need(isinstance(val, ast.Name), 'the entered wrapper %s is not a fresh object: %r' % (wname, p.trace))
        made = [e for e in p.trace if e.startswith(val.id + ' = ')]
        need(len(made) == 1 and made[0].split(' = ', 1)[1] in ('Wrapper()', 'DeadlineWrapper()'),
             'the entered wrapper is a Wrapper() or a DeadlineWrapper(): %r' % (made,))
        need(any(e.endswith('.wrapper := ' + val.id) for e in p.trace),
             'the entered wrapper is not stored on the protocol stream on this path: %r' % (p.trace,))
    kinds = {e.split(' = ', 1)[1] for p in paths for e in p.trace if e.startswith(p.env[wname].id + ' = ')}
    need(kinds == {'Wrapper()', 'DeadlineWrapper()'}, 'both kinds of wrapper: %r' % kinds)
    checked.append('grpclib/server.py:request_handler')


def returned_callable(tree, cls_name, fn):
    """the function a method returns as a callback, with the arguments already bound: a nested def (keyword
    defaults are bound values), functools.partial(f, a, b..) of a nested def / method / module function, or a
    bound method -> (FunctionDef, {parameter: bound expression})"""
    rets = [r.value for r in ast.walk(fn) if isinstance(r, ast.Return) and r.value is not None
            and not any(r in ast.walk(d) for d in fn.body if isinstance(d, (ast.FunctionDef, ast.AsyncFunctionDef)))]
    need(len(rets) == 1, '%s returns one callback' % fn.name)
    val, args, kwargs = rets[0], [], {}
    if isinstance(val, ast.Call) and ast.unparse(val.func) in ('partial', 'functools.partial') and val.args:
        args, kwargs = list(val.args[1:]), {k.arg: k.value for k in val.keywords}
        val = val.args[0]
    nested = {d.name: d for d in fn.body if isinstance(d, (ast.FunctionDef, ast.AsyncFunctionDef))}
    cls = class_node(tree, cls_name)
    methods = {d.name: d for d in cls.body if isinstance(d, (ast.FunctionDef, ast.AsyncFunctionDef))}
    functions = {d.name: d for d in tree.body if isinstance(d, (ast.FunctionDef, ast.AsyncFunctionDef))}
    if isinstance(val, ast.Name) and val.id in nested:
        target, params = nested[val.id], [a.arg for a in nested[val.id].args.args]
    elif isinstance(val, ast.Attribute) and isinstance(val.value, ast.Name) and val.value.id == 'self' and val.attr in methods:
        target, params = methods[val.attr], [a.arg for a in methods[val.attr].args.args][1:]
    elif isinstance(val, ast.Name) and val.id in functions:
        target, params = functions[val.id], [a.arg for a in functions[val.id].args.args]
    else:
        raise Unsupported('C09 facts: callback returned by %s: %s' % (fn.name, ast.unparse(val)[:80]))
    bound = dict(zip(params, args))
    bound.update(kwargs)
    a = target.args
    for p, d in zip([x.arg for x in a.args][len(a.args) - len(a.defaults):], a.defaults):
        bound.setdefault(p, d)
    for p, d in zip([x.arg for x in a.kwonlyargs], a.kw_defaults):
        if d is not None:
            bound.setdefault(p, d)
    return target, bound


def check_reset_and_release(tree, checked):
    ps = paths_of(tree, 'EventsProcessor', 'process_stream_reset', {})
    known = [p for p in ps if any('.__terminated__(' in e for e in p[1])]
    unknown = [p for p in ps if p not in known]
    need(known and unknown, 'process_stream_reset cases')
    for cond, eff, o in known:
        i = [k for k, e in enumerate(eff) if '.__terminated__(' in e]
        j = [k for k, e in enumerate(eff) if e.startswith('self.handler.cancel(')]
        need(len(i) == 1 and len(j) == 1 and i[0] < j[0] and not raises(o),
             'process_stream_reset: __terminated__ THEN handler.cancel: %r' % (eff,))
        need(any(a.endswith(' is None') and not v for a, v in cond.items()), 'process_stream_reset guard: %r' % (cond,))
    for cond, eff, o in unknown:
        need(not any('cancel' in e for e in eff) and not raises(o) and
             any(a.endswith(' is None') and v for a, v in cond.items()), 'process_stream_reset, unknown stream: %r' % (eff,))
    need(len({tuple(e for e in eff if 'streams_failed' in e) for _, eff, _ in ps}) == 1, 'streams_failed on every path')
    reg = func_node(tree, 'register', 'EventsProcessor')
    fn, bound = returned_callable(tree, 'EventsProcessor', reg)
    ps = paths_of(tree, 'EventsProcessor', None, {}, fn=fn, bound=bound)
    need(ps and all(any('.pop(' in e and e.endswith(', None)') for e in eff) for _, eff, _ in ps),
         'release pops the stream with a default')
    gone = [p for p in ps if any(a.endswith(' is None') and v for a, v in p[0].items())]
    need(gone and all(len(eff) == 1 for _, eff, _ in gone), 'release is idempotent (nothing happens the second time)')
    checked += ['grpclib/protocol.py:EventsProcessor.process_stream_reset',
                'grpclib/protocol.py:EventsProcessor.register.<release callback>']


def check_wrapper_exit(tree, checked, roles):
    ps = paths_of(tree, 'Wrapper', '__exit__', roles)       # A0 = the task set, A1 = the error
    need(len(ps) == 2, 'Wrapper.__exit__ cases')
    for cond, eff, o in ps:
        need(any('self.A0.discard(' in e for e in eff), 'Wrapper.__exit__ leaves the task set: %r' % (eff,))
        if cond.get('self.A1 is None') is False:
            need('self.cancel_failed := p1 is not asyncio.CancelledError' in eff and raises(o, 'self.A1'),
                 'Wrapper.__exit__ with an error: %r' % (eff,))
        else:
            need(o is None and not any('cancel_failed' in e for e in eff), 'Wrapper.__exit__ without an error: %r' % (eff,))
    checked.append('grpclib/utils.py:Wrapper.__exit__')


def gc_interval(tree, cls):
    for s in class_node(tree, cls).body:
        if isinstance(s, (ast.Assign, ast.AnnAssign)):
            tg = s.targets[0] if isinstance(s, ast.Assign) else s.target
            if isinstance(tg, ast.Name) and tg.id == '__gc_interval__' and s.value is not None:
                v = ceval(s.value, {})
                need(isinstance(v, int) and 1 <= v <= 1000, '%s.__gc_interval__ = %r' % (cls, v))
                return v
    raise Unsupported('C09 facts: %s.__gc_interval__ not found' % cls)


def generate(repo):
    checked = []
    srv = parse(repo, 'grpclib/server.py')
    pro = parse(repo, 'grpclib/protocol.py')
    utl = parse(repo, 'grpclib/utils.py')
    check_table(srv, 'grpclib/server.py', 'Handler', HANDLER, checked)
    check_table(srv, 'grpclib/server.py', '_GC', GC, checked)
    check_server(srv, checked)
    check_request_handler(srv, checked)
    check_table(pro, 'grpclib/protocol.py', 'Stream', STREAM, checked)
    check_table(pro, 'grpclib/protocol.py', 'EventsProcessor', PROCESSOR, checked)
    check_reset_and_release(pro, checked)
    wroles = check_table(utl, 'grpclib/utils.py', 'Wrapper', WRAPPER, checked)
    check_wrapper_exit(utl, checked, wroles)
    hi, si = gc_interval(srv, 'Handler'), gc_interval(srv, 'Server')
    out = ['(* GENERATED by tools/facts_C09.py from the current source -- do not edit. *)',
           '(* meaning of these functions checked (fail-closed, normal forms -- see the translator): *)']
    out += ['(*   %s *)' % c for c in sorted(checked)]
    out += ['Definition handler_gc_interval : nat := %d.   (* Handler.__gc_interval__ *)' % hi,
            'Definition server_gc_interval : nat := %d.    (* Server.__gc_interval__ *)' % si, '']
    return '\n'.join(out)


if __name__ == '__main__':
    import os
    import sys
    if len(sys.argv) > 1 and sys.argv[1] == '--show':
        repo = os.environ.get('VERIF_REPO', '/repo')
        for rel, cls, names in [('grpclib/server.py', 'Handler', [n for n, _, _ in HANDLER]),
                                ('grpclib/server.py', '_GC', ['__gc_step__']),
                                ('grpclib/server.py', 'Server', ['__gc_collect__', '_protocol_factory', 'close', 'wait_closed']),
                                ('grpclib/protocol.py', 'Stream', ['__terminated__']),
                                ('grpclib/protocol.py', 'EventsProcessor', ['close', 'process_stream_reset']),
                                ('grpclib/utils.py', 'Wrapper', ['cancel', '__enter__', '__exit__'])]:
            tree = parse(repo, rel)
            roles = {}
            for n in names:
                print(cls, n)
                for ln in normal_form(tree, cls, n, roles, unordered=(n == 'close' and cls == 'Handler')):
                    print('    ', ln)
            print('   roles', roles)
    else:
        print(generate(os.environ.get('VERIF_REPO', '/repo')))
