(* Strings of the models are lists of code points / byte values in Z.  Helpers only. *)
From Coq Require Import ZArith List String Ascii Bool.
Import ListNotations.
Open Scope Z_scope.

Definition s2z (s : string) : list Z :=
  map (fun a => Z.of_N (N_of_ascii a)) (list_ascii_of_string s).

Fixpoint zlist_eqb (a b : list Z) : bool :=
  match a, b with
  | [], [] => true
  | x :: a', y :: b' => (x =? y) && zlist_eqb a' b'
  | _, _ => false
  end.

Fixpoint starts_with (p s : list Z) : bool :=
  match p, s with
  | [], _ => true
  | x :: p', y :: s' => (x =? y) && starts_with p' s'
  | _ :: _, [] => false
  end.

Definition ends_with (p s : list Z) : bool := starts_with (rev p) (rev s).

Definition mem_str (k : list Z) (l : list (list Z)) : bool := existsb (zlist_eqb k) l.

Definition in_range (lo hi c : Z) : bool := (lo <=? c) && (c <=? hi).

Definition is_byte (c : Z) : bool := in_range 0 255 c.
Definition bytes_ok (l : list Z) : bool := forallb is_byte l.

Fixpoint assoc_str {A} (k : list Z) (l : list (list Z * A)) : option A :=
  match l with
  | [] => None
  | (k', v) :: r => if zlist_eqb k k' then Some v else assoc_str k r
  end.
