(* Reflective finite closure for a nondeterministic transition system `step : St -> Op -> list St`:
   if a finite table of states contains the initial state, is closed under every operation of a
   finite list (all successors), and satisfies a boolean predicate everywhere, then the predicate
   holds in EVERY reachable state -- after histories of any length, with any resolution of the
   nondeterminism.  Proved once by induction over reachability; table and checks by vm_compute. *)
From Coq Require Import List Bool PArith FMapPositive.
Import ListNotations.
Module PM := PositiveMap.

Section Reach.
  Variables (St Op : Type).
  Variable key : St -> positive.
  Variable eqb : St -> St -> bool.
  Hypothesis eqb_eq : forall a b, eqb a b = true -> a = b.
  Variable step : St -> Op -> list St.
  Variable ops : list Op.
  Variable P : St -> bool.
  Variable init : St.

  Inductive reach : St -> Prop :=
  | reach_init : reach init
  | reach_step s o s' : reach s -> In o ops -> In s' (step s o) -> reach s'.

  Definition table := PM.t (list St).

  Definition mem (m : table) (s : St) : bool :=
    match PM.find (key s) m with Some l => existsb (eqb s) l | None => false end.

  Definition add (m : table) (s : St) : table :=
    PM.add (key s) (s :: match PM.find (key s) m with Some l => l | None => [] end) m.

  Definition states (m : table) : list St := flat_map snd (PM.elements m).

  Definition closed (m : table) : bool :=
    forallb (fun s => forallb (fun o => forallb (mem m) (step s o)) ops) (states m).

  Definition allP (m : table) : bool := forallb P (states m).

  (* worklist exploration; its result is only ever *checked*, never trusted *)
  Fixpoint bfs (fuel : nat) (work : list St) (m : table) : table * bool :=
    match fuel with
    | O => (m, match work with [] => true | _ => false end)
    | S f =>
      match work with
      | [] => (m, true)
      | s :: w =>
        let '(w', m') :=
          fold_left (fun (acc : list St * table) s' =>
                       let '(w, m) := acc in
                       if mem m s' then (w, m) else (s' :: w, add m s'))
                    (flat_map (step s) ops) (w, m) in
        bfs f w' m'
      end
    end.

  Definition closure (fuel : nat) : table * bool :=
    bfs fuel [init] (add (PM.empty _) init).

  Lemma mem_In m s : mem m s = true -> In s (states m).
  Proof.
    unfold mem, states. destruct (PM.find (key s) m) as [l|] eqn:E; [|discriminate].
    intro H. apply existsb_exists in H. destruct H as [x [Hx Hs]].
    apply eqb_eq in Hs. subst x.
    apply in_flat_map. exists (key s, l). split.
    - apply PM.elements_correct. exact E.
    - exact Hx.
  Qed.

  Theorem closure_sound m :
    mem m init = true -> closed m = true -> allP m = true ->
    forall s, reach s -> P s = true.
  Proof.
    intros Hinit Hclosed HP.
    assert (Hinv : forall s, reach s -> In s (states m)).
    { induction 1 as [|s o s' _ IH Ho Hs'].
      - apply mem_In; exact Hinit.
      - apply mem_In.
        unfold closed in Hclosed. rewrite forallb_forall in Hclosed.
        specialize (Hclosed s IH). rewrite forallb_forall in Hclosed.
        specialize (Hclosed o Ho). rewrite forallb_forall in Hclosed. apply Hclosed. exact Hs'. }
    intros s Hs. unfold allP in HP. rewrite forallb_forall in HP. apply HP. apply Hinv. exact Hs.
  Qed.
End Reach.
