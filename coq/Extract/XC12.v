(* Extraction of the C12 model for the correspondence check (ExtrOcamlBasic only). *)
From Coq Require Import ZArith List ExtrOcamlBasic.
From Coq Require Extraction.
From GV Require Import Model.Dispatch.
Extraction Language OCaml.
Definition force_types : Z * N * nat := (Z.of_N (N.of_nat (Z.to_nat 0%Z)), 0%N, 0%nat).
Extraction "../build/ml/mC12.ml" force_types data_received step run init inv_b event_wf
  shut_down close_conn closable.
