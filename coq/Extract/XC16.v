(* Extraction of the C16 model for the correspondence check (ExtrOcamlBasic only). *)
From Coq Require Import ZArith List ExtrOcamlBasic.
From Coq Require Extraction.
From GV Require Import Model.Channel.
Extraction Language OCaml.
Definition force_types : Z * N * nat := (Z.of_N (N.of_nat (Z.to_nat 0%Z)), 0%N, 0%nat).
Extraction "../build/ml/mC16.ml" force_types init step run batches attempting attempts_in_flight
  live_connections connected enabled.
