(* Extraction of the C06 model (the interpreter AND the generated programs) for the correspondence. *)
From Coq Require Import ZArith List ExtrOcamlBasic.
From Coq Require Extraction.
From GV Require Import Model.StreamIR Model.StreamSem Gen.StreamOps.
Extraction Language OCaml.
Definition force_types : Z * N * nat := (Z.of_N (N.of_nat (Z.to_nat 0%Z)), 0%N, 0%nat).
Extraction "../build/ml/mC06.ml" force_types gstep init good client_ops server_ops gstate_eqb.
