(* Extraction of the C01 models for the correspondence check (ExtrOcamlBasic only). *)
From Coq Require Import ZArith List ExtrOcamlBasic.
From Coq Require Extraction.
From GV Require Import Model.Framing Model.RecvBuffer Model.SendChunk.
Extraction Language OCaml.
Definition force_types : Z * N * nat := (Z.of_N (N.of_nat (Z.to_nat 0%Z)), 0%N, 0%nat).
Extraction "../build/ml/mC01.ml" force_types frame send_frame parse_frames
  buf_init add eof read_start read_resume recv_step send_sizes send_loop.
