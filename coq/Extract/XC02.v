(* Extraction of the C02 models for the correspondence check (ExtrOcamlBasic only). *)
From Coq Require Import ZArith List ExtrOcamlBasic.
From Coq Require Extraction.
From GV Require Import Model.Base64 Model.Metadata Model.PyInt Model.ClientCall.
Extraction Language OCaml.
Definition force_types : Z * N * nat := (Z.of_N (N.of_nat (Z.to_nat 0%Z)), 0%N, 0%nat).
Extraction "../build/ml/mC02.ml" force_types py_int grpc_status_of_value grpc_status_val
  content_type_class http_status_error details_of decode_metadata dict_get K_GM
  alpha outcome observe spec_allows defect d2c d2d d2g.
