(* Extraction of the C11 model for the correspondence check (ExtrOcamlBasic only). *)
From Coq Require Import ZArith List ExtrOcamlBasic.
From Coq Require Extraction.
From GV Require Import Model.Mux.
Extraction Language OCaml.
Definition force_types : Z * N * nat := (Z.of_N (N.of_nat (Z.to_nat 0%Z)), 0%N, 0%nat).
Extraction "../build/ml/mC11.ml" force_types init step_r step run run_batch run_batches project solo
  strip relevant addressed addr fatal sender_wake frames_of recv_ready lookup.
