(* Extraction of the C07 model for the correspondence check (ExtrOcamlBasic only). *)
From Coq Require Import ZArith List ExtrOcamlBasic.
From Coq Require Extraction.
From GV Require Import Model.FlowSend.
Extraction Language OCaml.
Definition force_types : Z * N * nat := (Z.of_N (N.of_nat (Z.to_nat 0%Z)), 0%N, 0%nat).
Extraction "../build/ml/mC07.ml" force_types init step run fifo_result quiescent local_window cinit cstep crun cfifo.
