(* Extraction of the C08 model for the correspondence check (ExtrOcamlBasic only). *)
From Coq Require Import ZArith List ExtrOcamlBasic.
From Coq Require Extraction.
From GV Require Import Model.RecvLedger.
Extraction Language OCaml.
Definition force_types : Z * N * nat := (Z.of_N (N.of_nat (Z.to_nat 0%Z)), 0%N, 0%nat).
Extraction "../build/ml/mC08.ml" force_types trace init received credited dropped held
  received_conn credited_conn dropped_conn held_conn forfeited forfeited_conn queued lookup lookup_live legal
  configure connection_made advertised_conn advertised_stream.
