(* Extraction of the C13 models for the correspondence check (ExtrOcamlBasic only). *)
From Coq Require Import ZArith List ExtrOcamlBasic.
From Coq Require Extraction.
From GV Require Import Model.Base64 Model.Metadata.
Extraction Language OCaml.
Definition force_types : Z * N * nat := (Z.of_N (N.of_nat (Z.to_nat 0%Z)), 0%N, 0%nat).
Extraction "../build/ml/mC13.ml" force_types encode_bin_value decode_bin_value b64encode b64decode
  encode_metadata decode_metadata md_valid md_typed wire_safe reserved.
