(* Extraction of the C03 model for the correspondence check (ExtrOcamlBasic only). *)
From Coq Require Import ZArith List ExtrOcamlBasic.
From Coq Require Extraction.
From GV Require Import Gen.FactsC03 Model.ServerCall.
Extraction Language OCaml.
Definition force_types : Z * N * nat := (Z.of_N (N.of_nat (Z.to_nat 0%Z)), 0%N, 0%nat).
Extraction "../build/ml/mC03.ml" force_types run_call render validate accepted well_formed final_status
  count_data exit_exn content_type_ok timeout_class.
