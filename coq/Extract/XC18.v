(* Extraction of the C18 model for the correspondence check (ExtrOcamlBasic only). *)
From Coq Require Import ZArith List ExtrOcamlBasic.
From Coq Require Extraction.
From GV Require Import Model.Events.
Extraction Language OCaml.
Definition force_types : Z * N * nat := (Z.of_N (N.of_nat (Z.to_nat 0%Z)), 0%N, 0%nat).
Extraction "../build/ml/mC18.ml" force_types obj_for add_listener call_hook dispatch sites_all_ok
  side_hooks find_class field_kind l_stops.
