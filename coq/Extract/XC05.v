(* Extraction of the C05 models (client deadline kernel over the GENERATED programs, server
   deadline model, C15's float model) for the correspondence check (ExtrOcamlBasic only). *)
From Coq Require Import ZArith List ExtrOcamlBasic.
From Coq Require Extraction.
From Flocq Require Import Core IEEE754.BinarySingleNaN IEEE754.Binary IEEE754.Bits.
From GV Require Import Gen.Facts Gen.FactsC05 Gen.StreamOps Model.StreamIR Model.StreamSem Model.Timeout
     Model.Deadline Model.ServerDeadline.
Extraction Language OCaml.
Definition force_types : Z * N * nat := (Z.of_N (N.of_nat (Z.to_nat 0%Z)), 0%N, 0%nat).
Extraction "../build/ml/mC05.ml" force_types
  client_ops cpath caexit guarded_path path_eqb op_flat_paths aexit_paths
  request_deadline init scenario scenario_ops hdr_string exceeds wire_q
  serve b64_of_bits bits_of_b64 decode_timeout.
