(* Extraction of the C09 model for the correspondence check (ExtrOcamlBasic only). *)
From Coq Require Import ZArith List ExtrOcamlBasic.
From Coq Require Extraction.
From GV Require Import Model.ServerLife.
Extraction Language OCaml.
Definition force_types : Z * N * nat := (Z.of_N (N.of_nat (Z.to_nat 0%Z)), 0%N, 0%nat).
Extraction "../build/ml/mC09.ml" force_types init step settle hstep pair_lands exit_handler
  find_task unfinished wrun.
