(* Extraction of the C19 model for the correspondence check (ExtrOcamlBasic only). *)
From Coq Require Import ZArith List ExtrOcamlBasic.
From Coq Require Extraction.
From GV Require Import Model.Health.
Extraction Language OCaml.
Definition force_types : Z * N * nat := (Z.of_N (N.of_nat (Z.to_nat 0%Z)), 0%N, 0%nat).
Extraction "../build/ml/mC19.ml" force_types agg_status resp_code st_of_code st_code health_init lookup
  check_rpc winit run_cmd quiescent reset_slot run_timed invocations pinit pstep psettle live_pollers.
