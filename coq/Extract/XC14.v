(* Extraction of the C14 models for the correspondence check (ExtrOcamlBasic only). *)
From Coq Require Import ZArith List ExtrOcamlBasic.
From Coq Require Extraction.
From GV Require Import Model.Base64 Model.Metadata Model.Utf8 Model.Percent Model.StatusWire.
Extraction Language OCaml.
Definition force_types : Z * N * nat := (Z.of_N (N.of_nat (Z.to_nat 0%Z)), 0%N, 0%nat).
Extraction "../build/ml/mC14.ml" force_types utf8_encode utf8_decode_replace unquote_impl
  encode_grpc_message decode_grpc_message well_escaped printable scalars_ok
  decimal py_int status_trailers process_grpc_status client_receive raises_grpc_error
  encode_bin_value decode_bin_value.
