(* Extraction of the C15 model for the correspondence check (ExtrOcamlBasic only). *)
From Coq Require Import ZArith List ExtrOcamlBasic.
From Coq Require Extraction.
From Flocq Require Import Core IEEE754.BinarySingleNaN IEEE754.Binary IEEE754.Bits.
From GV Require Import Gen.Facts Model.Timeout.
Extraction Language OCaml.
Definition force_types : Z * N * nat := (Z.of_N (N.of_nat (Z.to_nat 0%Z)), 0%N, 0%nat).
Extraction "../build/ml/mC15.ml" force_types encode_timeout decode_timeout wire_q
  from_headers from_headers_timeout pow10neg_float b64_of_bits bits_of_b64 units unit_chars.
