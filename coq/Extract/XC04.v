(* Extraction of the C04 model (kernel, termination layer, scenario interpreter AND the generated
   client operations) for the correspondence check (ExtrOcamlBasic only). *)
From Coq Require Import ZArith List ExtrOcamlBasic.
From Coq Require Extraction.
From GV Require Import Model.StreamIR Model.StreamSem Model.GuardKernel Model.Termination Gen.StreamOps.
Extraction Language OCaml.
Definition force_types : Z * N * nat := (Z.of_N (N.of_nat (Z.to_nat 0%Z)), 0%N, 0%nat).
Extraction "../build/ml/mC04.ml" force_types predict predict_multi client_ops call_paths well_guarded first_enter.
