(* Extraction of the C17 model for the correspondence check (ExtrOcamlBasic only). *)
From Coq Require Import ZArith List ExtrOcamlBasic.
From Coq Require Extraction.
From GV Require Import Model.Keepalive.
Extraction Language OCaml.
Definition force_types : Z * N * nat := (Z.of_N (N.of_nat (Z.to_nat 0%Z)), 0%N, 0%nat).
Extraction "../build/ml/mC17.ml" force_types init step trace run need_ping cfg_okb
  field_accepts default_cfg n_time n_timeout n_permit n_maxp n_minint.
