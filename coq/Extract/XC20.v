(* Extraction of the C20 model for the correspondence check (ExtrOcamlBasic only). *)
From Coq Require Import ZArith List ExtrOcamlBasic.
From Coq Require Extraction.
From GV Require Import Model.Plugin.
Extraction Language OCaml.
Definition force_types : Z * N * nat := (Z.of_N (N.of_nat (Z.to_nat 0%Z)), 0%N, 0%nat).
Extraction "../build/ml/mC20.ml" force_types main exec_module pb2_module_name grpc_module_name
  out_file_name strip_proto types_entries lookup_last route cardinality_of method_cls
  class_cardinality member_flags mangle py_ident.
