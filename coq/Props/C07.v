(* C07 -- Senders respect peer flow control and always resume when credit returns.
   Model: Model/FlowSend.v (N concurrent Stream.send_data loops, h2's outbound accounting, the
   write_ready / window_updated Events, the wake-ups of EventsProcessor).  Every theorem quantifies
   over ALL configurations (number of senders, message lengths, stream windows, connection window,
   max frame size) and over ALL finite interleavings of peer actions with sender steps (`ops`);
   `reachable cfg cw iw mf s` = s is the state after some op list from `init cfg cw iw mf`, with
   message lengths >= 0 and max frame >= 1.  This file holds only the property theorems; each is
   closed by `exact` of a lemma of Proofs/C07Proofs.v and followed by Print Assumptions. *)
From Coq Require Import String ZArith List Bool.
From GV Require Import Lib.Str Gen.FactsC07 Model.FlowSend Proofs.C07Proofs Proofs.C07Examples.
Import ListNotations.
Open Scope Z_scope.

(* (1) safety: whatever is emitted is emitted by the sender that was run, at its current position,
   and does not exceed its stream window, the connection window or the max frame size as they are
   at that moment; an empty frame only for an empty message *)
Theorem C07_never_exceeds_window_or_frame :
  forall cfg cw iw mf s o ch,
  reachable cfg cw iw mf s -> In ch (snd (step s o)) ->
  exists x, o = Run (c_sid ch) /\ nth_error (senders s) (c_sid ch) = Some x /\
            s_pc x = CheckWindow /\
            c_off ch = s_pos x /\ 0 <= c_len ch /\
            c_len ch <= s_win x /\ c_len ch <= cwin s /\ c_len ch <= mfs s /\
            c_off ch + c_len ch <= s_len x /\ (c_len ch = 0 -> s_len x = 0).
Proof. exact safety. Qed.
Print Assumptions C07_never_exceeds_window_or_frame.

(* (1') h2.send_data never raises FlowControlError / FrameTooLargeError out of send_data *)
Theorem C07_h2_never_refuses_a_send :
  forall cfg cw iw mf s x,
  reachable cfg cw iw mf s -> In x (senders s) -> s_pc x <> Failed.
Proof. exact h2_never_raises. Qed.
Print Assumptions C07_h2_never_refuses_a_send.

(* (1'') a send never overdraws: it lowers a window only within its non-negative part (windows
   become negative through SETTINGS only) ... *)
Theorem C07_send_never_overdraws :
  forall cfg cw iw mf s i j x x',
  reachable cfg cw iw mf s -> nth_error (senders s) j = Some x ->
  nth_error (senders (fst (step s (Run i)))) j = Some x' ->
  (s_win x' = s_win x \/ 0 <= s_win x' < s_win x) /\
  (cwin (fst (step s (Run i))) = cwin s \/ 0 <= cwin (fst (step s (Run i))) < cwin s).
Proof. exact send_respects_windows. Qed.
Print Assumptions C07_send_never_overdraws.

(* ... and the connection window, which SETTINGS does not touch, is never negative *)
Theorem C07_connection_window_never_negative :
  forall cfg cw iw mf s, 0 <= cw -> reachable cfg cw iw mf s -> 0 <= cwin s.
Proof. exact cwin_never_negative. Qed.
Print Assumptions C07_connection_window_never_negative.

(* (2) order: the DATA frames of stream i, in emission order, tile [0, position) with no gap,
   overlap or reordering, whatever pause/resume/credit history; complete when the sender is Done *)
Theorem C07_chunks_in_order :
  forall cfg cw iw mf ops i lw x,
  wf_cfg cfg mf -> nth_error cfg i = Some lw ->
  nth_error (senders (fst (run (init cfg cw iw mf) ops))) i = Some x ->
  s_len x = fst lw /\
  contig 0 (chunks_of i (snd (run (init cfg cw iw mf) ops))) (s_pos x) /\
  s_pos x <= s_len x /\ (s_pc x = Done -> s_pos x = s_len x).
Proof. exact chunks_in_order. Qed.
Print Assumptions C07_chunks_in_order.

(* (2') the same on bytes: what the peer has received on stream i is a prefix of the message, and
   the whole message once send_data has returned *)
Theorem C07_bytes_in_order :
  forall (data : list Z) cfg cw iw mf ops i lw x,
  wf_cfg cfg mf -> nth_error cfg i = Some lw -> Z.of_nat (length data) = fst lw ->
  nth_error (senders (fst (run (init cfg cw iw mf) ops))) i = Some x ->
  let received := concat (map (fun oc => slice data (fst oc) (snd oc))
                              (chunks_of i (snd (run (init cfg cw iw mf) ops)))) in
  received = firstn (Z.to_nat (s_pos x)) data /\ (s_pc x = Done -> received = data).
Proof. exact (@bytes_in_order Z). Qed.
Print Assumptions C07_bytes_in_order.

(* (3) no lost wake-up: a sender suspended on its window_updated event has no credit; a sender
   suspended on write_ready is suspended only while writing is paused *)
Theorem C07_no_lost_wakeup :
  forall cfg cw iw mf s x,
  reachable cfg cw iw mf s -> In x (senders s) ->
  (s_pc x = WaitWindow -> local_window s x <= 0) /\ (s_pc x = WaitWrite -> wready s = false).
Proof. exact no_lost_wakeup_r. Qed.
Print Assumptions C07_no_lost_wakeup.

(* (4) progress: in a quiescent state (no task ready) an unfinished sender is blocked for a reason
   that still holds: writing is paused, or it has no credit *)
Theorem C07_progress :
  forall cfg cw iw mf s x,
  reachable cfg cw iw mf s -> quiescent s = true -> In x (senders s) -> s_pc x <> Done ->
  (s_pc x = WaitWrite /\ wready s = false) \/ (s_pc x = WaitWindow /\ local_window s x <= 0).
Proof. exact progress_r. Qed.
Print Assumptions C07_progress.

(* (5a) credit returning by ANY means (stream update, connection update, larger initial window --
   the statement does not care how the state was reached) leaves the sender ready to run *)
Theorem C07_credit_wakes :
  forall cfg cw iw mf s x,
  reachable cfg cw iw mf s -> In x (senders s) -> s_pc x <> Done ->
  wready s = true -> 0 < local_window s x -> ready_pc (s_pc x) = true.
Proof. exact credit_wakes_r. Qed.
Print Assumptions C07_credit_wakes.

(* (5b) once sender i is granted credit with writing resumed, EVERY schedule of the senders that
   reaches quiescence has made progress: the bytes still to send (over all senders) decreased *)
Theorem C07_grant_makes_progress :
  forall cfg cw iw mf s i runs,
  reachable cfg cw iw mf s -> granted s i -> forallb is_run runs = true ->
  quiescent (fst (run s runs)) = true -> total (fst (run s runs)) < total s.
Proof. exact round_progress_r. Qed.
Print Assumptions C07_grant_makes_progress.

(* (5c) hence sender i can be found unfinished at a grant at most `total s` times: repeated grants
   finish it (arbitrary other peer actions, pauses and schedules in between) *)
Theorem C07_repeated_grants_finish :
  forall cfg cw iw mf s i n s',
  reachable cfg cw iw mf s -> rounds i n s s' -> Z.of_nat n <= total s.
Proof. exact rounds_bounded_r. Qed.
Print Assumptions C07_repeated_grants_finish.

(* (5d) with ample credit (every stream window covers its message, the connection window covers
   all of them, writing resumed) every sender completes in one run to quiescence, any schedule *)
Theorem C07_ample_credit_completes_all :
  forall cfg cw iw mf s runs,
  reachable cfg cw iw mf s -> ample s -> forallb is_run runs = true ->
  quiescent (fst (run s runs)) = true ->
  forall x, In x (senders (fst (run s runs))) -> s_pc x = Done.
Proof. exact ample_completes_r. Qed.
Print Assumptions C07_ample_credit_completes_all.

(* (5e) REFUTED as stated in DESIGN section 2 ("i finishes within remaining_i wake-ups"): a grant
   that makes i's window positive can be used up by a competitor that runs first (FIFO = registry
   order); i is woken, finds no credit and waits again.  Not a loss of liveness: (5b)-(5d). *)
Theorem C07_per_sender_bound_refuted :
  granted cx_s 1 /\
  (let r := fifo_result None cx_s in
   quiescent (fst r) = true /\ snd r = [mkChunk 0 0 10] /\
   exists x, nth_error (senders (fst r)) 1 = Some x /\ s_pos x = 0 /\ s_pc x = WaitWindow).
Proof. exact competitor_uses_the_grant. Qed.
Print Assumptions C07_per_sender_bound_refuted.

(* (6) back-pressure: after pause_writing a sender emits at most the one chunk it had already been
   woken for, then suspends *)
Theorem C07_at_most_one_chunk_while_paused :
  forall cfg cw iw mf s i s1 out1 s2 out2,
  reachable cfg cw iw mf s -> wready s = false ->
  step s (Run i) = (s1, out1) -> step s1 (Run i) = (s2, out2) -> out1 = [] \/ out2 = [].
Proof. exact one_chunk_while_paused_r. Qed.
Print Assumptions C07_at_most_one_chunk_while_paused.

(* (7) the deterministic FIFO run to quiescence that the correspondence check executes is one of
   the schedules the theorems above quantify over, and it ends in a quiescent state *)
Theorem C07_fifo_is_a_schedule :
  forall budget s, exists ops, forallb sched_op ops = true /\ run s ops = fifo_result budget s.
Proof. exact fifo_is_schedule. Qed.
Print Assumptions C07_fifo_is_a_schedule.

Theorem C07_fifo_reaches_quiescence :
  forall cfg cw iw mf s budget,
  reachable cfg cw iw mf s -> broken s = false -> quiescent (fst (fifo_result budget s)) = true.
Proof. exact fifo_quiescent_r. Qed.
Print Assumptions C07_fifo_reaches_quiescence.

(* (8) the error branch of the totalised model: a peer action that h2 rejects (zero / overflowing
   increment, MAX_FRAME_SIZE or INITIAL_WINDOW_SIZE out of range) marks the connection broken
   (grpclib closes it), and nothing is sent on a broken connection *)
Theorem C07_invalid_peer_action_breaks :
  forall s, broken s = false ->
  (forall k, (k < 1 \/ max_window < cwin s + k) -> broken (fst (step s (WinConn k))) = true) /\
  (forall m, (m < min_frame \/ max_frame < m) -> broken (fst (step s (SetMaxFrame m))) = true) /\
  (forall v, (v < 0 \/ max_window < v) -> broken (fst (step s (SetInitWin v))) = true) /\
  (forall i x k, nth_error (senders s) i = Some x -> (k < 1 \/ max_window < s_win x + k) ->
                 broken (fst (step s (WinStream i k))) = true).
Proof. exact invalid_peer_action_breaks. Qed.
Print Assumptions C07_invalid_peer_action_breaks.

Theorem C07_broken_is_final :
  forall s o, broken s = true -> step s o = (s, []).
Proof. exact broken_is_final. Qed.
Print Assumptions C07_broken_is_final.

(* (9) tie to the source.  tools/facts_C07.py -> Gen/FactsC07.v (regenerated from /repo on every run):
   the control-flow paths of Stream.send_data, process_window_updated, process_remote_settings_changed
   and the pause/resume/flush plumbing, private helpers inlined, as sequences of effects on objects named
   by role (independent of the names of locals / private attributes / helpers, of if-else versus early
   return, of temporaries).  They are the paths Model/FlowSend.v transcribes ... *)
Theorem C07_source_paths :
  paths_send_data = P expected_send_data /\
  paths_process_window_updated = P expected_window_updated /\
  paths_process_remote_settings_changed = P expected_settings_changed /\
  paths_connection_pause_writing = P [["clear:write_ready"; "->exit"]]%string /\
  paths_connection_resume_writing = P expected_resume_writing /\
  paths_connection_flush = P expected_flush /\
  paths_protocol_pause_writing = P [["call:connection.pause_writing"; "->exit"]]%string /\
  paths_protocol_resume_writing = P [["call:connection.resume_writing"; "->exit"]]%string.
Proof. exact source_paths. Qed.
Print Assumptions C07_source_paths.

(* ... and, spelled out as what the proofs need of Stream.send_data: (a) no suspension point between the
   window read and the h2 send + transport write; (b) every h2.send_data is written to the transport at
   once (so no DATA frame of a sender is queued in h2 when resume_writing flushes); (c) the only waits
   are on write_ready at the top of an iteration and on the stream's own window_updated right after
   clear(), and every back edge (of whichever loop) leads to awaiting write_ready and reading the window
   afresh (re-check); (d) the branch is on window > 0 exactly and the chunk is bounded by the window and
   the max frame size read since the last suspension point; and all three kinds of path exist *)
Theorem C07_source_send_data_facts :
  forallb no_await_after_window_read paths_send_data = true /\
  forallb send_written_at_once paths_send_data = true /\
  forallb waits_ok paths_send_data = true /\
  forallb window_branches_ok paths_send_data = true /\
  existsb (has "window<=0") paths_send_data = true /\
  existsb (fun p => has "h2:send_data" p && has "->loop" p) paths_send_data = true /\
  existsb (fun p => has "h2:send_data" p && has "->exit" p) paths_send_data = true.
Proof. exact source_send_data_facts. Qed.
Print Assumptions C07_source_send_data_facts.

(* (e) a window update for stream 0 / an INITIAL_WINDOW_SIZE change sets the event of EVERY registered
   stream, otherwise that of the addressed stream; (f) pause clears write_ready, resume sets it first *)
Theorem C07_source_wakeup_facts : wakeups_ok = true /\ pause_resume_ok = true.
Proof. exact source_wakeup_facts. Qed.
Print Assumptions C07_source_wakeup_facts.

(* (10) the connection around the senders (Model/FlowSend.v, `conn`): the transport's own paused
   state, frames queued in h2 by Stream.reset_nowait() while write_ready is clear, the flush of
   Connection.resume_writing, and the transport pausing AGAIN from inside that flush (ResumeP).
   Every history of the connection is a history of the sender system, so (1)-(8) hold along it *)
Theorem C07_connection_histories_are_sender_histories :
  forall cfg cw iw mf c, creachable cfg cw iw mf c -> reachable cfg cw iw mf (core c).
Proof. exact creachable_core. Qed.
Print Assumptions C07_connection_histories_are_sender_histories.

(* write_ready is set exactly when the transport is not paused -- in particular after a resume that
   re-paused inside its own flush the flag is CLEAR -- and frames stay queued only while paused *)
Theorem C07_write_ready_tracks_transport :
  forall cfg cw iw mf c, creachable cfg cw iw mf c ->
  wready (core c) = negb (tpaused c) /\ (hq c = true -> tpaused c = true).
Proof. exact write_ready_tracks_transport. Qed.
Print Assumptions C07_write_ready_tracks_transport.

(* back-pressure stated on the TRANSPORT's state: while it is paused a sender emits at most the one
   chunk it had already been woken for ... *)
Theorem C07_paused_transport_suspends_sending :
  forall cfg cw iw mf c i s1 out1 s2 out2,
  creachable cfg cw iw mf c -> tpaused c = true ->
  step (core c) (Run i) = (s1, out1) -> step s1 (Run i) = (s2, out2) -> out1 = [] \/ out2 = [].
Proof. exact paused_transport_suspends. Qed.
Print Assumptions C07_paused_transport_suspends_sending.

(* ... and a credit-starved sender that is granted credit while the transport is paused writes
   nothing: it is woken, reaches the loop top and suspends on write_ready *)
Theorem C07_credit_on_paused_transport_writes_nothing :
  forall cfg cw iw mf c i x s1 out1,
  creachable cfg cw iw mf c -> tpaused c = true -> broken (core c) = false ->
  nth_error (senders (core c)) i = Some x -> s_pc x = Top ->
  step (core c) (Run i) = (s1, out1) ->
  out1 = [] /\ nth_error (senders s1) i = Some (with_pc x WaitWrite).
Proof. exact starved_sender_on_paused_transport. Qed.
Print Assumptions C07_credit_on_paused_transport_writes_nothing.

(* the FIFO run on the connection executed by the correspondence is a history of the connection *)
Theorem C07_cfifo_is_a_history :
  forall budget c, WT c -> exists ops, crun c ops = cfifo budget c.
Proof. exact cfifo_is_history. Qed.
Print Assumptions C07_cfifo_is_a_history.
