(* C05 -- deadlines bound every operation on both sides and are reported as such.
   Only the property theorems; each is closed by `exact` of a lemma of Proofs/C05*.v and followed by
   Print Assumptions.

   CLIENT (Model/Deadline.v): one call = {now, phase, deadline, timer, wrapper error, tasks}; a task
   runs a path of actions of a GENERATED client operation (Gen.StreamOps.client_ops, regenerated from
   /repo/grpclib/client.py on every run).  `run ops (init n0 dl)` is the state after the schedule
   `ops` (any list of: __aenter__, spawn an operation, run a ready task, the environment completes
   an await, time passes / a due timer fires, a foreign Wrapper.cancel); `op_ok` only demands that
   spawned paths are guarded -- which theorem C05_generated_paths_guarded shows of every path of
   every generated operation.  Clock: Z ticks of 2^-30 s.
   SERVER (Model/ServerDeadline.v): `serve arrival headers handler` in Python floats (C15's model).
   WIRE: C15's float theorems are reused, hence its four standard-library axioms below. *)
From Coq Require Import ZArith List Bool Reals.
From Flocq Require Import Core IEEE754.BinarySingleNaN IEEE754.Binary IEEE754.Bits.
From GV Require Import Lib.Str Gen.Facts Gen.FactsC05 Gen.StreamOps Model.StreamIR Model.StreamSem Model.Timeout
     Model.Deadline Model.ServerDeadline
     Proofs.C15Proofs Proofs.C05Proofs Proofs.C05WireProofs Proofs.C05ServerProofs.
From GV Require Proofs.C05Examples.     (* non-vacuity examples, re-checked with the theorems *)
Import ListNotations.
Open Scope Z_scope.
Set Printing Width 400.

(* (0) every await of every path (both ways at every `if`) of every generated client operation,
   and of the hand-modelled Stream.__aexit__, happens inside `with self._wrapper` *)
Theorem C05_generated_paths_guarded :
  forallb guarded_path (all_client_paths client_ops) = true /\
  (forall o p, In o client_opnames -> In p (op_flat_paths client_ops o) -> guarded_path p = true) /\
  (forall p fd, In (p, fd) (aexit_paths client_ops) -> guarded_path p = true).
Proof. exact (conj client_paths_guarded (conj client_op_path_guarded client_aexit_path_guarded)). Qed.
Print Assumptions C05_generated_paths_guarded.

(* (0') ... and so is the concrete path of every call, for all values of the 9 state flags, the
   cardinality, the arguments and the environment's answers (finite domain, enumerated completely) *)
Theorem C05_concrete_paths_guarded :
  (forall o cx fl, In o client_opnames -> guarded_path (cpath client_ops o cx fl) = true) /\
  (forall cx fl exc closing, guarded_path (fst (caexit client_ops cx fl exc closing)) = true).
Proof. exact (conj concrete_path_guarded concrete_aexit_guarded). Qed.
Print Assumptions C05_concrete_paths_guarded.

(* (1) A call with deadline D never blocks past it: for ALL schedules (foreign cancels included),
   in every quiescent state (no task ready, no timer due) with clock >= D inside the call context
   every operation of the call is finished -- none is blocked. *)
Theorem C05_client_never_blocks_past_deadline :
  forall n0 dl ops D, forallb op_ok ops = true ->
  let s := run ops (init n0 dl) in
  ph s = Entered -> dl = Some D -> D <= now s -> quiescent s = true ->
  Forall (fun t => is_done t = true) (tasks s).
Proof. exact never_blocks_past_deadline. Qed.
Print Assumptions C05_client_never_blocks_past_deadline.

(* (2) ... no later than the deadline: an operation started by D that has finished, finished at an
   instant <= D, and the clock cannot pass D while such an operation is unfinished. *)
Theorem C05_client_completion_no_later_than_deadline :
  forall n0 dl ops D, forallb op_ok ops = true ->
  let s := run ops (init n0 dl) in
  ph s = Entered -> dl = Some D ->
  forall t, In t (tasks s) -> born t <= D ->
    (forall r a, ts t = Done r a -> a <= D) /\ (D < now s -> is_done t = true).
Proof. exact completion_by_deadline. Qed.
Print Assumptions C05_client_completion_no_later_than_deadline.

(* (3) reported as such, never early: without foreign cancels the timer is the only source of
   TimeoutError -- an operation that ended with it ended at an instant >= D; a task carrying a
   pending cancellation exists only at the instant D itself. *)
Theorem C05_client_timeout_only_from_timer :
  forall n0 dl ops, forallb op_ok ops = true -> forallb no_ext ops = true ->
  let s := run ops (init n0 dl) in
  forall t, In t (tasks s) ->
    (forall a, ts t = Done (RRaise KTimeout) a -> exists D, dl = Some D /\ D <= a) /\
    (ts t = Ready true -> dl = Some (now s) /\ werr s = Some KTimeout) /\
    (forall e, werr s = Some e -> e = KTimeout /\ exists D, dl = Some D /\ D <= now s).
Proof. exact timeout_only_from_timer. Qed.
Print Assumptions C05_client_timeout_only_from_timer.

(* (4) the timer fires at exactly D and wakes every blocked operation ... *)
Theorem C05_client_timer_fires_at_deadline :
  forall n0 dl ops T n, forallb op_ok ops = true ->
  let s := run ops (init n0 dl) in
  timer s = Some T -> any_ready s = false -> T <= n ->
  let s' := step s (OTick n) in
  dl = Some T /\ now s' = T /\ werr s' = Some KTimeout /\ timer s' = None /\
  forall i t, nth_error (tasks s) i = Some t -> ts t = Blocked ->
    exists t', nth_error (tasks s') i = Some t' /\ ts t' = Ready true /\ rest t' = rest t.
Proof. exact timer_fires_at_deadline. Qed.
Print Assumptions C05_client_timer_fires_at_deadline.

(* (4') ... each of which ends with TimeoutError at that very instant (= D) *)
Theorem C05_client_woken_operation_raises_timeout :
  forall n0 dl ops i t, forallb op_ok ops = true -> forallb no_ext ops = true ->
  let s := run ops (init n0 dl) in
  nth_error (tasks s) i = Some t -> ts t = Ready true ->
  dl = Some (now s) /\
  exists t', nth_error (tasks (step s (ORun i))) i = Some t' /\
             ts t' = Done (RRaise KTimeout) (now s).
Proof. exact cancelled_op_raises_timeout. Qed.
Print Assumptions C05_client_woken_operation_raises_timeout.

(* (5) a call without a timeout has no timer in any reachable state: nothing ever interrupts it *)
Theorem C05_client_no_deadline_no_timer :
  forall n0 ops, forallb op_ok ops = true ->
  let s := run ops (init n0 None) in
  timer s = None /\ timer_due s = false /\
  (forallb no_ext ops = true ->
   werr s = None /\
   forall t, In t (tasks s) -> ts t <> Ready true /\ forall a, ts t <> Done (RRaise KTimeout) a).
Proof. exact no_deadline_no_timer. Qed.
Print Assumptions C05_client_no_deadline_no_timer.

(* (6) Channel.request: the earlier of the timeout-derived and the explicit deadline *)
Theorem C05_request_deadline_is_min :
  forall n0 timeout explicit,
  match request_deadline n0 timeout explicit with
  | None => timeout = None /\ explicit = None
  | Some D => (forall t, timeout = Some t -> D <= n0 + t) /\
              (forall d, explicit = Some d -> D <= d) /\
              (timeout = Some (D - n0) \/ explicit = Some D)
  end.
Proof. exact request_deadline_spec. Qed.
Print Assumptions C05_request_deadline_is_min.

(* (7) __aenter__: nothing remaining -> TimeoutError at once (the body never runs, no timer);
   otherwise a timer for exactly D *)
Theorem C05_client_enter :
  (forall n0 D, D <= n0 -> let s := step (init n0 (Some D)) OEnter in
     ph s = EnterFailed /\ werr s = Some KTimeout /\ timer s = None /\ now s = n0) /\
  (forall n0 D, n0 < D -> let s := step (init n0 (Some D)) OEnter in
     ph s = Entered /\ werr s = None /\ timer s = Some D).
Proof. exact (conj enter_expired enter_arms). Qed.
Print Assumptions C05_client_enter.

(* (8) the deterministic FIFO scheduler of the correspondence check produces one of the schedules *)
Theorem C05_scheduler_is_a_schedule :
  forall fuel avail horizon specs s,
  forallb (fun sp => guarded_path (s_path sp)) specs = true ->
  forallb op_ok (play_ops fuel avail horizon specs s) = true.
Proof. exact play_ops_ok. Qed.
Print Assumptions C05_scheduler_is_a_schedule.

(* ---- the value on the wire ------------------------------------------------------------------- *)
(* (9) every HEADERS frame of every schedule carries a grpc-timeout computed at an instant c no
   later than the send instant a from the time r remaining at c; the string is spec-valid and its
   value is at most r, up to the rounding of one float product (C15, class D14: excess < 2^-52 r).
   secs r = r * 2^-30; r < 2^53 ticks (97 days). *)
Theorem C05_wire_value_bound :
  forall n0 dl ops, forallb op_ok ops = true ->
  let s := run ops (init n0 dl) in
  forall a c r, In (a, Some (c, r)) (wire s) -> (r < 2 ^ 53)%Z ->
    exists D str q, dl = Some D /\ c <= a /\ r = Z.max 0 (D - c) /\
      hdr_string r = Ok str /\ in_grammar str /\ wire_q str = Some q /\
      (q2r q <= secs r \/ q2r q - secs r < secs r * bpow radix2 (-52))%R.
Proof. exact wire_value_bound. Qed.
Print Assumptions C05_wire_value_bound.

(* (10) FULL STATEMENT, FALSE OF THE CODE (defect D8, kept as a known finding):
     ... In (a, Some (c, r)) (wire s) -> hdr_string r = Ok str -> wire_q str = Some q ->
         exceeds q (D - a) = false            ("the time remaining when the request is sent")
   Refuted: deadline 10 s; the header is computed at t = 0 ('10000m'); send_request then waits 6 s
   for a stream slot; the HEADERS leave at t = 6 s, 4 s before the deadline, still saying 10 s. *)
Theorem C05_wire_value_at_send_refuted :
  exists ops D,
    forallb op_ok ops = true /\ forallb no_ext ops = true /\
    let s := run ops (init 0 (Some D)) in
    exists a c r str q,
      In (a, Some (c, r)) (wire s) /\ hdr_string r = Ok str /\ wire_q str = Some q /\
      exceeds q (D - a) = true /\
      a = 6 * S30 /\ c = 0 /\ r = 10 * S30 /\ str = [49; 48; 48; 48; 48; 109] /\ q = (10000, 1000).
Proof. exact wire_value_at_send_refuted. Qed.
Print Assumptions C05_wire_value_at_send_refuted.

(* (10') what holds instead: when send_request did not wait after computing the header (c = a),
   the value is bounded by the time remaining when the HEADERS are sent *)
Theorem C05_wire_value_at_send_partial :
  forall n0 dl ops, forallb op_ok ops = true ->
  let s := run ops (init n0 dl) in
  forall a c r, In (a, Some (c, r)) (wire s) -> (r < 2 ^ 53)%Z -> c = a ->
    exists D str q, dl = Some D /\ hdr_string r = Ok str /\ wire_q str = Some q /\
      (q2r q <= secs (Z.max 0 (D - a)) \/
       q2r q - secs (Z.max 0 (D - a)) < secs (Z.max 0 (D - a)) * bpow radix2 (-52))%R.
Proof. exact wire_value_at_send_partial. Qed.
Print Assumptions C05_wire_value_at_send_partial.

(* ---- server ---------------------------------------------------------------------------------- *)
(* (10'') source facts (Gen/FactsC05.v, regenerated from server.py / utils.py on every run): the
   handler runs inside the context of start() FIRST and the wrapper itself SECOND (roles, whatever
   the spelling), and DeadlineWrapper.start with nothing remaining cancels the wrapper with a
   TimeoutError, then raises it.  The model's answer for an expired
   deadline is computed from these facts: with `wrapper` entered first the request task would cancel
   itself and a suspending reply path would lose the answer; without the cancel the answer would be
   UNKNOWN (second and third conjunct: the model is sensitive to both). *)
Theorem C05_server_source_facts :
  (handler_with_order = [CMDeadline; CMWrapper] /\ start_expired = [SA_cancel; SA_raise]) /\
  (forall rs, expired_status rs = StDeadline) /\
  (expired_status_of [CMWrapper; CMDeadline] start_expired true = StNoAnswer /\
   expired_status_of [CMWrapper; CMDeadline] start_expired false = StDeadline /\
   (forall rs, expired_status_of handler_with_order [SA_raise] rs = StUnknown)).
Proof. exact (conj source_order_facts (conj expired_status_deadline expired_status_other_orders)). Qed.
Print Assumptions C05_server_source_facts.

(* (11) a grpc-timeout value outside the grammar in ANY header: UNKNOWN, handler never started *)
Theorem C05_server_invalid_timeout :
  forall a hs h rs, Exists (fun v => ~ in_grammar v) (timeout_values hs) ->
  serve a hs h rs = {| o_status := StUnknown; o_started := false; o_timer := None;
                    o_cancel_at := None; o_end_at := a |}.
Proof. exact serve_invalid. Qed.
Print Assumptions C05_server_invalid_timeout.

(* (12) no grpc-timeout header: no timer, the handler is never interrupted *)
Theorem C05_server_no_header_no_timer :
  forall a hs h rs, timeout_values hs = [] ->
  let o := serve a hs h rs in
  o_timer o = None /\ o_cancel_at o = None /\ o_started o = true /\
  o_status o = final_status h (own_status (h_fin h)) /\ o_end_at o = fadd a (h_dur h).
Proof. exact serve_no_header. Qed.
Print Assumptions C05_server_no_header_no_timer.

(* (13) valid headers (any multiplicity): the SMALLEST value m governs; deadline ts = arrival + m;
   nothing remaining -> DEADLINE_EXCEEDED and the handler never runs; else a timer for
   when = arrival + remaining; a handler finished strictly before `when` is not touched; any other
   sees CancelledError at exactly `when` and the answer is DEADLINE_EXCEEDED whether it honours the
   cancellation or swallows it (and then returns / raises anything) -- unless it had already sent
   its trailers (final_status). *)
Theorem C05_server_deadline :
  forall a hs h rs, timeout_values hs <> [] -> Forall in_grammar (timeout_values hs) ->
  exists m ts,
    from_headers_timeout hs = Ok (Some m) /\
    (exists v, In v (timeout_values hs) /\ decode_timeout v = Ok m) /\
    (forall v x, In v (timeout_values hs) -> decode_timeout v = Ok x -> (Rnum m <= Rnum x)%R) /\
    py_add_float a m = Ok ts /\
    let o := serve a hs h rs in
    match time_remaining ts a with
    | None => o_status o = StDeadline /\ o_started o = false /\ o_timer o = None /\
              o_cancel_at o = None /\ o_end_at o = a
    | Some rem =>
        let when := fadd a rem in
        o_started o = true /\ o_timer o = Some when /\
        (flt (fadd a (h_dur h)) when = true ->
           o_cancel_at o = None /\ o_status o = final_status h (own_status (h_fin h)) /\
           o_end_at o = fadd a (h_dur h)) /\
        (flt (fadd a (h_dur h)) when = false ->
           o_cancel_at o = Some when /\ o_status o = final_status h StDeadline /\
           o_end_at o = match h_cancel h with CHonour => when
                                         | CSwallow extra _ => fadd when extra end)
    end.
Proof. exact serve_deadline. Qed.
Print Assumptions C05_server_deadline.

(* (14) already passed on arrival, WHETHER OR NOT the reply path suspends (rs): a governing value of zero at every (finite, non-negative)
   arrival instant, and any deadline instant not after the arrival instant *)
Theorem C05_server_expired_on_arrival :
  (forall a hs h rs m, fin a = true -> (0 <= R64 a)%R ->
     from_headers_timeout hs = Ok (Some m) -> finnum m = true -> Rnum m = 0%R ->
     serve a hs h rs = {| o_status := StDeadline; o_started := false; o_timer := None;
                       o_cancel_at := None; o_end_at := a |}) /\
  (forall a hs h rs m ts, fin a = true -> fin ts = true -> (0 <= R64 ts <= R64 a)%R ->
     from_headers_timeout hs = Ok (Some m) -> py_add_float a m = Ok ts ->
     serve a hs h rs = {| o_status := StDeadline; o_started := false; o_timer := None;
                       o_cancel_at := None; o_end_at := a |}).
Proof. exact (conj serve_zero_timeout serve_expired). Qed.
Print Assumptions C05_server_expired_on_arrival.

(* (15) reported as such: the handler's own TimeoutError (no cancellation by the deadline) is an
   application error (UNKNOWN), and DEADLINE_EXCEEDED is never answered without a grpc-timeout *)
Theorem C05_server_status_truthful :
  (forall a hs h rs, h_fin h = FRaiseTimeout -> h_trailers_first h = false ->
     let o := serve a hs h rs in o_cancel_at o = None -> o_started o = true -> o_status o = StUnknown) /\
  (forall a hs h rs, o_status (serve a hs h rs) = StDeadline -> timeout_values hs <> []).
Proof. exact (conj serve_own_timeout serve_deadline_status_needs_header). Qed.
Print Assumptions C05_server_status_truthful.
