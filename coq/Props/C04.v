(* C04 -- No client operation outlives its stream or connection.
   Only the property theorems; proofs in Proofs/C04Proofs.v.  The operations are the programs of
   Gen/StreamOps.v (`client_ops`), which tools/skeleton_ir.py re-slices from /repo/grpclib/client.py on
   every run, so every theorem below that mentions `client_ops` is re-checked against the source. *)
From Coq Require Import List Bool Arith ZArith.
From GV Require Import Model.StreamIR Model.StreamSem Model.GuardKernel Model.Termination
  Gen.StreamOps Proofs.C04Proofs.
Import ListNotations.

(* the path computation did not run out of fuel, and the table has the seven public operations *)
Theorem C04_paths_computed :
  call_paths_opt client_ops <> None /\ has_all_ops client_ops = true.
Proof. exact (conj client_paths_computed client_has_all_ops). Qed.
Print Assumptions C04_paths_computed.

(* every await on every syntactic path (both branches of every `if`) of every public client
   operation is inside exactly one `with self._wrapper` *)
Theorem C04_every_client_await_guarded :
  forall o prog ps p, In (o, prog) client_ops -> prog_paths client_ops prog = Some ps ->
                      In p ps -> well_guarded p = true.
Proof. exact every_client_await_guarded. Qed.
Print Assumptions C04_every_client_await_guarded.

(* so is every await of the implicit finish of the context exit *)
Theorem C04_context_exit_awaits_guarded :
  forall ps p, prog_paths client_ops maybe_finish_prog = Some ps -> In p ps ->
               In p (call_paths client_ops) /\ well_guarded p = true.
Proof. exact context_exit_awaits_guarded. Qed.
Print Assumptions C04_context_exit_awaits_guarded.

(* META-THEOREM over all well-guarded paths, all schedules, all decisions of the environment: once
   Wrapper.cancel has run nothing is suspended, every ready task finishes in its next scheduling step
   ("promptly": no further wake-up, no clock), and at quiescence every task is Done -- with an error
   given to Wrapper.cancel if it was blocked at a cancel or started after one and reaches a guard *)
Theorem C04_guarded_ops_complete_after_cancel :
  forall ls, Forall label_ok ls ->
    let s := krun ls kinit in
    werr s <> None ->
    (forall i tk, nth_error (tasks s) i = Some tk -> st tk <> Blocked) /\
    (forall t tk ds, nth_error (tasks s) t = Some tk -> is_ready (st tk) = true ->
       exists tk' r, nth_error (tasks (kstep s (Run t ds))) t = Some tk' /\ st tk' = Done r) /\
    (quiescent s = true ->
       forall i tk, nth_error (tasks s) i = Some tk ->
         exists r, st tk = Done r
           /\ (mark tk = MAtCancel -> wrap_res (errs s) r)
           /\ (mark tk = MAfter -> first_enter (orig tk) = true -> wrap_res (errs s) r)).
Proof. exact guarded_ops_complete_after_cancel. Qed.
Print Assumptions C04_guarded_ops_complete_after_cancel.

(* the guard hypothesis is necessary: an await outside the guard (the old Stream.end()) hangs *)
Theorem C04_unguarded_await_hangs :
  exists ls, let s := krun ls kinit in
    werr s <> None /\ quiescent s = true /\
    exists tk, nth_error (tasks s) 0 = Some tk /\ st tk = Blocked.
Proof. exact unguarded_await_hangs. Qed.
Print Assumptions C04_unguarded_await_hangs.

(* delivery: GOAWAY / protocol error / connection_lost / Channel.close reach EVERY registered call *)
Theorem C04_conn_event_reaches_every_registered :
  forall s e c cl, nth_error s c = Some cl -> registered cl = true ->
    exists cl', nth_error (sstep s (LConn e)) c = Some cl'
                /\ werr (ck cl') = Some ETerminated /\ hit cl' = true.
Proof. exact conn_event_reaches_every_registered. Qed.
Print Assumptions C04_conn_event_reaches_every_registered.

(* ... a stream reset -- RST_STREAM from the peer, or h2 resetting the stream itself after a stream-level
   protocol violation by the peer (`remote` either way) -- reaches that registered call and no other *)
Theorem C04_rst_reaches_that_call_only :
  forall s c cl remote, nth_error s c = Some cl -> registered cl = true ->
    (exists cl', nth_error (sstep s (LRst c remote)) c = Some cl'
                 /\ werr (ck cl') = Some ETerminated /\ hit cl' = true)
    /\ forall c', c' <> c -> nth_error (sstep s (LRst c remote)) c' = nth_error s c'.
Proof. exact rst_reaches_that_call_only. Qed.
Print Assumptions C04_rst_reaches_that_call_only.

(* ... and a call that is not registered is not told *)
Theorem C04_conn_event_skips_unregistered :
  forall s e c cl, nth_error s c = Some cl -> registered cl = false ->
    exists cl', nth_error (sstep s (LConn e)) c = Some cl' /\ ck cl' = ck cl /\ hit cl' = hit cl.
Proof. exact conn_event_skips_unregistered. Qed.
Print Assumptions C04_conn_event_skips_unregistered.

(* MAIN, `_partial` (hypothesis `hit`: the call was registered when the event came; this excludes
   exactly the class of D6): for every history of the connection over the generated client API *)
Theorem C04_registered_call_ops_complete_partial :
  forall ls, Forall (slabel_ok client_ops) ls ->
    let s := srun ls [] in
    forall c cl, nth_error s c = Some cl -> hit cl = true ->
      let k := ck cl in
      werr k <> None /\
      (forall i tk, nth_error (tasks k) i = Some tk -> st tk <> Blocked) /\
      (forall t tk ds, nth_error (tasks k) t = Some tk -> is_ready (st tk) = true ->
         exists tk' r, nth_error (tasks (kstep k (Run t ds))) t = Some tk' /\ st tk' = Done r) /\
      (quiescent k = true ->
         forall i tk, nth_error (tasks k) i = Some tk ->
           exists r, st tk = Done r
             /\ (mark tk = MAtCancel \/ (mark tk = MAfter /\ first_enter (orig tk) = true) ->
                 r = RRaise (XWrap ETerminated)
                 \/ (has_deadline cl = true /\ r = RRaise (XWrap ETimeout)))).
Proof. exact registered_client_call_ops_complete. Qed.
Print Assumptions C04_registered_call_ops_complete_partial.

(* The full-strength statement -- the same for a call that a connection-level event found INSIDE
   protocol.Stream.send_request (`hit cl = true \/ missed cl = true`) -- is FALSE of the faithful
   model: defect D6.  Witness: send_request suspended inside protocol.Stream.send_request (member of
   its wrapper, not registered), connection_lost: quiescent, wrapper never told, still Blocked. *)
Theorem C04_affected_call_ops_complete_refuted :
  Forall (slabel_ok client_ops) d6_labels /\
  exists cl tk, nth_error (srun d6_labels []) 0 = Some cl
    /\ missed cl = true /\ hit cl = false /\ werr (ck cl) = None
    /\ quiescent (ck cl) = true
    /\ nth_error (tasks (ck cl)) 0 = Some tk /\ st tk = Blocked /\ at_open tk = true
    /\ is_member 0 (members (ck cl)) = true.
Proof. exact unregistered_waiter_refuted. Qed.
Print Assumptions C04_affected_call_ops_complete_refuted.

(* only the deadline ends such a call *)
Theorem C04_unregistered_waiter_deadline_rescues :
  let ls := [LNewCall true; LK 0 (Spawn d6_path); LK 0 (Run 0 (decisions d6_cell d6_path));
             LConn CLost; LDeadline 0; LK 0 (Run 0 [])] in
  exists cl tk, nth_error (srun ls []) 0 = Some cl
    /\ nth_error (tasks (ck cl)) 0 = Some tk /\ st tk = Done (RRaise (XWrap ETimeout)).
Proof. exact unregistered_waiter_deadline_rescues. Qed.
Print Assumptions C04_unregistered_waiter_deadline_rescues.

(* error upgrade at context exit: StreamTerminatedError becomes the explaining GRPCError exactly when
   a failing status had arrived (non-200 :status, trailers, or a trailers-only grpc-status); anything
   else passes through *)
Theorem C04_aexit_upgrade :
  forall h t,
    (forall k, aexit_outcome OTerminated h t = OGrpc k <-> maybe_raise h t = Some k) /\
    (aexit_outcome OTerminated h t = OTerminated <-> maybe_raise h t = None) /\
    (forall x, x <> OTerminated -> aexit_outcome x h t = x).
Proof. exact aexit_upgrade. Qed.
Print Assumptions C04_aexit_upgrade.

Theorem C04_maybe_raise_none_iff :
  forall h t,
    maybe_raise h t = None <->
    (match h with Some hh => h_ok hh = true | None => True end) /\
    (match t with
     | Some g => g = GCode 0
     | None => match h with Some hh => h_gs hh = GMissing \/ h_gs hh = GCode 0 | None => True end
     end).
Proof. exact maybe_raise_none_iff. Qed.
Print Assumptions C04_maybe_raise_none_iff.

Theorem C04_maybe_raise_code :
  forall h t k,
    maybe_raise h t = Some k ->
    (exists hh, h = Some hh /\ h_ok hh = false /\ k = h_mapped hh)
    \/ (exists g, (t = Some g \/ (t = None /\ exists hh, h = Some hh /\ h_gs hh = g /\ g <> GMissing))
                  /\ grpc_status_raises g = Some k).
Proof. exact maybe_raise_code. Qed.
Print Assumptions C04_maybe_raise_code.

(* the complete correspondence matrix (20160 cells: 10 operations incl. the context exit and the stub-style call, 6 events, 7 statuses, 3 variants), inside the
   model and on the generated operations: pending at quiescence EXACTLY in the D6 class (hence
   `_partial`); everywhere else -- also for a context exit entered after a connection-level event -- the
   operation ends with a termination error and the call with exactly the error the property asks for
   (cells asking for a refused call: ProtocolError) *)
Theorem C04_matrix_pending_is_exactly_d6_partial :
  forall c, In c all_cells ->
    let p := predict client_ops c in
    p_inpaths p = true /\ p_setup p <> SError /\
    (p_setup p = SOk ->
       is_pending (p_op p) = d6_class c p /\
       is_pending (p_op p) = p_missed p /\
       (is_pending (p_ctx p) = true -> is_pending (p_op p) = true) /\
       is_pending (p_late p) = (is_pending (p_op p) && negb (c_deadline c)) /\
       (is_pending (p_op p) = false ->
          if misuse_class c then p_op p = OProtocol
          else is_term_error (p_op p) = true /\ p_ctx p = expected_ctx c)).
Proof. exact matrix_pending_is_exactly_d6. Qed.
Print Assumptions C04_matrix_pending_is_exactly_d6_partial.

(* the former finding D35, repaired: the server had answered NOT_FOUND (trailers), the connection is
   lost, the body ends normally: __aexit__ raises GRPCError(5) *)
Theorem C04_context_exit_after_conn_event_raises :
  let p := predict client_ops quiet_exit_cell in
  p_setup p = SOk /\ p_registered p = true /\ p_werr p = OTerminated /\ p_op p = OGrpc 5
  /\ p_ctx p = OGrpc 5 /\ expected_ctx quiet_exit_cell = OGrpc 5.
Proof. exact context_exit_after_conn_event_raises. Qed.
Print Assumptions C04_context_exit_after_conn_event_raises.
