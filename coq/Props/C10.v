(* C10 -- Finished calls leave nothing behind; waiters for a stream slot all proceed.
   This file holds only the property theorems; each is closed by `exact` of a lemma proved in
   Proofs/C10Proofs.v and followed by Print Assumptions.  The model (Model/Registry.v) covers one live
   connection; a history is ANY list of ops (client calls, handler actions, frame deliveries, SETTINGS),
   so every theorem below quantifies over all call mixes, outcomes, interleavings and limits. *)
From Coq Require Import ZArith List Bool Arith.
From GV Require Import Model.Registry Proofs.C10Proofs Proofs.C10Examples.
Import ListNotations.

(* (1) tracked(side) = exactly the calls of that side between successful open / accept and exit,
   each once *)
Theorem C10_tracked_invariant :
  forall n m ops, let s := run ops (init n m) in
  (NoDup (creg s) /\ forall c, In c (creg s) <-> has is_opened (calls s) c) /\
  (NoDup (sreg s) /\ forall c, In c (sreg s) <-> has is_running (calls s) c).
Proof. exact tracked_invariant. Qed.
Print Assumptions C10_tracked_invariant.

(* (2a) the client side alone, whatever the peer did and whatever is still in flight *)
Theorem C10_client_side_clean :
  forall n m ops, let s := run ops (init n m) in
  all_calls is_cexited s -> creg s = [] /\ open_out s = 0.
Proof. exact client_side_clean. Qed.
Print Assumptions C10_client_side_clean.

(* (2b) both sides: after any history in which all calls have exited, writing is not paused and the
   client's frames have arrived, nothing is tracked and no h2 stream is open on either side.  (While
   writing is paused the RST_STREAM of a context exit waits in the client's h2 buffer; resume_writing
   writes it -- the repaired D45 -- which is what the invariant "nothing held back unless paused" uses.) *)
Theorem C10_no_open_streams :
  forall n m ops, let s := run ops (init n m) in
  all_calls is_cexited s -> all_calls (fun k => negb (is_running k)) s ->
  all_calls (fun k => match k_qc k with [] => true | _ => false end) s ->
  cpaused s = false ->
  creg s = [] /\ sreg s = [] /\ open_out s = 0 /\ open_in s = 0.
Proof. exact no_open_streams. Qed.
Print Assumptions C10_no_open_streams.

(* (2b') per call, whatever the handler does (it may still be waiting for the client): the client has
   left the context, writing is possible, the frames have arrived => the stream counts on neither side *)
Theorem C10_client_exit_reaches_server :
  forall n m ops c k, let s := run ops (init n m) in
  nth_error (calls s) c = Some k -> k_cph k = CExited -> k_qc k = [] -> cpaused s = false ->
  h2_open (k_ch k) = false /\ h2_open (k_sh k) = false.
Proof. exact client_exit_reaches_server. Qed.
Print Assumptions C10_client_exit_reaches_server.

(* a context exit while writing is paused: h2 closes the stream at once for the client, the frame is held
   back; any write, and resume_writing at the latest, releases everything held back *)
Theorem C10_flush_releases_held :
  forall s, all_calls (fun k => negb (k_held k)) (fst (step s CFlush)) /\
  (all_calls (fun k => negb (k_held k)) (fst (step s CResume)) /\ cpaused (fst (step s CResume)) = false).
Proof. exact flush_releases_held. Qed.
Print Assumptions C10_flush_releases_held.

Theorem C10_exit_while_paused_is_held_then_released :
  let s := run held_example (init 1 100%Z) in
  creg s = [] /\ open_out s = 0 /\ open_in s = 1 /\ idx_where k_held (calls s) = [0] /\
  let s' := run [CResume; DeliverC2S 0] s in
  idx_where k_held (calls s') = [] /\ open_in s' = 0.
Proof. exact exit_while_paused_is_held_then_released. Qed.
Print Assumptions C10_exit_while_paused_is_held_then_released.

(* (2c) the server side alone, against any client that has closed its half of every stream: a finished
   handler must not keep an h2 stream open.
   FULL STATEMENT -- false of the faithful model (D4), refuted below:
     forall n m ops, let s := run ops (init n m) in
     all_calls (fun k => negb (is_running k)) s ->
     all_calls (fun k => match k_qc k with [] => true | _ => false end) s ->
     all_calls client_half_closed s -> sreg s = [] /\ open_in s = 0.
   The extra hypothesis of the partial theorem, `is_leak k = false`, excludes exactly the handlers whose
   request_handler was left by a BaseException (from the body: D4; a cancellation inside
   Stream.__aexit__ while the terminal response waited for write_ready: D48; cancelled before the first
   step) while the server had neither ended nor reset the stream and had not been reset
   (C10_leak_class_is_D4). *)
Theorem C10_no_open_streams_server_partial :
  forall n m ops, let s := run ops (init n m) in
  all_calls (fun k => negb (is_running k)) s ->
  all_calls (fun k => negb (is_leak k)) s ->
  all_calls (fun k => match k_qc k with [] => true | _ => false end) s ->
  all_calls client_half_closed s ->
  sreg s = [] /\ open_in s = 0.
Proof. exact no_open_streams_server_partial. Qed.
Print Assumptions C10_no_open_streams_server_partial.

Theorem C10_no_open_streams_server_refuted :
  exists n m ops, let s := run ops (init n m) in
    all_calls (fun k => negb (is_running k)) s /\
    all_calls (fun k => match k_qc k with [] => true | _ => false end) s /\
    all_calls client_half_closed s /\
    sreg s = [] /\ open_in s = 1 /\ open_out s = 1.
Proof. exact no_open_streams_server_refuted. Qed.
Print Assumptions C10_no_open_streams_server_refuted.

Theorem C10_leak_class_is_D4 :
  forall s c x k k', reachable s -> nth_error (calls s) c = Some k -> k_sph k = SRunning ->
  nth_error (calls (fst (step s (SExit c x)))) c = Some k' -> k_sph k' = SExited true ->
  x = KBase /\ h2_open (k_sh k) = true /\ h_se (k_sh k) = false.
Proof. exact leak_is_D4. Qed.
Print Assumptions C10_leak_class_is_D4.

(* (2d) the mechanism for error endings: non-OK trailers -- sent explicitly or at the end of a handler
   that failed -- leave the stream closed at the server at once (RST_STREAM after the trailers when the
   client has not ended its half), so it stops counting before the client reacts *)
Theorem C10_error_status_closes_stream :
  forall s c k, nth_error (calls s) c = Some k -> k_sph k = SRunning ->
  (snd (step s (STrailers c true)) = ONone ->
   exists k', nth_error (calls (fst (step s (STrailers c true)))) c = Some k' /\ h2_open (k_sh k') = false) /\
  (k_trail k = false -> k_cancel k = false ->
   exists k', nth_error (calls (fst (step s (SExit c KErr)))) c = Some k' /\ h2_open (k_sh k') = false).
Proof. exact error_status_closes_stream. Qed.
Print Assumptions C10_error_status_closes_stream.

(* (3) waiters.  No lost wake-up: in every reachable quiescent state a call blocked on
   stream_close_waiter faces as many open outbound streams as the last announced limit allows *)
Theorem C10_no_lost_wakeup :
  forall n m ops c, let s := run ops (init n m) in
  quiescent s = true -> has is_waiting (calls s) c -> (maxc s <= Z.of_nat (open_out s))%Z.
Proof. exact no_lost_wakeup. Qed.
Print Assumptions C10_no_lost_wakeup.

(* every release wakes ALL waiters *)
Theorem C10_release_wakes_all :
  forall s c k, nth_error (calls s) c = Some k -> k_cph k = COpened ->
  let s' := fst (step s (CExit c)) in
  (forall d, ~ has is_waiting (calls s') d) /\ flag s' = true /\
  (forall d, has is_waiting (calls s) d -> has is_woken (calls s') d).
Proof. exact release_wakes_all. Qed.
Print Assumptions C10_release_wakes_all.

(* and so does every MAX_CONCURRENT_STREAMS announcement (the repaired D17) *)
Theorem C10_settings_wake_all :
  forall s v rest, sq s = v :: rest ->
  let s' := fst (step s DeliverSettings) in
  maxc s' = v /\ (forall d, ~ has is_waiting (calls s') d) /\ flag s' = true /\
  (forall d, has is_waiting (calls s) d -> has is_woken (calls s') d).
Proof. exact settings_wake_all. Qed.
Print Assumptions C10_settings_wake_all.

(* asyncio's Event rule: a woken waiter stays runnable until it runs, even when the flag is cleared *)
Theorem C10_woken_stays_woken :
  forall s o c, has is_woken (calls s) c -> (forall es, o <> COpenTry c es) -> o <> CExit c ->
  has is_woken (calls (fst (step s o))) c.
Proof. exact woken_stays_woken. Qed.
Print Assumptions C10_woken_stays_woken.

(* each waiter, when it runs with a free slot, proceeds (and is tracked) ... *)
Theorem C10_woken_with_slot_proceeds :
  forall s c k es, nth_error (calls s) c = Some k -> (k_cph k = CWoken \/ k_cph k = CNew) ->
  (Z.of_nat (open_out s) < maxc s)%Z ->
  snd (step s (COpenTry c es)) = OOpened /\ has is_opened (calls (fst (step s (COpenTry c es)))) c /\
  In c (creg (fst (step s (COpenTry c es)))).
Proof. exact woken_with_slot_proceeds. Qed.
Print Assumptions C10_woken_with_slot_proceeds.

(* ... and without one it re-blocks and changes nothing else *)
Theorem C10_woken_without_slot_reblocks :
  forall s c k es, nth_error (calls s) c = Some k -> (k_cph k = CWoken \/ k_cph k = CNew) ->
  (maxc s <= Z.of_nat (open_out s))%Z ->
  snd (step s (COpenTry c es)) = OBlocked /\
  fst (step s (COpenTry c es)) =
    Build_state (upd c (set_cph CWaiting) (calls s)) (creg s) (sreg s) (maxc s) false (sq s) (cpaused s).
Proof. exact woken_without_slot_reblocks. Qed.
Print Assumptions C10_woken_without_slot_reblocks.

(* (4) the documented non-FIFO behaviour: with any number of runnable waiters and ONE free slot, the
   one that happens to run first takes it and all others re-block ... *)
Theorem C10_one_slot_first_wins :
  forall s c es rest k, reachable s -> nth_error (calls s) c = Some k -> is_nw k = true ->
  (Z.of_nat (open_out s) + 1 = maxc s)%Z ->
  let s' := retry ((c, es) :: rest) s in
  has is_opened (calls s') c /\ open_out s' = S (open_out s) /\
  (forall d, d <> c -> In d (map fst rest) -> has is_nw (calls s) d -> has is_waiting (calls s') d).
Proof. exact one_slot_first_wins_r. Qed.
Print Assumptions C10_one_slot_first_wins.

(* ... no waiter is ever lost by retries (it still waits, or it has started) ... *)
Theorem C10_retry_keeps_waiters :
  forall l s d, has is_pending (calls s) d ->
  has is_pending (calls (retry l s)) d \/ has is_opened (calls (retry l s)) d.
Proof. exact retry_keeps_waiters. Qed.
Print Assumptions C10_retry_keeps_waiters.

(* ... and with enough releases ALL proceed, for every limit >= 1, every order of retries that includes
   all runnable waiters, every order in which running calls finish: after phi(s) = 2*pending + running
   rounds (a round = the retries, then one running call leaves) nobody waits and nobody runs; a round
   consists only of retries and of context exits of OPENED calls (C10_round_is_history), so every call
   that waited has started *)
Theorem C10_all_waiters_proceed :
  forall ord pick n s, fair_ord ord -> fair_pick pick -> reachable s -> (1 <= maxc s)%Z -> phi s <= n ->
  pending_count (rounds n ord pick s) = 0 /\ opened_count (rounds n ord pick s) = 0.
Proof. exact all_waiters_proceed_r. Qed.
Print Assumptions C10_all_waiters_proceed.

Theorem C10_round_is_history :
  forall ord pick s, exists ops, round ord pick s = run ops s /\
    forall o, In o ops -> (exists c es, o = COpenTry c es) \/
                          (exists c, o = CExit c /\ pick (retry (ord s) s) = Some c).
Proof. exact round_is_history. Qed.
Print Assumptions C10_round_is_history.

(* the fairness hypotheses are satisfiable (FIFO-reversed retries, lowest running call leaves first) *)
Theorem C10_fairness_inhabited : fair_ord ord_all /\ fair_pick pick_first.
Proof. exact (conj ord_all_fair pick_first_fair). Qed.
Print Assumptions C10_fairness_inhabited.
