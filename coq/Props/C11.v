(* C11 -- Multiplexed calls are isolated from each other.
   This file holds only the property theorems; each is closed by `exact` of a lemma proved in
   Proofs/C11Proofs.v and followed by Print Assumptions.  The model is Model/Mux.v: the registry
   EventsProcessor.streams with one component per call, and EventsProcessor.process_* on it.
   All theorems are about ALL states (any number of registered calls) and ALL event lists. *)
From Coq Require Import ZArith List Bool.
From GV Require Import Model.Mux Proofs.C11Proofs Proofs.C11Examples.
Import ListNotations.
Open Scope Z_scope.

(* (1) NON-INTERFERENCE, one step: an event addressed to stream j (peer frame of any kind -- incl.
   RST_STREAM and malformed content -- or local action: register, release, deadline, cancel, read)
   leaves every other component exactly as it was ... *)
Theorem C11_stream_event_changes_only_its_call :
  forall s e j i, addr e = Some j -> i <> j -> project i (step s e) = project i s.
Proof. exact addressed_event_local. Qed.
Print Assumptions C11_stream_event_changes_only_its_call.

(* ... leaves the connection-level part unchanged when it is a peer frame (the one exception: HEADERS
   opening a stream towards a client are refused and released at once, and release_stream sets the
   stream_close_waiter flag -- covered by the next theorem) ... *)
Theorem C11_peer_stream_event_leaves_connection :
  forall s e j, addr e = Some j -> is_h2 e = true ->
  c_side (st_conn s) = Server \/ is_request e = false ->
  st_conn (step s e) = st_conn s.
Proof. exact peer_stream_event_conn. Qed.
Print Assumptions C11_peer_stream_event_leaves_connection.

(* ... and in every case (local actions included) it can at most set the stream_close_waiter wake-up
   flag (release_stream), which no step ever reads *)
Theorem C11_local_action_leaves_connection :
  forall s e j, addr e = Some j ->
  st_conn (step s e) = st_conn s \/
  st_conn (step s e) = mkConn (c_side (st_conn s)) (c_closed (st_conn s)) (c_write_ready (st_conn s)) true.
Proof. exact local_action_conn. Qed.
Print Assumptions C11_local_action_leaves_connection.

(* (2) a connection-level event that is not fatal (conn WINDOW_UPDATE, SETTINGS, PING, unknown frames,
   pause/resume ...) only sets window wake-up flags: every call is left as it was, or as it was with
   window_updated set; the connection stays open *)
Theorem C11_connection_event_sets_flags_only :
  forall s e i c, addr e = None -> fatal e = false -> project i s = Some c ->
  project i (step s e) = Some c \/ project i (step s e) = Some (set_wu true c).
Proof. exact conn_event_exact. Qed.
Print Assumptions C11_connection_event_sets_flags_only.

Theorem C11_nonfatal_event_keeps_connection_open :
  forall s e, fatal e = false ->
  c_closed (st_conn (step s e)) = c_closed (st_conn s) /\ c_side (st_conn (step s e)) = c_side (st_conn s).
Proof. exact nonfatal_keeps_closed. Qed.
Print Assumptions C11_nonfatal_event_keeps_connection_open.

(* (3) the events that can affect a call they are not addressed to are EXACTLY the connection-fatal
   ones: ConnectionTerminated (GOAWAY), h2 ProtocolError, connection_lost, Channel.close *)
Theorem C11_fatal_set_exact :
  forall e,
  fatal e = true <->
  exists s i, addr e <> Some i /\
              option_map strip (project i (step s e)) <> option_map strip (project i s).
Proof. exact fatal_exactly. Qed.
Print Assumptions C11_fatal_set_exact.

(* (4) every history: deleting all events addressed to OTHER streams (their frames, their failures,
   their local actions) changes neither call i nor the connection core -- exact equality *)
Theorem C11_other_calls_invisible :
  forall i es s,
  project i (run es s) = project i (run (filter (relevant i) es) s) /\
  conn_core (st_conn (run es s)) = conn_core (st_conn (run (filter (relevant i) es) s)).
Proof. exact project_run_filter. Qed.
Print Assumptions C11_other_calls_invisible.

(* (5) every history without a fatal event: call i ends as if its own events had been the only ones,
   modulo the window wake-up flag *)
Theorem C11_call_as_if_alone :
  forall i es s,
  forallb (fun e => negb (fatal e)) es = true ->
  option_map strip (project i (run es s)) =
  option_map strip (project i (run (filter (addressed i) es) s)).
Proof. exact interleaving_projection. Qed.
Print Assumptions C11_call_as_if_alone.

(* (6) the same for interleavings given as a merge: es is ANY interleaving of the strands ls (each
   strand keeps its order), strand k holds the events of call i, the other strands hold events of
   other calls and non-fatal connection events *)
Theorem C11_every_interleaving :
  forall ls es k i s,
  Merge ls es ->
  (forall e, In e (nth k ls []) -> addr e = Some i) ->
  (forall k' e, k' <> k -> In e (nth k' ls []) -> addr e <> Some i /\ fatal e = false) ->
  option_map strip (project i (run es s)) = option_map strip (project i (run (nth k ls []) s)).
Proof. exact merge_projection. Qed.
Print Assumptions C11_every_interleaving.

(* (7) failure of a subset: ANY sequence fs of things happening to call j (RST_STREAM either way,
   deadline, cancel, release, malformed headers/trailers, more data ...) inserted ANYWHERE leaves the
   other calls and the connection core exactly as without it *)
Theorem C11_failure_contained :
  forall es1 fs es2 s j,
  (forall e, In e fs -> addr e = Some j) ->
  conn_core (st_conn (run (es1 ++ fs ++ es2) s)) = conn_core (st_conn (run (es1 ++ es2) s)) /\
  forall i, i <> j -> project i (run (es1 ++ fs ++ es2) s) = project i (run (es1 ++ es2) s).
Proof. exact failure_contained. Qed.
Print Assumptions C11_failure_contained.

(* (8) a spurious wake-up of a blocked sender (window still <= 0, or transport still paused) is a
   no-op: nothing is emitted, the sender waits again, only its own wake-up flag is cleared *)
Theorem C11_spurious_wakeup_noop :
  forall wr window mf rem c,
  window <= 0 ->
  let '(c', a) := sender_wake wr window mf rem c in
  strip c' = strip c /\ frames_of a = [] /\ (a = SWaitWriteReady \/ a = SWaitWindow).
Proof. exact spurious_wakeup_noop. Qed.
Print Assumptions C11_spurious_wakeup_noop.

(* ... and a receiver is never woken by anything but its own stream's events or a fatal event *)
Theorem C11_receiver_not_woken_by_others :
  forall s e i, addr e <> Some i -> fatal e = false ->
  option_map recv_ready (project i (step s e)) = option_map recv_ready (project i s).
Proof. exact receiver_not_woken. Qed.
Print Assumptions C11_receiver_not_woken_by_others.

(* (9) tolerated frames (PING, PING ack, PRIORITY, SETTINGS ack, every event class without a
   processor: unknown frame types, ALTSVC, 1xx, push) change nothing, raise nothing, and -- D11 --
   do not cost the other calls the rest of the read they arrive in *)
Theorem C11_tolerated_frames_noop :
  forall s e, tolerated e = true -> step_r s e = mkSres s [] false.
Proof. exact tolerated_noop. Qed.
Print Assumptions C11_tolerated_frames_noop.

Theorem C11_tolerated_frame_in_batch :
  forall es1 e es2 s acc, tolerated e = true ->
  run_batch (es1 ++ e :: es2) s acc = run_batch (es1 ++ es2) s acc.
Proof. exact tolerated_in_batch. Qed.
Print Assumptions C11_tolerated_frame_in_batch.

(* (10) nothing leaves process(): no event, in no state, on either side lets an exception out of the
   connection's input path (D11, D21 and the KeyError of Handler.cancel are repaired), so one read is just
   a run and never loses its tail *)
Theorem C11_never_raises : forall s e, raises s e = false.
Proof. exact never_raises. Qed.
Print Assumptions C11_never_raises.

Theorem C11_batches_are_runs :
  forall es s acc, fst (fst (run_batch es s acc)) = run es s /\ snd (run_batch es s acc) = false.
Proof. exact run_batch_is_run. Qed.
Print Assumptions C11_batches_are_runs.

(* (11) the registry stays a map: stream ids stay distinct *)
Theorem C11_registry_keys_distinct :
  forall es s, NoDup (keys (st_reg s)) -> NoDup (keys (st_reg (run es s))).
Proof. exact run_keeps_keys_distinct. Qed.
Print Assumptions C11_registry_keys_distinct.

(* (12) isolation inside one read (one data_received call), full strength, both sides, every read: an
   event that is neither addressed to call i nor fatal does not change what call i gets from that read *)
Theorem C11_read_isolation :
  forall i es1 e es2 s acc,
  addr e <> Some i -> fatal e = false ->
  option_map strip (project i (fst (fst (run_batch (es1 ++ e :: es2) s acc)))) =
  option_map strip (project i (fst (fst (run_batch (es1 ++ es2) s acc)))).
Proof. exact read_isolation. Qed.
Print Assumptions C11_read_isolation.
