(* C16 -- A channel keeps one live connection, reconnects after loss, reports failures.
   Only the property theorems; each is closed by `exact` of a lemma of Proofs/C16Proofs.v or
   Proofs/C16Examples.v and followed by Print Assumptions.
   Model: Model/Channel.v.  `run ops (init script)` ranges over ALL schedules: every interleaving of new
   calls, task steps, attempt outcomes (scripted per attempt: ok / OSError, deferred / inline),
   connection_lost, GOAWAY, keepalive close, Channel.close(), task cancellation, pause/resume, answers. *)
From Coq Require Import List Bool Arith.
From Coq Require Import ZArith.
From GV Require Import Gen.FactsC16 Model.Channel Proofs.C16Proofs Proofs.C16Examples Proofs.C16Source.
Import ListNotations.
Open Scope nat_scope.

(* (1) never more than one connection attempt in progress (lock holders, and attempts in flight) *)
Theorem C16_one_attempt :
  forall sc ops, attempting (run ops (init sc)) <= 1 /\ attempts_in_flight (run ops (init sc)) <= 1.
Proof. exact one_attempt. Qed.
Print Assumptions C16_one_attempt.

(* (1') the lock is held exactly while a caller is inside the attempt *)
Theorem C16_lock_iff_attempting :
  forall sc ops, let s := run ops (init sc) in locked s = true <-> attempting s = 1.
Proof. exact lock_iff_attempting. Qed.
Print Assumptions C16_lock_iff_attempting.

(* (2) never more than one live (made, not lost, not closing) connection *)
Theorem C16_one_live_connection :
  forall sc ops, live_connections (run ops (init sc)) <= 1.
Proof. exact one_live_connection. Qed.
Print Assumptions C16_one_live_connection.

(* (2') a live connection is never orphaned: it is the channel's `_protocol`, or the one just made by the
   pending attempt whose owner has not resumed yet *)
Theorem C16_live_connection_is_held :
  forall sc ops c, let s := run ops (init sc) in conn_live (getc s c) = true ->
  protocol s = Some c \/ exists k, ph (getk s k) = PAttempt (AOk c).
Proof. exact live_is_held. Qed.
Print Assumptions C16_live_connection_is_held.

(* (3) an OSError reaches a caller only from its own failed attempt (`fails` = callers in whose task
   _create_connection raised) ... *)
Theorem C16_failure_reaches_owner_only :
  forall sc ops k, let s := run ops (init sc) in
  ph (getk s k) = PEnd (RExn EOSError) -> In k (fails s).
Proof. exact failure_reaches_owner_only. Qed.
Print Assumptions C16_failure_reaches_owner_only.

(* (3') ... when the owner of a failed attempt resumes it alone gets the OSError, the lock is released and
   handed to the first waiter, no other caller is touched and no attempt starts in that step (any state) *)
Theorem C16_failed_attempt_step :
  forall s k, ph (getk s k) = PAttempt AFail -> cancelp (getk s k) = false ->
  let s' := step s (Run k) in
  ph (getk s' k) = PEnd (RExn EOSError) /\ locked s' = false /\ waiters s' = woken_first (waiters s) /\
  (forall j, j <> k -> getk s' j = getk s j) /\ creates s' = creates s /\ protocol s' = protocol s.
Proof. exact failed_attempt_step. Qed.
Print Assumptions C16_failed_attempt_step.

(* (3'') ... and the waiter the lock was handed to retries: it starts a new attempt *)
Theorem C16_next_holder_retries :
  forall s k, ph (getk s k) = PWait -> cancelp (getk s k) = false -> wlookup k (waiters s) = Some WWoken ->
  connected s = false -> creates (step s (Run k)) = S (creates s).
Proof. exact next_holder_retries. Qed.
Print Assumptions C16_next_holder_retries.

(* (4) FULL statement -- FALSE of the faithful model (and of the code, see notes/C16.md):
       forall s reachable, k in __connect__: what `step s (Run k)` hands to k is alive (good_ret).
   Refutation: the attempt finished (connection c made), connection_lost arrived before the connecting
   task resumed; the task stores and returns the dead protocol and dies of AttributeError. *)
Theorem C16_connect_returns_live_refuted :
  exists sc ops k c, let s := run ops (init sc) in
    ph (getk s k) = PAttempt (AOk c) /\ lost (getc s c) = true /\
    ph (getk (step s (Run k)) k) = PEnd (RExn EAttr) /\ protocol (step s (Run k)) = Some c /\
    ~ good_ret (step s (Run k)) k.
Proof. exact connect_returns_live_refuted. Qed.
Print Assumptions C16_connect_returns_live_refuted.

(* (4 partial) in EVERY state: if the connection made by k's own finished attempt has not died before k
   resumes (`own_conn_alive` -- excludes exactly the window above; vacuous for the fast path and for lock
   waiters), then whatever __connect__ returns to k in this step is neither lost nor closing at this
   instant, and k does not fail with AttributeError *)
Theorem C16_connect_returns_live_partial :
  forall s k, connect_phase (ph (getk s k)) = true -> own_conn_alive s k -> good_ret (step s (Run k)) k.
Proof. exact connect_returns_live_partial. Qed.
Print Assumptions C16_connect_returns_live_partial.

(* (5) a connection attempt is started only by a task step that found the channel unconnected, at most
   one per step *)
Theorem C16_create_only_when_unconnected :
  forall s o, creates (step s o) = creates s \/
  (creates (step s o) = S (creates s) /\ connected s = false /\ exists k, o = Run k).
Proof. exact create_only_when_unconnected. Qed.
Print Assumptions C16_create_only_when_unconnected.

(* (5') while the channel is connected callers share the connection: fast path ... *)
Theorem C16_shared_connection_fast :
  forall s k, connected s = true -> ph (getk s k) = PNew -> cancelp (getk s k) = false ->
  let s' := step s (Run k) in
  creates s' = creates s /\ exists c, protocol s = Some c /\
    (ph (getk s' k) = PGot c false \/ ph (getk s' k) = PReg c) /\ conn_live (getc s' c) = true.
Proof. exact shared_connection_fast. Qed.
Print Assumptions C16_shared_connection_fast.

(* ... and a caller that waited for the lock re-checks and takes the connection made meanwhile *)
Theorem C16_shared_connection_waiter :
  forall s k, connected s = true -> ph (getk s k) = PWait -> cancelp (getk s k) = false ->
  wlookup k (waiters s) = Some WWoken ->
  let s' := step s (Run k) in
  creates s' = creates s /\ locked s' = false /\ exists c, protocol s = Some c /\
    (ph (getk s' k) = PGot c false \/ ph (getk s' k) = PReg c) /\ conn_live (getc s' c) = true.
Proof. exact shared_connection_waiter. Qed.
Print Assumptions C16_shared_connection_waiter.

(* (6) after loss / close (any state satisfying the invariants in which the channel is unconnected and no
   call is inside __connect__) the next call opens exactly one new connection and registers on it *)
Theorem C16_reconnect_exactly_once :
  forall s, Inv s -> quiet s -> connected s = false -> hd (OOk, false) (script s) = (OOk, false) ->
  let n := length (callers s) in let c := length (conns s) in
  let s' := run [Start; Run n; Resolve n; Run n] s in
  creates s' = S (creates s) /\ protocol s' = Some c /\ ph (getk s' n) = PReg c /\
  conn_live (getc s' c) = true /\ live_connections s' = 1 /\ locked s' = false /\
  In n (calls (getc s' c)) /\ getk s' n = c_ph (PReg c) new_caller /\ getc s' c = n_calls [n] fresh_conn /\
  length (callers s') = S n /\ length (conns s') = S c.
Proof. exact fresh_call_connects. Qed.
Print Assumptions C16_reconnect_exactly_once.

(* the invariant `Inv` used above holds in every reachable state *)
Theorem C16_invariant_reachable : forall sc ops, Inv (run ops (init sc)).
Proof. exact reach_inv. Qed.
Print Assumptions C16_invariant_reachable.

(* (7) FULL statement -- FALSE (known finding D6): "Channel.close() terminates every call in flight on
   the connection".  A call blocked in protocol.Stream.send_request is not registered; close() never
   reaches it and it stays blocked forever. *)
Theorem C16_close_terminates_all_calls_refuted :
  exists sc ops k c, let s := run ops (init sc) in
    protocol s = Some c /\ ph (getk s k) = PGot c false /\
    let s' := snd (batch s [SChClose]) in
    ph (getk s' k) = PGot c false /\ enabled s' k = false /\ rq s' = [] /\ lost (getc s' c) = true.
Proof. exact close_terminates_all_calls_refuted. Qed.
Print Assumptions C16_close_terminates_all_calls_refuted.

(* (7 partial) in EVERY state close() cancels the wrapper of every REGISTERED call (the hypothesis
   `In k (calls ..)` = the call is in processor.streams, excludes the D6 class) and that call ends with
   StreamTerminatedError at its next step *)
Theorem C16_close_cancels_registered_partial :
  forall s c k, protocol s = Some c -> In k (calls (getc s c)) -> ph (getk s k) = PReg c ->
  let s' := step s ChClose in
  protocol s' = None /\ term (getk s' k) = true /\ ph (getk s' k) = PReg c /\
  ph (getk (step s' (Run k)) k) = PEnd (RExn ETerminated).
Proof. exact close_cancels_registered. Qed.
Print Assumptions C16_close_cancels_registered_partial.

(* the same for connection_lost and GOAWAY *)
Theorem C16_loss_cancels_registered :
  forall s c k, delivered (getc s c) = false -> In k (calls (getc s c)) -> ph (getk s k) = PReg c ->
  term (getk (step s (Lose c)) k) = true /\ ph (getk (step s (Lose c)) k) = PReg c.
Proof. exact loss_cancels_registered. Qed.
Print Assumptions C16_loss_cancels_registered.

Theorem C16_goaway_cancels_registered :
  forall s c k, valid_open s c = true -> In k (calls (getc s c)) -> ph (getk s k) = PReg c ->
  term (getk (step s (GoAway c)) k) = true /\ ph (getk (step s (GoAway c)) k) = PReg c.
Proof. exact goaway_cancels_registered. Qed.
Print Assumptions C16_goaway_cancels_registered.

(* (8) FULL statement -- FALSE: "after close(), until another call is started, the channel holds no live
   connection and no earlier call continues".  close() during an attempt neither aborts the attempt nor
   the connecting call: the closed channel then stores the new connection (not orphaned -- it is
   `_protocol` and later calls reuse it -- but it is held by a channel the user closed). *)
Theorem C16_close_aborts_connecting_calls_refuted :
  exists sc ops k, let s := run ops (init sc) in
    ph (getk s k) = PAttempt (AFlight OOk) /\
    let s2 := run [ChClose; Resolve k; Run k] s in
    ph (getk s2 k) = PReg 0 /\ protocol s2 = Some 0 /\ live_connections s2 = 1 /\ chst s2 = Ready.
Proof. exact close_aborts_connecting_calls_refuted. Qed.
Print Assumptions C16_close_aborts_connecting_calls_refuted.

(* (8 partial) the channel remains usable after close(): when no call is inside __connect__ at close(),
   close() leaves it unconnected, and a fresh call reconnects (exactly one new connection) and completes *)
Theorem C16_usable_after_close_partial :
  forall s, Inv s -> quiet s -> hd (OOk, false) (script s) = (OOk, false) ->
  let n := length (callers s) in let c := length (conns s) in
  let s' := run ([Start; Run n; Resolve n; Run n] ++ [Answer n; Run n]) (step s ChClose) in
  creates s' = S (creates s) /\ protocol s' = Some c /\ ph (getk s' n) = PEnd (ROk c) /\
  conn_live (getc s' c) = true.
Proof. exact usable_after_close. Qed.
Print Assumptions C16_usable_after_close_partial.

(* (9) the FIFO schedules on which model and code are compared are schedules of `step` *)
Theorem C16_fifo_is_schedule :
  forall s b, snd (batch s b) = run (fst (batch s b)) s.
Proof. exact batch_is_run. Qed.
Print Assumptions C16_fifo_is_schedule.

(* (10) what the model assumes about the source holds of /repo as it is now (Gen/FactsC16.v is regenerated on
   every run by tools/facts_C16.py), stated as MEANING, not spelling:
   - the control paths of Channel.__connect__ (private helpers inlined, tests normalised): connected test first,
     fast path without await; re-check after acquiring the lock; exactly one create_connection await, inside the
     lock, no other await; the protocol stored only after a successful attempt; an Exception re-raised to the
     caller with the lock released and nothing stored; the stored attribute returned without re-check;
   - probed on real objects: `connected` = protocol present, handler not closed, connection not closing;
     connection_lost and EVERY GOAWAY (any error code / last_stream_id) terminate the registered streams and close
     the transport, keepalive's Connection.close() only closes the transport; Channel.close() / __aexit__ terminate
     the registered streams, close the transport once and drop the protocol in EVERY state *)
Theorem C16_source_as_transcribed :
  connect_paths = exp_connect_paths /\
  connected_by_state = exp_connected_by_state /\
  effects_by_state = exp_effects_by_state /\
  close_by_state = repeat exp_close_row 9 /\
  aexit_by_state = repeat exp_aexit_row 9 /\
  close_without_protocol = [1; 0]%Z /\
  connection_close_twice = [1; 1; 0; 1; 1; 0]%Z.
Proof. exact source_meaning. Qed.
Print Assumptions C16_source_as_transcribed.
