(* C06 -- Any order of stream API calls yields a well-formed gRPC exchange or a refusal.
   Only the property theorems; proofs in Proofs/C06Proofs.v, about the programs in Gen/StreamOps.v
   that tools/skeleton_ir.py regenerates from /repo's client.py / server.py on every run. *)
From Coq Require Import List Bool.
From GV Require Import Lib.Reach Model.StreamIR Model.StreamSem Gen.StreamOps Proofs.C06Closure Proofs.C06Proofs.
Import ListNotations.

(* For both sides, all four cardinalities and either state of the peer's half of the stream: in every
   state reachable by ANY finite history of API calls (any arguments, every environment-dependent
   decision taken either way) the frames emitted so far are a prefix of a well-formed Request /
   Response, and no call refused with ProtocolError emitted a frame or changed a flag. *)
Theorem C06_any_call_order_is_wellformed :
  forall (sd : side) (cs ss remote : bool) (g : gstate),
    reachable sd cs ss remote g -> good sd cs ss g = true.
Proof. exact any_call_order_is_wellformed. Qed.
Print Assumptions C06_any_call_order_is_wellformed.

(* `reachable` quantifies over every call there is *)
Theorem C06_call_universe_complete : forall c : call, In c all_calls.
Proof. exact call_universe_complete. Qed.
Print Assumptions C06_call_universe_complete.

(* a refused call is silent: it puts nothing on the wire and changes no flag *)
Theorem C06_refusal_is_silent :
  forall sd cs ss remote g c g' r fr,
    reachable sd cs ss remote g ->
    In (g', r, fr) (gstep sd (tbl_of sd) cs ss g c) ->
    r = RRefused -> fr = [] /\ g_fl g' = g_fl g.
Proof. exact refusal_is_silent. Qed.
Print Assumptions C06_refusal_is_silent.
