(* C17 -- Keepalive detects a dead peer in bounded time and never drops a live one.
   This file holds only the property theorems; each is closed by `exact` of a lemma proved in
   Proofs/C17Proofs.v and followed by Print Assumptions.  Model: Model/Keepalive.v (timed automaton
   on a Z clock, one tick = 2^-20 s).  `run c t0 evs` = (final state, log) of the connection made at
   instant t0 under configuration c after the events evs; the theorems quantify over ALL
   configurations accepted by Configuration's validators (cfg_ok), all t0 and ALL event lists
   (timer firings with every tie order, acknowledgements, data/headers sent, streams opening and
   closing, external connection loss).  Non-vacuity examples: Proofs/C17Examples.v. *)
From Coq Require Import ZArith List Bool String.
From GV Require Import Lib.Str Gen.FactsC17 Model.Keepalive Proofs.C17Proofs.
Import ListNotations.
Open Scope Z_scope.

(* (1) SAFETY.  If every PING is followed by an acknowledgement that arrives strictly less than
   keepalive_timeout after it was sent (or the run ends before that deadline), the close timer never
   fires, and unless the connection is lost for another reason it stays open.
   (example: ex_live_hypothesis; boundary: ex_ack_at_timeout_before_timer / _after_timer) *)
Theorem C17_live_peer_never_dropped :
  forall c, cfg_ok c -> forall t0 evs,
    acked_in_time (k_timeout c) (snd (run c t0 evs)) (now (fst (run c t0 evs))) ->
    (forall t, ~ In (t, IClose) (snd (run c t0 evs))) /\
    (has ILost (snd (run c t0 evs)) = false -> closed (fst (run c t0 evs)) = false).
Proof. exact live_peer_never_dropped. Qed.
Print Assumptions C17_live_peer_never_dropped.

(* (2) "if a ping stays unanswered for keepalive_timeout the connection is closed" -- FULL STATEMENT,
   FALSE of the code: acknowledgements answer pings in order, so with at most k acknowledgements in
   the whole run the (k+1)-th ping (sent at p) is unanswered; the claim is that the close timer has
   fired by p + timeout.  Refuted: the acknowledgement of an OLDER ping clears the close timer, which
   is the only watchdog of the newer ping too (witness wit_cfg/wit_evs: keepalive 10 s, timeout 20 s,
   pings at 10 s and 20 s, ack of the first at 25 s, then silence; the witness is replayed on the
   real code by harness/drive_C17.py, corpus/C17/old_ack_clears_watchdog.json). *)
Theorem C17_unanswered_ping_closes_refuted :
  ~ (forall c t0 evs k p, cfg_ok c ->
       nth_error (ping_times (snd (run c t0 evs))) k = Some p ->
       count_item IAck (snd (run c t0 evs)) <= Z.of_nat k ->
       has ILost (snd (run c t0 evs)) = false ->
       p + k_timeout c < now (fst (run c t0 evs)) ->
       exists d, d <= p + k_timeout c /\ In (d, IClose) (snd (run c t0 evs))).
Proof. exact unanswered_ping_closes_refuted. Qed.
Print Assumptions C17_unanswered_ping_closes_refuted.

(* (2') ... and with the ping budget used up (the default max_pings_without_data = 2) the dead peer
   is NEVER detected while the application sends nothing: for every continuation made of clock
   ticks only there is no further PING and no close. *)
Theorem C17_dead_peer_never_detected_refuted :
  exists c t0 evs p,
    cfg_ok c /\ k_enabled c = true /\ k_permit c = true /\
    nth_error (ping_times (snd (run c t0 evs))) 1 = Some p /\
    count_item IAck (snd (run c t0 evs)) = 1 /\
    forall more, Forall is_tick more ->
      closed (fst (run c t0 (evs ++ more))) = false /\
      has IClose (snd (run c t0 (evs ++ more))) = false /\
      ping_times (snd (run c t0 (evs ++ more))) = ping_times (snd (run c t0 evs)).
Proof. exact dead_peer_never_detected. Qed.
Print Assumptions C17_dead_peer_never_detected_refuted.

(* (2'') PARTIAL (the hypothesis that excludes the defect: no acknowledgement of ANY ping arrives
   after this ping): a ping sent at p after which the log holds no acknowledgement and no external
   close leads to the close timer firing at some d in [p, p + timeout].
   (example: ex_dead_unanswered; default limits: ex_server_silent_peer) *)
Theorem C17_unanswered_ping_closes_partial :
  forall c, cfg_ok c -> forall t0 evs l1 p l2,
    snd (run c t0 evs) = l1 ++ (p, IPing) :: l2 ->
    has IAck l2 = false -> has ILost l2 = false ->
    p + k_timeout c < now (fst (run c t0 evs)) ->
    exists d, p <= d <= p + k_timeout c /\ In (d, IClose) l2.
Proof. exact unanswered_ping_closes. Qed.
Print Assumptions C17_unanswered_ping_closes_partial.

(* (3) DETECTION.  The peer is silent from sigma on (no acknowledgement at an instant >= sigma), the
   connection is not lost otherwise, and the ping timer's firing in [sigma, sigma + time] is not
   suppressed by _is_need_send_ping (`quiet`: no ISkip there; the three tests are the side
   conditions of the property text: a call in flight or permit_without_calls; budget not used up;
   minimum interval elapsed).  Then the connection is closed by sigma + time + timeout.  This holds
   also when an acknowledgement of an older ping cancelled the close timer before sigma.
   (example: ex_dead_hypotheses) *)
Theorem C17_silent_peer_detected :
  forall c, cfg_ok c -> forall sigma t0 evs,
    k_enabled c = true -> t0 <= sigma ->
    quiet c sigma (snd (run c t0 evs)) ->
    sigma + k_time c + k_timeout c < now (fst (run c t0 evs)) ->
    exists d, d <= sigma + k_time c + k_timeout c /\ In (d, IClose) (snd (run c t0 evs)).
Proof. exact silent_peer_detected. Qed.
Print Assumptions C17_silent_peer_detected.

(* (3') with no limits configured (pings permitted without calls, no budget, minimum interval not
   above keepalive_time) the ping timer never skips, so detection is unconditional *)
Theorem C17_silent_peer_detected_unlimited :
  forall c, cfg_ok c -> forall sigma t0 evs,
    k_enabled c = true -> k_permit c = true -> k_maxp c = 0 -> k_minint c <= k_time c ->
    t0 <= sigma ->
    (forall a, In (a, IAck) (snd (run c t0 evs)) -> a < sigma) ->
    has ILost (snd (run c t0 evs)) = false ->
    sigma + k_time c + k_timeout c < now (fst (run c t0 evs)) ->
    exists d, d <= sigma + k_time c + k_timeout c /\ In (d, IClose) (snd (run c t0 evs)).
Proof. exact silent_peer_detected_unlimited. Qed.
Print Assumptions C17_silent_peer_detected_unlimited.

(* (4) RATE.  Any two PINGs are at least keepalive_time apart (at most one per period) and at least
   min_sent_ping_interval apart.  (example: ex_budget_log) *)
Theorem C17_pings_spaced :
  forall c, cfg_ok c -> forall t0 evs l1 p1 l2 p2,
    snd (run c t0 evs) = l1 ++ (p1, IPing) :: l2 -> In (p2, IPing) l2 ->
    p1 + k_time c <= p2 /\ p1 + k_minint c <= p2.
Proof. exact pings_spaced. Qed.
Print Assumptions C17_pings_spaced.

(* (4') with a budget configured, any stretch of the log in which no data and no headers were sent
   contains at most max_pings_without_data PINGs *)
Theorem C17_pings_budget :
  forall c, cfg_ok c -> forall t0 evs l1 seg l2,
    k_maxp c <> 0 ->
    snd (run c t0 evs) = l1 ++ seg ++ l2 ->
    forallb (fun x => negb (is_data x)) seg = true ->
    count_item IPing seg <= k_maxp c.
Proof. exact pings_budget. Qed.
Print Assumptions C17_pings_budget.

(* (4'') inbound traffic never resets the budget: Connection.ack (the application consumed received
   DATA; flow-control credit / WINDOW_UPDATE goes out) leaves the whole keepalive state unchanged, and
   its log item is not "data sent", so C17_pings_budget bounds the PINGs of every stretch without
   data/headers SENT however much is received in it (example: ex_budget_receiving) *)
Theorem C17_acked_is_inert :
  forall c s, step c s Acked = (s, [(now s, IRecv)]).
Proof. exact acked_is_inert. Qed.
Print Assumptions C17_acked_is_inert.

Theorem C17_recv_is_not_data : forall t, is_data (t, IRecv) = false.
Proof. exact recv_is_not_data. Qed.
Print Assumptions C17_recv_is_not_data.

(* ... tied to the source: EVERY assignment in grpclib/ to ping_count_in_sequence, last_ping_sent,
   the periodic timer and the close timer (found by role; any module, any object; private helpers
   folded into their callers; regenerated on every run): the counter
   is written by _ping (+1), headers_send_process (0), data_send_process (0) and nothing else *)
Theorem C17_keepalive_writers :
  keepalive_writers =
  [ (s2z "ping_count_in_sequence",
     [(s2z "protocol:Connection.PING_CALLBACK", s2z "inc");
      (s2z "protocol:Connection.data_send_process", s2z "zero");
      (s2z "protocol:Connection.headers_send_process", s2z "zero")]);
    (s2z "last_ping_sent", [(s2z "protocol:Connection.PING_CALLBACK", s2z "now")]);
    (s2z "PING_TIMER",
     [(s2z "protocol:Connection.PING_CALLBACK", s2z "arm"); (s2z "protocol:Connection.initialize", s2z "arm")]);
    (s2z "CLOSE_TIMER",
     [(s2z "protocol:Connection.PING_CALLBACK", s2z "arm");
      (s2z "protocol:Connection.ping_ack_process", s2z "none")]) ].
Proof. exact writers_exact. Qed.
Print Assumptions C17_keepalive_writers.

(* "data sent" is per DATA FRAME: the model's DataSent/HeadersSent stand for one call of
   data_send_process / headers_send_process, and in the source every frame handed to h2
   (Stream.send_data: every chunk of a payload, also when the rest of the payload then stalls under flow
   control; send_headers; send_request) is directly followed by the hook *)
Theorem C17_every_frame_resets :
  forallb site_ok send_sites = true /\
  map (fun x => match x with (f, h, _, _) => (f, h) end) send_sites =
  [(s2z "Stream.send_data", s2z "data_send_process");
   (s2z "Stream.send_headers", s2z "headers_send_process");
   (s2z "Stream.send_request", s2z "headers_send_process")].
Proof. exact every_frame_resets. Qed.
Print Assumptions C17_every_frame_resets.

(* (5) "every keepalive_time ...": while the connection is open the ping timer fires at
   t0 + j * keepalive_time for every j >= 1; each firing is logged as IPing (a PING was sent) or ISkip
   (fire_ping logs ISkip exactly when need_ping is false) *)
Theorem C17_ping_timer_periodic :
  forall c, cfg_ok c -> forall t0 evs j,
    k_enabled c = true -> closed (fst (run c t0 evs)) = false ->
    1 <= j -> t0 + j * k_time c < now (fst (run c t0 evs)) ->
    In (t0 + j * k_time c, IPing) (snd (run c t0 evs)) \/
    In (t0 + j * k_time c, ISkip) (snd (run c t0 evs)).
Proof. exact ping_timer_periodic. Qed.
Print Assumptions C17_ping_timer_periodic.

(* (6) keepalive_time = None (the client default): keepalive sends and closes nothing *)
Theorem C17_disabled_inert :
  forall c t0 evs, k_enabled c = false ->
    has IPing (snd (run c t0 evs)) = false /\ has ISkip (snd (run c t0 evs)) = false /\
    has IClose (snd (run c t0 evs)) = false.
Proof. exact disabled_inert. Qed.
Print Assumptions C17_disabled_inert.

(* (7) TIE TO THE SOURCE.  need_ping is the interpretation of the current source text of
   Connection._is_need_send_ping (operators, operands, order, short-circuit), for every
   configuration and state ... *)
Theorem C17_need_ping_is_source :
  forall c s, need_ping_src c s = Some (need_ping c s).
Proof. exact need_ping_is_source. Qed.
Print Assumptions C17_need_ping_is_source.

(* ... and the statement skeletons of initialize, _ping, close, ping_ack_process,
   headers_send_process, data_send_process, process_ping_ack_received and the number of call sites
   are the ones the model was transcribed from *)
Theorem C17_source_shape :
  src_initialize = expected_initialize /\
  src_ping = expected_ping /\
  src_close = expected_close /\
  src_ping_ack_process = expected_ping_ack_process /\
  src_headers_send_process = [SSet n_count (EConst 0)] /\
  src_data_send_process = [SSet (s2z "last_data_sent") ENow; SSet n_count (EConst 0)] /\
  src_ping_ack_handler = [SCall (s2z "ping_ack_process")] /\
  facts_ticks_per_second = ticks_per_second.
Proof. exact source_shape. Qed.
Print Assumptions C17_source_shape.

(* (8) CONFIGURATION.  Per-role defaults: server 7200 s / 20 s / calls required / 2 / 300 s;
   client and test: keepalive off *)
Theorem C17_role_defaults :
  default_cfg RServer = Some (mkCfg true (sec 7200) (sec 20) false 2 (sec 300)) /\
  default_cfg RClient = Some (mkCfg false 0 (sec 20) false 2 (sec 300)) /\
  default_cfg RTest = Some (mkCfg false 0 (sec 20) false 2 (sec 300)).
Proof. exact role_defaults. Qed.
Print Assumptions C17_role_defaults.

(* validators: the numeric configurations accepted are exactly cfg_ok *)
Theorem C17_validators :
  forall c fl1 fl2 fl3,
    field_accepts n_time (PNum fl1 (k_time c)) && field_accepts n_timeout (PNum fl2 (k_timeout c)) &&
    field_accepts n_maxp (PNum false (k_maxp c)) && field_accepts n_minint (PNum fl3 (k_minint c))
    = cfg_okb c.
Proof. exact validators_accept_iff_cfg_ok. Qed.
Print Assumptions C17_validators.

Theorem C17_cfg_okb_ok : forall c, cfg_okb c = true <-> cfg_ok c.
Proof. exact cfg_okb_ok. Qed.
Print Assumptions C17_cfg_okb_ok.

(* FINDING: None passes validation for max_pings_without_data and min_sent_ping_interval although
   _is_need_send_ping compares them with numbers (TypeError inside the timer callback, which then
   never re-arms: keepalive silently stops; shown on the real code by the driver) *)
Theorem C17_validators_accept_none_limits :
  field_accepts n_maxp PNone = true /\ field_accepts n_minint PNone = true /\
  field_accepts n_permit PNone = true.
Proof. exact validators_accept_none_limits. Qed.
Print Assumptions C17_validators_accept_none_limits.
