(* C09 -- Cancellation reaches the handler once; shutdown waits for handlers and ends.
   Only the property theorems; each is closed by `exact` of a lemma of Proofs/C09Proofs.v and followed
   by Print Assumptions.  Model: Model/ServerLife.v (all handler programs, all cause sequences, all
   schedules: `run_ops ops init` ranges over every list of operations, `Run c i` being the scheduler).
   Two full-strength statements are FALSE of the faithful model; they are kept in comments next to
   their refutation and their strongest true part. *)
From Coq Require Import List Bool Arith.
From GV Require Import Model.ServerLife Proofs.C09Proofs Proofs.C09Examples.
Import ListNotations.

(* ---- (1) a reset touches one stream only ------------------------------------------------------ *)
(* RST_STREAM for (c,i), in EVERY state: every other task, every connection, the server record and the
   waiter are untouched -- in particular nothing is raised out of data_received (Handler.cancel pops
   with a default; the former KeyError window D91 is repaired) *)
Theorem C09_rst_isolated : forall s c i,
  exists g, tasks (step s (Rst c i)) = map g (tasks s) /\
            (forall t, is_key c i t = false -> g t = t) /\
            conns (step s (Rst c i)) = conns s /\
            srv (step s (Rst c i)) = srv s /\ wst (step s (Rst c i)) = wst s.
Proof. exact rst_isolated. Qed.
Print Assumptions C09_rst_isolated.

(* the first reset of a stream whose handler is in flight cancels exactly that task: pending
   CancelledError, moved from _tasks to _cancelled, nothing delivered yet *)
Theorem C09_rst_cancels_target : forall ops c i t,
  let s := run_ops ops init in
  find_task c i (tasks s) = Some t -> unfinished t = true ->
  conn_open s c = true -> h2reset t = false ->
  exists t', find_task c i (tasks (step s (Rst c i))) = Some t' /\
             cancel_req t' = true /\ in_tasks t' = false /\ in_cancelled t' = true /\
             ncancel t' = ncancel t /\ ph t' = ph t.
Proof. exact rst_cancels_target. Qed.
Print Assumptions C09_rst_cancels_target.

(* a reset for a stream whose task is already done (collected from _tasks or not, stream not yet
   released) cancels and delivers nothing *)
Theorem C09_rst_noop_for_finished : forall t,
  unfinished t = false ->
  ph (rst_task t) = ph t /\ cancel_req (rst_task t) = cancel_req t /\ ncancel (rst_task t) = ncancel t /\
  nhit (rst_task t) = nhit t /\ registered (rst_task t) = registered t /\ nrel (rst_task t) = nrel t /\
  cb_pending (rst_task t) = cb_pending t /\ late (rst_task t) = late t.
Proof. exact rst_noop_for_finished. Qed.
Print Assumptions C09_rst_noop_for_finished.

(* ---- (2) each cause delivers one CancelledError ----------------------------------------------- *)
(* over any history, a handler never sees more CancelledErrors than there were causes *)
Theorem C09_deliveries_le_causes : forall ops t,
  In t (tasks (run_ops ops init)) -> ncancel t <= count_causes ops.
Proof. exact deliveries_le_causes. Qed.
Print Assumptions C09_deliveries_le_causes.

(* one cause o reaching a started task without a pending cancel, followed by any operations that are
   not causes: deliveries + still-pending = old deliveries + (1 if o reached the task else 0) *)
Theorem C09_single_cause_one_delivery : forall s o ops t,
  is_cause o = true -> forallb (fun o => negb (is_cause o)) ops = true ->
  In t (tasks s) -> started_t t = true -> cancel_req t = false ->
  exists t1 t', In t1 (tasks (step s o)) /\ key t1 = key t /\ ncancel t1 = ncancel t /\
                In t' (tasks (run_ops ops (step s o))) /\ key t' = key t /\
                ncancel t' + (if cancel_req t' then 1 else 0)
                = ncancel t + (if cancel_req t1 then 1 else 0).
Proof. exact single_cause_one_delivery. Qed.
Print Assumptions C09_single_cause_one_delivery.

(* ... and the pending one is delivered at the task's current await the next time it runs *)
Theorem C09_run_delivers : forall t,
  cancel_req t = true -> unfinished t = true ->
  cancel_req (run_task t) = false /\ (started_t t = true -> ncancel (run_task t) = S (ncancel t)).
Proof. exact run_delivers. Qed.
Print Assumptions C09_run_delivers.

(* connection_lost / GOAWAY / protocol error cancel every unfinished handler of the connection *)
Theorem C09_close_cancels_all : forall ops c b t',
  let s := run_ops ops init in
  (exists k, conn_at s c = Some k /\ lost k = false) ->
  In t' (tasks (processor_close s c b)) -> tc t' = c -> unfinished t' = true -> cancel_req t' = true.
Proof. exact close_cancels_all. Qed.
Print Assumptions C09_close_cancels_all.

(* Server.close() cancels every unfinished task still held in a handler's _tasks *)
Theorem C09_srvclose_cancels : forall ops t,
  let s := run_ops ops init in
  started (srv s) = true -> In t (tasks s) -> unfinished t = true -> in_tasks t = true ->
  exists t', In t' (tasks (step s SrvClose)) /\ key t' = key t /\
             cancel_req t' = true /\ in_cancelled t' = true /\ ncancel t' = ncancel t.
Proof. exact srvclose_cancels. Qed.
Print Assumptions C09_srvclose_cancels.

(* ---- (3) cancelled once, the cleanup runs to completion --------------------------------------- *)
(* FULL (false):  forall ops t c, In t (tasks (run_ops ops init)) -> tbeh t = Honour c ->
                   ncancel t <= 1 /\ nhit t = 0 /\ (ph t = Finished -> ncancel t = 1 -> cleanup_done t = true) *)
Theorem C09_cancelled_once_refuted :
  exists ops t c, In t (tasks (run_ops ops init)) /\ tbeh t = Honour c /\
                  ncancel t = 2 /\ nhit t = 1 /\ ph t = Finished /\ cleanup_done t = false.
Proof. exact cancelled_once_refuted. Qed.
Print Assumptions C09_cancelled_once_refuted.

(* PARTIAL: unless a cancel() call reached the task while it was inside its cleanup (ghost `late`) *)
Theorem C09_cancelled_once_partial : forall ops t c,
  In t (tasks (run_ops ops init)) -> tbeh t = Honour c -> late t = false ->
  ncancel t <= 1 /\ nhit t = 0 /\ (ph t = Finished -> ncancel t = 1 -> cleanup_done t = true).
Proof. exact cancelled_once_partial. Qed.
Print Assumptions C09_cancelled_once_partial.

(* ... in particular when no cause arrives while some handler is in its cleanup *)
Theorem C09_cancelled_once_calm : forall ops t c,
  calm ops init -> In t (tasks (run_ops ops init)) -> tbeh t = Honour c ->
  ncancel t <= 1 /\ nhit t = 0 /\ (ph t = Finished -> ncancel t = 1 -> cleanup_done t = true).
Proof. exact cancelled_once_calm. Qed.
Print Assumptions C09_cancelled_once_calm.

(* which second cause lands in the cleanup: all of them except RST followed by Server.close() and the
   pairs whose second member cannot happen (finite domain 5 x 5, closed by computation) *)
Theorem C09_pair_table : forall a b, pair_lands a b = pair_expected a b.
Proof. exact pair_table. Qed.
Print Assumptions C09_pair_table.

(* ---- (4) release ------------------------------------------------------------------------------ *)
Theorem C09_released_at_most_once : forall ops t,
  In t (tasks (run_ops ops init)) ->
  nrel t <= 1 /\ (registered t = true <-> nrel t = 0) /\
  (unfinished t = true -> registered t = true) /\
  (ph t = Finished -> cb_pending t = false -> registered t = false /\ nrel t = 1).
Proof. exact released_at_most_once. Qed.
Print Assumptions C09_released_at_most_once.

(* a finished task -- including one that never ran -- has released its stream exactly once after the
   next callback of the loop *)
Theorem C09_finished_is_released : forall ops c i t,
  find_task c i (tasks (run_ops ops init)) = Some t -> unfinished t = false ->
  exists t', find_task c i (tasks (step (run_ops ops init) (Run c i))) = Some t' /\
             registered t' = false /\ nrel t' = 1 /\ cb_pending t' = false.
Proof. exact finished_is_released. Qed.
Print Assumptions C09_finished_is_released.

(* ---- (5) Server.wait_closed ------------------------------------------------------------------- *)
Theorem C09_wait_closed_safe : forall ops,
  wst (run_ops ops init) = WDone -> forall t, In t (tasks (run_ops ops init)) -> ph t = Finished.
Proof. exact wait_closed_safe. Qed.
Print Assumptions C09_wait_closed_safe.

(* neither GC (Handler.__gc_collect__ on every 10th accept, Server.__gc_collect__ on every 10th accepted
   connection) ever loses a live handler: an unfinished task is always in _tasks or _cancelled, its
   Handler is always in Server._handlers, and once the connection is closed the task is in _cancelled *)
Theorem C09_handlers_kept : forall ops t,
  In t (tasks (run_ops ops init)) -> unfinished t = true ->
  (in_tasks t = true \/ in_cancelled t = true) /\
  exists k, conn_at (run_ops ops init) (tc t) = Some k /\ in_handlers k = true /\
            (proc_open k = false -> in_cancelled t = true).
Proof. exact handlers_kept. Qed.
Print Assumptions C09_handlers_kept.

(* PARTIAL (needs: every connection is gone -- the Python 3.12 condition of asyncio.Server.wait_closed) *)
Theorem C09_wait_closed_live : forall s,
  wait_started (wst s) = true ->
  latch (srv s) = true -> listening (srv s) = false -> all_lost (conns s) = true ->
  (forall t, In t (tasks s) -> unfinished t = false) ->
  wst (run_ops [RunW; RunW; RunW] s) = WDone.
Proof. exact wait_closed_live. Qed.
Print Assumptions C09_wait_closed_live.

(* FULL (false):  close() called /\ every handler finished -> wait_closed() returns.
   Refuted by an idle connection that stays open (Server.close() does not close transports) *)
Theorem C09_wait_closed_returns_refuted :
  exists ops, let s := run_ops ops init in
    latch (srv s) = true /\ (forall t, In t (tasks s) -> ph t = Finished) /\
    forall n, wst (run_ops (repeat RunW n) s) <> WDone.
Proof. exact wait_closed_returns_refuted. Qed.
Print Assumptions C09_wait_closed_returns_refuted.

(* ---- (5b) one wrapper, several tasks -------------------------------------------------------------- *)
(* a task is in Wrapper._tasks exactly from its own successful __enter__ to its own __exit__, whatever the
   other tasks of the call do and in whatever order they leave; so Wrapper.cancel reaches exactly the tasks
   that are blocked inside a with-block at that moment *)
Theorem C09_wrapper_members_exact : forall ops t, wmem t (wtasks (wrun ops)) = wspec t ops.
Proof. exact wrapper_members_exact. Qed.
Print Assumptions C09_wrapper_members_exact.

Theorem C09_wrapper_cancel_reaches : forall ops t,
  wmem t (wcancelled (wrun (ops ++ [WCancel]))) = wmem t (wcancelled (wrun ops)) || wspec t ops.
Proof. exact wrapper_cancel_reaches. Qed.
Print Assumptions C09_wrapper_cancel_reaches.

(* ---- (6) graceful_exit ------------------------------------------------------------------------ *)
Theorem C09_graceful_first_signal : forall l sig ex,
  forallb g_started l = true -> exit_handler sig (mkGS l false ex) = mkGS (map gclose l) true ex.
Proof. exact graceful_first_signal. Qed.
Print Assumptions C09_graceful_first_signal.

Theorem C09_graceful_second_signal : forall l sig ex,
  exit_handler sig (mkGS l true ex) = mkGS l true ((128 + sig) :: ex).
Proof. exact graceful_second_signal. Qed.
Print Assumptions C09_graceful_second_signal.

Theorem C09_graceful_not_started : forall l sig ex,
  forallb g_started l = false ->
  exit_handler sig (mkGS l false ex) =
  mkGS (map (fun g => if g_started g then gclose g else g) l) false ((128 + sig) :: ex).
Proof. exact graceful_not_started. Qed.
Print Assumptions C09_graceful_not_started.

Theorem C09_graceful_sequence : forall l sig sigs,
  forallb g_started l = true ->
  fold_left (fun st sg => exit_handler sg st) (sig :: sigs) (mkGS l false []) =
  mkGS (map gclose l) true (rev (map (fun sg => 128 + sg) sigs)).
Proof. exact graceful_sequence. Qed.
Print Assumptions C09_graceful_sequence.
