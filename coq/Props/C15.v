(* C15 -- grpc-timeout encoding never lengthens a deadline and stays spec-valid.
   This file holds only the property theorems; each is closed by `exact` of a lemma proved in
   Proofs/C15Proofs.v and followed by Print Assumptions.  Python float = Flocq binary64
   (R64 = real value, fin = is finite), Python int = Z; the threshold/unit/exponent chain, the unit
   table and the regex source are Gen.Facts (regenerated from grpclib/metadata.py on every run).
   q2r (n, d) = n / d is the exact rational value a wire string stands for (wire_q). *)
From Coq Require Import ZArith List Bool String Reals.
From Flocq Require Import Core IEEE754.BinarySingleNaN IEEE754.Binary IEEE754.Bits.
From GV Require Import Lib.Str Gen.Facts Model.Timeout Proofs.C15Proofs.
From GV Require Proofs.C15Examples.     (* non-vacuity examples, re-checked with the theorems *)
Import ListNotations.
Open Scope R_scope.
Set Printing Width 400.    (* one axiom per line in the Print Assumptions transcript *)

(* (0) the constants of the model are the ones in the source: _TIMEOUT_RE as compiled and as used (mode 0 =
   the whole string must match): 1..8 characters of [0-9] (group 1) then one of the unit letters (group 2) *)
Theorem C15_source_facts :
  timeout_re_sem = ([([48; 49; 50; 51; 52; 53; 54; 55; 56; 57], 1, 8);
                      ([72; 77; 83; 109; 110; 117], 1, 1)], 0, [(0, 1); (1, 2)])%Z /\
  unit_chars = s2z "HMSmun" /\
  units = [(72, UInt 3600); (77, UInt 60); (83, UInt 1);
           (109, UPow10Neg 3); (117, UPow10Neg 6); (110, UPow10Neg 9)]%Z /\
  grpc_timeout_name = s2z "grpc-timeout".
Proof. exact source_facts. Qed.
Print Assumptions C15_source_facts.

(* (0') the chain of encode_timeout as extracted from the source: thresholds 10, 0.01, 0.00001
   (the exact values of the float literals), units S m u n, exponents 0 3 6 9 *)
Theorem C15_chain_of_source : forall t,
  encode_timeout t =
  if py_gt_q t 10 1 then enc_branch t 83 0
  else if py_gt_q t 5764607523034235 576460752303423488 then enc_branch t 109 3
  else if py_gt_q t 5902958103587057 590295810358705651712 then enc_branch t 117 6
  else enc_branch t 110 9.
Proof. exact encode_unfold. Qed.
Print Assumptions C15_chain_of_source.

(* (0'') the float literals of the chain (their IEEE bits as the running parser produced them) have
   exactly the rational values the comparisons of the model use *)
Theorem C15_threshold_bits :
  map (fun e => match e with (n, d, b, _, _) =>
                  if (b =? -1)%Z then Some Eq else cmp_float_q (b64_of_bits b) n d end)
      encode_timeout_chain = [Some Eq; Some Eq; Some Eq].
Proof. exact chain_float_bits. Qed.
Print Assumptions C15_threshold_bits.

(* (1) every float in [0, 99999999]: the output is 1-8 digits and a unit of HMSmun, its exact value
   is more than 0.9 t (or within 1 ns of t), and it exceeds t by less than 2^-52 * t *)
Theorem C15_float_encoding :
  forall t : f64, fin t = true -> 0 <= R64 t <= 99999999 ->
  exists s q,
    encode_timeout (PyFloat t) = Ok s /\ in_grammar s /\ wire_q s = Some q /\
    (9 / 10 * R64 t < q2r q \/ R64 t - q2r q < 1 / 1000000000) /\
    (q2r q <= R64 t \/ q2r q - R64 t < R64 t * bpow radix2 (-52)).
Proof. exact enc_float_spec. Qed.
Print Assumptions C15_float_encoding.

(* (1') ... and the decoder accepts it *)
Theorem C15_float_encoding_decodes :
  forall t : f64, fin t = true -> 0 <= R64 t <= 99999999 ->
  exists s v, encode_timeout (PyFloat t) = Ok s /\ in_grammar s /\
              decode_timeout s = Ok v /\ finnum v = true.
Proof. exact decode_of_encode_float. Qed.
Print Assumptions C15_float_encoding_decodes.

(* (2) FULL STATEMENT, FALSE OF THE CODE (defect D14, kept as a known finding):
     forall t, fin t = true -> 0 <= R64 t <= 99999999 ->
     forall s q, encode_timeout (PyFloat t) = Ok s -> wire_q s = Some q -> q2r q <= R64 t.
   Refuted by t = 0.013 (0x3F8A9FBE76C8B439): 0.013 * 1000 rounds up to 13.0, so '13m' is sent,
   which is 5.6e-19 s more than t. *)
Theorem C15_never_lengthens_refuted :
  exists t : f64, fin t = true /\ 0 <= R64 t <= 99999999 /\
    exists s q, encode_timeout (PyFloat t) = Ok s /\ wire_q s = Some q /\ R64 t < q2r q.
Proof. exact never_lengthens_refuted. Qed.
Print Assumptions C15_never_lengthens_refuted.

(* (2') what is true instead: the excess is below 2^-52 * t (the rounding of the one float
   product) -- last conjunct of (1) -- and above 10 s, where no product is formed, there is none *)
Theorem C15_never_lengthens_partial :
  forall t : f64, fin t = true -> 10 < R64 t <= 99999999 ->
  exists s q, encode_timeout (PyFloat t) = Ok s /\ wire_q s = Some q /\
              q2r q <= R64 t /\ R64 t - q2r q < 1.
Proof. exact enc_float_seconds. Qed.
Print Assumptions C15_never_lengthens_partial.

(* (3) every int in [0, 99999999]: well-formed and exact (neither lengthened nor shortened) *)
Theorem C15_int_encoding :
  forall z : Z, (0 <= z <= 99999999)%Z ->
  exists s q, encode_timeout (PyInt z) = Ok s /\ in_grammar s /\ wire_q s = Some q /\
              q2r q = IZR z.
Proof. exact enc_int_spec. Qed.
Print Assumptions C15_int_encoding.

(* (4) the decoder accepts the grammar with the right scale: H M S give the exact int product,
   m u n give int * float(10 ** -k), which is within 2^-51 (relative) of the exact value *)
Theorem C15_decode_accepts :
  forall ds u a b,
  (1 <= List.length ds <= 8)%nat -> Forall (fun c => 48 <= c <= 57)%Z ds ->
  In (u, (a, b)) grammar_scale ->
  let N := parse_dec ds in
  wire_q (ds ++ [u]) = Some (N * a, b)%Z /\
  exists v, decode_timeout (ds ++ [u]) = Ok v /\
    ((b = 1)%Z -> v = PyInt (N * a)) /\
    ((b <> 1)%Z -> exists f, v = PyFloat f /\ fin f = true /\
        Rabs (R64 f - IZR N / IZR b) <= IZR N / IZR b * bpow radix2 (-51)).
Proof. exact decode_accepts. Qed.
Print Assumptions C15_decode_accepts.

(* (5) ... and nothing else: every other string (all code-point lists) raises ValueError *)
Theorem C15_decode_total :
  forall s : list Z,
  (in_grammar s /\ exists v, decode_timeout s = Ok v /\ finnum v = true) \/
  (~ in_grammar s /\ decode_timeout s = Err ValueError).
Proof. exact decode_total. Qed.
Print Assumptions C15_decode_total.

(* (6) several grpc-timeout headers: the smallest decoded value governs; none -> no deadline;
   any value outside the grammar -> ValueError *)
Theorem C15_min_over_headers :
  forall hs,
  let vs := timeout_values hs in
  (vs = [] -> from_headers_timeout hs = Ok None) /\
  (Exists (fun v => ~ in_grammar v) vs -> from_headers_timeout hs = Err ValueError) /\
  (vs <> [] -> Forall in_grammar vs ->
   exists m, from_headers_timeout hs = Ok (Some m) /\
             (exists v, In v vs /\ decode_timeout v = Ok m) /\
             (forall v x, In v vs -> decode_timeout v = Ok x -> Rnum m <= Rnum x)).
Proof. exact from_headers_min. Qed.
Print Assumptions C15_min_over_headers.

(* (6') exactly the values of the headers named grpc-timeout take part *)
Theorem C15_header_selection :
  forall hs v, In v (timeout_values hs) <-> In (grpc_timeout_name, v) hs.
Proof. exact timeout_values_spec. Qed.
Print Assumptions C15_header_selection.
