(* C13 -- Metadata round-trips exactly; invalid or reserved metadata never hits the wire.
   This file holds only the property theorems; each is closed by `exact` of a lemma proved in
   Proofs/C13Proofs.v and followed by Print Assumptions. *)
From Coq Require Import ZArith List Bool String.
From GV Require Import Lib.Str Gen.Facts Model.Base64 Model.Metadata Proofs.C13Proofs.
Import ListNotations.
Open Scope Z_scope.

(* (1) unpadded base64 as grpclib sends it, for every byte string (every length mod 3) *)
Theorem C13_b64_roundtrip :
  forall b, bytes_ok b = true -> decode_bin_value (encode_bin_value b) = Some b.
Proof. exact b64_roundtrip. Qed.
Print Assumptions C13_b64_roundtrip.

(* (1') a sender that pads its base64 *)
Theorem C13_b64_padded_roundtrip :
  forall b, bytes_ok b = true -> decode_bin_value (b64encode b) = Some b.
Proof. exact b64_padded_roundtrip. Qed.
Print Assumptions C13_b64_padded_roundtrip.

(* (2) keys, values, value types, multiplicity and order survive encode -> decode *)
Theorem C13_metadata_roundtrip :
  forall md, md_valid md = true ->
  exists hs, encode_metadata md = Ok hs /\ decode_metadata hs = Ok md.
Proof. exact metadata_roundtrip. Qed.
Print Assumptions C13_metadata_roundtrip.

(* (2') ... also behind the protocol headers of a request / response / trailers block *)
Theorem C13_roundtrip_behind_protocol_headers :
  forall md proto, md_valid md = true ->
  forallb (fun h => reserved (fst h)) proto = true ->
  exists hs, encode_metadata md = Ok hs /\ decode_metadata (proto ++ hs) = Ok md.
Proof. exact roundtrip_behind_protocol_headers. Qed.
Print Assumptions C13_roundtrip_behind_protocol_headers.

(* (3) total validation: everything that is not valid is refused ... *)
Theorem C13_invalid_rejected :
  forall md, md_typed md = true -> md_valid md = false ->
  exists e, encode_metadata md = Err e.
Proof. exact invalid_rejected. Qed.
Print Assumptions C13_invalid_rejected.

(* ... and whatever is accepted is safe to put on the wire *)
Theorem C13_wire_safe :
  forall md hs, md_typed md = true -> encode_metadata md = Ok hs -> forallb wire_safe hs = true.
Proof. exact encoded_is_wire_safe. Qed.
Print Assumptions C13_wire_safe.

(* (4) protocol headers never appear in user-visible metadata *)
Theorem C13_decode_hides_protocol_headers :
  forall hs md, decode_metadata hs = Ok md ->
  forallb (fun kv => negb (reserved (fst kv))) md = true.
Proof. exact decode_hides_protocol_headers. Qed.
Print Assumptions C13_decode_hides_protocol_headers.

(* (5) the compiled _KEY_RE / _VALUE_RE of the source, as used (whole-string match), are "one or more
   characters of a set" and the set is exactly the model's character predicate; the reserved names the
   property lists are reserved in the source (Gen.Facts is regenerated from /repo's live modules on every run;
   a regular expression is stated by what it accepts, not by how it is spelled) *)
Theorem C13_source_facts :
  key_re_sem = ([(chars_of key_char, 1, -1)], 0, []) /\
  value_re_sem = ([(chars_of value_char, 1, -1)], 0, []) /\
  (forall c, In c (chars_of key_char) <-> key_char c = true) /\
  (forall c, In c (chars_of value_char) <-> value_char c = true) /\
  mem_str (s2z "te") special = true /\ mem_str (s2z "content-type") special = true /\
  mem_str (s2z "user-agent") special = true.
Proof. exact source_facts. Qed.
Print Assumptions C13_source_facts.
