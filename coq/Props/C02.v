(* C02 -- Client call outcome is a total, spec-conformant function of the response.
   This file holds only the property theorems; each is closed by `exact` of a lemma proved in
   Proofs/C02Proofs.v and followed by Print Assumptions.

   Reading guide.  A response script is a list of batches of events (Model/ClientCall.v); a header
   block is seen by the call only through alpha (status class, content-type class, grpc-status class,
   metadata class); [outcome k bs] runs the call program of kind k on the abstract script,
   [observe] resolves it against the strings.  [spec_allows bs r] is the table of the property
   statement.  Three cells of the statement are FALSE of the faithful model; they are kept visible as
   `_refuted` theorems with their witnesses (findings D2c, D2d, D2g) next to the `_partial` theorems
   whose hypothesis excludes exactly the recorded class.  (D2e -- END_STREAM without trailers made the
   call hang -- and D2f -- an open() context left after GOAWAY exited successfully -- were found here and
   repaired in /repo; their theorems are now at full strength.) *)
From Coq Require Import ZArith List Bool String.
From GV Require Import Lib.Str Gen.Facts Gen.FactsC02 Model.Base64 Model.Metadata Model.PyInt
  Model.ClientCall Proofs.C02Proofs.
Import ListNotations.
Open Scope Z_scope.

(* ------------------------------------------------------------------------------------------------ *)
(* (1) alpha on ALL strings *)

(* dict(headers): the last pair with a name wins *)
Theorem C02_dict_last_wins :
  forall k v hs1 hs2, (forall w, ~ In (k, w) hs2) -> dict_get k (hs1 ++ (k, v) :: hs2) = Some v.
Proof. exact dict_get_last_wins. Qed.
Print Assumptions C02_dict_last_wins.

(* a grpc-status value is a valid status k exactly when Python's int() reads k and 0 <= k <= 16
   (the range comes from the generated Status table) *)
Theorem C02_grpc_status_valid :
  forall v k, grpc_status_of_value v = GsvValid k <-> py_int v = Some k /\ 0 <= k <= 16.
Proof. exact grpc_status_valid_iff. Qed.
Print Assumptions C02_grpc_status_valid.

Theorem C02_grpc_status_invalid :
  forall v, grpc_status_of_value v = GsvInvalid <->
            py_int v = None \/ exists k, py_int v = Some k /\ ~ (0 <= k <= 16).
Proof. exact grpc_status_invalid_iff. Qed.
Print Assumptions C02_grpc_status_invalid.

(* what a conforming server sends is read back *)
Theorem C02_grpc_status_canonical :
  forall k, 0 <= k <= 16 -> grpc_status_of_value (py_str_nat k) = GsvValid k.
Proof. exact grpc_status_canonical. Qed.
Print Assumptions C02_grpc_status_canonical.

(* the four grpc-status classes of a block *)
Theorem C02_class_grpc_status_absent :
  forall csub hs, hi_gs (alpha_h csub hs) = GsAbsent <-> dict_get K_GS hs = None.
Proof. exact alpha_gs_absent. Qed.
Print Assumptions C02_class_grpc_status_absent.

Theorem C02_class_grpc_status_ok :
  forall csub hs, hi_gs (alpha_h csub hs) = GsOk <->
                  exists v, dict_get K_GS hs = Some v /\ py_int v = Some 0.
Proof. exact alpha_gs_ok. Qed.
Print Assumptions C02_class_grpc_status_ok.

Theorem C02_class_grpc_status_err :
  forall csub hs, hi_gs (alpha_h csub hs) = GsErr <->
                  exists v k, dict_get K_GS hs = Some v /\ py_int v = Some k /\ 1 <= k <= 16.
Proof. exact alpha_gs_err. Qed.
Print Assumptions C02_class_grpc_status_err.

Theorem C02_class_grpc_status_invalid :
  forall csub hs, hi_gs (alpha_h csub hs) = GsInvalid <->
                  exists v, dict_get K_GS hs = Some v /\
                            (py_int v = None \/ exists k, py_int v = Some k /\ ~ (0 <= k <= 16)).
Proof. exact alpha_gs_invalid. Qed.
Print Assumptions C02_class_grpc_status_invalid.

(* :status: class 200 iff the (last) :status header is "200"; otherwise the raised status is the entry of
   the generated table, UNKNOWN when there is none -- also when :status is missing *)
Theorem C02_class_status_200 :
  forall csub hs, hi_st (alpha_h csub hs) = S200 <-> dict_get K_STATUS hs = Some h2_ok.
Proof. exact alpha_status_200. Qed.
Print Assumptions C02_class_status_200.

Theorem C02_http_status_error :
  forall hs st, http_status_error hs = Some st <->
  (exists v, dict_get K_STATUS hs = Some v /\ v <> h2_ok /\
             st = match assoc_str v h2_to_grpc_status_map with Some s => s | None => non200_default_status end)
  \/ (dict_get K_STATUS hs = None /\ st = non200_default_status).
Proof. exact http_status_error_spec. Qed.
Print Assumptions C02_http_status_error.

(* the table in the source is the one the gRPC specification mandates *)
Theorem C02_http_table_is_spec :
  h2_ok = s2z "200" /\ non200_default_status = 2 /\
  forall v, assoc_str v h2_to_grpc_status_map =
            assoc_str v [(s2z "400", 13); (s2z "401", 16); (s2z "403", 7); (s2z "404", 12);
                         (s2z "502", 14); (s2z "503", 14); (s2z "504", 14); (s2z "429", 14)].
Proof. exact http_table_is_spec. Qed.
Print Assumptions C02_http_table_is_spec.

(* content-type *)
Theorem C02_class_content_type_ok :
  forall csub hs, content_type_class csub hs = CtOk <->
                  exists v, dict_get K_CT hs = Some v /\ ct_value_ok csub v = true.
Proof. exact content_type_class_ok. Qed.
Print Assumptions C02_class_content_type_ok.

Theorem C02_class_content_type_missing :
  forall csub hs, content_type_class csub hs = CtMissing <-> dict_get K_CT hs = None.
Proof. exact content_type_class_missing. Qed.
Print Assumptions C02_class_content_type_missing.

(* with the proto codec exactly three spellings are accepted *)
Theorem C02_content_type_values_proto :
  forall v, ct_value_ok proto_content_subtype v = true <->
            v = grpc_content_type \/ v = grpc_content_type ++ [43] \/
            v = grpc_content_type ++ 43 :: proto_content_subtype.
Proof. exact ct_value_ok_proto. Qed.
Print Assumptions C02_content_type_values_proto.

(* ... and for EVERY codec subtype (e.g. "json"): application/grpc+<subtype>, plus the two subtype-less
   spellings only when the subtype is the default "proto" -- no prefix, suffix or substring of an
   accepted value is accepted *)
Theorem C02_content_type_values_all_subtypes :
  forall csub v, ct_value_ok csub v = true <->
    (csub = proto_content_subtype /\ (v = grpc_content_type \/ v = grpc_content_type ++ [43]))
    \/ (csub <> [] /\ v = grpc_content_type ++ 43 :: csub).
Proof. exact ct_value_ok_all_subtypes. Qed.
Print Assumptions C02_content_type_values_all_subtypes.

(* what the source MEANS now (Gen.FactsC02 is regenerated from /repo on every run by an expanded, ordered
   walk of the public entry points -- private helpers, local names and control-flow spelling are invisible):
   constants by value, which headers are consulted in which order, which statuses the client makes up, what
   the context exit does, what is caught, what the four __call__ bodies do *)
Theorem C02_source_facts :
  grpc_content_type = s2z "application/grpc" /\ proto_content_subtype = s2z "proto" /\
  non200_default_status = 2 /\ content_type_status = 2 /\ grpc_status_error_status = 2 /\
  (* recv_initial_metadata consults :status, then content-type, then grpc-status (+ message, details) *)
  ri_keys = map s2z [":status"; "content-type"; "grpc-status"; "grpc-message"; "grpc-status-details-bin"]%string /\
  rt_keys = map s2z ["grpc-status"; "grpc-message"; "grpc-status-details-bin"]%string /\
  (* context exit: both implicit receives, only StreamTerminatedError is upgraded, from :status then grpc-status *)
  exit_events = map s2z
    ["call recv_initial_metadata"; "call recv_trailing_metadata"; "isinstance StreamTerminatedError";
     "key :status"; "key grpc-status"; "key grpc-message"; "key grpc-status-details-bin"]%string /\
  rt_caught = map s2z ["Exception"; "ValueError"]%string /\
  exit_caught = map s2z ["Exception"; "ValueError"]%string /\
  call_uu = map s2z ["open"; "send_message"; "recv_message"; "assert-not-none"]%string /\
  call_us = map s2z ["open"; "send_message"; "aiter"]%string /\
  call_su = map s2z ["open"; "send_message"; "send_request"; "recv_message"; "assert-not-none"]%string /\
  call_ss = map s2z ["open"; "send_message"; "send_request"; "aiter"]%string.
Proof. exact source_facts. Qed.
Print Assumptions C02_source_facts.

(* ------------------------------------------------------------------------------------------------ *)
(* (2) the bounded abstract domain, closed by complete enumeration (vm_compute + forallb_forall).
   BOUND: (lis, k, m) ranges over configs = the four __call__ kinds and 8 open() bodies (the cardinality
   of an open() kind is irrelevant: C02_open_cardinality_irrelevant), each (a) without listeners, m = 2,
   and (b) with suspending listeners on RecvInitialMetadata, RecvMessage and RecvTrailingMetadata, m = 1;
   bs over cases_of (lis, k, m) = every header class (2 x 3 x 4 x 2) x trailer class (4 x 2)
   x layout {nothing, H, H(END), H D^n, H D^n(END), H D^n T; n <= m} x cut {none, RST, GOAWAY, lost}
   x every split point of the cut batch x {one batch, one batch per event} x every trigger
   {blocked, before step i, (b): during a listener suspension}. *)

Theorem C02_open_cardinality_irrelevant :
  forall lis cs ss cs' ss' p bs,
    outcome lis (Open cs ss p) bs = outcome lis (Open cs' ss' p) bs /\
    defect (Open cs ss p) bs = defect (Open cs' ss' p) bs.
Proof. exact open_cardinality_irrelevant. Qed.
Print Assumptions C02_open_cardinality_irrelevant.

(* FULL-STRENGTH STATEMENT (false):
     forall lis k m bs, In (lis, k, m) configs -> In bs (cases_of (lis, k, m)) -> spec_allows bs (outcome lis k bs) = true *)
Theorem C02_table_refuted :
  exists lis k m bs, In (lis, k, m) configs /\ wf_script bs = true /\ spec_allows bs (outcome lis k bs) = false.
Proof. exact table_refuted. Qed.
Print Assumptions C02_table_refuted.

(* every cell of the statement's table, outside the three recorded defect classes *)
Theorem C02_table_partial :
  forall lis k m bs, In (lis, k, m) configs -> In bs (cases_of (lis, k, m)) -> defect k bs = false ->
               spec_allows bs (outcome lis k bs) = true.
Proof. exact table_partial. Qed.
Print Assumptions C02_table_partial.

(* success only if grpc-status OK was received on an acceptable response: FULL STRENGTH, the four
   __call__ methods and every open() body *)
Theorem C02_ok_sound :
  forall lis k m bs n, In (lis, k, m) configs -> In bs (cases_of (lis, k, m)) -> outcome lis k bs = ROk n ->
                 status_ok_received bs = true.
Proof. exact ok_sound. Qed.
Print Assumptions C02_ok_sound.

(* the repaired cell (formerly D2f): GOAWAY / connection loss delivered before the exit of an open() body *)
Theorem C02_closing_before_exit :
  let bs := [{| b_trig := TB; b_events := [AH (H_ok GsAbsent MdOk) false; AD false] |};
             {| b_trig := TS 1; b_events := [AT (T_of GsErr); AGoaway] |}] in
  let done := [{| b_trig := TB; b_events := [AH (H_ok GsAbsent MdOk) false; AD false; AT (T_of GsOk)] |};
               {| b_trig := TS 3; b_events := [AGoaway] |}] in
  wf_script bs = true /\ outcome no_listeners (Open false false [RM]) bs = RExc (XServer BTrl) /\
  outcome no_listeners (Open false false []) [{| b_trig := TS 0; b_events := [ALost] |}] = RExc XTerminated /\
  outcome no_listeners (Open false false [RI; RM; RT]) done = ROk 1.
Proof. exact closing_before_exit. Qed.
Print Assumptions C02_closing_before_exit.

(* only GRPCError / StreamTerminatedError leave the call ... *)
Theorem C02_only_grpc_errors_partial :
  forall lis k m bs e, In (lis, k, m) configs -> In bs (cases_of (lis, k, m)) -> d2c k bs = false -> d2d k bs = false ->
                 outcome lis k bs = RExc e ->
                 e <> XProtocol /\ e <> XAssertion /\ (forall b, e <> XMetadata b).
Proof. exact only_grpc_errors_partial. Qed.
Print Assumptions C02_only_grpc_errors_partial.

(* ... FULL-STRENGTH (false): malformed user -bin metadata escapes as binascii.Error (D2c) *)
Theorem C02_metadata_error_refuted :
  let bs := one [AH (H_ok GsAbsent MdBad) false; AD false; AT (T_of GsOk)] in
  wf_script bs = true /\ outcome no_listeners (Call false false) bs = RExc (XMetadata BHdr) /\
  spec_allows bs (outcome no_listeners (Call false false) bs) = false.
Proof. exact d2c_refuted. Qed.
Print Assumptions C02_metadata_error_refuted.

(* ... and grpc-status OK without a message on a unary-reply call escapes as AssertionError (D2d) *)
Theorem C02_assertion_refuted :
  let bs := one [AH (H_ok GsOk MdOk) true] in
  wf_script bs = true /\ outcome no_listeners (Call false false) bs = RExc XAssertion /\
  spec_allows bs (outcome no_listeners (Call false false) bs) = false.
Proof. exact d2d_refuted. Qed.
Print Assumptions C02_assertion_refuted.

(* the cut is delivered while a listener is suspended (inside `with self._wrapper`): the operation ends
   in StreamTerminatedError and __aexit__ upgrades it to the status that had arrived -- also when
   recv_trailing_metadata has already set its done-flag *)
Theorem C02_cut_during_listener :
  let resp := [{| b_trig := TB; b_events := [AH (H_ok GsAbsent MdOk) false; AD false; AT (T_of GsErr)] |}] in
  let lt := {| l_init := false; l_msg := false; l_trail := true |} in
  outcome lt (Call false false) (resp ++ [{| b_trig := TL; b_events := [ALost] |}]) = RExc (XServer BTrl) /\
  outcome lt (Open true true [RI; IT; RT]) (resp ++ [{| b_trig := TL; b_events := [ARst] |}])
  = RExc (XServer BTrl) /\
  outcome all_listeners (Call false true)
          [{| b_trig := TB; b_events := [AH (H_ok GsErr MdOk) false] |}; {| b_trig := TL; b_events := [AGoaway] |}]
  = RExc (XServer BHdr) /\
  outcome all_listeners (Call true false)
          [{| b_trig := TB; b_events := [AH (H_ok GsAbsent MdOk) false; AD false] |};
           {| b_trig := TL; b_events := [ALost] |}]
  = RExc XTerminated /\
  outcome no_listeners (Call false false) (resp ++ [{| b_trig := TL; b_events := [ALost] |}])
  = RExc (XServer BTrl).
Proof. exact cut_during_listener. Qed.
Print Assumptions C02_cut_during_listener.

(* invalid content-type + grpc-status + reset: the server's status instead of UNKNOWN (D2g) *)
Theorem C02_content_type_on_cut_refuted :
  let bs := one [AH {| hi_st := S200; hi_ct := CtBad; hi_gs := GsErr; hi_md := MdOk |} false; ARst] in
  wf_script bs = true /\ outcome no_listeners (Call false false) bs = RExc (XServer BHdr) /\
  spec_allows bs (outcome no_listeners (Call false false) bs) = false /\
  outcome no_listeners (Call false false) (one [AH {| hi_st := S200; hi_ct := CtBad; hi_gs := GsErr; hi_md := MdOk |} false])
  = RExc XContentType.
Proof. exact d2g_refuted. Qed.
Print Assumptions C02_content_type_on_cut_refuted.

(* rows of the table with their exact outcome *)
Theorem C02_row_non200 :
  forall lis k m bs, In (lis, k, m) configs -> In bs (cases_of (lis, k, m)) -> row_non200_hyp k bs = true ->
               outcome lis k bs = RExc XHttpStatus.
Proof. exact row_non200. Qed.
Print Assumptions C02_row_non200.

Theorem C02_row_server_status_in_trailers :
  forall lis k m bs, In (lis, k, m) configs -> In bs (cases_of (lis, k, m)) -> row_server_trl_hyp k bs = true ->
               outcome lis k bs = RExc (XServer BTrl).
Proof. exact row_server_trailers. Qed.
Print Assumptions C02_row_server_status_in_trailers.

Theorem C02_row_server_status_trailers_only :
  forall lis k m bs, In (lis, k, m) configs -> In bs (cases_of (lis, k, m)) -> row_server_hdr_hyp k bs = true ->
               outcome lis k bs = RExc (XServer BHdr).
Proof. exact row_server_headers. Qed.
Print Assumptions C02_row_server_status_trailers_only.

Theorem C02_row_cut_before_any_status :
  forall lis k m bs, In (lis, k, m) configs -> In bs (cases_of (lis, k, m)) -> row_nothing_hyp k bs = true ->
               outcome lis k bs = RExc XTerminated.
Proof. exact row_nothing. Qed.
Print Assumptions C02_row_cut_before_any_status.

Theorem C02_row_success :
  forall lis k m bs, In (lis, k, m) configs -> In bs (cases_of (lis, k, m)) -> row_success_hyp k bs = true ->
               exists n, outcome lis k bs = ROk n.
Proof. exact row_success. Qed.
Print Assumptions C02_row_success.

(* ------------------------------------------------------------------------------------------------ *)
(* (3) the call finishes *)

(* for ALL scripts (any length, any batching, any triggers), all kinds, all open() bodies and all sets of
   suspending listeners: an
   effective cut, or END_STREAM in a well-formed script (on the headers, on DATA, or on trailers), make
   the call finish.  FULL STRENGTH. *)
Theorem C02_no_hang :
  forall lis k bs,
    ev_cut (events bs) false = true \/ (wf_script bs = true /\ ev_ended (events bs) = true) ->
    outcome lis k bs <> RHang.
Proof. exact no_hang_general. Qed.
Print Assumptions C02_no_hang.

(* the same read off the enumeration *)
Theorem C02_no_hang_enumerated :
  forall lis k m bs, In (lis, k, m) configs -> In bs (cases_of (lis, k, m)) ->
               ev_ended (events bs) || ev_cut (events bs) false = true ->
               outcome lis k bs <> RHang.
Proof. exact no_hang_enumerated. Qed.
Print Assumptions C02_no_hang_enumerated.

(* the repaired cell (formerly D2e): END_STREAM without trailers and without grpc-status gives UNKNOWN *)
Theorem C02_row_end_stream_without_status :
  forall lis k m bs, In (lis, k, m) configs -> In bs (cases_of (lis, k, m)) -> row_missing_status_hyp k bs = true ->
               outcome lis k bs = RExc (XBadGrpcStatus BTrl).
Proof. exact row_missing_status. Qed.
Print Assumptions C02_row_end_stream_without_status.

Theorem C02_end_stream_without_trailers :
  let bs := one [AH (H_ok GsAbsent MdOk) false; AD true] in
  let bs' := one [AH (H_ok GsAbsent MdOk) true] in
  wf_script bs = true /\ ev_ended (events bs) = true /\
  outcome no_listeners (Call false false) bs = RExc (XBadGrpcStatus BTrl) /\
  outcome no_listeners (Call false true) bs = RExc (XBadGrpcStatus BTrl) /\
  outcome no_listeners (Call false false) bs' = RExc (XBadGrpcStatus BTrl) /\
  outcome no_listeners (Open false true [RI; IT]) bs' = RExc (XBadGrpcStatus BTrl) /\
  spec_allows bs (RExc (XBadGrpcStatus BTrl)) = true.
Proof. exact end_stream_without_trailers. Qed.
Print Assumptions C02_end_stream_without_trailers.

(* the model never reaches its internal-inconsistency outcome on the domain *)
Theorem C02_never_stuck :
  forall lis k m bs, In (lis, k, m) configs -> In bs (cases_of (lis, k, m)) -> outcome lis k bs <> RStuck.
Proof. exact never_stuck. Qed.
Print Assumptions C02_never_stuck.
