(* C01 -- Messages arrive intact and in order for every size, window and fragmentation.
   This file holds only the property theorems; each is closed by `exact` of a lemma proved in
   Proofs/C01Proofs.v and followed by Print Assumptions.

   Vocabulary (Model/RecvBuffer.v, Model/SendChunk.v):
     frame m            = b'\0' + struct.pack('>I', len(m)) + m           (send_message)
     buf                = grpclib.protocol.Buffer  (unacked queue, acked deque, acked_size, eof flag)
     OAdd d a | OEof | ORecv
                        = DataReceived(data=d, flow_controlled_length=a) | StreamEnded |
                          one scheduling of the task that runs recv_message (start a call when idle,
                          resume the suspended read otherwise)
     wf_ops false ops   = every frame has a >= len(d) (padding; a = 0 only for the empty un-padded
                          frame), nothing after END_STREAM
     run ops            = results returned to a consumer that stops at end-of-stream / first exception
     run_raw ops        = results of recv_message calls that go on whatever was returned
   All theorems quantify over ALL message lists, ALL cuts of the byte stream into DATA payloads
   (concat (payloads ops) = stream is the only link between ops and the stream), ALL paddings and
   ALL interleavings of deliveries with schedulings of the receiver. *)
From Coq Require Import ZArith List Bool.
From GV Require Import Model.Framing Model.RecvBuffer Model.SendChunk Proofs.C01Proofs.
Import ListNotations.
Open Scope Z_scope.

(* (T1) framing is injective and self-delimiting: the reference decoder inverts the encoder *)
Theorem C01_framing_roundtrip :
  forall ms, sizes_ok ms -> parse_frames (concat (map frame ms)) = Some ms.
Proof. exact parse_frames_roundtrip. Qed.
Print Assumptions C01_framing_roundtrip.

(* (T1') domain of send_message: struct.error exactly for messages of 4 GiB or more *)
Theorem C01_send_frame_domain :
  forall m, (zlen m < max_len -> send_frame m = Some (frame m)) /\
            (max_len <= zlen m -> send_frame m = None).
Proof. exact send_frame_domain. Qed.
Print Assumptions C01_send_frame_domain.

(* (T2) Buffer.read refines the read of an abstract byte queue (unread bytes + closed flag), keeps
   the invariant, never takes the IndexError branch, and when it blocks the flag is off, the queue
   is drained and fewer than n bytes are in the deque *)
Theorem C01_read_refines_byte_queue :
  forall n s s' o cr,
  inv s -> read_start n s = (s', o, cr) ->
  inv s' /\ eof_flag s' = eof_flag s /\
  aread n (abs_q s) (eof_flag s) = (abs_q s', o) /\
  o <> RErr EIndex /\
  (o = RBlocked -> eof_flag s = false /\ unacked s' = [] /\ acked_size s' < n).
Proof. exact read_start_refines. Qed.
Print Assumptions C01_read_refines_byte_queue.

(* (T2) schedule independence: a read that blocked, then a frame arrives, then the reader resumes
   == the frame arrives first and the read runs once (same state, same outcome, same credits) *)
Theorem C01_blocked_read_commutes_with_add :
  forall n s s1 c1 d a,
  read_start n s = (s1, RBlocked, c1) ->
  read_start n (add d a s) = prepend_out c1 (read_resume n (add d a s1)).
Proof. exact blocked_commutes_add. Qed.
Print Assumptions C01_blocked_read_commutes_with_add.

Theorem C01_blocked_read_commutes_with_eof :
  forall n s s1 c1,
  read_start n s = (s1, RBlocked, c1) ->
  read_start n (eof s) = prepend_out c1 (read_resume n (eof s1)).
Proof. exact blocked_commutes_eof. Qed.
Print Assumptions C01_blocked_read_commutes_with_eof.

(* (T2) whole histories: on every legal history the Buffer + recv_message machine equals the
   byte-queue machine step for step; the invariant holds at the end; the IndexError and
   struct.error branches of the totalised model are never taken *)
Theorem C01_history_refines_byte_queue :
  forall ops st' rs,
  wf_ops false ops -> run ops rstate_init = (st', rs) ->
  inv (r_buf st') /\ arun ops (absr rstate_init) = (absr st', rs) /\
  ~ In (RFail EIndex) rs /\ ~ In (RFail EStruct) rs.
Proof. exact history_refines_total. Qed.
Print Assumptions C01_history_refines_byte_queue.

(* (T3) MAIN, safety: at every moment of every legal history that has delivered a prefix of the
   stream of frames of ms, what has been returned is a prefix of  ms..., end-of-stream *)
Theorem C01_in_order_intact :
  forall ms ops rest st' rs,
  sizes_ok ms -> wf_ops false ops ->
  concat (payloads ops) ++ rest = concat (map frame ms) ->
  (ended ops = true -> rest = []) ->
  run ops rstate_init = (st', rs) ->
  exists k, rs = firstn k (map RMsg ms ++ [REos]).
Proof. exact in_order_prefix. Qed.
Print Assumptions C01_in_order_intact.

(* (T3) MAIN, completeness: everything delivered, END_STREAM delivered, then length ms + 1 (or
   more) schedulings of the receiver: exactly the messages sent, in order, then end-of-stream *)
Theorem C01_all_delivered :
  forall ms ops k st' rs,
  sizes_ok ms -> wf_ops false ops ->
  concat (payloads ops) = concat (map frame ms) ->
  ended ops = true -> (length ms < k)%nat ->
  run (ops ++ repeat ORecv k) rstate_init = (st', rs) ->
  rs = map RMsg ms ++ [REos].
Proof. exact in_order_complete. Qed.
Print Assumptions C01_all_delivered.

(* (T4) truncation: complete frames, then a non-empty proper prefix of a frame, then END_STREAM:
   the complete messages, then an exception -- at every moment a prefix of that *)
Theorem C01_truncation_prefix :
  forall ms p ops rest st' rs,
  sizes_ok ms -> inside_a_frame p -> wf_ops false ops ->
  concat (payloads ops) ++ rest = concat (map frame ms) ++ p ->
  (ended ops = true -> rest = []) ->
  run ops rstate_init = (st', rs) ->
  exists k, rs = firstn k (map RMsg ms ++ [RFail EAssert]).
Proof. exact truncation_prefix. Qed.
Print Assumptions C01_truncation_prefix.

Theorem C01_truncation_error :
  forall ms p ops k st' rs,
  sizes_ok ms -> inside_a_frame p -> wf_ops false ops ->
  concat (payloads ops) = concat (map frame ms) ++ p ->
  ended ops = true -> (length ms < k)%nat ->
  run (ops ++ repeat ORecv k) rstate_init = (st', rs) ->
  rs = map RMsg ms ++ [RFail EAssert].
Proof. exact truncation_complete. Qed.
Print Assumptions C01_truncation_error.

(* (T4) general form: END_STREAM after ANY prefix `pre` of the stream: a prefix ms1 of the messages,
   then end-of-stream iff pre ends exactly at a message boundary, an exception otherwise *)
Theorem C01_truncation_anywhere :
  forall ms pre suf ops k st' rs,
  sizes_ok ms ->
  pre ++ suf = concat (map frame ms) ->
  wf_ops false ops -> concat (payloads ops) = pre -> ended ops = true ->
  (length ms < k)%nat ->
  run (ops ++ repeat ORecv k) rstate_init = (st', rs) ->
  exists ms1 ms2 t, ms = ms1 ++ ms2 /\ rs = map RMsg ms1 ++ [t] /\
    ((t = REos /\ pre = concat (map frame ms1)) \/
     (t = RFail EAssert /\ pre <> concat (map frame ms1))) /\
    (suf = [] -> t = REos /\ ms2 = []).
Proof. exact run_any_truncation. Qed.
Print Assumptions C01_truncation_anywhere.

(* (T3/T4) never a fabricated message: clean or truncated stream, any moment of any history *)
Theorem C01_no_fabrication :
  forall ms p ops rest st' rs m,
  sizes_ok ms -> (p = [] \/ inside_a_frame p) -> wf_ops false ops ->
  concat (payloads ops) ++ rest = concat (map frame ms) ++ p ->
  (ended ops = true -> rest = []) ->
  run ops rstate_init = (st', rs) ->
  In (RMsg m) rs -> In m ms.
Proof. exact no_fabrication. Qed.
Print Assumptions C01_no_fabrication.

(* end-of-stream is sticky for further recv_message calls *)
Theorem C01_eos_sticky :
  forall s, inv s -> eof_flag s = true -> abs_q s = [] ->
  exists s' cr, recv_step PIdle s = (s', PIdle, Some REos, cr) /\
                inv s' /\ eof_flag s' = true /\ abs_q s' = [].
Proof. exact eos_sticky. Qed.
Print Assumptions C01_eos_sticky.

(* Boundary (finding): the full-strength variant of C01_no_fabrication for a caller that calls
   recv_message AGAIN after it raised on a truncated stream is false -- see the comment above
   read_after_error_refuted in Proofs/C01Proofs.v.  C01_truncation_* / C01_no_fabrication are the
   partial statements: the consumer stops at the first exception. *)
Theorem C01_read_after_error_refuted :
  exists ms p ops m,
    sizes_ok ms /\ inside_a_frame p /\ wf_ops false ops /\
    concat (payloads ops) = concat (map frame ms) ++ p /\ ended ops = true /\
    snd (run_raw ops rstate_init) = [RFail EAssert; RMsg m] /\ ~ In m ms.
Proof. exact read_after_error_refuted. Qed.
Print Assumptions C01_read_after_error_refuted.

(* (T5) sender: for ANY sequence of (window, max_frame_size) observations, the DATA payloads
   emitted, followed by what is still unsent, are the data; every payload was cut under a positive
   window and -- max_frame_size being positive -- is no larger than the window and the frame
   size seen at that moment, and is non-empty when there was data to send *)
Theorem C01_sender_chunks :
  forall obs data cs r,
  send_loop obs data = (cs, r) ->
  concat (map e_chunk cs) ++ unsent r = data /\
  Forall chunk_ok cs /\
  (data <> [] -> Forall (fun e => 0 < e_maxframe e -> e_chunk e <> []) cs).
Proof. exact send_loop_spec. Qed.
Print Assumptions C01_sender_chunks.

(* (T5) termination: max(1, len(data)) observations with a positive window suffice *)
Theorem C01_sender_terminates :
  forall obs data,
  Forall (fun o => 0 < snd o) obs ->
  (Nat.max 1 (length data) <= positive_obs obs)%nat ->
  snd (send_loop obs data) = None.
Proof. exact send_loop_terminates. Qed.
Print Assumptions C01_sender_terminates.

(* (T5) the lengths-only loop used by the correspondence check is the byte loop *)
Theorem C01_sender_sizes :
  forall obs data,
  map (fun e => zlen (e_chunk e)) (fst (send_loop obs data)) = fst (send_sizes obs (zlen data)) /\
  option_map (@zlen Z) (snd (send_loop obs data)) = snd (send_sizes obs (zlen data)).
Proof. exact send_sizes_spec. Qed.
Print Assumptions C01_sender_sizes.

(* (T6) end to end: every message chunked by the sender under its own adversarial observations,
   the payloads re-cut on the way in any manner, any padding, any schedule at the receiver *)
Theorem C01_end_to_end :
  forall ms obss ops k st' rs,
  sizes_ok ms -> all_sent obss ms ->
  wf_ops false ops ->
  concat (payloads ops) = concat (send_all obss ms) ->
  ended ops = true -> (length ms < k)%nat ->
  run (ops ++ repeat ORecv k) rstate_init = (st', rs) ->
  rs = map RMsg ms ++ [REos].
Proof. exact end_to_end. Qed.
Print Assumptions C01_end_to_end.
