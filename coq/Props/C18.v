(* C18 -- Event listeners run once, in order, and their edits take effect.
   This file holds only the property theorems; each is closed by `exact` of a lemma proved in
   Proofs/C18Proofs.v and followed by Print Assumptions.  Non-vacuity examples: Proofs/C18Examples.v
   (required here so that they are checked with the theorems).

   Vocabulary (Model/Events.v): `dispatch ls ev` is _Dispatch.__dispatch__ on the listener list `ls`;
   its result holds the ids of the listeners invoked (d_log), the refused guarded assignments
   (d_errs) and the returned payload tuple or the escaping exception (d_out).  `l_stops c l`: the
   listener leaves the event interrupted or lets an exception escape (computed from the class and
   its statements).  `upto p ls`: the prefix of ls up to and including the first element with p.
   `wf_event ev` / `ev_int ev = false`: what _Event.__init__ establishes (every annotated field set,
   not interrupted); C18_hook_call_is_dispatch shows every hook call made by the library starts
   from such an event. *)
From Coq Require Import ZArith List Bool String.
From GV Require Import Lib.Str Gen.Facts Gen.FactsC18 Model.Events Proofs.C18Proofs Proofs.C18Examples.
Import ListNotations.
Open Scope Z_scope.

(* (1) for ALL listener lists: the listeners invoked are exactly the registered ones up to and
   including the first that stops the loop, each once, in registration order *)
Theorem C18_invoked_prefix :
  forall ls ev, wf_event ev = true -> ev_int ev = false ->
  d_log (dispatch ls ev) = map l_id (upto (l_stops (ev_cls ev)) ls).
Proof. exact dispatch_log. Qed.
Print Assumptions C18_invoked_prefix.

(* (1') what `upto` means: either nobody before the last element stops and the whole list is taken,
   or the list splits at the first stopper x: everything before x does not stop, x does, and
   nothing after x is taken *)
Theorem C18_upto_is_first_stopper :
  forall (p : listener -> bool) ls,
  (upto p ls = ls /\ forallb (fun x => negb (p x)) (removelast ls) = true)
  \/ (exists pre x post, ls = pre ++ x :: post /\ upto p ls = pre ++ [x] /\ p x = true
                          /\ forallb (fun y => negb (p y)) pre = true).
Proof. exact (@upto_spec listener). Qed.
Print Assumptions C18_upto_is_first_stopper.

(* (2) what the hook returns: the exception of the invoked listener that raised, otherwise the
   payload fields of the event after the invoked listeners ran one after the other *)
Theorem C18_returned_payload :
  forall ls ev, wf_event ev = true -> ev_int ev = false ->
  d_out (dispatch ls ev) =
    match first_raise (ev_cls ev) (upto (l_stops (ev_cls ev)) ls) with
    | Some e => inr e
    | None => payload_out (effect (upto (l_stops (ev_cls ev)) ls) ev)
    end.
Proof. exact dispatch_out. Qed.
Print Assumptions C18_returned_payload.

(* (2') field by field: when no listener lets an exception escape, each returned payload element is
   the composition, in order, of the writes the invoked listeners made to that field *)
Theorem C18_payload_is_composition_of_writes :
  forall ls ev, wf_event ev = true -> ev_int ev = false -> class_ok (ev_cls ev) = true ->
  (forall l, In l ls -> l_raises (ev_cls ev) l = None) ->
  d_out (dispatch ls ev) =
    inl (map (fun p => final_value p (acts_of (upto (l_stops (ev_cls ev)) ls)) (field_or_nil ev p))
             (ec_payload (ev_cls ev))).
Proof. exact dispatch_fieldwise. Qed.
Print Assumptions C18_payload_is_composition_of_writes.

(* (2'') last write wins: with constant assignments only, the composition is the value of the last
   assignment to the field, or the value the library passed in *)
Theorem C18_last_write_wins :
  forall f acts v0, no_app acts = true ->
  final_value f acts v0 = match last_set f acts with Some v => v | None => v0 end.
Proof. exact last_write_wins. Qed.
Print Assumptions C18_last_write_wins.

(* (3) the listeners the property talks about (they call interrupt() and assign payload fields):
   invoked = up to and including the first that calls interrupt(); nothing is refused; the payload
   is the composition of their assignments *)
Theorem C18_plain_listeners :
  forall ls ev, wf_event ev = true -> ev_int ev = false -> class_ok (ev_cls ev) = true ->
  forallb (plain (ev_cls ev)) ls = true ->
  d_log (dispatch ls ev) = map l_id (upto calls_interrupt ls)
  /\ d_errs (dispatch ls ev) = []
  /\ d_out (dispatch ls ev) =
       inl (map (fun p => final_value p (acts_of (upto calls_interrupt ls)) (field_or_nil ev p))
                (ec_payload (ev_cls ev))).
Proof. exact dispatch_plain. Qed.
Print Assumptions C18_plain_listeners.

(* (4) listeners that change nothing (observers, and listeners whose every statement is a refused,
   guarded assignment) all run and the result is the one of the empty list *)
Theorem C18_no_listeners_same_as_inert :
  forall ls ev, ev_int ev = false -> forallb (inert (ev_cls ev)) ls = true ->
  d_log (dispatch ls ev) = map l_id ls /\ d_out (dispatch ls ev) = d_out (dispatch [] ev).
Proof. exact dispatch_inert. Qed.
Print Assumptions C18_no_listeners_same_as_inert.

(* (5) read-only rule: a field that is not in __payload__ cannot be assigned (AttributeError: the
   model's None), and the event is left as it was -- recorded when guarded, escaping otherwise *)
Theorem C18_nonpayload_refused :
  forall ev f v g,
  mem_str f (ec_payload (ev_cls ev)) = false -> zlist_eqb f interrupted_name = false ->
  set_field ev f v = None
  /\ run_action ev (ASet f v g) = (ev, g, if g then None else Some XAttr)
  /\ run_action ev (AApp f v g) = (ev, g, if g then None else Some XAttr).
Proof. exact nonpayload_refused_all. Qed.
Print Assumptions C18_nonpayload_refused.

(* (5') ... whereas a payload field takes the value and gives it back *)
Theorem C18_payload_assignable :
  forall ev f v,
  mem_str f (ec_fields (ev_cls ev)) = true -> mem_str f (ec_payload (ev_cls ev)) = true ->
  exists ev', set_field ev f v = Some ev' /\ get_field ev' f = Some v
              /\ ev_cls ev' = ev_cls ev /\ ev_int ev' = ev_int ev.
Proof. exact payload_assign. Qed.
Print Assumptions C18_payload_assignable.

(* (6) add_listener: KeyError (None) exactly for an event class the object has no hook for;
   otherwise the callback is appended to that class's list, the other lists are untouched and the
   identity shadow of the hook is removed *)
Theorem C18_add_listener :
  forall d e l,
  match add_listener d e l with
  | None => hook_for_event (do_hooks d) e = None
  | Some d' =>
      exists h, hook_for_event (do_hooks d) e = Some h
                /\ listeners_of d' e = listeners_of d e ++ [l]
                /\ (forall e', zlist_eqb e e' = false -> listeners_of d' e' = listeners_of d e')
                /\ mem_str (h_meth h) (do_fast d') = false
                /\ do_hooks d' = do_hooks d
  end.
Proof. exact add_listener_spec. Qed.
Print Assumptions C18_add_listener.

(* (6') the listeners a dispatch object runs for an event are its OWN accepted registrations for
   that event, in registration order (objects share nothing) *)
Theorem C18_listeners_are_own_registrations :
  forall regs d e,
  listeners_of (register d regs) e
  = listeners_of d e
    ++ map snd (filter (fun r => zlist_eqb (fst r) e
                                 && is_some (hook_for_event (do_hooks d) (fst r))) regs).
Proof. exact listeners_of_register. Qed.
Print Assumptions C18_listeners_are_own_registrations.

(* (7) the identity fast path: in every dispatch object reachable from Channel's / Server's fresh one
   by any sequence of add_listener calls, calling a hook the way the library calls it gives what
   the method on the class (the slow path) gives *)
Theorem C18_fast_path_agrees :
  forall s regs h pos kw,
  In h (side_hooks s) -> good_call h pos kw = true ->
  call_hook (register (obj_for s) regs) (h_meth h) pos kw
    = call_slow (register (obj_for s) regs) h pos kw.
Proof. exact side_fast_path_agrees. Qed.
Print Assumptions C18_fast_path_agrees.

(* (7') no listener registered for the event: nobody is invoked and the hook returns exactly the
   positional arguments it was given *)
Theorem C18_no_listeners_identity :
  forall s regs h pos kw,
  In h (side_hooks s) -> good_call h pos kw = true ->
  listeners_of (register (obj_for s) regs) (h_event h) = [] ->
  call_hook (register (obj_for s) regs) (h_meth h) pos kw
    = HRes {| d_log := []; d_errs := []; d_out := inl pos |}.
Proof. exact side_no_listeners_identity. Qed.
Print Assumptions C18_no_listeners_identity.

(* (7'') every hook call IS a dispatch over the object's listeners for the hook's event class on an
   event satisfying the hypotheses of (1)-(4), whose payload is the positional arguments *)
Theorem C18_hook_call_is_dispatch :
  forall s regs h pos kw,
  In h (side_hooks s) -> good_call h pos kw = true ->
  exists ev, call_hook (register (obj_for s) regs) (h_meth h) pos kw
               = HRes (dispatch (listeners_of (register (obj_for s) regs) (h_event h)) ev)
             /\ wf_event ev = true /\ ev_int ev = false
             /\ find_class (h_event h) = Some (ev_cls ev) /\ class_ok (ev_cls ev) = true
             /\ payload_out ev = inl pos.
Proof. exact side_hook_call_is_dispatch. Qed.
Print Assumptions C18_hook_call_is_dispatch.

(* (8) the source as it is now (tables regenerated from /repo on every run): every event class has
   payload within its annotated fields; the mutable fields are the ones the property lists; the ten
   event types are the five client and five server ones; every hook method passes its payload
   positionally, in __payload__ order, and constructs the event with field=parameter *)
Theorem C18_source_facts :
  forallb class_ok classes = true
  /\ (payload_of_class "SendRequest" = Some [s2z "metadata"]
      /\ payload_of_class "SendMessage" = Some [s2z "message"]
      /\ payload_of_class "RecvMessage" = Some [s2z "message"]
      /\ payload_of_class "RecvInitialMetadata" = Some [s2z "metadata"]
      /\ payload_of_class "RecvTrailingMetadata" = Some [s2z "metadata"]
      /\ payload_of_class "RecvRequest" = Some [s2z "metadata"; s2z "method_func"]
      /\ payload_of_class "SendInitialMetadata" = Some [s2z "metadata"]
      /\ payload_of_class "SendTrailingMetadata" = Some [s2z "metadata"])
  /\ (same_names (map h_event (side_hooks Client))
             [s2z "SendRequest"; s2z "SendMessage"; s2z "RecvMessage"; s2z "RecvInitialMetadata";
              s2z "RecvTrailingMetadata"] = true
      /\ same_names (map h_event (side_hooks Server))
             [s2z "RecvRequest"; s2z "RecvMessage"; s2z "SendMessage"; s2z "SendInitialMetadata";
              s2z "SendTrailingMetadata"] = true)
  /\ (forallb hook_ok hooks = true
      /\ hooks_distinct (side_hooks Client) = true /\ hooks_distinct (side_hooks Server) = true
      /\ forallb hook_ok (side_hooks Client) = true /\ forallb hook_ok (side_hooks Server) = true).
Proof. exact (conj classes_ok (conj payload_table (conj side_events hooks_ok))). Qed.
Print Assumptions C18_source_facts.

(* (9) use sites: every hook call in client.py / server.py is awaited, passes the payload
   positionally and the other fields by keyword, destructures the returned tuple into as many
   names as the payload has, and every one of these names is read later by the operation the
   property names (encode_metadata / send_message / return / stored as initial or trailing
   metadata / the stream handed to the handler / the handler being invoked); every hook of both
   sides has such a site *)
Theorem C18_hook_results_consumed :
  (forall s, In s hook_sites -> site_ok s = true)
  /\ side_covered Client = true /\ side_covered Server = true.
Proof. exact sites_consumed. Qed.
Print Assumptions C18_hook_results_consumed.
