(* C03 -- The server always ends a stream with exactly one well-formed, truthful response.
   This file holds only the property theorems; each is closed by `exact` of a lemma proved in
   Proofs/C03Proofs.v and followed by Print Assumptions.

   run_call known hs e p  is one server-side call: request header list hs (as HTTP/2 delivers it), the
   server's mapping keys `known`, the environment e (cardinality, buffered request body, END_STREAM, client
   RST_STREAM / Server.close() / deadline and when they strike) and the handler program p (ANY length).
   r_out = the frames on the stream; r_end = how the handler coroutine ended; r_pre = the stream flags then. *)
From Coq Require Import String ZArith List Bool.
From GV Require Import Lib.Str Gen.Facts Gen.FactsC03 Model.Base64 Model.Metadata Model.ServerCall
  Proofs.C03Proofs Proofs.C03Examples Gen.FactsC03Probes.
Import ListNotations.
Open Scope Z_scope.

(* (1) safety -- HEADERS(:status 200, content-type) before DATA, at most one terminal (trailers / RST_STREAM),
   nothing after it except one RST_STREAM after trailers: for every request, program, environment, ending *)
Theorem C03_well_formed_always :
  forall known hs e p, well_formed (r_out (run_call known hs e p)) = true.
Proof. exact well_formed_always. Qed.
Print Assumptions C03_well_formed_always.

(* (1') exactly one terminal.  FULL STATEMENT (false, see the two _refuted theorems):
       forall known hs e p, let r := run_call known hs e p in
         r_end r <> KHang -> reset_kind (r_end r) = false -> accepted (r_out r) = true.
   Proved: the same with the one silent ending excluded -- a BaseException reaching __aexit__ (D4) when the
   handler itself sent no terminal (silent_exit is exactly that). *)
Theorem C03_exactly_one_terminal_partial :
  forall known hs e p, let r := run_call known hs e p in
  r_end r <> KHang -> reset_kind (r_end r) = false ->
  silent_exit (e_card e) (r_pre r) (exit_exn (r_end r)) = false ->
  accepted (r_out r) = true.
Proof. exact exactly_one_terminal_partial. Qed.
Print Assumptions C03_exactly_one_terminal_partial.

(* D4, handler raises a BaseException: HEADERS DATA, then nothing *)
Theorem C03_exactly_one_terminal_refuted :
  exists known hs e p, let r := run_call known hs e p in
    r_end r <> KHang /\ reset_kind (r_end r) = false /\ accepted (r_out r) = false /\
    exit_exn (r_end r) = Some EBase /\ r_out r = [resp_headers; FData].
Proof. exact exactly_one_terminal_refuted. Qed.
Print Assumptions C03_exactly_one_terminal_refuted.

(* D4, handler cancelled by Server.close() *)
Theorem C03_cancelled_by_close_refuted :
  exists known hs e p, let r := run_call known hs e p in
    r_end r = KCancelled CClose /\ accepted (r_out r) = false /\ r_out r = [resp_headers; FData].
Proof. exact cancelled_by_close_refuted. Qed.
Print Assumptions C03_cancelled_by_close_refuted.

(* repaired defect D42 -- a unary-reply handler raises GRPCError(Status.OK) without having sent a message:
   answered UNKNOWN "Internal Server Error" with exactly one terminal (it used to get no frame at all) *)
Theorem C03_grpc_ok_without_message_status :
  forall known hs e p t m, validate (e_codec e) known hs = VAccept t -> t <> TExpired ->
  let r := run_call known hs e p in
  exit_exn (r_end r) = Some (EGRPC status_ok m) -> reset_kind (r_end r) = false ->
  trail_done (r_pre r) = false -> cancel_done (r_pre r) = false ->
  server_streaming (e_card e) = false -> msg_done (r_pre r) = false ->
  final_status (r_out r) = Some (2, Some internal_msg) /\ accepted (r_out r) = true.
Proof. exact grpc_ok_without_message_status. Qed.
Print Assumptions C03_grpc_ok_without_message_status.

(* (2a) OK only if the handler returned normally or said OK itself; unary + OK => exactly one message *)
Theorem C03_ok_only_if_normal :
  forall known hs e p m, let r := run_call known hs e p in
  final_status (r_out r) = Some (status_ok, m) ->
  (returned_normally (r_end r) = true \/
   (exists m', In (SendTrailing status_ok m' false) (p_ops p)) \/
   (exists m', exit_exn (r_end r) = Some (EGRPC status_ok m'))) /\
  (server_streaming (e_card e) = false -> count_data (r_out r) = 1%nat).
Proof. exact ok_only_if_normal. Qed.
Print Assumptions C03_ok_only_if_normal.

(* (2b) the status sent at exit is the function implicit_status of (cardinality, message sent, ending) *)
Theorem C03_status_at_exit :
  forall known hs e p t, validate (e_codec e) known hs = VAccept t -> t <> TExpired ->
  let r := run_call known hs e p in
  r_end r <> KHang -> reset_kind (r_end r) = false ->
  trail_done (r_pre r) = false -> cancel_done (r_pre r) = false ->
  final_status (r_out r) = implicit_status (e_card e) (r_pre r) (exit_exn (r_end r)).
Proof. exact status_at_exit. Qed.
Print Assumptions C03_status_at_exit.

(* normal return: OK, or UNKNOWN "Internal Server Error" for a unary reply without its message *)
Theorem C03_return_status :
  forall known hs e p t, validate (e_codec e) known hs = VAccept t -> t <> TExpired ->
  let r := run_call known hs e p in
  returned_normally (r_end r) = true -> trail_done (r_pre r) = false -> cancel_done (r_pre r) = false ->
  final_status (r_out r) =
    if server_streaming (e_card e) || msg_done (r_pre r) then Some (0, None) else Some (2, Some internal_msg).
Proof. exact return_status. Qed.
Print Assumptions C03_return_status.

(* raise GRPCError(st, m): exactly (st, m) on the wire *)
Theorem C03_grpc_error_status :
  forall known hs e p t st m, validate (e_codec e) known hs = VAccept t -> t <> TExpired ->
  let r := run_call known hs e p in
  exit_exn (r_end r) = Some (EGRPC st m) -> reset_kind (r_end r) = false ->
  trail_done (r_pre r) = false -> cancel_done (r_pre r) = false ->
  (st = status_ok -> server_streaming (e_card e) = true \/ msg_done (r_pre r) = true) ->
  final_status (r_out r) = Some (st, m).
Proof. exact grpc_error_status. Qed.
Print Assumptions C03_grpc_error_status.

(* any other Exception: UNKNOWN *)
Theorem C03_exception_status :
  forall known hs e p t, validate (e_codec e) known hs = VAccept t -> t <> TExpired ->
  let r := run_call known hs e p in
  exit_exn (r_end r) = Some EExc -> reset_kind (r_end r) = false ->
  trail_done (r_pre r) = false -> cancel_done (r_pre r) = false ->
  final_status (r_out r) = Some (2, Some internal_msg).
Proof. exact exception_status. Qed.
Print Assumptions C03_exception_status.

(* ... in particular the handler's OWN asyncio.TimeoutError / StreamTerminatedError / ProtocolError, whatever
   deadline the request carries (t is arbitrary), as long as that deadline has not fired *)
Theorem C03_own_exception_is_unknown :
  forall known hs e p t k, validate (e_codec e) known hs = VAccept t -> t <> TExpired ->
  let r := run_call known hs e p in
  (r_end r = KFin (RaiseException k) \/ r_end r = KSwallowed CClose (RaiseException k)) ->
  trail_done (r_pre r) = false -> cancel_done (r_pre r) = false ->
  final_status (r_out r) = Some (2, Some internal_msg) /\ accepted (r_out r) = true.
Proof. exact own_exception_is_unknown. Qed.
Print Assumptions C03_own_exception_is_unknown.

(* the deadline: DEADLINE_EXCEEDED and exactly one terminal, honoured or swallowed-then-anything *)
Theorem C03_deadline_status :
  forall known hs e p t, validate (e_codec e) known hs = VAccept t -> t <> TExpired ->
  let r := run_call known hs e p in
  deadline_kind (r_end r) = true -> trail_done (r_pre r) = false -> cancel_done (r_pre r) = false ->
  final_status (r_out r) = Some (4, None) /\ accepted (r_out r) = true.
Proof. exact deadline_status. Qed.
Print Assumptions C03_deadline_status.

(* ... and a deadline that has expired on arrival (repaired defect D7): trailers-only DEADLINE_EXCEEDED *)
Theorem C03_expired_on_arrival :
  forall known hs e p, validate (e_codec e) known hs = VAccept TExpired ->
  let r := run_call known hs e p in
  r_out r = FHeaders 200 true (Some 4) None true :: (if e_eof e then [] else [FRst]) /\
  r_end r = KNotRun /\ r_results r = [].
Proof. exact expired_out. Qed.
Print Assumptions C03_expired_on_arrival.

(* (2c) trailers sent by the handler itself stand, whatever it raises afterwards *)
Theorem C03_explicit_status_stands :
  forall known hs e p t, validate (e_codec e) known hs = VAccept t -> t <> TExpired ->
  let r := run_call known hs e p in
  trail_done (r_pre r) = true ->
  exists st m, In (SendTrailing st m false) (p_ops p) /\ final_status (r_out r) = Some (st, m).
Proof. exact explicit_status_stands. Qed.
Print Assumptions C03_explicit_status_stands.

Theorem C03_unary_at_most_one_message :
  forall known hs e p, server_streaming (e_card e) = false ->
  (count_data (r_out (run_call known hs e p)) <= 1)%nat.
Proof. exact unary_at_most_one_message. Qed.
Print Assumptions C03_unary_at_most_one_message.

(* (3) every refused request is answered: one HEADERS+END_STREAM error response (+ RST_STREAM while the
   client has not ended its side), no message, the handler is not called *)
Theorem C03_unacceptable_rejected :
  forall known hs e p i h gs m, validate (e_codec e) known hs = VAbort i h gs m ->
  let r := run_call known hs e p in
  r_out r = FHeaders h false gs m true :: (if e_eof e then [] else [FRst]) /\
  accepted (r_out r) = true /\ error_response h gs = true /\ count_data (r_out r) = 0%nat /\
  r_results r = [] /\ r_end r = KNotRun.
Proof. exact unacceptable_rejected. Qed.
Print Assumptions C03_unacceptable_rejected.

(* which requests are refused, with what: the checks of request_handler in source order (the table is
   regenerated from /repo): 405; 415 UNKNOWN x2; 400 UNKNOWN; UNIMPLEMENTED; UNKNOWN timeout; UNKNOWN metadata *)
Theorem C03_validation_order :
  forall cs known hs, validate cs known hs = validate_spec cs known hs.
Proof. exact validate_is_spec. Qed.
Print Assumptions C03_validation_order.

Theorem C03_accepted_request_is_grpc :
  forall cs known hs t, validate cs known hs = VAccept t ->
  opt_is (hget (s2z ":method") hs) (s2z "POST") = true /\
  (exists v, hget (s2z "content-type") hs = Some v /\ content_type_ok cs v = true) /\
  opt_is (hget (s2z "te") hs) (s2z "trailers") = true /\
  (exists q, hget (s2z ":path") hs = Some q /\ mem_str q known = true) /\
  timeout_class hs = t /\ t <> TInvalid /\ metadata_ok hs = true.
Proof. exact accepted_request_is_grpc. Qed.
Print Assumptions C03_accepted_request_is_grpc.

(* classification on all strings *)
Theorem C03_content_type_partition :
  forall cs v, cs <> [] ->
  (content_type_ok cs v = true <->
   v = content_type_value cs \/
   (cs = proto_subtype /\ (v = s2z "application/grpc" \/ v = s2z "application/grpc+"))).
Proof. exact content_type_partition. Qed.
Print Assumptions C03_content_type_partition.

(* the bare application/grpc means +proto: a server with any other codec refuses it *)
Theorem C03_bare_content_type_needs_proto :
  forall cs, cs <> [] -> cs <> proto_subtype -> content_type_ok cs (s2z "application/grpc") = false.
Proof. exact bare_content_type_needs_proto. Qed.
Print Assumptions C03_bare_content_type_needs_proto.

Theorem C03_timeout_grammar :
  forall v z, decode_timeout_zero v = Some z ->
  exists ds u, v = ds ++ [u] /\ (1 <= length ds <= 8)%nat /\ forallb is_digit ds = true /\
               In u (s2z "HMSmun") /\ (z = true <-> forallb (fun c => c =? 48) ds = true).
Proof. exact timeout_grammar. Qed.
Print Assumptions C03_timeout_grammar.

(* a refused API call emits nothing and changes no flag *)
Theorem C03_refusal_is_silent :
  forall c s, (msg_done s = true -> init_done s = true) ->
  (forall s' out, send_initial s = (s', out, RRefused) -> s' = s /\ out = []) /\
  (forall s' out, send_message c s = (s', out, RRefused) -> s' = s /\ out = []) /\
  (forall st m s' out, send_trailing c s st m = (s', out, RRefused) -> s' = s /\ out = []) /\
  (forall s' out, cancel s = (s', out, RRefused) -> s' = s /\ out = []).
Proof. exact refusal_is_silent. Qed.
Print Assumptions C03_refusal_is_silent.

(* a call that fails part-way (invalid user metadata, refused message, raising listener) sets no flag and
   sends nothing terminal, so the exit path still answers (the programs of theorems (1)-(2) include these calls
   and the paused transport: SendInitial/SendMessage/SendTrailing carry a `fails` flag, Pause is an op) *)
Theorem C03_partway_failure_is_harmless :
  forall c s,
  (forall s' out r, do_send_initial s true = PDone s' out r -> s' = s /\ out = [] /\ r <> ROk) /\
  (forall st m s' out r, do_send_trailing c s st m true = PDone s' out r -> s' = s /\ out = [] /\ r <> ROk) /\
  (forall s' out r, do_send_message c s true = PDone s' out r ->
     msg_done s' = msg_done s /\ trail_done s' = trail_done s /\ cancel_done s' = cancel_done s /\
     count_data out = 0%nat /\ final_status out = None /\ r <> ROk).
Proof. exact partway_failure_is_harmless. Qed.
Print Assumptions C03_partway_failure_is_harmless.

(* the constants and tables the model is instantiated with are the ones in /repo now *)
Theorem C03_source_facts :
  aexit_exception = (2, Some internal_msg) /\ aexit_unary_missing = (2, Some internal_msg) /\
  aexit_normal = (0, None) /\ deadline_status_failed = 4 /\ deadline_status_cancelled = 4 /\ status_ok = 0 /\
  aexit_grpc_ok_unary_as_exception = true /\ aexit_base_propagates = true.
Proof. exact aexit_constants. Qed.
Print Assumptions C03_source_facts.

(* ... and the model agrees with what the repository DOES on the regenerated probe programs (this replaces any
   comparison of source text: refusal checks, emitted frames per state, exit path) *)
Theorem C03_source_probes_agree : map golden_run golden_in = golden_out /\ (100 <= length golden_in)%nat.
Proof. exact (conj golden_probes_agree golden_probes_nonempty). Qed.
Print Assumptions C03_source_probes_agree.
