(* C08 -- Receive credit is returned exactly once, only as data is consumed or released.
   This file holds only the property theorems; each is closed by `exact` of a lemma proved in
   Proofs/C08Proofs.v and followed by Print Assumptions.  The model (Model/RecvLedger.v) is a transcription of
   Buffer / Connection.ack / EventsProcessor.register.release_stream / process_data_received /
   H2Protocol.connection_made / the Configuration window validators; `run init h = (s, o)` is the state and the
   output list (ORecv = flow-controlled bytes received, OAck = acknowledge_received_data calls, ODrop = ghost
   marker of a release on a closing connection) after the history h of events
   Open / Data / EndStream / Read / Wake / Cancel / Release / Close / Pause / Resume, in ANY order and on any
   number of streams -- including reads on a buffer AFTER its stream was released and pauses of the transport
   at any point.  `lookup_live` = EventsProcessor.streams.get; `lookup` also finds released buffers. *)
From Coq Require Import ZArith List Bool.
From GV Require Import Gen.Facts Model.RecvLedger Proofs.C08Proofs.
From GV Require Proofs.C08Examples.   (* non-vacuity examples, checked with the theorems *)
Import ListNotations.
Open Scope Z_scope.

(* (1) never over-credited: after every history (every prefix of every history is a history), for every
   stream and for the connection; needs no hypothesis beyond "sizes are lengths" *)
Theorem C08_never_overcredited :
  forall h s o, forallb event_ok h = true -> run init h = (s, o) ->
  (forall x, credited x o <= received x o) /\ credited_conn o <= received_conn o.
Proof. exact never_overcredited. Qed.
Print Assumptions C08_never_overcredited.

(* (2) conservation: every received byte is either credited, or still queued in a REGISTERED buffer (held), or
   left in a released buffer (forfeited: only a release on a closing connection leaves any, see (4''), (6')) *)
Theorem C08_conservation :
  forall h s o, legal init h = true -> run init h = (s, o) ->
  (forall x, received x o = credited x o + held x s + forfeited x s) /\
  received_conn o = credited_conn o + held_conn s + forfeited_conn s.
Proof. exact conservation. Qed.
Print Assumptions C08_conservation.

(* `legal` holds whenever the stream ids opened are pairwise distinct, which h2 guarantees *)
Theorem C08_distinct_ids_legal :
  forall h, NoDup (opens h) -> legal init h = true.
Proof. exact nodup_opens_legal_init. Qed.
Print Assumptions C08_distinct_ids_legal.

(* (3) back-pressure: a read(size) on a stream whose queue is p ++ r credits exactly the items of p, where p is
   the MINIMAL prefix it needs -- before every popped item the bytes already acknowledged were still short of
   `size` -- and it stops as soon as it has enough, or hits the EOF marker, or the queue is empty (then it
   blocks); the items of r stay queued and un-credited, and no other stream is credited.  The buffer may be a
   registered or a released one (`lookup`).  Stated for a live connection: on a closed one the acknowledgement's
   flush() may raise (deleted transport), depending on h2's outbound queue, which is not modelled *)
Theorem C08_read_credits_minimal_prefix :
  forall s sid size b s' o,
  closing s = false -> lookup sid (reg s) = Some b -> bpend b = None -> 0 < size ->
  step s (Read sid size) = (s', o) ->
  exists p r b', bq b = p ++ r /\ lookup sid (reg s') = Some b' /\ bq b' = r /\ brel b' = brel b /\
    credited sid o = qsum p /\ credited_conn o = qsum p /\ (forall x, x <> sid -> credited x o = 0) /\
    queued sid s' = qsum r /\
    (forall p1 it p2, p = p1 ++ it :: p2 -> backed b + lsum p1 < size) /\
    (r = [] \/ size <= backed b + lsum p \/ exists p0 m, p = p0 ++ [m] /\ it_ack m = 0).
Proof. exact read_backpressure_live. Qed.
Print Assumptions C08_read_credits_minimal_prefix.

(* (3') the same when a read that was blocked on the empty queue is resumed *)
Theorem C08_resumed_read_credits_minimal_prefix :
  forall s sid size b s' o,
  closing s = false -> lookup sid (reg s) = Some b -> bpend b = Some size -> bq b <> [] ->
  step s (Wake sid) = (s', o) ->
  exists p r b', bq b = p ++ r /\ lookup sid (reg s') = Some b' /\ bq b' = r /\ brel b' = brel b /\
    credited sid o = qsum p /\ credited_conn o = qsum p /\ (forall x, x <> sid -> credited x o = 0) /\
    queued sid s' = qsum r /\
    (forall p1 it p2, p = p1 ++ it :: p2 -> backed b + lsum p1 < size) /\
    (r = [] \/ size <= backed b + lsum p \/ exists p0 m, p = p0 ++ [m] /\ it_ack m = 0).
Proof. exact wake_backpressure_live. Qed.
Print Assumptions C08_resumed_read_credits_minimal_prefix.

(* (3'') data arriving for an active (registered) call is queued, not credited *)
Theorem C08_data_buffered_not_credited :
  forall s sid n pad b s' o,
  lookup_live sid (reg s) = Some b -> step s (Data sid n pad) = (s', o) ->
  (forall x, credited x o = 0) /\ credited_conn o = 0 /\ received sid o = fcl n pad /\
  held sid s' = held sid s + fcl n pad.
Proof. exact data_registered_not_credited. Qed.
Print Assumptions C08_data_buffered_not_credited.

(* (4) release on a live connection credits everything that is still queued, for that stream only, unregisters
   it and leaves its buffer EMPTY (unacked_size() drains the queue) *)
Theorem C08_release_credits_rest :
  forall s sid b s' o,
  lookup_live sid (reg s) = Some b -> closing s = false -> step s (Release sid) = (s', o) ->
  credited sid o = qsum (bq b) /\ credited_conn o = qsum (bq b) /\ (forall x, x <> sid -> credited x o = 0) /\
  lookup_live sid (reg s') = None /\ held sid s' = 0 /\ queued sid s' = 0 /\
  (forall x, x <> sid -> lookup x (reg s') = lookup x (reg s)).
Proof. exact release_credits_rest. Qed.
Print Assumptions C08_release_credits_rest.

(* (4') release_stream is idempotent (it runs from the handler's `finally` and from the task's done-callback) *)
Theorem C08_release_idempotent :
  forall s sid s1 o1, step s (Release sid) = (s1, o1) -> step s1 (Release sid) = (s1, []).
Proof. exact release_idempotent. Qed.
Print Assumptions C08_release_idempotent.

(* (4'') on a closing connection the release acknowledges nothing: the queued credit stays in the released
   buffer (this is why (6) and (7) are statements about live connections) *)
Theorem C08_closing_release_forfeits :
  forall s sid b s' o,
  lookup_live sid (reg s) = Some b -> closing s = true -> step s (Release sid) = (s', o) ->
  (forall x, credited x o = 0) /\ credited_conn o = 0 /\ dropped sid o = qsum (bq b) /\
  lookup_live sid (reg s') = None /\ held sid s' = 0 /\ forfeited sid s' = qsum (bq b).
Proof. exact release_closing_forfeits. Qed.
Print Assumptions C08_closing_release_forfeits.

(* (5) DATA for an unknown / already finished stream is credited at once, in full *)
Theorem C08_unknown_stream_credited_at_once :
  forall s sid n pad s' o,
  lookup_live sid (reg s) = None -> step s (Data sid n pad) = (s', o) ->
  s' = s /\ received sid o = fcl n pad /\ credited sid o = fcl n pad /\
  received_conn o = fcl n pad /\ credited_conn o = fcl n pad.
Proof. exact data_unregistered_credited_at_once. Qed.
Print Assumptions C08_unknown_stream_credited_at_once.

(* (6) no leak: on a live connection every released stream has been credited in full, and once all streams
   are released so has the connection *)
Theorem C08_no_leak :
  forall h s o, legal init h = true -> run init h = (s, o) -> closing s = false ->
  (forall x, lookup_live x (reg s) = None -> credited x o = received x o) /\
  ((forall x, lookup_live x (reg s) = None) -> credited_conn o = received_conn o).
Proof. exact no_leak. Qed.
Print Assumptions C08_no_leak.

(* (6') read after release: on a live connection every released buffer is empty, nothing is forfeited ... *)
Theorem C08_released_buffers_empty :
  forall h s o, run init h = (s, o) -> closing s = false ->
  (forall x b, lookup x (reg s) = Some b -> brel b = true -> bq b = []) /\
  (forall x, forfeited x s = 0) /\ forfeited_conn s = 0.
Proof. exact released_buffers_empty. Qed.
Print Assumptions C08_released_buffers_empty.

(* (6'') ... so a read (or a resumed read) on it -- a reader left running after the call, a recv_message()
   after the `async with` block -- acknowledges nothing a second time *)
Theorem C08_read_on_empty_queue_credits_nothing :
  forall s sid b e s' o,
  lookup sid (reg s) = Some b -> bq b = [] -> (exists size, e = Read sid size) \/ e = Wake sid ->
  step s e = (s', o) -> (forall x, credited x o = 0) /\ credited_conn o = 0 /\ queued sid s' = 0.
Proof. exact read_empty_queue_credits_nothing. Qed.
Print Assumptions C08_read_on_empty_queue_credits_nothing.

(* (6''') credit never waits for write-readiness: pausing / resuming the transport is an identity step, so all
   theorems above hold verbatim for histories with pauses anywhere (acknowledgements are made while paused) *)
Theorem C08_pause_resume_identity :
  forall s, step s Pause = (s, []) /\ step s Resume = (s, []).
Proof. exact pause_resume_identity. Qed.
Print Assumptions C08_pause_resume_identity.

(* (7) exactly once: at every earlier moment (after the prefix h1) the credit of a stream is below what it had
   received then, credit and receipts only grow, and at the end they are equal *)
Theorem C08_exactly_once :
  forall h1 h2 s1 o1 s o,
  forallb event_ok (h1 ++ h2) = true -> legal init (h1 ++ h2) = true ->
  run init h1 = (s1, o1) -> run init (h1 ++ h2) = (s, o) -> closing s = false ->
  forall x, lookup_live x (reg s) = None ->
  credited x o1 <= received x o1 /\ received x o1 <= received x o /\ credited x o1 <= credited x o /\
  credited x o = received x o.
Proof. exact exactly_once. Qed.
Print Assumptions C08_exactly_once.

(* (8) for every legal configuration the windows the peer derives from the connection preface are the
   configured ones; bounds are the ones in the source (Gen.Facts is regenerated from /repo on every run) *)
Theorem C08_windows_advertised :
  forall cw sw, cfg_wmin <= cw <= cfg_wmax -> cfg_wmin <= sw <= cfg_wmax ->
  configure cw sw = Some (cw, sw) /\
  exists p, connection_made cw sw = Some p /\ advertised_conn p = cw /\ advertised_stream p = sw.
Proof. exact windows_advertised. Qed.
Print Assumptions C08_windows_advertised.

(* (8') everything else is rejected by Configuration ... *)
Theorem C08_windows_rejected :
  forall cw sw, ~ (cfg_wmin <= cw <= cfg_wmax /\ cfg_wmin <= sw <= cfg_wmax) -> configure cw sw = None.
Proof. exact windows_rejected. Qed.
Print Assumptions C08_windows_rejected.

(* (8'') ... and has to be: h2 refuses the preface for a connection window outside [65535, 2^31-1] *)
Theorem C08_preface_needs_validation :
  forall cw sw, cw < 65535 \/ 2147483647 < cw -> connection_made cw sw = None.
Proof. exact preface_needs_validation. Qed.
Print Assumptions C08_preface_needs_validation.

Theorem C08_source_bounds : cfg_wmin = 65535 /\ cfg_wmax = 2147483647.
Proof. exact source_bounds. Qed.
Print Assumptions C08_source_bounds.
