(* C14 -- Status code, message and details reach the caller unchanged.
   This file holds only the property theorems; each is closed by `exact` of a lemma proved in
   Proofs/C14Proofs.v and followed by Print Assumptions.  Non-vacuity: Proofs/C14Examples.v. *)
From Coq Require Import ZArith List Bool String.
From GV Require Import Lib.Str Gen.Facts Model.Base64 Model.Metadata Model.Utf8 Model.Percent
  Model.StatusWire Proofs.C14Proofs Proofs.C14Examples.
Import ListNotations.
Open Scope Z_scope.

(* (1) UTF-8: every string of scalar values (all four length classes) encodes to bytes that
   CPython's decoder maps back to the same string *)
Theorem C14_utf8_roundtrip :
  forall s, scalars_ok s = true ->
  exists b, utf8_encode s = Some b /\ bytes_ok b = true /\ utf8_decode_replace b = s.
Proof. exact utf8_encode_some. Qed.
Print Assumptions C14_utf8_roundtrip.

(* (2) decode_grpc_message (encode_grpc_message s) = s for EVERY message without lone surrogates:
   '%', CR/LF, NUL, non-BMP, text that looks like an escape, the empty string *)
Theorem C14_message_roundtrip :
  forall s, scalars_ok s = true ->
  exists e, encode_grpc_message s = Some e /\ decode_grpc_message e = s.
Proof. exact message_roundtrip. Qed.
Print Assumptions C14_message_roundtrip.

(* (3) the grpc-message on the wire: printable ASCII only (0x20..0x7E), and '%' only as the
   introducer of an escape with two upper-case hexadecimal digits *)
Theorem C14_message_wire_safe :
  forall s e, encode_grpc_message s = Some e ->
  forallb printable e = true /\ well_escaped e = true.
Proof. exact message_wire_safe. Qed.
Print Assumptions C14_message_wire_safe.

(* (3') the error branch of the real encoder (UnicodeEncodeError) is taken exactly by the
   strings the property excludes: those holding a lone surrogate *)
Theorem C14_encode_error_iff_surrogate :
  forall s, encode_grpc_message s = None <-> scalars_ok s = false.
Proof. exact encode_msg_error_iff. Qed.
Print Assumptions C14_encode_error_iff_surrogate.

(* (4) status, message and details bytes survive trailers + client parse: every member of Status
   except OK, message None / "" / any scalar string, details None / any bytes, with or without a
   status-details codec on either side.
   FULL STATEMENT (false of the code, see C14_status_roundtrip_all_refuted): the same without
   `st <> status_ok`. *)
Theorem C14_status_roundtrip_partial :
  forall sc cc st msg det,
  In st status_values -> st <> status_ok -> msg_valid msg = true -> det_valid det = true ->
  exists hs, status_trailers sc st msg det = Some hs /\
             process_grpc_status cc hs = CStatus st msg (if sc && cc then det else None).
Proof. exact status_roundtrip. Qed.
Print Assumptions C14_status_roundtrip_partial.

(* (4-refuted) for status OK the client keeps neither message nor details: witness
   (OK, "x", None), replayed on the implementation by the driver *)
Theorem C14_status_roundtrip_all_refuted :
  exists st msg det,
    In st status_values /\ msg_valid msg = true /\ det_valid det = true /\
    exists hs, status_trailers true st msg det = Some hs /\
               process_grpc_status true hs <> CStatus st msg det.
Proof. exact status_roundtrip_all_refuted. Qed.
Print Assumptions C14_status_roundtrip_all_refuted.

(* (4-OK) what does happen for OK: no GRPCError at all, nothing carried *)
Theorem C14_ok_status_carries_nothing :
  forall sc cc msg det, msg_valid msg = true ->
  In status_ok status_values /\
  exists hs, status_trailers sc status_ok msg det = Some hs /\
             process_grpc_status cc hs = CStatus status_ok None None /\
             raises_grpc_error (CStatus status_ok None None) = false.
Proof. exact ok_status_carries_nothing. Qed.
Print Assumptions C14_ok_status_carries_nothing.

(* (5) the same round trip inside a complete (trailers-only) block: protocol headers in front,
   the user's trailing metadata as encode_metadata emits it (C13) behind *)
Theorem C14_status_roundtrip_in_block :
  forall st msg det pre md hmd,
  In st status_values -> st <> status_ok -> msg_valid msg = true -> det_valid det = true ->
  status_free pre = true -> md_typed md = true -> encode_metadata md = Ok hmd ->
  exists hs, status_trailers true st msg det = Some hs /\
             process_grpc_status true (pre ++ hs ++ hmd) = CStatus st msg det.
Proof. exact status_roundtrip_in_block. Qed.
Print Assumptions C14_status_roundtrip_in_block.

(* (6) ... and through the receiving h2 (ASCII header decoding), which never refuses what the
   server produced *)
Theorem C14_status_roundtrip_through_h2 :
  forall st msg det,
  In st status_values -> st <> status_ok -> msg_valid msg = true -> det_valid det = true ->
  exists hs, status_trailers true st msg det = Some hs /\
             client_receive true hs = RStatus (CStatus st msg det).
Proof. exact status_roundtrip_through_h2. Qed.
Print Assumptions C14_status_roundtrip_through_h2.

(* (7) a lone surrogate in the message: the report never reaches the wire (error branch) *)
Theorem C14_surrogate_message_error :
  forall sc st m det, scalars_ok m = false -> status_trailers sc st (Some m) det = None.
Proof. exact surrogate_message_error. Qed.
Print Assumptions C14_surrogate_message_error.

(* (8) decoding never fails.  The model decoder is a total function BY CONSTRUCTION (this clause
   is carried by the correspondence on malformed inputs); what is proved is that whatever ASCII
   text arrives, its result is a valid str (scalar values only) ... *)
Theorem C14_decode_yields_valid_str :
  forall v, ascii_ok v = true -> scalars_ok (decode_grpc_message v) = true.
Proof. exact decode_yields_valid_str. Qed.
Print Assumptions C14_decode_yields_valid_str.

(* ... for every byte string CPython's UTF-8 decoder with errors='replace' returns scalar values ... *)
Theorem C14_utf8_decode_total_valid :
  forall l, bytes_ok l = true -> scalars_ok (utf8_decode_replace l) = true.
Proof. exact dec_scalars. Qed.
Print Assumptions C14_utf8_decode_total_valid.

(* ... every trailers block of ASCII bytes gets an answer from the client, whose message (if any)
   is a valid str.
   FULL STATEMENT (false of the code, see C14_receive_total_refuted): for every block of bytes. *)
Theorem C14_receive_total_partial :
  forall cc raw, headers_ascii raw = true ->
  client_receive cc raw = RStatus (process_grpc_status cc raw).
Proof. exact receive_total_partial. Qed.
Print Assumptions C14_receive_total_partial.

Theorem C14_received_message_valid :
  forall cc raw st m det,
  client_receive cc raw = RStatus (CStatus st (Some m) det) -> scalars_ok m = true.
Proof. exact received_message_valid. Qed.
Print Assumptions C14_received_message_valid.

(* (8-refuted) a grpc-message holding a raw non-ASCII byte (an unescaped UTF-8 message) is not
   decoded at all: h2 raises UnicodeDecodeError, grpclib closes the connection and the call ends
   with StreamTerminatedError instead of the GRPCError of the status sent: witness replayed by the
   driver *)
Theorem C14_receive_total_refuted :
  exists raw, forallb (fun kv => bytes_ok (fst kv) && bytes_ok (snd kv)) raw = true /\
              client_receive true raw = RConnError.
Proof. exact receive_total_refuted. Qed.
Print Assumptions C14_receive_total_refuted.

(* (9) the tables of the model are the ones in the source (Gen.Facts is regenerated from /repo
   on every run): _UNQUOTED = 0x20..0x7E without '%', 17 Status members 0..16 with OK = 0, the
   details key *)
Theorem C14_source_facts :
  unquoted = map Z.of_nat (seq 32 5) ++ map Z.of_nat (seq 38 89) /\
  List.length status_members = 17%nat /\ status_ok = 0 /\
  status_values = map Z.of_nat (seq 0 17) /\
  status_details_key = s2z "grpc-status-details-bin".
Proof. exact source_facts. Qed.
Print Assumptions C14_source_facts.
