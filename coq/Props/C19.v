(* C19 -- Health service reports the true aggregate and never misses the latest change.
   This file holds only the property theorems; each is closed by `exact` of a lemma proved in
   Proofs/C19*.v and followed by Print Assumptions.  Non-vacuity examples: Proofs/C19Examples.v.
   Status values: STrue / SFalse / SNone = Python True / False / None.  Times are Z ticks. *)
From Coq Require Import ZArith List Bool.
From GV Require Import Gen.FactsC19 Model.Health Proofs.C19Proofs Proofs.C19WatchProofs Proofs.C19CheckProofs
  Proofs.C19PollProofs Proofs.C19Examples.
Import ListNotations.
Open Scope Z_scope.

(* ================================================================================================ *)
(* (1) the aggregate: truth table for ALL lists of check statuses, of every length *)

Theorem C19_aggregate_serving :
  forall l, agg_status l = R_SERVING <-> l <> [] /\ (forall s, In s l -> s = STrue).
Proof. exact agg_serving_iff. Qed.
Print Assumptions C19_aggregate_serving.

Theorem C19_aggregate_unknown :
  forall l, agg_status l = R_UNKNOWN <-> l <> [] /\ (forall s, In s l -> s = SNone).
Proof. exact agg_unknown_iff. Qed.
Print Assumptions C19_aggregate_unknown.

Theorem C19_aggregate_not_serving_otherwise :
  forall l, agg_status l = R_NOT_SERVING <->
            ~ (l <> [] /\ (forall s, In s l -> s = STrue)) /\ ~ (l <> [] /\ (forall s, In s l -> s = SNone)).
Proof. exact agg_not_serving_iff. Qed.
Print Assumptions C19_aggregate_not_serving_otherwise.

(* the aggregate is a function of the SET of statuses: order and multiplicity of the checks are irrelevant *)
Theorem C19_aggregate_depends_on_set :
  forall l1 l2, (forall s, In s l1 <-> In s l2) -> agg_status l1 = agg_status l2.
Proof. exact agg_status_set. Qed.
Print Assumptions C19_aggregate_depends_on_set.

(* Health.Check: NOT_FOUND (grpc-status 5) for an unregistered service ... *)
Theorem C19_check_unregistered_not_found :
  forall reg vals name, lookup reg name = None -> check_rpc reg vals name = CA_Status 5.
Proof. exact check_unregistered. Qed.
Print Assumptions C19_check_unregistered_not_found.

(* ... SERVING exactly when all checks of the service pass (in particular when it has none), UNKNOWN
   exactly when there are checks and all are unknown, NOT_SERVING otherwise *)
Theorem C19_check_registered :
  forall reg vals name cs, lookup reg name = Some cs ->
  exists r, check_rpc reg vals name = CA_Resp r /\
    (r = R_SERVING <-> (forall i, In i cs -> val_of vals i = STrue)) /\
    (r = R_UNKNOWN <-> cs <> [] /\ (forall i, In i cs -> val_of vals i = SNone)) /\
    (r = R_SERVING \/ r = R_UNKNOWN \/ r = R_NOT_SERVING).
Proof. exact check_registered. Qed.
Print Assumptions C19_check_registered.

(* Health.__init__: OVERALL ('' = name 0) defaults to the union of all check lists *)
Theorem C19_registry_default_overall :
  forall (cfg : list (Z * list nat)) name,
  existsb (fun kv => fst kv =? overall) cfg = false ->
  lookup (health_init (Some cfg)) name =
    (if overall =? name then Some (dedup (concat (map snd cfg))) else option_map dedup (lookup cfg name)) /\
  (forall i, In i (dedup (concat (map snd cfg))) <-> exists kv, In kv cfg /\ In i (snd kv)).
Proof. exact registry_default_overall. Qed.
Print Assumptions C19_registry_default_overall.

(* ================================================================================================ *)
(* (2) Watch.  wstep/wrun: ANY interleaving of ServiceStatus.set / ServiceCheck results (OSet), new
   watchers on any service (OWatch), and per watcher: steps of its wait tasks, asyncio.wait completion
   callbacks, the Watch task, a blocked send_message returning, cancellation (OLocal). *)

(* the first message is the status at subscription time (SERVICE_UNKNOWN for an unregistered service) *)
Theorem C19_watch_first_message :
  forall s name slow,
  exists w, s_ws (wstep s (OWatch name slow)) = s_ws s ++ [w] /\
            w_sent w = [watch_status (s_reg s) (s_vals s) name].
Proof. exact watch_first_message. Qed.
Print Assumptions C19_watch_first_message.

(* messages are only appended, and each is the aggregate at the moment it is sent *)
Theorem C19_watch_messages_truthful :
  forall s op k w w',
  nth_error (s_ws s) k = Some w -> nth_error (s_ws (wstep s op)) k = Some w' ->
  w_sent w' = w_sent w \/ w_sent w' = cur_status (s_vals s) (w_slots w') :: w_sent w.
Proof. exact watch_messages_truthful. Qed.
Print Assumptions C19_watch_messages_truthful.

(* no missed update: in every state reachable by any op list, a watcher with nothing pending (Watch task
   suspended in asyncio.wait, every wait task suspended on its event) has delivered the CURRENT
   aggregate last *)
Theorem C19_watch_no_missed_update :
  forall reg vals0 ops w,
  let s := wrun (winit reg vals0) ops in
  In w (s_ws s) -> w_pc w = PWaiting -> forallb slot_quiet (w_slots w) = true ->
  hd_error (w_sent w) = Some (cur_status (s_vals s) (w_slots w)).
Proof. exact watch_no_missed_update. Qed.
Print Assumptions C19_watch_no_missed_update.

(* ... and such a state is always reached: from every reachable state, with no further change, at most
   sys_mu internal steps (wait tasks, callbacks, Watch tasks, blocked sends returning) lead to a quiescent
   state in which every live watcher has delivered the current aggregate last *)
Theorem C19_watch_settles :
  forall s, wreach s ->
  exists ops, forallb internal ops = true /\ (length ops <= sys_mu s)%nat /\
              quiescent (wrun s ops) = true /\ s_vals (wrun s ops) = s_vals s /\
              (forall w, In w (s_ws (wrun s ops)) -> w_pc w = PWaiting ->
                         hd_error (w_sent w) = Some (cur_status (s_vals s) (w_slots w))).
Proof. exact r_watch_settles. Qed.
Print Assumptions C19_watch_settles.

(* EVERY schedule of enabled internal steps is that short (no busy loop, no flood of messages), and in a
   quiescent state internal steps change nothing *)
Theorem C19_watch_schedules_terminate :
  forall s ops, wreach s -> all_enabled s ops = true -> (length ops + sys_mu (wrun s ops) <= sys_mu s)%nat.
Proof. exact r_watch_schedules_terminate. Qed.
Print Assumptions C19_watch_schedules_terminate.

Theorem C19_watch_quiescent_is_stable :
  forall s ops, quiescent s = true -> forallb internal ops = true -> wrun s ops = s.
Proof. exact quiescent_stays. Qed.
Print Assumptions C19_watch_quiescent_is_stable.

(* the FIFO ready-queue runs executed by the correspondence check are op lists of the above kind *)
Theorem C19_fifo_is_schedule :
  forall fuel s q c, exists ops, fst (run_cmd fuel (s, q) c) = wrun s ops.
Proof. exact fifo_is_schedule. Qed.
Print Assumptions C19_fifo_is_schedule.

(* ================================================================================================ *)
(* (3) ServiceCheck.__check__.  kstep/krun: ANY sequence of new callers (KCall), function results
   (KFuncEnd: True / False / None / non-bool / raise), the deadline timer (KTimeout), Task.cancel on any
   caller (KCancel) and its delivery (KDeliver), woken waiters running (KResume), time passing (KAdvance). *)

(* never concurrently: at most one caller is inside the function, and the runs never overlap *)
Theorem C19_check_single_flight :
  forall ttl tmo t0 ops,
  let k := krun (kinit ttl tmo t0) ops in
  (count_run (k_callers k) <= 1)%nat /\ no_overlap (invocations k).
Proof. exact check_single_flight. Qed.
Print Assumptions C19_check_single_flight.

(* at most once per TTL -- FULL-STRENGTH statement (any two runs are check_ttl apart):
     forall ttl tmo t0 ops, strict_spaced ttl (invocations (krun (kinit ttl tmo t0) ops))
   is FALSE of the faithful model: a caller cancelled while it runs the function aborts the shared run,
   nothing is cached and the next call runs the function again at once.  Witness (replayed on the code by
   corpus/C19/rerun_after_abort.json): *)
Theorem C19_once_per_ttl_strict_refuted :
  exists ttl tmo ops, 0 < ttl /\ 0 < tmo /\ ~ strict_spaced ttl (invocations (krun (kinit ttl tmo 0) ops)).
Proof. exact once_per_ttl_strict_refuted. Qed.
Print Assumptions C19_once_per_ttl_strict_refuted.

(* strongest true statement: a run that produced a status (returned, raised, timed out -- everything but
   an abort by outside cancellation) is followed by the next run no earlier than check_ttl after its end *)
Theorem C19_once_per_ttl_partial :
  forall ttl tmo t0 ops, ttl_spaced ttl (invocations (krun (kinit ttl tmo t0) ops)).
Proof. exact check_once_per_ttl. Qed.
Print Assumptions C19_once_per_ttl_partial.

(* while the cached result is fresh a call returns it without running the function *)
Theorem C19_check_cached_no_run :
  forall k, cached k = true ->
  let k' := kstep k KCall in
  k_run k' = k_run k /\ k_log k' = k_log k /\ k_value k' = k_value k /\
  k_callers k' = k_callers k ++ [CRet (k_value k) (k_now k)].
Proof. exact check_cached_no_run. Qed.
Print Assumptions C19_check_cached_no_run.

(* every run is over by start + check_timeout *)
Theorem C19_check_timeout_bound :
  forall ttl tmo t0 ops,
  let k := krun (kinit ttl tmo t0) ops in
  forall s e h, In (s, e, h) (invocations k) ->
  0 < tmo /\ match e with Some e' => s <= e' <= s + tmo | None => s <= k_now k <= s + tmo end.
Proof. exact check_timeout_bound. Qed.
Print Assumptions C19_check_timeout_bound.

(* a caller is suspended only while a run is in flight, i.e. never beyond that run's start + check_timeout *)
Theorem C19_check_callers_not_blocked :
  forall ttl tmo t0 ops,
  let k := krun (kinit ttl tmo t0) ops in
  (In CWait (k_callers k) \/ exists b, In (CRun b) (k_callers k)) ->
  exists s p, k_run k = Some (s, Some (s + tmo), p) /\ s <= k_now k <= s + tmo /\ k_lock k = false.
Proof. exact check_callers_not_blocked. Qed.
Print Assumptions C19_check_callers_not_blocked.

(* raise / non-bool => the check counts as failing, the caller returns False, every waiter is released *)
Theorem C19_check_failure_is_false :
  forall k r, kreach k -> runner_state k = Some false -> r = FRaise \/ r = FNonBool ->
  let k' := kstep k (KFuncEnd r) in
  k_value k' = SFalse /\ k_last k' = Some (k_now k) /\ run_over k' /\
  (forall c b, nth_error (k_callers k) c = Some (CRun b) -> nth_error (k_callers k') c = Some (CRet SFalse (k_now k))).
Proof. exact r_failure_is_false. Qed.
Print Assumptions C19_check_failure_is_false.

(* running until check_timeout => the timer ends the run at exactly start + check_timeout (time cannot
   pass it), the check counts as failing, the caller returns False, every waiter is released *)
Theorem C19_check_timeout_is_false :
  forall k b s p,
  kreach k -> runner_state k = Some b -> k_run k = Some (s, Some (s + k_tmo k), p) -> k_now k = s + k_tmo k ->
  let k' := kstep k KTimeout in
  k_value k' = SFalse /\ k_last k' = Some (k_now k) /\ run_over k' /\
  In (s, Some (s + k_tmo k), Some HTimeout) (invocations k') /\
  (forall c b', nth_error (k_callers k) c = Some (CRun b') -> nth_error (k_callers k') c = Some (CRet SFalse (k_now k))) /\
  (forall dt, k_now (kstep k (KAdvance dt)) = k_now k).
Proof. exact r_timeout_is_false. Qed.
Print Assumptions C19_check_timeout_is_false.

(* check_timeout <= 0: failing at once, the function is not called *)
Theorem C19_check_zero_timeout :
  forall k, kreach k -> cached k = false -> k_lock k = true -> k_tmo k <= 0 ->
  let k' := kstep k KCall in
  k_value k' = SFalse /\ k_log k' = k_log k /\ k_run k' = None /\
  k_callers k' = k_callers k ++ [CRet SFalse (k_now k)].
Proof. exact r_zero_timeout. Qed.
Print Assumptions C19_check_zero_timeout.

(* the error branch of cancellation: an aborted run changes neither the value nor _last_check, notifies
   nobody, and releases the latch and the waiters *)
Theorem C19_check_abort_invisible :
  forall k, kreach k -> runner_state k = Some true ->
  let k' := kstep k KDeliver in
  k_value k' = k_value k /\ k_last k' = k_last k /\ k_notes k' = k_notes k /\ run_over k'.
Proof. exact r_abort_invisible. Qed.
Print Assumptions C19_check_abort_invisible.

(* a later check can succeed again (no sticky error) *)
Theorem C19_check_recovers :
  forall k, kreach k -> cached k = false -> k_lock k = true -> 0 < k_tmo k ->
  let k' := krun k [KCall; KFuncEnd FTrue] in
  k_value k' = STrue /\
  k_callers k' = end_callers (CRet STrue (k_now k)) (k_now k) (k_callers k) ++ [CRet STrue (k_now k)] /\
  run_over k'.
Proof. exact r_recovers. Qed.
Print Assumptions C19_check_recovers.

(* the value changes only together with a notification of the watchers: this is the OSet of part (2) *)
Theorem C19_check_change_notifies :
  forall k op, kreach k -> k_value (kstep k op) <> k_value k ->
  k_notes (kstep k op) = (k_now k, k_value (kstep k op)) :: k_notes k.
Proof. exact r_change_notifies. Qed.
Print Assumptions C19_check_change_notifies.

(* cancellation of a caller -- FULL-STRENGTH statement (a caller cancelled before it finished never
   returns a value) is FALSE of the faithful model: a Task.cancel() requested in the instant the deadline
   timer fires is swallowed (Wrapper.__exit__ turns the CancelledError into the TimeoutError that __check__
   catches).  On the code this lets the poll task survive __unsubscribe__, whose `await task` then never
   returns (corpus/C19/unsubscribe_at_deadline.json). *)
Theorem C19_cancel_reaches_caller_refuted :
  exists ttl tmo ops1 c ops2,
    nth_error (k_callers (krun (kinit ttl tmo 0) ops1)) c = Some (CRun false) /\
    nth_error (k_callers (krun (kinit ttl tmo 0) (ops1 ++ [KCancel c]))) c = Some (CRun true) /\
    nth_error (k_callers (krun (kinit ttl tmo 0) (ops1 ++ KCancel c :: ops2))) c = Some (CRet SFalse 80).
Proof. exact cancel_reaches_caller_refuted. Qed.
Print Assumptions C19_cancel_reaches_caller_refuted.

(* strongest true statement: if the deadline has not been reached, no step makes the cancelled caller
   return; the only step that changes it is the delivery of the CancelledError *)
Theorem C19_cancel_reaches_caller_partial :
  forall k c op, kreach k -> nth_error (k_callers k) c = Some (CRun true) ->
  (forall s dl p, k_run k = Some (s, dl, p) -> k_now k < s + k_tmo k) ->
  nth_error (k_callers (kstep k op)) c = Some (CRun true) \/
  nth_error (k_callers (kstep k op)) c = Some (CCancelled (k_now k)).
Proof. exact r_cancel_partial. Qed.
Print Assumptions C19_cancel_reaches_caller_partial.

(* ================================================================================================ *)
(* (3') the poll task behind Watch on a ServiceCheck.  pstep/prun: ANY interleaving of watchers subscribing,
   unsubscribing (the last one cancels the poll task and stays suspended in `await task`), cancelled poll
   tasks ending and suspended unsubscribes continuing -- including "the last one leaves, the next one joins"
   in adjacent loop iterations.  Whoever is subscribed is served by a live, un-cancelled poll task (which
   calls __check__ every check_ttl: the KCall of part (3)); the assert in __unsubscribe__ never fails. *)
Theorem C19_poll_alive :
  forall ops,
  let s := prun pinit ops in
  p_err s = false /\
  ((0 < p_events s)%nat -> exists t, p_poll s = Some t /\ In (t, false) (p_live s)) /\
  (p_events s = 0%nat -> p_poll s = None).
Proof. exact poll_alive. Qed.
Print Assumptions C19_poll_alive.

(* ================================================================================================ *)
(* (4) the model is instantiated with what the code does now (Gen.FactsC19: regenerated on every run by probing
   grpclib.health over the finite domains listed in tools/facts_C19.py) *)
Theorem C19_source_facts :
  status_table = [((true, true, true), 2); ((true, true, false), 2); ((true, false, true), 2); ((true, false, false), 1);
                  ((false, true, true), 2); ((false, true, false), 2); ((false, false, true), 0)] /\
  check_unregistered_grpc_status = 5 /\ check_empty_resp = 1 /\
  watch_unregistered_resp = 3 /\ watch_empty_resp = 1 /\
  watch_first_completed = true /\ reset_when_absent_or_done = true /\ reset_clears_then_waits = true /\
  watch_segment_atomic = true /\
  ttl_cmp = 0 /\ latch_cleared_before_run = true /\ latch_set_in_finally = true /\ func_guarded = true /\
  nonbool_is_type_error = true /\ check_failure_value = 0 /\
  check_notifies_on_change = true /\ set_notifies_on_change = true /\
  map snd serving_status_enum = [0; 1; 2; 3] /\
  subscribe_starts_poll_when_none = true /\ poll_cleared_before_await = true.
Proof. exact source_facts. Qed.
Print Assumptions C19_source_facts.
