(* C20 -- Generated stubs and service bases agree with the service definition.
   This file holds only the property theorems; each is closed by `exact` of a lemma proved in
   Proofs/C20Proofs.v (or Proofs/C20Examples.v for the refutation witnesses) and followed by
   Print Assumptions.

   Vocabulary (Model/Plugin.v, Proofs/C20Proofs.v):
     main req            the plugin's main() on a CodeGeneratorRequest: Ok [(output file, abstract module)]
                         or Err KeyError / StopIteration / TypeError
     resolves files t p  some file of the request declares a (possibly nested) message with full proto
                         name t, and p is "<its pb2 module>.<Outer>...<Inner>"
     unique_types files  no two declarations share a fully-qualified name (protoc guarantees this)
     exec_module am      what Python makes of the rendered module (trusted transcription, Part 2 of
                         the model): SyntaxError, or class name -> Base (abstract method keys,
                         __mapping__() result or NameError) / Stub (instance attributes or NameError) *)
From Coq Require Import ZArith List Bool String.
From GV Require Import Lib.Str Gen.Facts Gen.FactsC20 Model.Plugin Proofs.C20Proofs Proofs.C20Examples.
Import ListNotations.
Open Scope Z_scope.

(* (0) the model agrees with the REAL plugin on the probes: Gen.FactsC20 holds what main() of the
   repository under test answered, on this run, for 30 file paths (pb2 module imported by the generated
   code, output file name) and for the routes of 120 RPCs (Base mapping and Stub, packages empty /
   single / dotted).  A changed suffix, replacement, route shape ... changes the table and breaks this
   proof; a refactoring that keeps the behaviour keeps the table. *)
Theorem C20_source_probes :
  forallb names_agree names_probe = true /\ forallb route_agrees route_probe = true /\
  Nat.leb 20 (List.length names_probe) = true /\ Nat.leb 40 (List.length route_probe) = true /\
  existsb (fun r => negb (nonempty (fst (fst r)))) route_probe = true.
Proof. exact source_probes. Qed.
Print Assumptions C20_source_probes.

(* (1) the cardinality tables (observed over their complete finite domains): the flags lookup of
   main() is total, each member means the flags it is found under (const.Cardinality), render picks a
   client class for it, and that class opens streams with the same member *)
Theorem C20_cardinality_tables :
  forall cs ss, exists c cls,
    cardinality_of cs ss = Some c /\ member_flags c = Some (cs, ss) /\
    method_cls c = Some cls /\ class_cardinality cls = Some c.
Proof. exact cardinality_tables. Qed.
Print Assumptions C20_cardinality_tables.

(* (1') ... and it is a bijection between the 4 flag pairs and the 4 members of const.Cardinality *)
Theorem C20_cardinality_bijection :
  (forall cs ss cs' ss', cardinality_of cs ss = cardinality_of cs' ss' -> (cs, ss) = (cs', ss')) /\
  List.length cardinality_members = 4%nat /\
  (forall name flags, In (name, flags) cardinality_members ->
                      cardinality_of (fst flags) (snd flags) = Some name).
Proof. exact cardinality_bijection. Qed.
Print Assumptions C20_cardinality_bijection.

(* (2) module names, for every path: strip one ".protodevel" or else one ".proto", then '-' -> '_'
   and '/' -> '.', then the suffix; the output file is the grpc module with '.' -> '/' plus ".py" *)
Theorem C20_module_names :
  forall p,
    pb2_module_name p = map dash_slash (strip_proto p) ++ s2z "_pb2" /\
    grpc_module_name p = map dash_slash (strip_proto p) ++ s2z "_grpc" /\
    out_file_name p = map (fun c => if c =? 46 then 47 else c) (grpc_module_name p) ++ s2z ".py".
Proof. exact module_names. Qed.
Print Assumptions C20_module_names.

Theorem C20_strip_proto :
  (forall b, strip_proto (b ++ s2z ".protodevel") = b) /\
  (forall b, strip_proto (b ++ s2z ".proto") = b) /\
  (forall p, ends_with (s2z ".protodevel") p = false -> ends_with (s2z ".proto") p = false ->
             strip_proto p = p).
Proof. exact strip_proto_cases. Qed.
Print Assumptions C20_strip_proto.

(* (3) type resolution, for ALL descriptor sets with unique fully-qualified names: a message declared
   in any file f of the request (top-level or nested to any depth: `declares (f_msgs f) path`),
   looked up by its full proto name, yields "<pb2 module of f>.<Outer>...<Inner>" *)
Theorem C20_type_resolution :
  forall files f path,
    unique_types files -> In f files -> declares (f_msgs f) path ->
    lookup_last (proto_name (f_package f) path) (types_entries files)
    = Some (py_name (pb2_module_name (f_name f)) path).
Proof.
  exact (fun files f path Hu Hf Hd =>
           lookup_complete files _ _ Hu
             (ex_intro _ f (ex_intro _ path (conj Hf (conj Hd (conj eq_refl eq_refl)))))).
Qed.
Print Assumptions C20_type_resolution.

(* (3') for ALL descriptor sets (no uniqueness assumed): whatever the lookup returns is the python path
   of a declaration with exactly that full name; it fails (KeyError) exactly for undeclared names;
   with duplicate full names the declaration in the later file wins (dict.update) *)
Theorem C20_type_lookup_sound :
  forall files t py, lookup_last t (types_entries files) = Some py -> resolves files t py.
Proof. exact lookup_sound. Qed.
Print Assumptions C20_type_lookup_sound.

Theorem C20_type_lookup_keyerror :
  forall files t, lookup_last t (types_entries files) = None <-> ~ exists py, resolves files t py.
Proof. exact lookup_none. Qed.
Print Assumptions C20_type_lookup_keyerror.

Theorem C20_duplicate_type_later_file_wins :
  forall files1 files2 t py,
    lookup_last t (types_entries files2) = Some py ->
    lookup_last t (types_entries (files1 ++ files2)) = Some py.
Proof. exact lookup_later_file_wins. Qed.
Print Assumptions C20_duplicate_type_later_file_wins.

(* (4) main() succeeds -- one output file per file_to_generate, named <dir>/<base>_grpc.py -- whenever
   every file to generate is in the request and all types its methods reference are declared in some
   file of the request ... *)
Theorem C20_main_succeeds :
  forall req,
    (forall g, In g (r_gen req) ->
       exists pf, get_proto (r_files req) g = Some pf /\ all_types_declared (r_files req) pf) ->
    exists mods, main req = Ok mods /\ map fst mods = map out_file_name (r_gen req).
Proof. exact main_succeeds. Qed.
Print Assumptions C20_main_succeeds.

(* (4') ... and the error branches, covered explicitly: it raises exactly StopIteration for a file to
   generate that is not in the request, KeyError for a referenced type no file declares; TypeError
   (render's last else) is unreachable *)
Theorem C20_main_raises :
  forall req e,
    main req = Err e ->
    exists g, In g (r_gen req) /\
      ((e = EStopIteration /\ ~ In g (map f_name (r_files req))) \/
       (e = EKeyError /\ exists pf, get_proto (r_files req) g = Some pf /\
                                    ~ all_types_declared (r_files req) pf)).
Proof. exact main_raises. Qed.
Print Assumptions C20_main_raises.

Theorem C20_undeclared_type_raises :
  forall req g pf,
    In g (r_gen req) -> get_proto (r_files req) g = Some pf ->
    ~ all_types_declared (r_files req) pf -> exists e, main req = Err e.
Proof. exact main_undeclared_type_raises. Qed.
Print Assumptions C20_undeclared_type_raises.

Theorem C20_missing_file_raises :
  forall req g, In g (r_gen req) -> ~ In g (map f_name (r_files req)) -> exists e, main req = Err e.
Proof. exact main_missing_file_raises. Qed.
Print Assumptions C20_missing_file_raises.

(* (5) THE PER-RPC STATEMENT.  For ALL descriptor sets with unique fully-qualified names: every RPC m
   of every service s of every generated file pf appears in the rendered module with an abstract
   method of its name, a Base mapping entry and a Stub attribute, both at the route
   "/" ++ (package ++ "." if package non-empty) ++ service ++ "/" ++ method, with the cardinality
   member whose flags are the declared (client_streaming, server_streaming), the client class of that
   cardinality, and request/reply resolved to the python paths rq, rp of the declared types
   (nested and imported ones: `resolves`). *)
Theorem C20_rpc_rendered :
  forall req mods g pf s m rq rp,
    unique_types (r_files req) ->
    main req = Ok mods -> In g (r_gen req) -> get_proto (r_files req) g = Some pf ->
    In s (f_services pf) -> In m (sv_methods s) ->
    resolves (r_files req) (me_in m) rq -> resolves (r_files req) (me_out m) rp ->
    exists am a c cls,
      In (out_file_name g, am) mods /\ In a (a_classes am) /\ as_name a = sv_name s /\
      cardinality_of (me_cs m) (me_ss m) = Some c /\ member_flags c = Some (me_cs m, me_ss m) /\
      method_cls c = Some cls /\ class_cardinality cls = Some c /\
      In (me_name m) (as_abstract a) /\
      In (MapEntry (route (f_package pf) (sv_name s) (me_name m)) (me_name m) c rq rp) (as_mapping a) /\
      In (StubEntry (me_name m) cls (route (f_package pf) (sv_name s) (me_name m)) rq rp) (as_stub a).
Proof. exact rpc_rendered. Qed.
Print Assumptions C20_rpc_rendered.

(* (5') the route, spelled out: no leading dot when the package is empty *)
Theorem C20_route_with_package :
  forall pkg svc m, pkg <> [] -> route pkg svc m = s2z "/" ++ pkg ++ s2z "." ++ svc ++ s2z "/" ++ m.
Proof. exact route_nonempty_package. Qed.
Print Assumptions C20_route_with_package.

Theorem C20_route_empty_package :
  forall svc m, route [] svc m = s2z "/" ++ svc ++ s2z "/" ++ m.
Proof. exact route_empty_package. Qed.
Print Assumptions C20_route_empty_package.

(* (6) nothing else is rendered, for ALL descriptor sets on which main() succeeds: one class pair per
   declared service in order; abstract methods = mapping functions = stub attributes = exactly the
   declared RPC names, in declaration order; a file without services has no imports and no classes;
   otherwise the imports are abc, typing, grpclib.const, grpclib.client, the pb2 modules of the direct
   dependencies and the file's own pb2 module *)
Theorem C20_module_shape :
  forall req mods g pf,
    main req = Ok mods -> In g (r_gen req) -> get_proto (r_files req) g = Some pf ->
    exists am, In (out_file_name g, am) mods /\ a_source am = f_name pf /\
      (f_services pf = [] -> a_imports am = [] /\ a_guarded am = [] /\ a_classes am = []) /\
      (f_services pf <> [] ->
         a_imports am = std_imports ++ map pb2_module_name (f_deps pf ++ [g]) /\
         a_guarded am = guarded_imports) /\
      Forall2 (service_shape (f_package pf)) (f_services pf) (a_classes am).
Proof. exact module_shape. Qed.
Print Assumptions C20_module_shape.

(* (6') "exactly once": with distinct RPC names in a service, no route, function or attribute repeats *)
Theorem C20_exactly_once :
  forall pkg s a,
    service_shape pkg s a -> NoDup (map me_name (sv_methods s)) ->
    NoDup (as_abstract a) /\ NoDup (map e_route (as_mapping a)) /\ NoDup (map e_func (as_mapping a)) /\
    NoDup (map s_attr (as_stub a)) /\ NoDup (map s_route (as_stub a)) /\
    List.length (as_mapping a) = List.length (sv_methods s) /\ List.length (as_stub a) = List.length (sv_methods s).
Proof. exact shape_exactly_once. Qed.
Print Assumptions C20_exactly_once.

(* (7) Base mapping and Stub agree with each other entry by entry, in EVERY module main() renders:
   same route, name, request and reply type; the stub's client class is the one render picks for the
   mapping entry's cardinality and carries that cardinality itself *)
Theorem C20_base_stub_agree :
  forall req mods nm a,
    main req = Ok mods -> In nm mods -> In a (a_classes (snd nm)) ->
    Forall2 agree (as_mapping a) (as_stub a).
Proof. exact base_stub_agree. Qed.
Print Assumptions C20_base_stub_agree.

(* (8) duplicate names (protoc rejects them; stated instead of assumed away): Python binds a repeated
   key -- method name in the class body, route in the dict literal, attribute in __init__, class name
   in the module -- to its LAST value, keeps one binding per key, and changes nothing when keys are
   distinct *)
Theorem C20_duplicate_names_last_wins :
  forall (l : list (str * map_entry)),
    (forall k, assoc_str k (dict_of l) = lookup_last k l) /\ NoDup (map fst (dict_of l)) /\
    (NoDup (map fst l) -> dict_of l = l).
Proof. exact dict_semantics. Qed.
Print Assumptions C20_duplicate_names_last_wins.

(* (9) THE EXECUTED MODULE.
   FULL statement (FALSE, see the three refutations below): for every descriptor set protoc can hand
   over (proto identifiers, unique names, every referenced type declared in a file of the request)
   the generated module imports and its executed classes are exactly the rendered ones.
   PARTIAL (proved): the same under
     - definition_clean: service names distinct, RPC names distinct and not of the form __x, every
       referenced type declared in the file itself or a DIRECT dependency (excludes D31),
     - syntax_ok am: every emitted identifier is a Python identifier and no keyword (excludes D32),
     - modelled am: no dunder RPC names, no top-level pb2 package named like a generated class
       (excludes D33's dunder half and D34; outside the transcription of Python). *)
Theorem C20_executed_module_partial :
  forall req mods g pf,
    unique_types (r_files req) ->
    main req = Ok mods -> In g (r_gen req) -> get_proto (r_files req) g = Some pf ->
    definition_clean (r_files req) pf ->
    exists am, In (out_file_name g, am) mods /\
      (syntax_ok am = true -> modelled am = true -> exec_module am = Ok (ideal_exec am)).
Proof. exact executed_module. Qed.
Print Assumptions C20_executed_module_partial.

(* D31: types reaching the file through `import public` -- __mapping__() and Stub() raise NameError *)
Theorem C20_executed_module_any_refuted :
  exists req mods g pf am,
    proto_idents req = true /\ unique_types (r_files req) /\ NoDup (map f_name (r_files req)) /\
    main req = Ok mods /\ In g (r_gen req) /\ get_proto (r_files req) g = Some pf /\
    definition_clean_any (r_files req) pf /\ In (out_file_name g, am) mods /\
    syntax_ok am = true /\ modelled am = true /\
    exec_module am = Ok [ (s2z "SBase", CBase (EBase [s2z "Foo"] (Err ENameError)));
                          (s2z "SStub", CStub (EStub (Err ENameError))) ].
Proof. exact executed_module_any_refuted. Qed.
Print Assumptions C20_executed_module_any_refuted.

(* D32: "imports cleanly" fails for an RPC named like a Python keyword (a valid proto identifier) *)
Theorem C20_imports_cleanly_refuted :
  exists req mods nm, proto_idents req = true /\ unique_types (r_files req) /\
    main req = Ok mods /\ In nm mods /\ exec_module (snd nm) = Err ESyntaxError.
Proof. exact imports_cleanly_refuted. Qed.
Print Assumptions C20_imports_cleanly_refuted.

(* D33: an RPC named __Foo is rendered under its name but bound under per-class mangled names *)
Theorem C20_declared_names_refuted :
  exists req mods nm b st attrs,
    proto_idents req = true /\ unique_types (r_files req) /\ main req = Ok mods /\ In nm mods /\
    syntax_ok (snd nm) = true /\ modelled (snd nm) = true /\
    exec_module (snd nm) = Ok [(s2z "SBase", CBase b); (s2z "SStub", CStub st)] /\
    es_attrs st = Ok attrs /\
    eb_abstract b = [s2z "_SBase__Foo"] /\ map fst attrs = [s2z "_SStub__Foo"] /\
    map as_abstract (a_classes (snd nm)) = [[s2z "__Foo"]].
Proof. exact declared_names_refuted. Qed.
Print Assumptions C20_declared_names_refuted.

(* (10) a file without services yields a module without imports and classes, and it executes *)
Theorem C20_no_services_no_classes :
  forall req mods g pf,
    main req = Ok mods -> In g (r_gen req) -> get_proto (r_files req) g = Some pf ->
    f_services pf = [] ->
    In (out_file_name g, AModule (f_name pf) [] [] []) mods /\
    exec_module (AModule (f_name pf) [] [] []) = Ok [].
Proof. exact no_services_no_classes. Qed.
Print Assumptions C20_no_services_no_classes.
