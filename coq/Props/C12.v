(* C12 -- Peer input never escapes as an internal error; tolerable frames are tolerated.
   Only the property theorems; each is closed by `exact` of a lemma of Proofs/C12Proofs.v and
   followed by Print Assumptions.  Everything is stated from the h2-EVENT boundary up, about
   Model/Dispatch.v instantiated with the table Gen.Facts.processors that is regenerated from
   grpclib/protocol.py on every run.  Below that boundary (bytes -> events) h2 is modelled as
   "raises ProtocolError or returns events"; that part is covered by the fuzz-style correspondence
   of harness/drive_C12.py only. *)
From Coq Require Import ZArith List Bool String.
From GV Require Import Lib.Str Gen.Facts Gen.FactsC12 Model.Dispatch Proofs.C12Proofs.
Import ListNotations.
Open Scope Z_scope.

(* (0) the dispatch table in the source is the one the handler transcriptions were written for:
   13 classes, each mapped to the method of its name; UnknownFrameReceived,
   AlternativeServiceAvailable, InformationalResponseReceived, PushedStreamReceived have no entry *)
Theorem C12_source_table :
  table_as_expected = true /\
  assoc_str (s2z "UnknownFrameReceived") processors = None /\
  assoc_str (s2z "AlternativeServiceAvailable") processors = None /\
  assoc_str (s2z "InformationalResponseReceived") processors = None /\
  assoc_str (s2z "PushedStreamReceived") processors = None.
Proof. exact source_table_facts. Qed.
Print Assumptions C12_source_table.

(* (0') the functions the model transcribes still have the shape the transcription was made from
   (Gen.FactsC12: effect tokens of process, the 13 process_* methods, close, ack, data_received,
   connection_lost, Stream.__terminated__/__ended__, both Handler classes; and the reason texts) *)
Theorem C12_source_shape : shape_as_expected = true.
Proof. exact shape_ok. Qed.
Print Assumptions C12_source_shape.

(* (1) TOTALITY, server endpoint: for every history of inputs (batches of events of every kind,
   h2 protocol errors, connection loss, handlers starting/finishing, Server.close, in any order),
   nothing is ever raised out of data_received -- provided the events obey what h2 guarantees
   (h2_discipline: a stream is reset at most once and opened at most once; event_wf: lengths are
   not negative).  The driver checks both on every event trace of the real h2. *)
Theorem C12_server_total :
  forall h, forallb input_wf h = true -> h2_discipline h ->
  exists s', run (init Server) h = Ok s' /\ inv_b s' = true /\ sinv_b (resets_of h) s' = true.
Proof. exact server_total. Qed.
Print Assumptions C12_server_total.

(* (1') the same for one batch delivered in ANY state satisfying the two invariants (the driver
   evaluates inv_b / sinv_b on every real pre-state) *)
Theorem C12_server_batch_total :
  forall seen s b, st_role s = Server -> inv_b s = true -> sinv_b seen s = true ->
  input_wf (IData b) = true -> NoDup (seen ++ resets_ev (events_of (IData b))) ->
  exists s', data_received s b = Ok s' /\ inv_b s' = true /\
             sinv_b (seen ++ resets_ev (events_of (IData b))) s' = true.
Proof. exact server_batch_total. Qed.
Print Assumptions C12_server_batch_total.

(* (1'') without the h2 discipline the statement is false of the faithful model: a second
   StreamReset for a stream whose task was popped is a KeyError in server.Handler.cancel.
   FULL-STRENGTH STATEMENT (false): forall h, forallb input_wf h = true ->
     exists s', run (init Server) h = Ok s'.
   h2 4.3.0 never produces that event list (checked on every fuzz trace), so this is a latent
   fragility, not a reachable failure; the driver replays it below h2 on the real EventsProcessor. *)
Theorem C12_server_total_without_h2_discipline_refuted :
  exists h, forallb input_wf h = true /\ run (init Server) h = Raises EKeyError.
Proof. exact server_total_without_discipline_refuted. Qed.
Print Assumptions C12_server_total_without_h2_discipline_refuted.

(* (2) TOTALITY, client endpoint.
   FULL-STRENGTH STATEMENT (false): forall h, forallb input_wf h = true ->
     exists s', run (init Client) h = Ok s'.
   Refuted: a RequestReceived event (a server peer sending HEADERS that open an even-numbered
   stream, which h2 accepts on a client connection) reaches client.Handler.accept, which raises
   NotImplementedError out of data_received.  The driver replays the witness on the real code. *)
Theorem C12_client_total_refuted :
  exists h, forallb input_wf h = true /\ run (init Client) h = Raises ENotImplemented.
Proof. exact client_total_refuted. Qed.
Print Assumptions C12_client_total_refuted.

(* (2') the strongest true statement: every history without RequestReceived events *)
Theorem C12_client_total_partial :
  forall h, forallb input_wf h = true -> forallb no_request_input h = true ->
  exists s', run (init Client) h = Ok s' /\ inv_b s' = true.
Proof. exact client_total_partial. Qed.
Print Assumptions C12_client_total_partial.

Theorem C12_client_batch_total_partial :
  forall s b, st_role s = Client -> inv_b s = true ->
  input_wf (IData b) = true -> no_request_input (IData b) = true ->
  exists s', data_received s b = Ok s' /\ inv_b s' = true.
Proof. exact client_batch_total. Qed.
Print Assumptions C12_client_batch_total_partial.

(* (3) TOLERANCE: events of the kinds HTTP/2 requires an endpoint to ignore (and of any class h2
   may add) leave EVERY state of either endpoint exactly as it was ... *)
Theorem C12_tolerated_ignored :
  forall s e, tolerated e = true -> event_wf e = true -> process s e = Ok s.
Proof. exact tolerated_ignored. Qed.
Print Assumptions C12_tolerated_ignored.

(* ... wherever they are injected into a batch *)
Theorem C12_tolerated_anywhere :
  forall s pre tol post, forallb tolerated tol = true -> forallb event_wf tol = true ->
  run_events s (pre ++ tol ++ post) = run_events s (pre ++ post).
Proof. exact tolerated_anywhere. Qed.
Print Assumptions C12_tolerated_anywhere.

(* a PING acknowledgement touches the keepalive close timer only *)
Theorem C12_ping_ack_only_timer :
  forall s, process s PingAckReceived = Ok (if st_closed s then s else set_ping s false).
Proof. exact ping_ack_only_timer. Qed.
Print Assumptions C12_ping_ack_only_timer.

(* (3') frames for a stream that already finished (is not registered): registry, every call
   record, handler and flags are unchanged; DataReceived only returns its flow-control credit *)
Theorem C12_unregistered_stream_tolerated :
  forall s e sid, inv_b s = true -> event_wf e = true ->
  stream_addressed e = Some sid -> lookup sid (st_reg s) = None ->
  exists s', process s e = Ok s' /\ same_calls s s' /\
             st_credit s' = st_credit s ++ returned_credit s e.
Proof. exact unregistered_tolerated. Qed.
Print Assumptions C12_unregistered_stream_tolerated.

(* (4) VIOLATION => ORDERLY SHUTDOWN.  h2 reports a protocol error: every registered stream that
   has a wrapper is terminated with 'Protocol error', the handler is closed (server: every handler
   task cancelled), the transport is closed, and whatever comes later is ignored *)
Theorem C12_protocol_error_shuts_down :
  forall s, exists s', data_received s H2ProtocolError = Ok s' /\
    shut_down RProtocolError s' = true /\
    (forall evs, run_events s' evs = Ok s') /\ (forall b, step s' (IData b) = Ok s').
Proof. exact protocol_error_shuts_down. Qed.
Print Assumptions C12_protocol_error_shuts_down.

Theorem C12_connection_lost_shuts_down :
  forall s, exists s', step s IConnLost = Ok s' /\ shut_down RConnLost s' = true /\
    (forall evs, run_events s' evs = Ok s') /\ (forall b, step s' (IData b) = Ok s').
Proof. exact connection_lost_shuts_down. Qed.
Print Assumptions C12_connection_lost_shuts_down.

(* whenever ANY batch closes a live connection (protocol error, or GOAWAY anywhere in the batch),
   the result is a complete shutdown *)
Theorem C12_closing_batch_shuts_down :
  forall s b s', input_wf (IData b) = true -> data_received s b = Ok s' ->
  st_closed s = false -> st_closed s' = true ->
  exists why, shut_down why s' = true /\
    (forall evs, run_events s' evs = Ok s') /\ (forall b', step s' (IData b') = Ok s').
Proof. exact closing_batch_shuts_down. Qed.
Print Assumptions C12_closing_batch_shuts_down.

Theorem C12_goaway_mid_batch :
  forall s pre c post s1, run_events s pre = Ok s1 -> st_closed s1 = false ->
  run_events s (pre ++ ConnectionTerminated c :: post) = Ok (close_conn (RGoaway c) s1).
Proof. exact goaway_mid_batch. Qed.
Print Assumptions C12_goaway_mid_batch.

(* after close(): processors is deleted, every event of every kind is ignored *)
Theorem C12_closed_ignores_all :
  forall evs s, st_closed s = true -> run_events s evs = Ok s.
Proof. exact closed_ignores_all. Qed.
Print Assumptions C12_closed_ignores_all.
