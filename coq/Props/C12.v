(* C12 -- Peer input never escapes as an internal error; tolerable frames are tolerated.
   Only the property theorems; each is closed by `exact` of a lemma of Proofs/C12Proofs.v and
   followed by Print Assumptions.  Everything is stated from the h2-EVENT boundary up, about
   Model/Dispatch.v instantiated with the table Gen.Facts.processors that is regenerated from
   grpclib/protocol.py on every run.  Below that boundary (bytes -> events) h2 is modelled as
   "raises ProtocolError or returns events"; that part is covered by the fuzz-style correspondence
   of harness/drive_C12.py only. *)
From Coq Require Import ZArith List Bool String.
From GV Require Import Lib.Str Gen.Facts Gen.FactsC12 Model.Dispatch Proofs.C12Proofs.
Import ListNotations.
Open Scope Z_scope.

(* (0) the dispatch table in the source is the one the handler transcriptions were written for:
   13 classes, each mapped to the method of its name; UnknownFrameReceived,
   AlternativeServiceAvailable, InformationalResponseReceived, PushedStreamReceived have no entry *)
Theorem C12_source_table :
  table_as_expected = true /\
  assoc_str (s2z "UnknownFrameReceived") processors = None /\
  assoc_str (s2z "AlternativeServiceAvailable") processors = None /\
  assoc_str (s2z "InformationalResponseReceived") processors = None /\
  assoc_str (s2z "PushedStreamReceived") processors = None.
Proof. exact source_table_facts. Qed.
Print Assumptions C12_source_table.

(* (0') the functions the model transcribes still have the shape the transcription was made from
   (Gen.FactsC12: effect tokens of process, the 13 process_* methods, close, ack, data_received,
   connection_lost, Stream.__terminated__/__ended__, both Handler classes; and the reason texts) *)
Theorem C12_source_shape : shape_as_expected = true.
Proof. exact shape_ok. Qed.
Print Assumptions C12_source_shape.

(* (1) TOTALITY, either endpoint, FULL: for every history of inputs (batches of events of every
   kind, h2 protocol errors, undecodable header blocks, connection loss, calls / handlers starting
   and finishing, Server.close, in any order) nothing is ever raised out of data_received.  The only
   hypothesis is event_wf: what h2 guarantees about the numbers in its events (DataReceived for a
   positive stream id with non-negative lengths -- h2.acknowledge_received_data raises ValueError
   otherwise; an OtherEvent is of another class); the driver checks it on every real event.
   No "one StreamReset per stream" discipline is needed any more: server.Handler.cancel pops with a
   default (was: KeyError on a second/late StreamReset, theorem ..._refuted). *)
Theorem C12_endpoint_total :
  forall ro h, forallb input_wf h = true ->
  exists s', run (init ro) h = Ok s' /\ inv_b s' = true.
Proof. exact endpoint_total. Qed.
Print Assumptions C12_endpoint_total.

Theorem C12_server_total :
  forall h, forallb input_wf h = true ->
  exists s', run (init Server) h = Ok s' /\ inv_b s' = true.
Proof. exact server_total. Qed.
Print Assumptions C12_server_total.

(* (1') one batch delivered in ANY state of either endpoint whose transport is live while its
   processor is (inv_b; the driver evaluates it on every real pre-state) *)
Theorem C12_batch_total :
  forall s b, inv_b s = true -> input_wf (IData b) = true ->
  exists s', data_received s b = Ok s' /\ inv_b s' = true.
Proof. exact batch_total. Qed.
Print Assumptions C12_batch_total.

(* (1'') a StreamReset for a registered stream whose handler task is no longer in _tasks (already
   reset, or finished): the wrapper is terminated again, the handler tables are untouched *)
Theorem C12_late_reset_tolerated :
  forall rest s sid code remote r,
  st_role s = Server -> st_closed s = false ->
  lookup sid (st_reg s) = Some r -> has_live_task sid (st_h s) = false ->
  exists s', process rest s (StreamReset sid code remote) = Ok s' /\
    st_h s' = st_h s /\
    st_reg s' = upd sid (terminated (if remote then RRemoteReset code else RProtocolError) r) (st_reg s).
Proof. exact late_reset_tolerated. Qed.
Print Assumptions C12_late_reset_tolerated.

(* (2) TOTALITY, client endpoint, FULL: for every history of inputs -- batches of events of EVERY
   kind including RequestReceived (a server peer opening a stream), h2 protocol errors, undecodable
   header blocks, connection loss, calls registering and releasing streams, in any order -- nothing
   is raised out of data_received.  (Was refuted twice: D21 NotImplementedError from
   client.Handler.accept, then h2.reset_stream raising when the same chunk had already closed the
   connection or the stream; both repaired, accept now resets only a `closable` stream.) *)
Theorem C12_client_total :
  forall h, forallb input_wf h = true ->
  exists s', run (init Client) h = Ok s' /\ inv_b s' = true.
Proof. exact client_total. Qed.
Print Assumptions C12_client_total.

(* Stream.closable is sufficient for h2.reset_stream not to raise (the h2 model: after a GOAWAY in
   the batch the connection is CLOSED, after a reset of the stream in the batch the stream is) *)
Theorem C12_closable_reset_cannot_raise :
  forall rest s sid, closable rest s sid = true -> h2_reset_stream rest sid = None.
Proof. exact closable_reset_ok. Qed.
Print Assumptions C12_closable_reset_cannot_raise.

(* a stream the peer opens towards a client is refused and leaves no trace: registry, every call
   record, handler and flags are unchanged (the slot-waiter wake-up is set), and RST_STREAM is sent
   exactly when the stream is still closable *)
Theorem C12_client_request_refused :
  forall rest s sid, st_role s = Client -> st_closed s = false -> lookup sid (st_reg s) = None ->
  exists s', process rest s (RequestReceived sid) = Ok s' /\
    st_reg s' = st_reg s /\ st_h s' = st_h s /\ st_closed s' = false /\
    st_tclosed s' = st_tclosed s /\ st_ping s' = st_ping s /\ st_credit s' = st_credit s /\
    st_waiter s' = true /\
    st_rst s' = st_rst s ++ (if closable rest s sid then [sid] else []).
Proof. exact client_request_refused. Qed.
Print Assumptions C12_client_request_refused.

(* (3) TOLERANCE: events of the kinds HTTP/2 requires an endpoint to ignore (and of any class h2
   may add) leave EVERY state of either endpoint exactly as it was ... *)
Theorem C12_tolerated_ignored :
  forall rest s e, tolerated e = true -> event_wf e = true -> process rest s e = Ok s.
Proof. exact tolerated_ignored. Qed.
Print Assumptions C12_tolerated_ignored.

(* ... wherever they are injected into a batch *)
Theorem C12_tolerated_anywhere :
  forall pre tol post s, forallb tolerated tol = true -> forallb event_wf tol = true ->
  run_events s (pre ++ tol ++ post) = run_events s (pre ++ post).
Proof. exact tolerated_anywhere. Qed.
Print Assumptions C12_tolerated_anywhere.

(* a PING acknowledgement touches the keepalive close timer only *)
Theorem C12_ping_ack_only_timer :
  forall rest s, process rest s PingAckReceived = Ok (if st_closed s then s else set_ping s false).
Proof. exact ping_ack_only_timer. Qed.
Print Assumptions C12_ping_ack_only_timer.

(* (3') frames for a stream that already finished (is not registered): registry, every call
   record, handler and flags are unchanged; DataReceived only returns its flow-control credit *)
Theorem C12_unregistered_stream_tolerated :
  forall rest s e sid, inv_b s = true -> event_wf e = true ->
  stream_addressed e = Some sid -> lookup sid (st_reg s) = None ->
  exists s', process rest s e = Ok s' /\ same_calls s s' /\
             st_credit s' = st_credit s ++ returned_credit s e.
Proof. exact unregistered_tolerated. Qed.
Print Assumptions C12_unregistered_stream_tolerated.

(* (4) VIOLATION => ORDERLY SHUTDOWN.  h2 reports a protocol error: every registered stream that
   has a wrapper is terminated with 'Protocol error', the handler is closed (server: every handler
   task cancelled), the transport is closed, and whatever comes later is ignored *)
Theorem C12_protocol_error_shuts_down :
  forall s, exists s', data_received s H2ProtocolError = Ok s' /\
    shut_down RProtocolError s' = true /\
    (forall evs, run_events s' evs = Ok s') /\ (forall b, step s' (IData b) = Ok s').
Proof. exact protocol_error_shuts_down. Qed.
Print Assumptions C12_protocol_error_shuts_down.

Theorem C12_connection_lost_shuts_down :
  forall s, exists s', step s IConnLost = Ok s' /\ shut_down RConnLost s' = true /\
    (forall evs, run_events s' evs = Ok s') /\ (forall b, step s' (IData b) = Ok s').
Proof. exact connection_lost_shuts_down. Qed.
Print Assumptions C12_connection_lost_shuts_down.

(* whenever ANY batch closes a live connection (protocol error, or GOAWAY anywhere in the batch),
   the result is a complete shutdown *)
Theorem C12_closing_batch_shuts_down :
  forall s b s', input_wf (IData b) = true -> data_received s b = Ok s' ->
  st_closed s = false -> st_closed s' = true ->
  exists why, shut_down why s' = true /\
    (forall evs, run_events s' evs = Ok s') /\ (forall b', step s' (IData b') = Ok s').
Proof. exact closing_batch_shuts_down. Qed.
Print Assumptions C12_closing_batch_shuts_down.

(* a header block h2 cannot decode (UnicodeDecodeError, was D22) takes the same branch *)
Theorem C12_undecodable_headers_shut_down :
  forall s, data_received s H2UnicodeDecodeError = data_received s H2ProtocolError.
Proof. exact undecodable_headers_shut_down. Qed.
Print Assumptions C12_undecodable_headers_shut_down.

(* run_events_in tail = processing a prefix of a batch whose remaining events `tail` h2 has already
   digested *)
Theorem C12_goaway_mid_batch :
  forall s pre c post s1,
  run_events_in (ConnectionTerminated c :: post) s pre = Ok s1 -> st_closed s1 = false ->
  run_events s (pre ++ ConnectionTerminated c :: post) = Ok (close_conn (RGoaway c) s1).
Proof. exact goaway_mid_batch. Qed.
Print Assumptions C12_goaway_mid_batch.

(* after close(): processors is deleted, every event of every kind is ignored *)
Theorem C12_closed_ignores_all :
  forall evs s, st_closed s = true -> run_events s evs = Ok s.
Proof. exact closed_ignores_all. Qed.
Print Assumptions C12_closed_ignores_all.
