(* C06: any order of stream API calls yields a well-formed exchange or a refusal.
   Proved about the GENERATED programs (Gen/StreamOps.v, sliced from /repo on every run) by the
   reflective closure of Lib/Reach.v: for each side, each of the 4 cardinalities and both initial
   states of the peer's half of the stream, the set of reachable (flags, h2 stream state, wire
   monitor) states is computed, checked closed under every call with every resolution of the
   environment's choices, and checked to satisfy `good`.  Histories are unbounded. *)
From Coq Require Import List Bool PArith NArith.
From GV Require Import Lib.Reach Model.StreamIR Model.StreamSem Gen.StreamOps.
Import ListNotations.

(* ---- the finite universe of calls ---- *)
Definition bools := [false; true].
Definition all_opnames := [OpSendRequest; OpSendMessage; OpEnd; OpRecvInitialMetadata; OpRecvMessage;
                           OpRecvTrailingMetadata; OpCancel; OpSendInitialMetadata;
                           OpSendTrailingMetadata].
Definition all_calls : list call :=
  PeerEnds :: flat_map (fun o => flat_map (fun e => map (fun k => Call o e k) bools) bools) all_opnames.

Lemma all_calls_complete : forall c : call, In c all_calls.
Proof. intros [o e k|]; [destruct o, e, k|]; vm_compute; tauto. Qed.

(* ---- state keys and equality ---- *)
Definition b2n (b : bool) : N := if b then 1%N else 0%N.
Definition flags_code (f : flags) : N :=
  match f with Build_flags a1 a2 a3 a4 a5 a6 a7 a8 a9 =>
    (b2n a1 + 2 * (b2n a2 + 2 * (b2n a3 + 2 * (b2n a4 + 2 * (b2n a5 + 2 * (b2n a6 + 2 * (b2n a7
     + 2 * (b2n a8 + 2 * b2n a9))))))))%N end.
Definition h2_code (h : h2s) : N :=
  match h with H2Idle => 0 | H2Closed => 1 | H2Open l r => 2 + b2n l + 2 * b2n r end%N.
Definition cnt_code (c : cnt) : N := match c with C0 => 0 | C1 => 1 | C2 => 2 end%N.
Definition mon_code (m : mon) : N :=
  match m with M0 => 0 | MCut => 1 | MBad => 2 | MOpen c => 3 + cnt_code c
          | MDone o c => 6 + b2n o + 2 * cnt_code c end%N.
Definition gkey (g : gstate) : positive :=
  N.succ_pos (flags_code (g_fl g) + 512 * (h2_code (g_h2 g) + 8 * (mon_code (g_mon g)
              + 16 * b2n (g_viol g))))%N.

Lemma eqb_true_eq a b : eqb a b = true -> a = b.
Proof. destruct a, b; simpl; congruence. Qed.

Lemma gstate_eqb_eq a b : gstate_eqb a b = true -> a = b.
Proof.
  destruct a as [fa ha ma va], b as [fb hb mb vb]. unfold gstate_eqb; cbn [g_fl g_h2 g_mon g_viol].
  rewrite !andb_true_iff. intros [[[Hf Hh] Hm] Hv].
  assert (fa = fb).
  { destruct fa, fb. unfold flags_eqb in Hf. rewrite !andb_true_iff in Hf.
    repeat match goal with H : _ /\ _ |- _ => destruct H end.
    repeat match goal with H : eqb _ _ = true |- _ => apply eqb_true_eq in H end. congruence. }
  assert (ha = hb).
  { destruct ha, hb; simpl in Hh; try discriminate; try reflexivity.
    rewrite andb_true_iff in Hh. destruct Hh as [H1 H2].
    apply eqb_true_eq in H1, H2. congruence. }
  assert (ma = mb).
  { destruct ma as [|c| o c | |], mb as [|c'|o' c'| |]; simpl in Hm; try discriminate; try reflexivity.
    - destruct c, c'; simpl in Hm; try discriminate; reflexivity.
    - rewrite andb_true_iff in Hm. destruct Hm as [H1 H2]. apply eqb_true_eq in H1.
      destruct c, c'; simpl in H2; try discriminate; congruence. }
  apply eqb_true_eq in Hv. congruence.
Qed.

(* ---- the closure, per side, cardinality and state of the peer's half ---- *)
Definition tbl_of (sd : side) : optable := match sd with Client => client_ops | Server => server_ops end.

Definition sys_step (sd : side) (cs ss : bool) := step sd (tbl_of sd) cs ss.

Definition explore (sd : side) (cs ss remote : bool) : table gstate * bool :=
  closure gstate call gkey gstate_eqb (sys_step sd cs ss) all_calls (init sd remote) (N.to_nat 100000).

Definition check (sd : side) (cs ss remote : bool) : bool :=
  let '(m, done) := explore sd cs ss remote in
  done
  && mem gstate gkey gstate_eqb m (init sd remote)
  && closed gstate call gkey gstate_eqb (sys_step sd cs ss) all_calls m
  && allP gstate (good sd cs ss) m.

(* every state reachable from the fresh stream by any history of calls, each resolved in any of the
   ways the environment allows *)
Definition reachable (sd : side) (cs ss remote : bool) : gstate -> Prop :=
  reach gstate call (sys_step sd cs ss) all_calls (init sd remote).

Lemma check_sound sd cs ss remote :
  check sd cs ss remote = true ->
  forall g, reachable sd cs ss remote g -> good sd cs ss g = true.
Proof.
  unfold check, reachable. destruct (explore sd cs ss remote) as [m done].
  rewrite !andb_true_iff. intros [[[_ Hi] Hc] Hp].
  exact (closure_sound gstate call gkey gstate_eqb gstate_eqb_eq (sys_step sd cs ss) all_calls
                       (good sd cs ss) (init sd remote) m Hi Hc Hp).
Qed.

Lemma check_client_ff_f : check Client false false false = true. Proof. vm_compute. reflexivity. Qed.
Lemma check_client_ff_t : check Client false false true = true. Proof. vm_compute. reflexivity. Qed.
Lemma check_client_ft_f : check Client false true false = true. Proof. vm_compute. reflexivity. Qed.
Lemma check_client_ft_t : check Client false true true = true. Proof. vm_compute. reflexivity. Qed.
Lemma check_client_tf_f : check Client true false false = true. Proof. vm_compute. reflexivity. Qed.
Lemma check_client_tf_t : check Client true false true = true. Proof. vm_compute. reflexivity. Qed.
Lemma check_client_tt_f : check Client true true false = true. Proof. vm_compute. reflexivity. Qed.
Lemma check_client_tt_t : check Client true true true = true. Proof. vm_compute. reflexivity. Qed.
Lemma check_server_ff_f : check Server false false false = true. Proof. vm_compute. reflexivity. Qed.
Lemma check_server_ff_t : check Server false false true = true. Proof. vm_compute. reflexivity. Qed.
Lemma check_server_ft_f : check Server false true false = true. Proof. vm_compute. reflexivity. Qed.
Lemma check_server_ft_t : check Server false true true = true. Proof. vm_compute. reflexivity. Qed.
Lemma check_server_tf_f : check Server true false false = true. Proof. vm_compute. reflexivity. Qed.
Lemma check_server_tf_t : check Server true false true = true. Proof. vm_compute. reflexivity. Qed.
Lemma check_server_tt_f : check Server true true false = true. Proof. vm_compute. reflexivity. Qed.
Lemma check_server_tt_t : check Server true true true = true. Proof. vm_compute. reflexivity. Qed.

Lemma all_checks sd cs ss remote : check sd cs ss remote = true.
Proof.
  destruct sd, cs, ss, remote;
    first [ exact check_client_ff_f | exact check_client_ff_t | exact check_client_ft_f
          | exact check_client_ft_t | exact check_client_tf_f | exact check_client_tf_t
          | exact check_client_tt_f | exact check_client_tt_t | exact check_server_ff_f
          | exact check_server_ff_t | exact check_server_ft_f | exact check_server_ft_t
          | exact check_server_tf_f | exact check_server_tf_t | exact check_server_tt_f
          | exact check_server_tt_t ].
Qed.

(* Main theorem: for both sides, all four cardinalities, whether or not the peer has already
   half-closed its side, in EVERY state reachable by a finite history of API calls of any length
   (each call with any argument values, and each environment-dependent decision taken either way)
   the stream is `good`: the frames emitted so far form a prefix of a well-formed Request /
   Response (exactly one message for a unary request; at most one for a unary reply and exactly
   one with OK; required protocol headers present; nothing after RST_STREAM), every call refused
   with ProtocolError emitted nothing and changed no flag, and the interpreter never ran out of
   fuel. *)
Theorem any_call_order_is_wellformed :
  forall (sd : side) (cs ss remote : bool) (g : gstate),
    reachable sd cs ss remote g -> good sd cs ss g = true.
Proof. intros sd cs ss remote. apply check_sound. apply all_checks. Qed.

(* every call is in the finite universe, so `reachable` really quantifies over all calls *)
Theorem call_universe_complete : forall c : call, In c all_calls.
Proof. exact all_calls_complete. Qed.

