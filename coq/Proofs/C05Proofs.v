(* C05 -- lemmas about the client deadline kernel (Model/Deadline.v).  Invariants of EVERY schedule
   (every list of kernel operations whose spawned paths are guarded), proved by induction over the
   schedule.  The server side and the wire-value corollaries are in C05ServerProofs.v /
   C05WireProofs.v. *)
From Coq Require Import ZArith List Bool Lia ZifyBool.
From GV Require Import Model.StreamIR Model.StreamSem Model.Timeout Model.Deadline.
Import ListNotations.
Open Scope Z_scope.
#[local] Ltac Zify.zify_post_hook ::= Z.div_mod_to_equations.

(* ---- list update ------------------------------------------------------------------------------- *)
Lemma upd_In {A} (f : A -> A) : forall l i y,
  In y (upd i f l) -> In y l \/ exists x, nth_error l i = Some x /\ y = f x.
Proof.
  induction l as [|a l IH]; intros i y H; [destruct i; contradiction|].
  destruct i as [|j]; cbn [upd] in H.
  - destruct H as [H|H]; [right; exists a; split; [reflexivity|now symmetry]|left; now right].
  - destruct H as [H|H]; [left; now left|].
    destruct (IH j y H) as [H1|[x [H1 H2]]]; [left; now right|right; exists x; split; assumption].
Qed.

Lemma Forall_upd {A} (P : A -> Prop) (f : A -> A) : forall l i,
  Forall P l -> (forall x, nth_error l i = Some x -> P x -> P (f x)) -> Forall P (upd i f l).
Proof.
  intros l i HF Hf. apply Forall_forall. intros y Hy.
  rewrite Forall_forall in HF.
  destruct (upd_In f l i y Hy) as [H|[x [H1 H2]]]; [now apply HF|].
  subst y. apply Hf; [assumption|]. apply HF. eapply nth_error_In; eassumption.
Qed.

Lemma existsb_false_Forall {A} (p : A -> bool) l :
  existsb p l = false -> Forall (fun x => p x = false) l.
Proof.
  induction l as [|a l IH]; cbn [existsb]; intro H; constructor.
  - destruct (p a); [discriminate|reflexivity].
  - apply IH. destruct (p a); [discriminate|exact H].
Qed.

(* ---- exec -------------------------------------------------------------------------------------- *)
Lemma raise_in_timeout we ins e : raise_in we ins (KProg e) = KTimeout -> we = Some KTimeout.
Proof. unfold raise_in. destruct ins; [|discriminate]. destruct we; [|discriminate]. now intros ->. Qed.

Lemma raise_in_cancel_timeout we ins : raise_in we ins KCancelled = KTimeout -> we = Some KTimeout.
Proof. unfold raise_in. destruct ins; [|discriminate]. destruct we; [|discriminate]. now intros ->. Qed.

Lemma exec_props nw dl we : forall l ins h,
  guarded_from ins l = true -> (we <> None -> ins = false) ->
  let x := exec nw dl we ins h l in
  guarded_from (x_inside x) (x_rest x) = true /\
  (x_ts x = Blocked -> x_inside x = true /\ we = None) /\
  (forall r a, x_ts x = Done r a -> a = nw /\ x_inside x = false) /\
  (forall b, x_ts x <> Ready b) /\
  (forall a, x_ts x = Done (RRaise KTimeout) a -> we = Some KTimeout).
Proof.
  induction l as [|a l IH]; intros ins h Hg Hw; cbn [exec].
  - cbn. repeat split; try discriminate; intros; try congruence.
  - destruct a; cbn [guarded_from] in Hg.
    + destruct we as [e|].
      * cbn. repeat split; try discriminate; intros; try congruence.
      * apply IH; [exact Hg|intro H; now contradiction H].
    + destruct we as [e|].
      * cbn. repeat split; try discriminate; intros; try congruence.
      * apply IH; [exact Hg|intro H; now contradiction H].
    + apply andb_true_iff in Hg. destruct Hg as [Hi Hg]. subst ins.
      cbn. repeat split; try discriminate; try assumption.
      destruct we; [|reflexivity]. assert (true = false) by (apply Hw; discriminate). discriminate.
    + cbn. repeat split; try discriminate; intros; try congruence.
      injection H as H1 _. exact (raise_in_timeout _ _ _ H1).
    + apply IH; assumption.
    + specialize (IH ins h Hg Hw). cbn in IH. cbn. exact IH.
Qed.

(* ---- invariant 1: structure ------------------------------------------------------------------ *)
Definition TI1 (s : state) (t : task) : Prop :=
  guarded_from (inside t) (rest t) = true /\
  (ts t = Blocked -> inside t = true) /\
  (forall r a, ts t = Done r a -> inside t = false /\ born t <= a <= now s) /\
  born t <= now s /\
  (werr s <> None -> inside t = true -> ts t = Ready true) /\
  (ts t = Ready true -> inside t = true /\ werr s <> None).

Definition GI (s : state) : Prop :=
  (forall T, timer s = Some T -> ph s = Entered /\ deadline s = Some T /\ now s <= T) /\
  (forall D, ph s = Entered -> deadline s = Some D -> timer s = None -> werr s <> None /\ D <= now s) /\
  (deadline s = None -> timer s = None) /\
  (ph s = NotEntered \/ ph s = EnterFailed -> tasks s = []) /\
  (ph s = NotEntered -> werr s = None /\ timer s = None).

Definition Inv1 (s : state) : Prop := GI s /\ Forall (TI1 s) (tasks s).

Lemma init_inv1 n0 dl : Inv1 (init n0 dl).
Proof.
  split; [|constructor]. unfold GI; cbn. repeat split; try discriminate; try reflexivity.
Qed.

Lemma cancel_task_cases t :
  (inside t = true /\ is_done t = false /\ ts (cancel_task t) = Ready true /\
   inside (cancel_task t) = true /\ rest (cancel_task t) = rest t /\ born (cancel_task t) = born t /\
   hdr (cancel_task t) = hdr t) \/
  cancel_task t = t /\ (inside t = false \/ is_done t = true).
Proof.
  unfold cancel_task, is_done. destruct (inside t) eqn:Ei; [|right; split; [reflexivity|now left]].
  destruct (ts t) eqn:Et.
  - left. cbn. repeat split; assumption.
  - left. cbn. repeat split; assumption.
  - right. split; [reflexivity|now right].
Qed.

Ltac use_done :=
  try match goal with
      | Hd : (forall r a, ts ?t = Done r a -> _), H : ts ?t = Done ?r ?a |- _ =>
          generalize (Hd r a H); intro
      end.
Ltac fin := intros; use_done; try discriminate; try congruence; try tauto; try lia;
            try (intuition (try lia; try congruence; try discriminate)).

Lemma wcancel_TI1 s e t : TI1 s t -> TI1 (wcancel e s) (cancel_task t).
Proof.
  intros (Hg & Hbl & Hd & Hb & Hw & Hr).
  destruct (cancel_task_cases t) as [[Hi [Hnd [Hts [Hin [Hre [Hbo _]]]]]]|[Heq Hc]].
  - unfold TI1. rewrite Hts, Hin, Hre, Hbo. cbn [wcancel werr now].
    rewrite Hi in Hg. repeat split; fin.
  - rewrite Heq. unfold TI1. cbn [wcancel werr now].
    assert (Hnin : inside t = false).
    { destruct Hc as [Hc|Hc]; [assumption|].
      unfold is_done in Hc. destruct (ts t) eqn:Et; try discriminate.
      destruct (Hd _ _ eq_refl) as [Hf _]. exact Hf. }
    repeat split; fin.
Qed.

Lemma TI1_mono s s' t : now s <= now s' -> werr s' = werr s -> TI1 s t -> TI1 s' t.
Proof.
  intros Hn Hw (Hg & Hbl & Hd & Hb & Hwe & Hr). unfold TI1. rewrite Hw.
  repeat split; fin.
Qed.

Lemma Forall_TI1_mono s s' l : now s <= now s' -> werr s' = werr s ->
  Forall (TI1 s) l -> Forall (TI1 s') l.
Proof. intros Hn Hw. apply Forall_impl. intros t. now apply TI1_mono. Qed.

Lemma run_task_TI1 s t : TI1 s t -> is_ready t = true -> TI1 s (task_of t (run_task s t)).
Proof.
  intros (Hg & Hbl & Hd & Hb & Hwe & Hr) Hrd. unfold is_ready in Hrd.
  unfold run_task. destruct (ts t) as [[|]| |] eqn:Et; try discriminate.
  - unfold TI1, task_of, xdone; cbn. repeat split; intros; try discriminate; try lia.
    + injection H as _ <-. lia.
    + injection H as _ <-. lia.
  - assert (Hpre : werr s <> None -> inside t = false).
    { intro Hw. destruct (inside t) eqn:Ei; [|reflexivity].
      specialize (Hwe Hw eq_refl). discriminate. }
    destruct (exec_props (now s) (deadline s) (werr s) (rest t) (inside t) (hdr t) Hg Hpre)
      as (X1 & X2 & X3 & X4 & _).
    set (x := exec (now s) (deadline s) (werr s) (inside t) (hdr t) (rest t)) in *.
    unfold TI1, task_of; cbn [ts rest inside born].
    repeat split; intros; try assumption.
    + apply X2 in H. tauto.
    + apply X3 in H. tauto.
    + apply X3 in H. lia.
    + apply X3 in H. lia.
    + destruct (x_ts x) eqn:Ex.
      * exfalso. eapply X4; reflexivity.
      * destruct (X2 eq_refl) as [_ Hn]. contradiction.
      * destruct (X3 _ _ eq_refl) as [_ Hf]. congruence.
    + exfalso. eapply X4; eassumption.
    + exfalso. eapply X4; eassumption.
Qed.

Ltac use_G :=
  repeat match goal with
         | G1 : (forall T, timer ?s = Some T -> _), H : timer ?s = Some ?T |- _ =>
             generalize (G1 T H); clear G1; intro
         end.
Ltac inj_some :=
  repeat match goal with
         | H : Some ?a = Some ?b |- _ => injection H; clear H; intro H; try subst a; try subst b
         end.
Ltac use_G2 :=
  try match goal with
      | G2 : (forall D, _ -> deadline ?s = Some D -> timer ?s = None -> _),
        H0 : deadline ?s = Some ?D, H1 : timer ?s = None |- _ =>
          let X := fresh in
          assert (X := G2 D ltac:(first [reflexivity|assumption]) H0 H1); destruct X; clear G2
      end.
Ltac gfin := intros; use_G; use_G2; inj_some; try discriminate; try congruence; try tauto; try lia;
             try (intuition (try lia; try congruence; try discriminate)).

Lemma step_inv1 s o : Inv1 s -> op_ok o = true -> Inv1 (step s o).
Proof.
  intros [(G1 & G2 & G3 & G4 & G5) HT] Hok. destruct o; cbn [step].
  - (* OEnter *)
    destruct (ph s) eqn:Ep; try (split; [unfold GI; rewrite ?Ep; tauto|assumption]).
    assert (Htk : tasks s = []) by (apply G4; now left).
    destruct (G5 eq_refl) as [Hw0 Ht0].
    destruct (deadline s) as [D|] eqn:Ed.
    + destruct (D <=? now s) eqn:Ec.
      * split; [|cbn; rewrite Htk; constructor].
        unfold GI; cbn. rewrite ?Ed. repeat split; gfin.
      * split; [|cbn; rewrite Htk; constructor].
        unfold GI; cbn. rewrite ?Ed. repeat split; gfin.
    + split; [|cbn; rewrite Htk; constructor].
      unfold GI; cbn. rewrite ?Ed. repeat split; gfin.
  - (* OSpawn *)
    destruct (ph s) eqn:Ep; try (split; [unfold GI; rewrite ?Ep; tauto|assumption]).
    split.
    + unfold GI, set_tasks; cbn. rewrite ?Ep. repeat split; gfin; try (eapply G2; eassumption).
    + unfold set_tasks; cbn [tasks]. apply Forall_app. split.
      * eapply Forall_TI1_mono; [| |exact HT]; cbn; [lia|reflexivity].
      * constructor; [|constructor]. unfold TI1; cbn. cbn in Hok.
        repeat split; fin.
  - (* ORun *)
    destruct (nth_error (tasks s) i) as [t|] eqn:En; [|split; [unfold GI; tauto|assumption]].
    destruct (is_ready t) eqn:Er; [|split; [unfold GI; tauto|assumption]].
    assert (Hne : tasks s <> []) by (intro H; rewrite H in En; destruct i; discriminate).
    split.
    + unfold GI; cbn.
      destruct (is_done (task_of t (run_task s t)) && fdis t).
      * repeat split; gfin.
      * repeat split; gfin; try (eapply G2; eassumption).
    + cbn [tasks]. apply Forall_upd.
      * eapply Forall_TI1_mono; [| |exact HT]; cbn; [lia|reflexivity].
      * intros x Hx _. rewrite En in Hx. injection Hx as <-.
        eapply TI1_mono; [| |apply run_task_TI1]; cbn; try lia; try reflexivity; try assumption.
        rewrite Forall_forall in HT. apply HT. eapply nth_error_In; eassumption.
  - (* OComplete *)
    split.
    + unfold GI, set_tasks; cbn. repeat split; gfin; try (eapply G2; eassumption).
      all: match goal with H : tasks _ = [] |- _ => rewrite H; destruct i; reflexivity end.
    + unfold set_tasks; cbn [tasks]. apply Forall_upd.
      * eapply Forall_TI1_mono; [| |exact HT]; cbn; [lia|reflexivity].
      * intros x _ HX. unfold wake.
        destruct (ts x) eqn:Et; try exact HX.
        destruct HX as (Hg & Hbl & Hd & Hb & Hwe & Hr).
        unfold TI1; cbn. repeat split; fin.
  - (* OTick *)
    set (n1 := if any_ready s then now s
               else Z.max (now s) (match timer s with Some T => Z.min T n | None => n end)).
    assert (Hn1 : now s <= n1) by (unfold n1; destruct (any_ready s); lia).
    destruct (timer s) as [T|] eqn:Et.
    + destruct (G1 T eq_refl) as (Hp & Hd & Hle).
      assert (Hn1T : n1 <= T) by (unfold n1; destruct (any_ready s); lia).
      destruct (T <=? n1) eqn:Ec.
      * split.
        -- unfold GI; cbn. rewrite ?Hp, ?Hd. repeat split; gfin.
        -- cbn [wcancel tasks]. rewrite Forall_forall in HT. apply Forall_forall.
           intros t' Hin. apply in_map_iff in Hin. destruct Hin as [t [<- Hin]].
           apply wcancel_TI1. eapply TI1_mono; [| |apply HT; exact Hin]; cbn; [lia|reflexivity].
      * split.
        -- unfold GI; cbn. rewrite ?Et, ?Hp, ?Hd. repeat split; gfin.
        -- eapply Forall_TI1_mono; [| |exact HT]; cbn; [lia|reflexivity].
    + split.
      * unfold GI; cbn. rewrite ?Et. repeat split; gfin;
          try (destruct (G2 D H H0 eq_refl); try lia; tauto).
      * eapply Forall_TI1_mono; [| |exact HT]; cbn; [lia|reflexivity].
  - (* OExt *)
    destruct (ph s) eqn:Ep; try (split; [unfold GI; rewrite ?Ep; tauto|assumption]).
    split.
    + unfold GI; cbn. rewrite ?Ep. repeat split; gfin.
    + cbn [wcancel tasks]. rewrite Forall_forall in HT. apply Forall_forall.
      intros t' Hin. apply in_map_iff in Hin. destruct Hin as [t [<- Hin]].
      apply wcancel_TI1. eapply TI1_mono; [| |apply HT; exact Hin]; cbn; [lia|reflexivity].
Qed.

(* ---- invariant 2: the clock cannot pass the deadline while an operation is pending ----------- *)
Definition TI2 (s : state) (t : task) : Prop :=
  (forall D, ph s = Entered -> deadline s = Some D -> D < now s -> born t <= D -> is_done t = true) /\
  (forall D r a, ph s = Entered -> deadline s = Some D -> ts t = Done r a -> born t <= D -> a <= D).

Lemma ready_any s t : In t (tasks s) -> is_ready t = true -> any_ready s = true.
Proof. intros Hin Hr. unfold any_ready. apply existsb_exists. exists t. now split. Qed.

Lemma run_task_done s t r a : TI1 s t -> is_ready t = true ->
  ts (task_of t (run_task s t)) = Done r a -> a = now s.
Proof.
  intros (Hg & Hbl & Hd & Hb & Hwe & Hr) Hrd. unfold is_ready in Hrd.
  unfold run_task. destruct (ts t) as [[|]| |] eqn:Et; try discriminate.
  - cbn. intro H. injection H as _ <-. reflexivity.
  - assert (Hpre : werr s <> None -> inside t = false).
    { intro Hw. destruct (inside t) eqn:Ei; [|reflexivity].
      specialize (Hwe Hw eq_refl). discriminate. }
    destruct (exec_props (now s) (deadline s) (werr s) (rest t) (inside t) (hdr t) Hg Hpre)
      as (_ & _ & X3 & _). cbn. intro H. apply X3 in H. tauto.
Qed.

Lemma cancel_task_done t : is_done t = true -> cancel_task t = t.
Proof.
  unfold is_done, cancel_task. destruct (ts t); try discriminate. destruct (inside t); reflexivity.
Qed.
Lemma cancel_task_done_inv t r a : ts (cancel_task t) = Done r a -> cancel_task t = t.
Proof.
  unfold cancel_task. destruct (inside t); [|reflexivity]. destruct (ts t); cbn; try discriminate.
  reflexivity.
Qed.

Lemma step_inv2 s o : Inv1 s -> Forall (TI2 s) (tasks s) -> op_ok o = true ->
  Forall (TI2 (step s o)) (tasks (step s o)).
Proof.
  intros [(G1 & G2 & G3 & G4 & G5) HT1] HT2 Hok.
  assert (HT1' := HT1). rewrite Forall_forall in HT1'.
  destruct o; cbn [step].
  - destruct (ph s) eqn:Ep; try assumption.
    assert (Htk : tasks s = []) by (apply G4; now left).
    destruct (deadline s); [destruct (_ <=? _)|]; cbn; rewrite Htk; constructor.
  - destruct (ph s) eqn:Ep; try assumption.
    unfold set_tasks; cbn [tasks]. apply Forall_app. split.
    + eapply Forall_impl; [|exact HT2]. intros t [A B]. unfold TI2; split; cbn; intros; eauto.
    + constructor; [|constructor]. unfold TI2; split; cbn; intros; try discriminate. lia.
  - destruct (nth_error (tasks s) i) as [t|] eqn:En; [|assumption].
    destruct (is_ready t) eqn:Er; [|assumption].
    assert (Hin : In t (tasks s)) by (eapply nth_error_In; eassumption).
    cbn [tasks]. apply Forall_upd.
    + eapply Forall_impl; [|exact HT2]. intros t0 [A B]. unfold TI2; split; cbn [ph deadline now]; intros.
      * destruct (is_done _ && fdis t); [discriminate|]. eauto.
      * destruct (is_done _ && fdis t); [discriminate|]. eauto.
    + intros x Hx [A B]. rewrite En in Hx. injection Hx as <-.
      unfold TI2; split; cbn [ph deadline now]; intros.
      * destruct (is_done _ && fdis t); [discriminate|].
        cbn [born task_of] in *. specialize (A D H H0 H1 H2).
        unfold is_ready in Er. unfold is_done in A. destruct (ts t); discriminate.
      * destruct (is_done _ && fdis t); [discriminate|].
        cbn [born task_of] in *.
        assert (a = now s) by (eapply run_task_done; eauto). subst a.
        destruct (Z_lt_le_dec D (now s)) as [Hlt|Hle]; [|exact Hle].
        specialize (A D H H0 Hlt H2).
        unfold is_ready in Er. unfold is_done in A. destruct (ts t); discriminate.
  - unfold set_tasks; cbn [tasks]. apply Forall_upd.
    + eapply Forall_impl; [|exact HT2]. intros t [A B]. unfold TI2; split; cbn; intros; eauto.
    + intros x Hx HX. unfold wake.
      destruct (ts x) eqn:Et; try exact HX. destruct HX as [A B].
      unfold TI2; split; cbn; intros; try discriminate.
      specialize (A D H H0 H1 H2). unfold is_done in A. rewrite Et in A. discriminate.
  - set (n1 := if any_ready s then now s
               else Z.max (now s) (match timer s with Some T => Z.min T n | None => n end)).
    assert (Hn1 : now s <= n1) by (unfold n1; destruct (any_ready s); lia).
    destruct (timer s) as [T|] eqn:Et.
    + destruct (G1 T eq_refl) as (Hp & Hd & Hle).
      assert (Hn1T : n1 <= T) by (unfold n1; destruct (any_ready s); lia).
      destruct (T <=? n1) eqn:Ec.
      * cbn [wcancel tasks]. apply Forall_forall. intros t' Hin.
        apply in_map_iff in Hin. destruct Hin as [t [<- Hin]].
        rewrite Forall_forall in HT2. destruct (HT2 t Hin) as [A B].
        unfold TI2; split; cbn [ph deadline now wcancel]; intros.
        -- rewrite Hd in H0. injection H0 as <-. lia.
        -- assert (E := cancel_task_done_inv _ _ _ H1). rewrite E in *. eauto.
      * eapply Forall_impl; [|exact HT2]. intros t [A B]. unfold TI2; split; cbn [ph deadline now]; intros.
        -- rewrite Hd in H0. injection H0 as <-. lia.
        -- eauto.
    + destruct (any_ready s) eqn:Ea.
      * subst n1. eapply Forall_impl; [|exact HT2]. intros t [A B].
        unfold TI2; split; cbn [ph deadline now]; intros; eauto.
      * apply Forall_forall. intros t Hin.
        rewrite Forall_forall in HT2. destruct (HT2 t Hin) as [A B].
        unfold TI2; split; cbn [ph deadline now]; intros; [|eauto].
        destruct (G2 D H H0 eq_refl) as [Hw _].
        destruct (HT1' t Hin) as (Hg & Hbl & Hdn & Hb & Hwe & Hr).
        apply existsb_false_Forall in Ea. rewrite Forall_forall in Ea. specialize (Ea t Hin).
        unfold is_ready in Ea. unfold is_done. destruct (ts t) eqn:Ets; try discriminate.
        -- specialize (Hwe Hw (Hbl eq_refl)). discriminate.
        -- reflexivity.
  - destruct (ph s) eqn:Ep; try assumption.
    cbn [wcancel tasks]. apply Forall_forall. intros t' Hin.
    apply in_map_iff in Hin. destruct Hin as [t [<- Hin]].
    rewrite Forall_forall in HT2. destruct (HT2 t Hin) as [A B].
    unfold TI2; split; cbn [ph deadline now wcancel]; intros.
    + assert (born (cancel_task t) = born t) by (unfold cancel_task; destruct (inside t), (ts t); reflexivity).
      rewrite H3 in H2. rewrite cancel_task_done; eauto.
    + assert (E := cancel_task_done_inv _ _ _ H1). rewrite E in *. eauto.
Qed.

(* ---- invariant 3: without foreign cancels the timer is the only source of TimeoutError ------ *)
Definition TI3 (s : state) (t : task) : Prop :=
  ext_seen s = false ->
  (ts t = Ready true -> werr s = Some KTimeout /\ deadline s = Some (now s)) /\
  (forall a, ts t = Done (RRaise KTimeout) a -> exists D, deadline s = Some D /\ D <= a) /\
  (forall k a, ts t <> Done (RRaise (KExt k)) a).
Definition G3I (s : state) : Prop :=
  ext_seen s = false ->
  forall e, werr s = Some e -> e = KTimeout /\ exists D, deadline s = Some D /\ D <= now s.
Definition Inv3 (s : state) : Prop := G3I s /\ Forall (TI3 s) (tasks s).

Lemma exec_noext nw dl we : forall l ins h k a,
  (forall k', we <> Some (KExt k')) ->
  x_ts (exec nw dl we ins h l) <> Done (RRaise (KExt k)) a.
Proof.
  induction l as [|x l IH]; intros ins h k a Hw; cbn [exec]; [cbn; discriminate|].
  destruct x.
  - destruct we as [e|]; [cbn; intro H; injection H as -> _; now apply (Hw k)|now apply IH].
  - destruct we as [e|]; [cbn; intro H; injection H as -> _; now apply (Hw k)|now apply IH].
  - cbn; discriminate.
  - cbn. intro H. injection H as H _. unfold raise_in in H. destruct ins; [|discriminate].
    destruct we; [|discriminate]. subst k0. now apply (Hw k).
  - now apply IH.
  - cbn. now apply IH.
Qed.

Lemma step_inv3 s o : Inv1 s -> Inv3 s -> op_ok o = true -> Inv3 (step s o).
Proof.
  intros [(G1 & G2 & G3 & G4 & G5) HT1] [HG HT3] Hok.
  assert (HT1' := HT1). rewrite Forall_forall in HT1'.
  assert (HT3' := HT3). rewrite Forall_forall in HT3'.
  destruct o; cbn [step].
  - destruct (ph s) eqn:Ep; try (split; assumption).
    assert (Htk : tasks s = []) by (apply G4; now left).
    destruct (G5 eq_refl) as [Hw0 _].
    destruct (deadline s) as [D|] eqn:Ed; [destruct (D <=? now s) eqn:Ec|];
      (split; [|cbn; rewrite Htk; constructor]); unfold G3I; cbn; intros He e Hw;
      try (rewrite Hw0 in Hw; discriminate).
    injection Hw as <-. split; [reflexivity|]. exists D. split; [congruence|lia].
  - destruct (ph s) eqn:Ep; try (split; assumption).
    split; [exact HG|]. unfold set_tasks; cbn [tasks]. apply Forall_app. split.
    + eapply Forall_impl; [|exact HT3]. intros t A. exact A.
    + constructor; [|constructor]. unfold TI3; cbn. intros _.
      repeat split; intros; discriminate.
  - destruct (nth_error (tasks s) i) as [t|] eqn:En; [|split; assumption].
    destruct (is_ready t) eqn:Er; [|split; assumption].
    assert (Hin : In t (tasks s)) by (eapply nth_error_In; eassumption).
    split; [exact HG|]. cbn [tasks]. apply Forall_upd.
    + eapply Forall_impl; [|exact HT3]. intros t0 A. exact A.
    + intros x Hx _. rewrite En in Hx. injection Hx as <-.
      unfold TI3; cbn [ext_seen werr deadline now]. intros He.
      specialize (HG He). destruct (HT3' t Hin He) as (A1 & A2 & A3).
      destruct (HT1' t Hin) as (Hg & Hbl & Hdn & Hb & Hwe & Hr).
      assert (Hnoext : forall k', werr s <> Some (KExt k')).
      { intros k' Hw. apply HG in Hw. destruct Hw; discriminate. }
      unfold is_ready in Er. unfold run_task.
      destruct (ts t) as [[|]| |] eqn:Et; try discriminate.
      * destruct (Hr eq_refl) as [Hi Hw]. rewrite Hi. unfold raise_in.
        destruct (werr s) as [e|] eqn:Ew; [|contradiction].
        destruct (HG e eq_refl) as [-> [D [HD1 HD2]]].
        cbn. repeat split; intros; try discriminate.
        injection H as <-. exists D. split; assumption.
      * assert (Hpre : werr s <> None -> inside t = false).
        { intro Hw. destruct (inside t) eqn:Ei; [|reflexivity].
          specialize (Hwe Hw eq_refl). discriminate. }
        destruct (exec_props (now s) (deadline s) (werr s) (rest t) (inside t) (hdr t) Hg Hpre)
          as (_ & _ & X3 & X4 & X5).
        cbn [ts task_of]. repeat split; intros.
        -- exfalso. eapply X4; eassumption.
        -- exfalso. eapply X4; eassumption.
        -- destruct (X3 _ _ H) as [-> _]. apply X5 in H. apply HG in H. tauto.
        -- apply exec_noext. exact Hnoext.
  - split; [exact HG|]. unfold set_tasks; cbn [tasks]. apply Forall_upd.
    + eapply Forall_impl; [|exact HT3]. intros t0 A. exact A.
    + intros x Hx HX. unfold wake. destruct (ts x) eqn:Et; try exact HX.
      unfold TI3; cbn. intros _. repeat split; intros; discriminate.
  - set (n1 := if any_ready s then now s
               else Z.max (now s) (match timer s with Some T => Z.min T n | None => n end)).
    assert (Hn1 : now s <= n1) by (unfold n1; destruct (any_ready s); lia).
    assert (Hkeep : forall t, In t (tasks s) -> ts t = Ready true -> n1 = now s).
    { intros t Hin Hr. unfold n1. rewrite (ready_any s t Hin); [reflexivity|].
      unfold is_ready. rewrite Hr. reflexivity. }
    destruct (timer s) as [T|] eqn:Et.
    + destruct (G1 T eq_refl) as (Hp & Hd & Hle).
      assert (Hn1T : n1 <= T) by (unfold n1; destruct (any_ready s); lia).
      destruct (T <=? n1) eqn:Ec.
      * assert (n1 = T) by lia. split.
        -- unfold G3I; cbn. intros He e Hw. injection Hw as <-. split; [reflexivity|].
           exists T. split; [assumption|lia].
        -- cbn [wcancel tasks]. apply Forall_forall. intros t' Hin.
           apply in_map_iff in Hin. destruct Hin as [t [<- Hin]].
           unfold TI3; cbn [ext_seen werr deadline now wcancel]. intros He.
           destruct (HT3' t Hin He) as (A1 & A2 & A3).
           repeat split; intros.
           ++ congruence.
           ++ rewrite (cancel_task_done_inv _ _ _ H0) in H0. eauto.
           ++ intro H0. rewrite (cancel_task_done_inv _ _ _ H0) in H0. eapply A3; eassumption.
      * split.
        -- unfold G3I; cbn. intros He e Hw. destruct (HG He e Hw) as [-> [D [HD1 HD2]]].
           split; [reflexivity|]. exists D. split; [assumption|lia].
        -- apply Forall_forall. intros t Hin. unfold TI3; cbn [ext_seen werr deadline now].
           intros He. destruct (HT3' t Hin He) as (A1 & A2 & A3).
           repeat split; intros; eauto.
           ++ apply A1 in H. tauto.
           ++ rewrite (Hkeep t Hin H). apply A1 in H. tauto.
    + split.
      * unfold G3I; cbn. intros He e Hw. destruct (HG He e Hw) as [-> [D [HD1 HD2]]].
        split; [reflexivity|]. exists D. split; [assumption|lia].
      * apply Forall_forall. intros t Hin. unfold TI3; cbn [ext_seen werr deadline now].
        intros He. destruct (HT3' t Hin He) as (A1 & A2 & A3).
        repeat split; intros; eauto.
        -- apply A1 in H. tauto.
        -- rewrite (Hkeep t Hin H). apply A1 in H. tauto.
  - destruct (ph s) eqn:Ep; try (split; assumption).
    split.
    + unfold G3I; cbn. discriminate.
    + cbn [wcancel tasks]. apply Forall_forall. intros t' Hin. unfold TI3; cbn. discriminate.
Qed.

(* ---- invariant 4: what the grpc-timeout header was computed from ---------------------------- *)
Definition hgood (nw : Z) (dl : option Z) (h : hdrval) : Prop :=
  match h with
  | Some (c, r) => c <= nw /\ exists D, dl = Some D /\ r = Z.max 0 (D - c)
  | None => True
  end.
Definition WI (s : state) : Prop :=
  Forall (fun t => hgood (now s) (deadline s) (hdr t)) (tasks s) /\
  Forall (fun e : wireent => fst e <= now s /\ hgood (fst e) (deadline s) (snd e)) (wire s).

Lemma hgood_mono n n' dl h : n <= n' -> hgood n dl h -> hgood n' dl h.
Proof. unfold hgood. destruct h as [[c r]|]; [|trivial]. intros ? [? ?]. split; [lia|assumption]. Qed.

Lemma exec_wire nw dl we : forall l ins h,
  hgood nw dl h ->
  let x := exec nw dl we ins h l in
  hgood nw dl (x_hdr x) /\ Forall (fun e : wireent => fst e = nw /\ hgood nw dl (snd e)) (x_wire x).
Proof.
  induction l as [|a l IH]; intros ins h Hh; cbn [exec]; [cbn; auto|].
  destruct a.
  - destruct we; [cbn; auto|]. now apply IH.
  - destruct we; [cbn; auto|]. now apply IH.
  - cbn; auto.
  - cbn; auto.
  - apply IH. destruct dl as [D|]; cbn; [|trivial]. split; [lia|]. exists D. auto.
  - destruct (IH ins h Hh) as [A B]. cbn in A, B. cbn. split; [exact A|].
    constructor; [|exact B]. cbn. auto.
Qed.

Lemma step_inv4 s o : WI s -> WI (step s o).
Proof.
  intros [HT HW].
  assert (mono : forall n', now s <= n' ->
            Forall (fun t => hgood n' (deadline s) (hdr t)) (tasks s) /\
            Forall (fun e : wireent => fst e <= n' /\ hgood (fst e) (deadline s) (snd e)) (wire s)).
  { intros n' Hn. split.
    - eapply Forall_impl; [|exact HT]. intros t. now apply hgood_mono.
    - eapply Forall_impl; [|exact HW]. intros e [A B]. split; [lia|exact B]. }
  destruct o; cbn [step].
  - destruct (ph s); try (split; assumption).
    destruct (deadline s); [destruct (_ <=? _)|]; split; assumption.
  - destruct (ph s); try (split; assumption).
    split; cbn; [|assumption]. apply Forall_app. split; [assumption|].
    constructor; [|constructor]. cbn. trivial.
  - destruct (nth_error (tasks s) i) as [t|] eqn:En; [|split; assumption].
    destruct (is_ready t) eqn:Er; [|split; assumption].
    assert (Hin : In t (tasks s)) by (eapply nth_error_In; eassumption).
    assert (Hh : hgood (now s) (deadline s) (hdr t)).
    { rewrite Forall_forall in HT. now apply HT. }
    assert (X : hgood (now s) (deadline s) (x_hdr (run_task s t)) /\
                Forall (fun e : wireent => fst e = now s /\ hgood (now s) (deadline s) (snd e))
                       (x_wire (run_task s t))).
    { unfold run_task. destruct (ts t) as [[|]| |]; try (apply exec_wire; exact Hh).
      cbn. split; [exact Hh|constructor]. }
    destruct X as [X1 X2]. split; cbn [tasks wire now deadline].
    + apply Forall_upd; [assumption|]. intros x _ _. cbn. exact X1.
    + apply Forall_app. split; [assumption|].
      eapply Forall_impl; [|exact X2]. intros e [A B]. rewrite A. split; [lia|exact B].
  - split; cbn; [|assumption]. apply Forall_upd; [assumption|].
    intros x _ H. unfold wake. destruct (ts x); assumption.
  - set (n1 := if any_ready s then now s
               else Z.max (now s) (match timer s with Some T => Z.min T n | None => n end)).
    assert (Hn1 : now s <= n1) by (unfold n1; destruct (any_ready s); lia).
    destruct (mono n1 Hn1) as [M1 M2].
    assert (C : Forall (fun t => hgood n1 (deadline s) (hdr t)) (map cancel_task (tasks s))).
    { apply Forall_forall. intros t' Hin. apply in_map_iff in Hin. destruct Hin as [t [<- Hin]].
      rewrite Forall_forall in M1. specialize (M1 t Hin).
      unfold cancel_task. destruct (inside t), (ts t); exact M1. }
    destruct (timer s); [destruct (_ <=? _)|]; split; cbn; assumption.
  - destruct (ph s); try (split; assumption).
    split; cbn; [|assumption].
    apply Forall_forall. intros t' Hin. apply in_map_iff in Hin. destruct Hin as [t [<- Hin]].
    rewrite Forall_forall in HT. specialize (HT t Hin).
    unfold cancel_task. destruct (inside t), (ts t); exact HT.
Qed.

(* ---- every schedule ---------------------------------------------------------------------------- *)
Definition AllInv (s : state) : Prop := Inv1 s /\ Forall (TI2 s) (tasks s) /\ Inv3 s /\ WI s.

Lemma init_all n0 dl : AllInv (init n0 dl).
Proof.
  split; [apply init_inv1|]. split; [constructor|]. split; [|split; constructor].
  split; [|constructor]. unfold G3I; cbn. intros _ e He. discriminate.
Qed.

Lemma step_all s o : AllInv s -> op_ok o = true -> AllInv (step s o).
Proof.
  intros (I1 & I2 & I3 & I4) Hok. split; [|split; [|split]].
  - apply step_inv1; assumption.
  - apply step_inv2; assumption.
  - apply step_inv3; assumption.
  - apply step_inv4; assumption.
Qed.

Lemma run_all : forall ops s, AllInv s -> forallb op_ok ops = true -> AllInv (run ops s).
Proof.
  induction ops as [|o ops IH]; intros s Hs Hok; [exact Hs|].
  cbn in Hok. apply andb_true_iff in Hok. destruct Hok as [H1 H2].
  cbn. apply IH; [apply step_all; assumption|assumption].
Qed.

Lemma step_deadline s o : deadline (step s o) = deadline s.
Proof.
  destruct o; cbn [step]; try reflexivity.
  - destruct (ph s); try reflexivity. destruct (deadline s); [destruct (_ <=? _)|]; reflexivity.
  - destruct (ph s); reflexivity.
  - destruct (nth_error _ _); [|reflexivity]. destruct (is_ready _); reflexivity.
  - destruct (timer s); [destruct (_ <=? _)|]; reflexivity.
  - destruct (ph s); reflexivity.
Qed.
Lemma run_deadline : forall ops s, deadline (run ops s) = deadline s.
Proof.
  induction ops as [|o ops IH]; intro s; [reflexivity|]. cbn. rewrite IH. apply step_deadline.
Qed.

Lemma step_ext s o : no_ext o = true -> ext_seen (step s o) = ext_seen s.
Proof.
  destruct o; cbn [step no_ext]; try discriminate; intros _; try reflexivity.
  - destruct (ph s); try reflexivity. destruct (deadline s); [destruct (_ <=? _)|]; reflexivity.
  - destruct (ph s); reflexivity.
  - destruct (nth_error _ _); [|reflexivity]. destruct (is_ready _); reflexivity.
  - destruct (timer s); [destruct (_ <=? _)|]; reflexivity.
Qed.
Lemma run_ext : forall ops s, forallb no_ext ops = true -> ext_seen (run ops s) = ext_seen s.
Proof.
  induction ops as [|o ops IH]; intros s H; [reflexivity|].
  cbn in H. apply andb_true_iff in H. destruct H as [H1 H2]. cbn. rewrite IH; [|assumption].
  now apply step_ext.
Qed.

(* (1) never blocks past the deadline *)
Lemma never_blocks_past_deadline n0 dl ops D :
  forallb op_ok ops = true ->
  let s := run ops (init n0 dl) in
  ph s = Entered -> dl = Some D -> D <= now s -> quiescent s = true ->
  Forall (fun t => is_done t = true) (tasks s).
Proof.
  intros Hok s Hp Hd Hn Hq.
  destruct (run_all ops _ (init_all n0 dl) Hok) as ([(G1 & G2 & _) HT1] & _).
  fold s in G1, G2, HT1.
  assert (Hds : deadline s = Some D) by (unfold s; rewrite run_deadline; exact Hd).
  unfold quiescent in Hq. apply andb_true_iff in Hq. destruct Hq as [Hq1 Hq2].
  apply negb_true_iff in Hq1, Hq2.
  assert (Ht : timer s = None).
  { destruct (timer s) as [T|] eqn:Et; [|reflexivity].
    destruct (G1 T eq_refl) as (_ & HdT & Hle). unfold timer_due in Hq2. rewrite Et in Hq2.
    rewrite Hds in HdT. injection HdT as <-. lia. }
  destruct (G2 D Hp Hds Ht) as [Hw _].
  apply existsb_false_Forall in Hq1. rewrite Forall_forall in *.
  intros t Hin. specialize (Hq1 t Hin). destruct (HT1 t Hin) as (_ & Hbl & _ & _ & Hwe & _).
  unfold is_ready in Hq1. unfold is_done. destruct (ts t) eqn:Et; try discriminate; [|reflexivity].
  specialize (Hwe Hw (Hbl eq_refl)). discriminate.
Qed.

(* (2) completion no later than the deadline; the clock cannot pass it with an operation pending *)
Lemma completion_by_deadline n0 dl ops D :
  forallb op_ok ops = true ->
  let s := run ops (init n0 dl) in
  ph s = Entered -> dl = Some D ->
  forall t, In t (tasks s) -> born t <= D ->
    (forall r a, ts t = Done r a -> a <= D) /\ (D < now s -> is_done t = true).
Proof.
  intros Hok s Hp Hd t Hin Hb.
  destruct (run_all ops _ (init_all n0 dl) Hok) as (_ & HT2 & _). fold s in HT2.
  assert (Hds : deadline s = Some D) by (unfold s; rewrite run_deadline; exact Hd).
  rewrite Forall_forall in HT2. destruct (HT2 t Hin) as [A B]. split; intros; eauto.
Qed.

(* (3) the timer is the only source of TimeoutError, and it never comes early *)
Lemma timeout_only_from_timer n0 dl ops :
  forallb op_ok ops = true -> forallb no_ext ops = true ->
  let s := run ops (init n0 dl) in
  forall t, In t (tasks s) ->
    (forall a, ts t = Done (RRaise KTimeout) a -> exists D, dl = Some D /\ D <= a) /\
    (ts t = Ready true -> dl = Some (now s) /\ werr s = Some KTimeout) /\
    (forall e, werr s = Some e -> e = KTimeout /\ exists D, dl = Some D /\ D <= now s).
Proof.
  intros Hok Hne s t Hin.
  destruct (run_all ops _ (init_all n0 dl) Hok) as (_ & _ & [HG HT3] & _). fold s in HG, HT3.
  assert (He : ext_seen s = false) by (unfold s; rewrite run_ext; [reflexivity|exact Hne]).
  assert (Hds : deadline s = dl) by (unfold s; apply run_deadline).
  rewrite Forall_forall in HT3. destruct (HT3 t Hin He) as (A1 & A2 & _).
  unfold G3I in HG. rewrite Hds in *. split; [exact A2|]. split.
  - intro H. apply A1 in H. tauto.
  - intros e H. exact (HG He e H).
Qed.

(* (4) a call without a deadline has no timer, ever: nothing interrupts it *)
Lemma no_deadline_no_timer n0 ops :
  forallb op_ok ops = true ->
  let s := run ops (init n0 None) in
  timer s = None /\ timer_due s = false /\
  (forallb no_ext ops = true ->
   werr s = None /\
   forall t, In t (tasks s) -> ts t <> Ready true /\ forall a, ts t <> Done (RRaise KTimeout) a).
Proof.
  intros Hok s.
  destruct (run_all ops _ (init_all n0 None) Hok) as ([(_ & _ & G3 & _) _] & _). fold s in G3.
  assert (Hds : deadline s = None) by (unfold s; apply run_deadline).
  assert (Ht : timer s = None) by (apply G3; exact Hds).
  split; [exact Ht|]. split; [unfold timer_due; rewrite Ht; reflexivity|].
  intro Hne. split.
  - destruct (werr s) as [e|] eqn:Ew; [|reflexivity].
    destruct (tasks s) as [|t l] eqn:Etk.
    + destruct (run_all ops _ (init_all n0 None) Hok) as (_ & _ & [HG _] & _). fold s in HG.
      assert (He : ext_seen s = false) by (unfold s; rewrite run_ext; [reflexivity|exact Hne]).
      destruct (HG He e Ew) as [_ [D [HD _]]]. congruence.
    + destruct (timeout_only_from_timer n0 None ops Hok Hne t) as (_ & _ & A).
      { fold s. rewrite Etk. now left. }
      fold s in A. destruct (A e Ew) as [_ [D [HD _]]]. discriminate.
  - intros t Hin. destruct (timeout_only_from_timer n0 None ops Hok Hne t Hin) as (A1 & A2 & _).
    fold s in A1, A2. split.
    + intro H. apply A2 in H. destruct H. discriminate.
    + intros a H. apply A1 in H. destruct H as [D [HD _]]. discriminate.
Qed.

(* (5) the timer fires at exactly the deadline and wakes every blocked operation ... *)
Lemma timer_fires_at_deadline n0 dl ops T n :
  forallb op_ok ops = true ->
  let s := run ops (init n0 dl) in
  timer s = Some T -> any_ready s = false -> T <= n ->
  let s' := step s (OTick n) in
  dl = Some T /\ now s' = T /\ werr s' = Some KTimeout /\ timer s' = None /\
  forall i t, nth_error (tasks s) i = Some t -> ts t = Blocked ->
    exists t', nth_error (tasks s') i = Some t' /\ ts t' = Ready true /\ rest t' = rest t.
Proof.
  intros Hok s Ht Har Hn.
  destruct (run_all ops _ (init_all n0 dl) Hok) as ([(G1 & _) HT1] & _). fold s in G1, HT1.
  destruct (G1 T Ht) as (_ & Hd & Hle).
  assert (Hds : deadline s = dl) by (unfold s; apply run_deadline).
  cbn [step]. rewrite Har, Ht.
  assert (E : Z.max (now s) (Z.min T n) = T) by lia. rewrite E. rewrite Z.leb_refl.
  cbn. repeat split; try congruence.
  intros i t Hi Hb. exists (cancel_task t). split; [now apply map_nth_error|].
  rewrite Forall_forall in HT1. destruct (HT1 t (nth_error_In _ _ Hi)) as (_ & Hbl & _).
  unfold cancel_task. rewrite (Hbl Hb), Hb. cbn. split; reflexivity.
Qed.

(* ... and (6) every operation so woken ends with TimeoutError at that very instant *)
Lemma nth_error_upd_same {A} (f : A -> A) : forall l i x,
  nth_error l i = Some x -> nth_error (upd i f l) i = Some (f x).
Proof.
  induction l as [|a l IH]; intros i x H; destruct i; try discriminate; cbn in *.
  - now injection H as ->.
  - now apply IH.
Qed.

Lemma cancelled_op_raises_timeout n0 dl ops i t :
  forallb op_ok ops = true -> forallb no_ext ops = true ->
  let s := run ops (init n0 dl) in
  nth_error (tasks s) i = Some t -> ts t = Ready true ->
  dl = Some (now s) /\
  exists t', nth_error (tasks (step s (ORun i))) i = Some t' /\
             ts t' = Done (RRaise KTimeout) (now s).
Proof.
  intros Hok Hne s Hi Hr.
  destruct (timeout_only_from_timer n0 dl ops Hok Hne t (nth_error_In _ _ Hi)) as (_ & A & _).
  fold s in A. destruct (A Hr) as [Hd Hw]. split; [exact Hd|].
  destruct (run_all ops _ (init_all n0 dl) Hok) as ([_ HT1] & _). fold s in HT1.
  rewrite Forall_forall in HT1. destruct (HT1 t (nth_error_In _ _ Hi)) as (_ & _ & _ & _ & _ & Hrt).
  destruct (Hrt Hr) as [Hin _].
  cbn [step]. rewrite Hi. unfold is_ready. rewrite Hr. cbn [tasks].
  eexists. split; [apply nth_error_upd_same; exact Hi|].
  unfold run_task. rewrite Hr. cbn. unfold raise_in. rewrite Hin, Hw. reflexivity.
Qed.

(* (7) Channel.request: the earlier of timeout-derived and explicit deadline *)
Lemma request_deadline_spec n0 timeout explicit :
  match request_deadline n0 timeout explicit with
  | None => timeout = None /\ explicit = None
  | Some D => (forall t, timeout = Some t -> D <= n0 + t) /\
              (forall d, explicit = Some d -> D <= d) /\
              (timeout = Some (D - n0) \/ explicit = Some D)
  end.
Proof.
  unfold request_deadline. destruct timeout as [t|], explicit as [d|]; cbn.
  - repeat split; intros.
    + injection H as <-. lia.
    + injection H as <-. lia.
    + destruct (Z.min_spec (n0 + t) d) as [[_ E]|[_ E]]; rewrite E;
        [left; f_equal; lia|right; reflexivity].
  - repeat split; intros; try discriminate.
    + injection H as <-. lia.
    + left. f_equal. lia.
  - repeat split; intros; try discriminate.
    + injection H as <-. lia.
    + now right.
  - split; reflexivity.
Qed.

(* (8) __aenter__ with nothing remaining: TimeoutError at once, the body never runs *)
Lemma enter_expired n0 D : D <= n0 ->
  let s := step (init n0 (Some D)) OEnter in
  ph s = EnterFailed /\ werr s = Some KTimeout /\ timer s = None /\ now s = n0.
Proof.
  intro H. cbn. destruct (D <=? n0) eqn:E; [cbn; auto|lia].
Qed.
Lemma enter_arms n0 D : n0 < D ->
  let s := step (init n0 (Some D)) OEnter in
  ph s = Entered /\ werr s = None /\ timer s = Some D.
Proof.
  intro H. cbn. destruct (D <=? n0) eqn:E; [lia|cbn; auto].
Qed.

(* the deterministic scheduler used by the correspondence check runs one of the schedules *)
Lemma play_ops_ok : forall fuel avail horizon specs s,
  forallb (fun sp => guarded_path (s_path sp)) specs = true ->
  forallb op_ok (play_ops fuel avail horizon specs s) = true.
Proof.
  induction fuel as [|f IH]; intros avail horizon specs s Hs; [reflexivity|].
  cbn [play_ops]. destruct (next_ops avail horizon specs s) as [[os specs']|] eqn:E; [|reflexivity].
  rewrite forallb_app. apply andb_true_iff.
  unfold next_ops in E.
  destruct (timer_due s).
  { injection E as <- <-. split; [reflexivity|now apply IH]. }
  destruct (index_ready (tasks s) 0).
  { injection E as <- <-. split; [reflexivity|now apply IH]. }
  destruct (index_completable avail (now s) (tasks s) 0).
  { injection E as <- <-. split; [reflexivity|now apply IH]. }
  destruct (forallb is_done (tasks s)).
  - destruct specs as [|sp r]; [discriminate|]. injection E as <- <-.
    cbn in Hs. apply andb_true_iff in Hs. destruct Hs as [H1 H2].
    split; [cbn; rewrite H1; reflexivity|now apply IH].
  - destruct (next_instant avail s); [|discriminate].
    destruct (_ <=? _); [|discriminate]. injection E as <- <-.
    split; [reflexivity|now apply IH].
Qed.

(* ---- the generated programs: every await of every client operation is guarded -------------- *)
From GV Require Import Gen.StreamOps.

Lemma client_paths_guarded : forallb guarded_path (all_client_paths client_ops) = true.
Proof. vm_compute. reflexivity. Qed.

Lemma client_paths_fuel_enough :
  map (fun o => op_paths PATH_FUEL client_ops o) client_opnames =
  map (fun o => op_paths (S PATH_FUEL) client_ops o) client_opnames.
Proof. vm_compute. reflexivity. Qed.

Lemma client_op_path_guarded o p :
  In o client_opnames -> In p (op_flat_paths client_ops o) -> guarded_path p = true.
Proof.
  intros Ho Hp. assert (H := client_paths_guarded). rewrite forallb_forall in H. apply H.
  unfold all_client_paths. apply in_or_app. left. apply in_flat_map. exists o. now split.
Qed.

Lemma client_aexit_path_guarded p fd :
  In (p, fd) (aexit_paths client_ops) -> guarded_path p = true.
Proof.
  intro Hp. assert (H := client_paths_guarded). rewrite forallb_forall in H. apply H.
  unfold all_client_paths. apply in_or_app. right. apply in_map_iff. exists (p, fd). now split.
Qed.

(* the CONCRETE path of every call, for every value of the flags, the cardinality, the arguments
   and the environment's answers (a finite domain: 15 + 2 booleans, enumerated completely) *)
Fixpoint bvecs (n : nat) : list (list bool) :=
  match n with
  | O => [[]]
  | S k => flat_map (fun v => [false :: v; true :: v]) (bvecs k)
  end.
Lemma bvecs_complete : forall n v, length v = n -> In v (bvecs n).
Proof.
  induction n as [|n IH]; intros v Hl.
  - destruct v; [now left|discriminate].
  - destruct v as [|b v]; [discriminate|]. injection Hl as Hl. cbn. apply in_flat_map.
    exists v. split; [now apply IH|]. destruct b; cbn; auto.
Qed.

Definition nb (v : list bool) (i : nat) : bool := nth i v false.
Definition cx_of (v : list bool) : pctx :=
  {| x_cs := nb v 0; x_end := nb v 1; x_deadline := nb v 2; x_has_gs := nb v 3;
     x_got_msg := nb v 4; x_status_err := nb v 5 |}.
Definition fl_of (v : list bool) : flags :=
  Build_flags (nb v 6) (nb v 7) (nb v 8) (nb v 9) (nb v 10) (nb v 11) (nb v 12) (nb v 13) (nb v 14).

Lemma concrete_paths_guarded_all :
  forallb (fun v =>
             forallb (fun o => guarded_path (cpath client_ops o (cx_of v) (fl_of v))) client_opnames &&
             guarded_path (fst (caexit client_ops (cx_of v) (fl_of v) (nb v 15) (nb v 16))))
          (bvecs 17) = true.
Proof. vm_compute. reflexivity. Qed.

Lemma concrete_path_guarded o cx fl :
  In o client_opnames -> guarded_path (cpath client_ops o cx fl) = true.
Proof.
  intro Ho. destruct cx as [b0 b1 b2 b3 b4 b5], fl as [b6 b7 b8 b9 b10 b11 b12 b13 b14].
  set (v := [b0; b1; b2; b3; b4; b5; b6; b7; b8; b9; b10; b11; b12; b13; b14; false; false]).
  assert (H := concrete_paths_guarded_all). rewrite forallb_forall in H.
  specialize (H v (bvecs_complete 17 v eq_refl)).
  apply andb_true_iff in H. destruct H as [H _].
  rewrite forallb_forall in H. exact (H o Ho).
Qed.

Lemma concrete_aexit_guarded cx fl exc closing :
  guarded_path (fst (caexit client_ops cx fl exc closing)) = true.
Proof.
  destruct cx as [b0 b1 b2 b3 b4 b5], fl as [b6 b7 b8 b9 b10 b11 b12 b13 b14].
  set (v := [b0; b1; b2; b3; b4; b5; b6; b7; b8; b9; b10; b11; b12; b13; b14; exc; closing]).
  assert (H := concrete_paths_guarded_all). rewrite forallb_forall in H.
  specialize (H v (bvecs_complete 17 v eq_refl)).
  apply andb_true_iff in H. destruct H as [_ H]. exact H.
Qed.
