(* Non-vacuity examples for C02: the hypotheses of the theorems are satisfiable by non-trivial inputs,
   the string level classifies what Python classifies, and the bounded domain contains the cells the
   rows talk about.  Everything here is decided by vm_compute. *)
From Coq Require Import String ZArith List Bool.
From GV Require Import Lib.Str Gen.Facts Gen.FactsC02 Model.Base64 Model.Metadata Model.PyInt
  Model.ClientCall Proofs.C02Proofs.
Import ListNotations.
Open Scope Z_scope.

(* int(): blanks, sign, underscores, Unicode digits -- and what it refuses *)
Example ex_int_plain : py_int (s2z " 1_0 ") = Some 10. Proof. vm_compute; reflexivity. Qed.
Example ex_int_sign : py_int (s2z "+3") = Some 3 /\ py_int (s2z "-0") = Some 0.
Proof. vm_compute; split; reflexivity. Qed.
Example ex_int_arabic : py_int [1635] = Some 3 /\ py_int [65297; 65298] = Some 12.
Proof. vm_compute; split; reflexivity. Qed.
Example ex_int_nbsp : py_int [160; 53; 12288] = Some 5. Proof. vm_compute; reflexivity. Qed.
Example ex_int_refused :
  py_int (s2z "") = None /\ py_int (s2z "1__0") = None /\ py_int (s2z "_1") = None /\
  py_int (s2z "1_") = None /\ py_int (s2z "+ 1") = None /\ py_int (s2z "1.0") = None /\
  py_int [28; 49] = None /\ py_int [49; 0] = None /\ py_int [178] = None.
Proof. vm_compute; repeat split; reflexivity. Qed.

(* a header block with a decoy: the last :status wins; " 1_0 " is ABORTED *)
Definition ex_headers : hdrs :=
  [ (s2z ":status", s2z "404"); (s2z ":status", s2z "200");
    (s2z "content-type", s2z "application/grpc+proto");
    (s2z "grpc-status", s2z " 1_0 "); (s2z "grpc-message", s2z "a%20b"); (s2z "x-bin", s2z "QUJD") ].
Example ex_alpha : alpha_h proto_content_subtype ex_headers =
                   {| hi_st := S200; hi_ct := CtOk; hi_gs := GsErr; hi_md := MdOk |}.
Proof. vm_compute; reflexivity. Qed.

(* trailers-only ABORTED on a unary call, resolved against the strings *)
Example ex_observe :
  observe proto_content_subtype true no_listeners (Call false false)
          [{| cb_trig := TB; cb_events := [CH ex_headers false true] |}]
  = OGrpc 10 (MHeader (s2z "a%20b")) DAbsent.
Proof. vm_compute; reflexivity. Qed.

(* a malformed user -bin header: binascii.Error (D2c) *)
Example ex_observe_bad_bin :
  observe proto_content_subtype true no_listeners (Call false false)
          [{| cb_trig := TB;
              cb_events := [CH [(s2z ":status", s2z "200"); (s2z "content-type", s2z "application/grpc");
                                (s2z "x-bin", s2z "A")] false false;
                            CD false; CT [(s2z "grpc-status", s2z "0")] false] |}]
  = OBinascii.
Proof. vm_compute; reflexivity. Qed.

(* the domain is not trivial: it contains, outside the defect classes, cells of every row *)
Definition result_is (r : result) (k : kind) (bs : list batch) : bool :=
  negb (defect k bs) &&
  match outcome no_listeners k bs, r with
  | ROk _, ROk _ => true
  | RExc e, RExc e' => exn_eqb e e'
  | RHang, RHang => true
  | _, _ => false
  end.

Definition cfg0 (k : kind) : config := (no_listeners, k, 2%nat).
Definition cfgL (k : kind) : config := (all_listeners, k, 1%nat).

Example ex_domain_server_status :
  exists bs, In bs (cases_of (cfg0 (Call false false))) /\
             result_is (RExc (XServer BTrl)) (Call false false) bs = true.
Proof. apply exists_scripts_sound. vm_compute. reflexivity. Qed.

Example ex_domain_success_stream :
  exists bs, In bs (cases_of (cfg0 (Call true true))) /\ result_is (ROk 0) (Call true true) bs = true.
Proof. apply exists_scripts_sound. vm_compute. reflexivity. Qed.

Example ex_domain_terminated_open :
  exists bs, In bs (cases_of (cfg0 (Open false false [RI; RM; RT]))) /\
             result_is (RExc XTerminated) (Open false false [RI; RM; RT]) bs = true.
Proof. apply exists_scripts_sound. vm_compute. reflexivity. Qed.

Example ex_domain_hang_allowed :
  exists bs, In bs (cases_of (cfg0 (Call false true))) /\ result_is RHang (Call false true) bs = true.
Proof. apply exists_scripts_sound. vm_compute. reflexivity. Qed.

(* the listener configurations contain scripts whose last batch is delivered during a suspension and
   ends the call with the upgraded server status *)
Example ex_domain_listener_cut :
  exists bs, In bs (cases_of (cfgL (Call false false))) /\
             (existsb (fun b => match b_trig b with TL => existsb (fun e => match e with AGoaway | ALost => true | _ => false end) (b_events b) | _ => false end) bs
              && match outcome all_listeners (Call false false) bs with
                 | RExc (XServer BTrl) => true | _ => false end) = true.
Proof. apply exists_scripts_sound. vm_compute. reflexivity. Qed.

Example ex_configs : In (cfg0 (Call false false)) configs /\ In (cfgL (Open false false [RI; RM; RT])) configs /\
                     List.length configs = 24%nat.
Proof. vm_compute. repeat split; auto 30. Qed.

(* hypotheses of the row theorems are satisfiable inside the domain *)
Example ex_row_hyps :
  exists_scripts 2 [TB] (row_non200_hyp (Call false false)) = true /\
  exists_scripts 2 [TB] (row_server_trl_hyp (Call false false)) = true /\
  exists_scripts 2 [TB] (row_server_hdr_hyp (Call false false)) = true /\
  exists_scripts 2 [TB] (row_nothing_hyp (Call false false)) = true /\
  exists_scripts 2 [TB] (row_success_hyp (Call false false)) = true /\
  exists_scripts 2 [TB] (row_missing_status_hyp (Call false true)) = true.
Proof. vm_compute. repeat split; reflexivity. Qed.

(* the hypothesis of the general liveness theorem on a script outside the bounded domain: five
   messages, a trigger pattern that is not enumerated, then trailers *)
Definition ex_long : list batch :=
  [{| b_trig := TS 1; b_events := [AH (H_ok GsAbsent MdOk) false; AD false] |};
   {| b_trig := TS 0; b_events := [AD false; AD false] |};
   {| b_trig := TB; b_events := [AD false; AD false; AT (T_of GsErr)] |}].
Example ex_long_hyp : wf_script ex_long = true /\ ev_ended (events ex_long) = true.
Proof. vm_compute; split; reflexivity. Qed.
Example ex_long_outcome : outcome all_listeners (Open true true [RI; RM; IT]) ex_long = RExc (XServer BTrl).
Proof. vm_compute; reflexivity. Qed.

(* size of the enumeration (cells per kind) *)
Definition count_scripts maxd trs : Z :=
  fold_left (fun a es => fold_left (fun a c => a + Z.of_nat (List.length (timings trs es c))) all_cuts a)
            (all_layouts maxd) 0.
Example ex_domain_size :
  count_scripts 2 [TB] = 43784 /\ count_scripts 2 (step_triggers 3) = 218920 /\
  count_scripts 1 [TB; TL] = 50704.
Proof. vm_compute. repeat split; reflexivity. Qed.
