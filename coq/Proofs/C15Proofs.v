(* Proofs for Props/C15.v: grpc-timeout encoding / decoding / minimum over repeated headers.
   Python float = Flocq binary64.  The float theorems use the real numbers of the Coq standard
   library (through Flocq), hence depend on its classical axioms -- see Print Assumptions in
   Props/C15.v; nothing is assumed by this development itself. *)
From Coq Require Import String ZArith List Bool Lia ZifyBool Reals Lra.
From Flocq Require Import Core IEEE754.BinarySingleNaN IEEE754.Binary IEEE754.Bits.
Require Import Flocq.Prop.Relative.
From GV Require Import Lib.Str Gen.Facts Model.Timeout.
Import ListNotations.
Open Scope Z_scope.
#[local] Ltac Zify.zify_post_hook ::= Z.div_mod_to_equations.

(* ------------------------------------------------------------------------------------------ *)
(** * Decimal rendering *)
Definition le_val (l : list Z) : Z := fold_right (fun d a => d + 10 * a) 0 l.

Lemma pow10_succ k : 0 <= k -> 10 ^ (k + 1) = 10 * 10 ^ k.
Proof. intros. rewrite Z.pow_add_r by lia. lia. Qed.

Lemma le_digits_val : forall fuel n,
  0 <= n < 10 ^ Z.of_nat fuel -> le_val (le_digits fuel n) = n.
Proof.
  induction fuel as [|f IH]; intros n Hn.
  - cbn in Hn. cbn. lia.
  - cbn [le_digits]. unfold le_val. cbn [fold_right]. fold (le_val (if n / 10 =? 0 then [] else le_digits f (n / 10))).
    destruct (n / 10 =? 0) eqn:E.
    + cbn. lia.
    + rewrite IH. lia.
      replace (Z.of_nat (S f)) with (Z.of_nat f + 1) in Hn by lia.
      rewrite pow10_succ in Hn by lia. lia.
Qed.

Lemma le_digits_range : forall fuel n, Forall (fun d => 0 <= d <= 9) (le_digits fuel n).
Proof.
  induction fuel as [|f IH]; intros n; cbn [le_digits]; constructor.
  - lia.
  - destruct (n / 10 =? 0); [constructor | apply IH].
Qed.

Lemma le_digits_len : forall fuel n k,
  0 <= n < 10 ^ k -> 1 <= k -> Z.of_nat (length (le_digits fuel n)) <= k.
Proof.
  induction fuel as [|f IH]; intros n k Hn Hk.
  - cbn. lia.
  - cbn [le_digits length]. destruct (n / 10 =? 0) eqn:E.
    + cbn. lia.
    + assert (Hk2 : 2 <= k).
      { destruct (Z.eq_dec k 1) as [->|]; [|lia]. change (10 ^ 1) with 10 in Hn. lia. }
      specialize (IH (n / 10) (k - 1)).
      replace k with ((k - 1) + 1) in Hn by lia. rewrite pow10_succ in Hn by lia.
      lia.
Qed.

Lemma le_digits_nonempty : forall fuel n, (1 <= length (le_digits (S fuel) n))%nat.
Proof. intros. cbn [le_digits length]. lia. Qed.

Lemma pow2_le_pow10 k : 0 <= k -> 2 ^ k <= 10 ^ k.
Proof. intros. apply Z.pow_le_mono_l. lia. Qed.

Lemma fuel_enough n : 0 <= n -> n < 10 ^ Z.of_nat (S (Z.to_nat (Z.log2 n))).
Proof.
  intros Hn.
  destruct (Z.eq_dec n 0) as [->|Hz]; [reflexivity|].
  assert (H := Z.log2_spec n ltac:(lia)).
  assert (H0 := Z.log2_nonneg n).
  replace (Z.of_nat (S (Z.to_nat (Z.log2 n)))) with (Z.succ (Z.log2 n)) by lia.
  pose proof (pow2_le_pow10 (Z.succ (Z.log2 n)) ltac:(lia)). lia.
Qed.

Lemma parse_dec_app ds c : parse_dec (ds ++ [c]) = parse_dec ds * 10 + (c - 48).
Proof. unfold parse_dec. rewrite fold_left_app. reflexivity. Qed.

Lemma parse_dec_le l : parse_dec (rev (map (fun d => 48 + d) l)) = le_val l.
Proof.
  induction l as [|d l IH]; [reflexivity|].
  cbn [map rev]. rewrite parse_dec_app, IH. cbn [le_val fold_right]. fold (le_val l). lia.
Qed.

Lemma parse_dec_of_nonneg n : 0 <= n -> parse_dec (dec_of_nonneg n) = n.
Proof.
  intros Hn. unfold dec_of_nonneg. rewrite parse_dec_le. apply le_digits_val.
  split; [lia|]. apply fuel_enough; lia.
Qed.

Lemma dec_of_nonneg_digits n : forallb is_digit (dec_of_nonneg n) = true.
Proof.
  unfold dec_of_nonneg. apply forallb_forall. intros c Hc.
  apply in_rev in Hc. apply in_map_iff in Hc as [d [<- Hd]].
  pose proof (le_digits_range (S (Z.to_nat (Z.log2 n))) n) as HF.
  rewrite Forall_forall in HF. specialize (HF d Hd). unfold is_digit, in_range. lia.
Qed.

Lemma dec_of_nonneg_len n k : 0 <= n < 10 ^ k -> 1 <= k ->
  1 <= Z.of_nat (length (dec_of_nonneg n)) <= k.
Proof.
  intros Hn Hk. unfold dec_of_nonneg. rewrite rev_length, map_length. split.
  - pose proof (le_digits_nonempty (Z.to_nat (Z.log2 n)) n). lia.
  - apply le_digits_len; assumption.
Qed.

Lemma py_str_int_nonneg n : 0 <= n -> py_str_int n = dec_of_nonneg n.
Proof. intros. unfold py_str_int. destruct (n <? 0) eqn:E; [lia|reflexivity]. Qed.

(** * The recogniser *)
Lemma split_last_app ds u : split_last (ds ++ [u]) = Some (ds, u).
Proof. unfold split_last. rewrite rev_app_distr. cbn. rewrite rev_involutive. reflexivity. Qed.

Lemma split_last_inv s ds u : split_last s = Some (ds, u) -> s = ds ++ [u].
Proof.
  unfold split_last. destruct (rev s) as [|x r] eqn:E; [discriminate|].
  intros [= <- <-]. rewrite <- (rev_involutive s), E. reflexivity.
Qed.

(* the grammar of the property: 1..8 ASCII digits followed by one unit letter *)
Definition unit_letters : list Z := [72; 77; 83; 109; 117; 110].     (* H M S m u n *)
Definition in_grammar (s : list Z) : Prop :=
  exists ds u, s = ds ++ [u] /\ (1 <= length ds <= 8)%nat /\
               Forall (fun c => 48 <= c <= 57) ds /\ In u unit_letters.

Lemma unit_chars_src : unit_chars = unit_letters.
Proof. reflexivity. Qed.

Lemma is_unit_iff u : is_unit u = true <-> In u unit_letters.
Proof.
  unfold is_unit. rewrite unit_chars_src, existsb_exists. split.
  - intros [x [Hx E]]. apply Z.eqb_eq in E. subst. exact Hx.
  - intros H. exists u. split; [exact H|apply Z.eqb_refl].
Qed.

Lemma digits_forallb ds : forallb is_digit ds = true <-> Forall (fun c => 48 <= c <= 57) ds.
Proof.
  rewrite forallb_forall, Forall_forall. unfold is_digit, in_range.
  split; intros H x Hx; specialize (H x Hx); lia.
Qed.

Lemma re_match_accepts ds u :
  (1 <= length ds <= 8)%nat -> Forall (fun c => 48 <= c <= 57) ds -> In u unit_letters ->
  timeout_re_match (ds ++ [u]) = Some (ds, u).
Proof.
  intros Hl Hd Hu. unfold timeout_re_match. rewrite split_last_app.
  apply digits_forallb in Hd. apply is_unit_iff in Hu. rewrite Hd, Hu.
  replace (1 <=? Z.of_nat (length ds)) with true by lia.
  replace (Z.of_nat (length ds) <=? 8) with true by lia. reflexivity.
Qed.

Lemma re_match_inv s ds u : timeout_re_match s = Some (ds, u) ->
  s = ds ++ [u] /\ (1 <= length ds <= 8)%nat /\ Forall (fun c => 48 <= c <= 57) ds /\
  In u unit_letters.
Proof.
  unfold timeout_re_match. destruct (split_last s) as [[ds' u']|] eqn:E; [|discriminate].
  destruct (_ && _) eqn:C; [|discriminate]. intros [= <- <-].
  apply andb_true_iff in C as [C Hu]. apply andb_true_iff in C as [C Hd].
  apply andb_true_iff in C as [C1 C2].
  split; [apply split_last_inv; exact E|]. split; [lia|].
  split; [apply digits_forallb; exact Hd|apply is_unit_iff; exact Hu].
Qed.

Lemma re_match_iff s : (exists g, timeout_re_match s = Some g) <-> in_grammar s.
Proof.
  split.
  - intros [[ds u] H]. apply re_match_inv in H as (H1 & H2 & H3 & H4). exists ds, u. auto.
  - intros (ds & u & -> & H2 & H3 & H4). exists (ds, u). apply re_match_accepts; assumption.
Qed.

Lemma re_match_rejects s : ~ in_grammar s -> timeout_re_match s = None.
Proof.
  intros H. destruct (timeout_re_match s) as [g|] eqn:E; [|reflexivity].
  exfalso. apply H. apply re_match_iff. exists g. exact E.
Qed.

(* ------------------------------------------------------------------------------------------ *)
(** * binary64 and the reals *)
Open Scope R_scope.

Definition R64 (x : f64) : R := B2R 53 1024 x.
Definition fin (x : f64) : bool := is_finite 53 1024 x.
Definition rnd (x : R) : R := round radix2 (FLT_exp (-1074) 53) ZnearestE x.

#[local] Instance prec53_ : Prec_gt_0 53 := prec53.
#[local] Instance emax1024_ : Prec_lt_emax 53 1024 := emax1024.

Lemma rnd_bound_abs : forall p, Rabs p <= bpow radix2 100 -> Rabs (rnd p) <= bpow radix2 100.
Proof.
  intros p Hp. unfold rnd.
  apply abs_round_le_generic; auto with typeclass_instances.
  apply generic_format_bpow. unfold FLT_exp. lia.
Qed.

Lemma fmul_correct : forall x y : f64,
  fin x = true -> fin y = true ->
  Rabs (R64 x * R64 y) <= bpow radix2 100 ->
  R64 (fmul x y) = rnd (R64 x * R64 y) /\ fin (fmul x y) = true.
Proof.
  intros x y Fx Fy Hb.
  pose proof (Bmult_correct 53 1024 prec53 emax1024 binop_nan_pl64 mode_NE x y) as H.
  cbv zeta in H.
  assert (Hlt : Rlt_bool (Rabs (round radix2 (SpecFloat.fexp 53 1024) (round_mode mode_NE)
              (B2R 53 1024 x * B2R 53 1024 y))) (bpow radix2 1024) = true).
  { apply Rlt_bool_true.
    apply Rle_lt_trans with (bpow radix2 100).
    - apply (rnd_bound_abs _ Hb).
    - apply bpow_lt. lia. }
  rewrite Hlt in H. destruct H as [H1 [H2 _]].
  split.
  - exact H1.
  - unfold fin, fmul. rewrite H2. unfold fin in Fx, Fy. rewrite Fx, Fy. reflexivity.
Qed.

Lemma rnd_IZR z : (Z.abs z < 2 ^ 53)%Z -> rnd (IZR z) = IZR z.
Proof.
  intros Hz. unfold rnd. apply round_generic; auto with typeclass_instances.
  apply generic_format_FLT. exists (Float radix2 z 0).
  - unfold F2R. simpl. lra.
  - simpl. exact Hz.
  - simpl. lia.
Qed.

Lemma rnd_le a b : a <= b -> rnd a <= rnd b.
Proof. intros. unfold rnd. apply round_le; auto with typeclass_instances. Qed.

Lemma f_of_Z_exact z : (Z.abs z < 2 ^ 53)%Z ->
  R64 (f_of_Z z) = IZR z /\ fin (f_of_Z z) = true.
Proof.
  intros Hz.
  pose proof (binary_normalize_correct 53 1024 prec53 emax1024 mode_NE z 0 false) as H.
  assert (HF : F2R (Float radix2 z 0) = IZR z) by (unfold F2R; simpl; lra).
  rewrite HF in H.
  assert (Hr : round radix2 (SpecFloat.fexp 53 1024) (round_mode mode_NE) (IZR z) = IZR z)
    by (apply (rnd_IZR z Hz)).
  rewrite Hr in H.
  rewrite Rlt_bool_true in H.
  - destruct H as [H1 [H2 _]]. split; [exact H1|exact H2].
  - rewrite <- abs_IZR. apply Rlt_le_trans with (IZR (2 ^ 53)).
    + apply IZR_lt. exact Hz.
    + change (IZR (2 ^ 53)) with (bpow radix2 53). apply bpow_le. lia.
Qed.

Lemma Btrunc_R (x : f64) : Btrunc 53 1024 x = Ztrunc (R64 x).
Proof.
  apply eq_IZR. rewrite Btrunc_correct.
  unfold round, F2R, scaled_mantissa, cexp, FIX_exp. simpl. unfold R64.
  rewrite Rmult_1_r. rewrite Rmult_1_r. reflexivity. exact emax1024.
Qed.

(* ---- exact comparison with a rational ---- *)
Lemma Rcompare_div_r x n d : 0 < d -> Rcompare x (n / d) = Rcompare (x * d) n.
Proof.
  intros Hd. rewrite <- (Rcompare_mult_r d x (n / d) Hd).
  replace (n / d * d) with n by (field; lra). reflexivity.
Qed.

Lemma cmp_float_q_correct (f : f64) num den : (0 < den)%Z -> fin f = true ->
  cmp_float_q f num den = Some (Rcompare (R64 f) (IZR num / IZR den)).
Proof.
  intros Hden Hf.
  assert (Hd : 0 < IZR den) by (apply IZR_lt; exact Hden).
  rewrite Rcompare_div_r by exact Hd.
  destruct f as [s|s|s pl H|s m e H]; try discriminate Hf.
  - unfold cmp_float_q, R64, B2R. rewrite Rmult_0_l. f_equal.
    symmetry. apply (Rcompare_IZR 0 num).
  - unfold cmp_float_q, R64, B2R, F2R. cbn [Fnum Fexp]. f_equal.
    destruct (0 <=? e)%Z eqn:E.
    + rewrite <- (IZR_Zpower radix2 e) by lia. rewrite <- !mult_IZR.
      symmetry. apply Rcompare_IZR.
    + assert (He : (0 <= - e)%Z) by lia.
      assert (Hp : 0 < IZR (2 ^ (- e))).
      { apply IZR_lt. apply Z.pow_pos_nonneg; lia. }
      rewrite <- (Rcompare_mult_r (IZR (2 ^ (- e)))) by exact Hp.
      change (2 ^ (- e))%Z with (radix2 ^ (- e))%Z.
      rewrite (IZR_Zpower radix2 (- e)) by lia.
      replace (IZR (cond_Zopp s (Z.pos m)) * bpow radix2 e * IZR den * bpow radix2 (- e))
        with (IZR (cond_Zopp s (Z.pos m)) * IZR den * (bpow radix2 e * bpow radix2 (- e))) by ring.
      rewrite <- bpow_plus. replace (e + - e)%Z with 0%Z by lia. simpl (bpow radix2 0).
      rewrite Rmult_1_r. rewrite <- (IZR_Zpower radix2 (- e)) by lia.
      rewrite <- !mult_IZR. symmetry. apply Rcompare_IZR.
Qed.

Lemma py_gt_q_float (f : f64) num den : (0 < den)%Z -> fin f = true ->
  py_gt_q (PyFloat f) num den = true <-> IZR num / IZR den < R64 f.
Proof.
  intros Hd Hf. unfold py_gt_q. rewrite cmp_float_q_correct by assumption.
  destruct (Rcompare_spec (R64 f) (IZR num / IZR den)); split; intros; try discriminate; try lra; reflexivity.
Qed.

Lemma py_gt_q_float_false (f : f64) num den : (0 < den)%Z -> fin f = true ->
  py_gt_q (PyFloat f) num den = false <-> R64 f <= IZR num / IZR den.
Proof.
  intros Hd Hf. unfold py_gt_q. rewrite cmp_float_q_correct by assumption.
  destruct (Rcompare_spec (R64 f) (IZR num / IZR den)); split; intros; try discriminate; try lra; reflexivity.
Qed.

(* ---- the two numeric facts about int(round(p)) ---- *)
Lemma rnd_nonneg p : 0 <= p -> 0 <= rnd p.
Proof.
  intros Hp. unfold rnd. rewrite <- (round_0 radix2 (FLT_exp (-1074) 53) ZnearestE).
  apply round_le; auto with typeclass_instances.
Qed.

(* truncation of the rounded product never exceeds p(1+2^-52), strictly below it for p > 0 *)
Lemma trunc_rnd_upper : forall p : R, 0 < p ->
  IZR (Ztrunc (rnd p)) < p * (1 + bpow radix2 (-52)).
Proof.
  intros p Hp.
  destruct (error_N_FLT radix2 (-1074) 53 ltac:(lia) (fun z => negb (Z.even z)) p)
    as (eps & eta & Heps & Heta & Hprod & Hr).
  fold (rnd p) in Hr.
  assert (Hr0 : 0 <= rnd p) by (apply rnd_nonneg; lra).
  assert (Ht : IZR (Ztrunc (rnd p)) <= rnd p).
  { rewrite Ztrunc_floor by exact Hr0. apply Zfloor_lb. }
  destruct (Rle_lt_dec 1 (rnd p)) as [H1|H1].
  - assert (Hb52 : bpow radix2 (-52) = 2 * bpow radix2 (-53)).
    { replace (-52)%Z with (1 + -53)%Z by lia. rewrite bpow_plus. simpl. lra. }
    assert (Hb53 : 0 < bpow radix2 (-53)) by apply bpow_gt_0.
    assert (Hb53' : bpow radix2 (-53) <= / 2).
    { change (/2) with (bpow radix2 (-1)). apply bpow_le. lia. }
    assert (He : Rabs eps <= bpow radix2 (-53)).
    { eapply Rle_trans; [exact Heps|]. change (Z.opp 53 + 1)%Z with (-52)%Z. rewrite Hb52. lra. }
    assert (Heta' : Rabs eta <= bpow radix2 (-53) * / 4).
    { eapply Rle_trans; [exact Heta|].
      apply Rle_trans with (/2 * bpow radix2 (-55)).
      - apply Rmult_le_compat_l; [lra|]. apply bpow_le. lia.
      - replace (-53)%Z with (2 + -55)%Z by lia. rewrite bpow_plus. simpl (bpow radix2 2).
        pose proof (bpow_gt_0 radix2 (-55)). lra. }
    apply Rabs_le_inv in He. apply Rabs_le_inv in Heta'.
    assert (Hp2 : / 2 <= p) by nra.
    rewrite Hb52. nra.
  - assert (Hz : Ztrunc (rnd p) = 0%Z).
    { rewrite Ztrunc_floor by exact Hr0. apply Zfloor_imp. simpl. lra. }
    rewrite Hz. simpl. pose proof (bpow_gt_0 radix2 (-52)). nra.
Qed.

(* ... and loses less than one unit: p - 1 < int(round(p)) *)
Lemma trunc_rnd_lower : forall p : R, 0 <= p -> p <= bpow radix2 52 ->
  p - 1 < IZR (Ztrunc (rnd p)).
Proof.
  intros p Hp Hb.
  assert (Hr0 : 0 <= rnd p) by (apply rnd_nonneg; exact Hp).
  rewrite Ztrunc_floor by exact Hr0.
  set (n := Zfloor (rnd p)).
  destruct (Rlt_le_dec p (IZR n + 1)) as [H|H]; [lra|exfalso].
  assert (Hn0 : (0 <= n)%Z).
  { apply Zfloor_lub. exact Hr0. }
  assert (Hrb : rnd p <= bpow radix2 52).
  { replace (bpow radix2 52) with (rnd (bpow radix2 52)); [apply rnd_le; exact Hb|].
    unfold rnd. apply round_generic; auto with typeclass_instances.
    apply generic_format_bpow. unfold FLT_exp. lia. }
  assert (Hnb : (n <= 2 ^ 52)%Z).
  { apply le_IZR. apply Rle_trans with (rnd p); [apply Zfloor_lb|].
    change (IZR (2 ^ 52)) with (bpow radix2 52). exact Hrb. }
  assert (Hge : IZR n + 1 <= rnd p).
  { rewrite <- plus_IZR. rewrite <- (rnd_IZR (n + 1)) by lia. apply rnd_le.
    rewrite plus_IZR. exact H. }
  pose proof (Zfloor_ub (rnd p)). fold n in H0. lra.
Qed.

(* ------------------------------------------------------------------------------------------ *)
(** * encode_timeout on floats *)

(* the chain of the source, unfolded (Gen.Facts is regenerated from the source on every run: a
   changed threshold, unit or exponent makes this lemma -- and with it every theorem -- fail) *)
Lemma encode_unfold t :
  encode_timeout t =
  if py_gt_q t 10 1 then enc_branch t 83 0
  else if py_gt_q t 5764607523034235 576460752303423488 then enc_branch t 109 3
  else if py_gt_q t 5902958103587057 590295810358705651712 then enc_branch t 117 6
  else enc_branch t 110 9.
Proof. reflexivity. Qed.

(* the float literals of the chain are the doubles nearest to 0.01 and 0.00001 *)
Lemma chain_float_bits :
  map (fun e => match e with (n, d, b, _, _) =>
                  if (b =? -1)%Z then Some Eq else cmp_float_q (b64_of_bits b) n d end)
      encode_timeout_chain = [Some Eq; Some Eq; Some Eq].
Proof. vm_compute. reflexivity. Qed.

Lemma py_int_finite (f : f64) : fin f = true -> py_int (PyFloat f) = Ok (Ztrunc (R64 f)).
Proof.
  intros Hf. rewrite <- Btrunc_R. destruct f; try discriminate Hf; reflexivity.
Qed.

Lemma pow10_small k : (1 <= k <= 15)%Z -> (Z.abs (10 ^ k) < 2 ^ 53)%Z.
Proof.
  intros Hk. assert (0 < 10 ^ k)%Z by (apply Z.pow_pos_nonneg; lia).
  assert (10 ^ k <= 10 ^ 15)%Z by (apply Z.pow_le_mono_r; lia).
  assert (10 ^ 15 < 2 ^ 53)%Z by reflexivity. lia.
Qed.

Lemma enc_branch_float_scaled (t : f64) u k : (1 <= k <= 15)%Z -> fin t = true ->
  Rabs (R64 t * IZR (10 ^ k)) <= bpow radix2 100 ->
  enc_branch (PyFloat t) u k = Ok (py_str_int (Ztrunc (rnd (R64 t * IZR (10 ^ k)))) ++ [u]).
Proof.
  intros Hk Ht Hb. unfold enc_branch.
  replace (k =? 0)%Z with false by lia.
  unfold py_mul_pow10, float_of_int.
  destruct (f_of_Z_exact (10 ^ k) (pow10_small k Hk)) as [Hv Hfin].
  unfold fin in Hfin. rewrite Hfin.
  destruct (fmul_correct t (f_of_Z (10 ^ k)) Ht Hfin) as [Hm Hmf].
  { rewrite Hv. exact Hb. }
  rewrite py_int_finite by exact Hmf. rewrite Hm, Hv. reflexivity.
Qed.

Lemma enc_branch_float_plain (t : f64) u : fin t = true ->
  enc_branch (PyFloat t) u 0 = Ok (py_str_int (Ztrunc (R64 t)) ++ [u]).
Proof. intros Ht. unfold enc_branch. cbn [Z.eqb]. rewrite py_int_finite by exact Ht. reflexivity. Qed.

(* what int(round(p)) can be, for the products that occur *)
Lemma scaled_int_facts p : 0 <= p <= 10001 ->
  let n := Ztrunc (rnd p) in
  (0 <= n <= 10001)%Z /\ p - 1 < IZR n /\ (IZR n <= p \/ IZR n - p < p * bpow radix2 (-52)).
Proof.
  intros [Hp0 Hp1] n.
  assert (Hr0 : 0 <= rnd p) by (apply rnd_nonneg; exact Hp0).
  assert (Hr1 : rnd p <= 10001).
  { rewrite <- (rnd_IZR 10001) by (vm_compute; reflexivity). apply rnd_le. exact Hp1. }
  assert (Hfl : n = Zfloor (rnd p)) by (apply Ztrunc_floor; exact Hr0).
  split; [|split].
  - split.
    + rewrite Hfl. apply Zfloor_lub. exact Hr0.
    + apply le_IZR. rewrite Hfl. apply Rle_trans with (rnd p); [apply Zfloor_lb|exact Hr1].
  - apply trunc_rnd_lower; [exact Hp0|].
    apply Rle_trans with (IZR 10001); [exact Hp1|].
    change (bpow radix2 52) with (IZR (2 ^ 52)). apply IZR_le. vm_compute. discriminate.
  - destruct (Req_dec p 0) as [->|Hnz].
    + left. subst n. unfold rnd. rewrite round_0 by auto with typeclass_instances.
      rewrite Ztrunc_IZR. lra.
    + right. pose proof (trunc_rnd_upper p ltac:(lra)). fold n in H. lra.
Qed.

Definition unit_table : list (Z * Z) := [(83, 0); (109, 3); (117, 6); (110, 9)]%Z.

(* the core statement: which string comes out, and how its exact value relates to t *)
Lemma enc_float_core (t : f64) : fin t = true -> 0 <= R64 t <= 99999999 ->
  exists n u k,
    encode_timeout (PyFloat t) = Ok (dec_of_nonneg n ++ [u]) /\
    (0 <= n < 10 ^ 8)%Z /\ In (u, k) unit_table /\
    let v := IZR n / IZR (10 ^ k) in
    (9 / 10 * R64 t < v \/ R64 t - v < 1 / 1000000000) /\
    (v <= R64 t \/ v - R64 t < R64 t * bpow radix2 (-52)).
Proof.
  intros Ht [Ht0 Ht1]. rewrite encode_unfold.
  set (e := bpow radix2 (-52)).
  assert (Hb100 : IZR 10001 <= bpow radix2 100).
  { change (bpow radix2 100) with (IZR (2 ^ 100)). apply IZR_le. vm_compute. discriminate. }
  destruct (py_gt_q (PyFloat t) 10 1) eqn:C1.
  { (* seconds: no product, plain truncation *)
    apply py_gt_q_float in C1; [|lia|exact Ht].
    assert (H10 : 10 < R64 t) by lra.
    rewrite enc_branch_float_plain by exact Ht.
    set (n := Ztrunc (R64 t)).
    assert (Hfl : n = Zfloor (R64 t)) by (apply Ztrunc_floor; lra).
    assert (Hn0 : (0 <= n)%Z) by (rewrite Hfl; apply Zfloor_lub; simpl; lra).
    assert (Hlb : IZR n <= R64 t) by (rewrite Hfl; apply Zfloor_lb).
    assert (Hub : R64 t < IZR n + 1) by (rewrite Hfl; apply Zfloor_ub).
    assert (Hn1 : (n <= 99999999)%Z) by (apply le_IZR; lra).
    exists n, 83%Z, 0%Z. rewrite py_str_int_nonneg by exact Hn0.
    split; [reflexivity|]. split; [lia|]. split; [simpl; auto|].
    cbv zeta. change (IZR (10 ^ 0)) with 1. split; [left|left]; lra. }
  apply py_gt_q_float_false in C1; [|lia|exact Ht].
  destruct (py_gt_q (PyFloat t) 5764607523034235 576460752303423488) eqn:C2.
  { apply py_gt_q_float in C2; [|lia|exact Ht].
    set (p := R64 t * IZR (10 ^ 3)).
    assert (Hp : 10 < p <= 10001) by (unfold p; change (IZR (10 ^ 3)) with 1000; lra).
    rewrite enc_branch_float_scaled; [|lia|exact Ht|].
    2:{ fold p. rewrite Rabs_pos_eq by lra. lra. }
    fold p. destruct (scaled_int_facts p ltac:(lra)) as (Hn & Hlo & Hup).
    set (n := Ztrunc (rnd p)) in *.
    exists n, 109%Z, 3%Z. rewrite py_str_int_nonneg by lia.
    split; [reflexivity|]. split; [lia|]. split; [simpl; auto|].
    cbv zeta. change (IZR (10 ^ 3)) with 1000 in *. fold e in Hup.
    assert (Hpe : p * e = 1000 * (R64 t * e)) by (unfold p; ring).
    split.
    - left. unfold p in *. lra.
    - destruct Hup as [Hup|Hup]; [left; unfold p in *; lra|right]. rewrite Hpe in Hup.
      unfold p in *. lra. }
  apply py_gt_q_float_false in C2; [|lia|exact Ht].
  destruct (py_gt_q (PyFloat t) 5902958103587057 590295810358705651712) eqn:C3.
  { apply py_gt_q_float in C3; [|lia|exact Ht].
    set (p := R64 t * IZR (10 ^ 6)).
    assert (Hp : 10 < p <= 10001) by (unfold p; change (IZR (10 ^ 6)) with 1000000; lra).
    rewrite enc_branch_float_scaled; [|lia|exact Ht|].
    2:{ fold p. rewrite Rabs_pos_eq by lra. lra. }
    fold p. destruct (scaled_int_facts p ltac:(lra)) as (Hn & Hlo & Hup).
    set (n := Ztrunc (rnd p)) in *.
    exists n, 117%Z, 6%Z. rewrite py_str_int_nonneg by lia.
    split; [reflexivity|]. split; [lia|]. split; [simpl; auto|].
    cbv zeta. change (IZR (10 ^ 6)) with 1000000 in *. fold e in Hup.
    assert (Hpe : p * e = 1000000 * (R64 t * e)) by (unfold p; ring).
    split.
    - left. unfold p in *. lra.
    - destruct Hup as [Hup|Hup]; [left; unfold p in *; lra|right]. rewrite Hpe in Hup.
      unfold p in *. lra. }
  apply py_gt_q_float_false in C3; [|lia|exact Ht].
  { set (p := R64 t * IZR (10 ^ 9)).
    assert (Hp : 0 <= p <= 10001) by (unfold p; change (IZR (10 ^ 9)) with 1000000000; lra).
    rewrite enc_branch_float_scaled; [|lia|exact Ht|].
    2:{ fold p. rewrite Rabs_pos_eq by lra. lra. }
    fold p. destruct (scaled_int_facts p ltac:(lra)) as (Hn & Hlo & Hup).
    set (n := Ztrunc (rnd p)) in *.
    exists n, 110%Z, 9%Z. rewrite py_str_int_nonneg by lia.
    split; [reflexivity|]. split; [lia|]. split; [simpl; auto|].
    cbv zeta. change (IZR (10 ^ 9)) with 1000000000 in *. fold e in Hup.
    assert (Hpe : p * e = 1000000000 * (R64 t * e)) by (unfold p; ring).
    split.
    - right. unfold p in *. lra.
    - destruct Hup as [Hup|Hup]; [left; unfold p in *; lra|right]. rewrite Hpe in Hup.
      unfold p in *. lra. }
Qed.

Definition q2r (q : Z * Z) : R := IZR (fst q) / IZR (snd q).

Lemma unit_table_letters u k : In (u, k) unit_table -> In u unit_letters.
Proof.
  unfold unit_table, unit_letters. cbn [In]. intros H.
  repeat (destruct H as [H|H]; [inversion H; subst; cbn; tauto|]). contradiction.
Qed.

Lemma rendered_in_grammar n u k : (0 <= n < 10 ^ 8)%Z -> In (u, k) unit_table ->
  in_grammar (dec_of_nonneg n ++ [u]).
Proof.
  intros Hn Hu. exists (dec_of_nonneg n), u. split; [reflexivity|].
  pose proof (dec_of_nonneg_len n 8 Hn ltac:(lia)) as Hl.
  split; [lia|]. split.
  - apply digits_forallb. apply dec_of_nonneg_digits.
  - eapply unit_table_letters; exact Hu.
Qed.

Lemma rendered_wire_q n u k : (0 <= n < 10 ^ 8)%Z -> In (u, k) unit_table ->
  wire_q (dec_of_nonneg n ++ [u]) = Some (n * 1, 10 ^ k)%Z.
Proof.
  intros Hn Hu. unfold wire_q.
  pose proof (dec_of_nonneg_len n 8 Hn ltac:(lia)) as Hl.
  rewrite re_match_accepts.
  - rewrite parse_dec_of_nonneg by lia.
    unfold unit_table in Hu. cbn [In] in Hu.
    repeat (destruct Hu as [Hu|Hu]; [inversion Hu; subst; reflexivity|]). contradiction.
  - lia.
  - apply digits_forallb. apply dec_of_nonneg_digits.
  - eapply unit_table_letters; exact Hu.
Qed.

(* the combined statement for float arguments *)
Lemma enc_float_spec (t : f64) : fin t = true -> 0 <= R64 t <= 99999999 ->
  exists s q,
    encode_timeout (PyFloat t) = Ok s /\ in_grammar s /\ wire_q s = Some q /\
    (9 / 10 * R64 t < q2r q \/ R64 t - q2r q < 1 / 1000000000) /\
    (q2r q <= R64 t \/ q2r q - R64 t < R64 t * bpow radix2 (-52)).
Proof.
  intros Ht Hr. destruct (enc_float_core t Ht Hr) as (n & u & k & He & Hn & Hu & Hlo & Hup).
  exists (dec_of_nonneg n ++ [u]), (n * 1, 10 ^ k)%Z.
  split; [exact He|]. split; [eapply rendered_in_grammar; eassumption|].
  split; [eapply rendered_wire_q; eassumption|].
  unfold q2r. cbn [fst snd]. rewrite Z.mul_1_r. split; [exact Hlo|exact Hup].
Qed.

(** * encode_timeout on ints: exact, never lengthened, never shortened *)
Lemma enc_int_core z : (0 <= z <= 99999999)%Z ->
  exists n u k,
    encode_timeout (PyInt z) = Ok (dec_of_nonneg n ++ [u]) /\
    (0 <= n < 10 ^ 8)%Z /\ In (u, k) unit_table /\ (n = z * 10 ^ k)%Z.
Proof.
  intros Hz. rewrite encode_unfold. unfold py_gt_q.
  destruct (10 <? z * 1)%Z eqn:C1.
  { exists z, 83%Z, 0%Z. unfold enc_branch, py_int. cbn [Z.eqb].
    rewrite py_str_int_nonneg by lia.
    split; [reflexivity|]. split; [lia|]. split; [cbn; auto|]. lia. }
  destruct (5764607523034235 <? z * 576460752303423488)%Z eqn:C2.
  { exists (z * 10 ^ 3)%Z, 109%Z, 3%Z. unfold enc_branch, py_mul_pow10, py_int. cbn [Z.eqb].
    rewrite py_str_int_nonneg by lia.
    split; [reflexivity|]. split; [lia|]. split; [cbn; auto|]. lia. }
  destruct (5902958103587057 <? z * 590295810358705651712)%Z eqn:C3; [lia|].
  assert (z = 0)%Z as -> by lia.
  exists 0%Z, 110%Z, 9%Z. split; [reflexivity|]. split; [lia|]. split; [cbn; auto|]. lia.
Qed.

Lemma enc_int_spec z : (0 <= z <= 99999999)%Z ->
  exists s q, encode_timeout (PyInt z) = Ok s /\ in_grammar s /\ wire_q s = Some q /\
              q2r q = IZR z.
Proof.
  intros Hz. destruct (enc_int_core z Hz) as (n & u & k & He & Hn & Hu & Hv).
  exists (dec_of_nonneg n ++ [u]), (n * 1, 10 ^ k)%Z.
  split; [exact He|]. split; [eapply rendered_in_grammar; eassumption|].
  split; [eapply rendered_wire_q; eassumption|].
  unfold q2r. cbn [fst snd]. rewrite Z.mul_1_r, Hv, mult_IZR.
  assert (0 < IZR (10 ^ k)).
  { apply IZR_lt. unfold unit_table in Hu. cbn [In] in Hu.
    repeat (destruct Hu as [Hu|Hu]; [inversion Hu; subst; reflexivity|]). contradiction. }
  field. lra.
Qed.

Lemma cmp_float_q_Lt (f : f64) n d : (0 < d)%Z -> fin f = true ->
  cmp_float_q f n d = Some Lt -> R64 f < IZR n / IZR d.
Proof.
  intros Hd Hf H. rewrite cmp_float_q_correct in H by assumption.
  apply Rcompare_Lt_inv. congruence.
Qed.
Lemma cmp_float_q_Gt (f : f64) n d : (0 < d)%Z -> fin f = true ->
  cmp_float_q f n d = Some Gt -> IZR n / IZR d < R64 f.
Proof.
  intros Hd Hf H. rewrite cmp_float_q_correct in H by assumption.
  apply Rcompare_Gt_inv. congruence.
Qed.

(** * the literal "never lengthens" is false of the code: t = 0.013 -> '13m' *)
Definition t_0_013 : f64 := b64_of_bits 4578647611560997945.      (* 0x3F8A9FBE76C8B439 *)

Lemma never_lengthens_refuted :
  exists t : f64, fin t = true /\ 0 <= R64 t <= 99999999 /\
    exists s q, encode_timeout (PyFloat t) = Ok s /\ wire_q s = Some q /\ R64 t < q2r q.
Proof.
  exists t_0_013.
  assert (Hf : fin t_0_013 = true) by (vm_compute; reflexivity).
  assert (C0 : cmp_float_q t_0_013 0 1 = Some Gt) by (vm_compute; reflexivity).
  assert (C1 : cmp_float_q t_0_013 99999999 1 = Some Lt) by (vm_compute; reflexivity).
  assert (C2 : cmp_float_q t_0_013 13 1000 = Some Lt) by (vm_compute; reflexivity).
  apply cmp_float_q_Gt in C0; [|lia|exact Hf]. apply cmp_float_q_Lt in C1; [|lia|exact Hf].
  apply cmp_float_q_Lt in C2; [|lia|exact Hf].
  split; [exact Hf|]. split; [lra|].
  exists [49; 51; 109]%Z, (13, 1000)%Z.
  split; [vm_compute; reflexivity|]. split; [vm_compute; reflexivity|].
  unfold q2r. cbn [fst snd]. exact C2.
Qed.

(* ------------------------------------------------------------------------------------------ *)
(** * decode_timeout *)

Lemma parse_dec_bound : forall ds, Forall (fun c => 48 <= c <= 57)%Z ds ->
  (0 <= parse_dec ds < 10 ^ Z.of_nat (length ds))%Z.
Proof.
  induction ds as [|c ds IH] using rev_ind; intros H.
  - cbn. lia.
  - apply Forall_app in H as [H1 H2]. inversion H2; subst.
    rewrite parse_dec_app, app_length. cbn [length].
    replace (Z.of_nat (length ds + 1)) with (Z.of_nat (length ds) + 1)%Z by lia.
    rewrite pow10_succ by lia. specialize (IH H1). lia.
Qed.

Lemma parse_dec_bound8 ds : (1 <= length ds <= 8)%nat -> Forall (fun c => 48 <= c <= 57)%Z ds ->
  (0 <= parse_dec ds < 10 ^ 8)%Z.
Proof.
  intros Hl Hd. pose proof (parse_dec_bound ds Hd).
  assert (10 ^ Z.of_nat (length ds) <= 10 ^ 8)%Z by (apply Z.pow_le_mono_r; lia). lia.
Qed.

(* the scale the gRPC grammar gives each unit letter: (letter, numerator, denominator) *)
Definition grammar_scale : list (Z * (Z * Z)) :=
  [(72, (3600, 1)); (77, (60, 1)); (83, (1, 1));
   (109, (1, 1000)); (117, (1, 1000000)); (110, (1, 1000000000))]%Z.

Lemma grammar_scale_units u a b : In (u, (a, b)) grammar_scale ->
  In u unit_letters /\ exists uv, unit_lookup u units = Some uv /\ unit_q uv = (a, b).
Proof.
  unfold grammar_scale. cbn [In]. intros H.
  repeat (destruct H as [H|H];
          [inversion H; subst; split; [cbn; tauto|eexists; split; reflexivity]|]).
  contradiction.
Qed.

Lemma unit_letters_scale u : In u unit_letters -> exists a b, In (u, (a, b)) grammar_scale.
Proof.
  unfold unit_letters, grammar_scale. cbn [In]. intros H.
  repeat (destruct H as [H|H]; [subst; do 2 eexists; tauto|]). contradiction.
Qed.

Lemma wire_q_grammar ds u a b :
  (1 <= length ds <= 8)%nat -> Forall (fun c => 48 <= c <= 57)%Z ds ->
  In (u, (a, b)) grammar_scale ->
  wire_q (ds ++ [u]) = Some (parse_dec ds * a, b)%Z.
Proof.
  intros Hl Hd Hs. apply grammar_scale_units in Hs as (Hu & uv & Hlk & Hq).
  unfold wire_q. rewrite re_match_accepts by assumption. rewrite Hlk, Hq. reflexivity.
Qed.

Lemma inv_bounds P : 1 <= P -> 0 < 1 / P <= 1.
Proof.
  intros H. unfold Rdiv. rewrite Rmult_1_l. split.
  - apply Rinv_0_lt_compat; lra.
  - rewrite <- Rinv_1. apply Rinv_le_contravar; lra.
Qed.
Lemma div_nonneg a b : 0 <= a -> 0 < b -> 0 <= a / b.
Proof.
  intros Ha Hb. unfold Rdiv. apply Rmult_le_pos; [exact Ha|].
  left. apply Rinv_0_lt_compat. exact Hb.
Qed.

(* the float 10 ** -k *)
Lemma pow10neg_float_correct k : (1 <= k <= 15)%Z ->
  R64 (pow10neg_float k) = rnd (1 / IZR (10 ^ k)) /\ fin (pow10neg_float k) = true.
Proof.
  intros Hk.
  destruct (f_of_Z_exact (10 ^ k) (pow10_small k Hk)) as [Hv Hfin].
  destruct (f_of_Z_exact 1 ltac:(vm_compute; reflexivity)) as [H1 H1f].
  assert (Hpos : 1 <= IZR (10 ^ k)).
  { apply IZR_le. assert (0 < 10 ^ k)%Z by (apply Z.pow_pos_nonneg; lia). lia. }
  pose proof (Bdiv_correct 53 1024 prec53 emax1024 binop_nan_pl64 mode_NE
                (f_of_Z 1) (f_of_Z (10 ^ k))) as H.
  fold (R64 (f_of_Z (10 ^ k))) in H. fold (R64 (f_of_Z 1)) in H.
  rewrite Hv, H1 in H. specialize (H ltac:(lra)).
  assert (Hle : Rabs (rnd (1 / IZR (10 ^ k))) <= 1).
  { pose proof (inv_bounds _ Hpos).
    rewrite Rabs_pos_eq by (apply rnd_nonneg; lra).
    apply Rle_trans with (rnd 1); [apply rnd_le; lra|].
    right. apply (rnd_IZR 1). vm_compute. reflexivity. }
  rewrite Rlt_bool_true in H.
  - destruct H as [Ha [Hb _]]. split; [exact Ha|]. unfold fin, pow10neg_float, fdiv.
    rewrite Hb. exact H1f.
  - eapply Rle_lt_trans; [exact Hle|]. change 1 with (bpow radix2 0). apply bpow_lt. lia.
Qed.

Lemma rel_err x : bpow radix2 (-1022) <= Rabs x ->
  exists eps, Rabs eps <= bpow radix2 (-53) /\ rnd x = x * (1 + eps).
Proof.
  intros Hx.
  destruct (relative_error_N_FLT_ex radix2 (-1074) 53 ltac:(lia) (fun z => negb (Z.even z)) x)
    as (eps & He & Hr).
  { exact Hx. }
  exists eps. split; [|exact Hr].
  assert (Hb52 : bpow radix2 (-52) = 2 * bpow radix2 (-53)).
  { replace (-52)%Z with (1 + -53)%Z by lia. rewrite bpow_plus. change (bpow radix2 1) with 2. lra. }
  change (Z.opp 53 + 1)%Z with (-52)%Z in He. rewrite Hb52 in He. lra.
Qed.

(* int(digits) * 10 ** -k as a float: right scale to within 2^-51 relative *)
Lemma unit_scale_float N k : (0 <= N < 10 ^ 8)%Z -> (1 <= k <= 15)%Z ->
  exists f, unit_scale N (UPow10Neg k) = Ok (PyFloat f) /\ fin f = true /\
            R64 f = rnd (IZR N * rnd (1 / IZR (10 ^ k))) /\
            Rabs (R64 f - IZR N / IZR (10 ^ k)) <= IZR N / IZR (10 ^ k) * bpow radix2 (-51).
Proof.
  intros HN Hk.
  assert (HN53 : (Z.abs N < 2 ^ 53)%Z).
  { assert (10 ^ 8 < 2 ^ 53)%Z by reflexivity. lia. }
  destruct (f_of_Z_exact N HN53) as [Hv Hfin].
  destruct (pow10neg_float_correct k Hk) as [Hc Hcf].
  set (P := IZR (10 ^ k)) in *.
  assert (HP1 : 1 <= P).
  { apply IZR_le. assert (0 < 10 ^ k)%Z by (apply Z.pow_pos_nonneg; lia). lia. }
  assert (HP53 : P < bpow radix2 53).
  { change (bpow radix2 53) with (IZR (2 ^ 53)). apply IZR_lt.
    pose proof (pow10_small k Hk). lia. }
  assert (Hd : 0 < bpow radix2 (-53)) by apply bpow_gt_0.
  assert (Hinv : bpow radix2 (-53) < 1 / P).
  { replace (bpow radix2 (-53)) with (1 / bpow radix2 53).
    - unfold Rdiv. rewrite !Rmult_1_l. apply Rinv_lt_contravar; [|exact HP53].
      apply Rmult_lt_0_compat; [lra|apply bpow_gt_0].
    - change (-53)%Z with (Z.opp 53). rewrite (bpow_opp radix2 53). unfold Rdiv. lra. }
  assert (Hd4 : bpow radix2 (-53) <= / 4).
  { change (/ 4) with (bpow radix2 (-2)). apply bpow_le. lia. }
  (* c = 10 ** -k *)
  destruct (rel_err (1 / P)) as (e1 & He1 & Hr1).
  { rewrite Rabs_pos_eq by lra. apply Rle_trans with (bpow radix2 (-53)); [apply bpow_le; lia|lra]. }
  assert (HNR : 0 <= IZR N < 100000000).
  { split; [apply IZR_le; lia|]. apply IZR_lt. change (10 ^ 8)%Z with 100000000%Z in HN. lia. }
  assert (HinvP : 0 < 1 / P <= 1) by (apply inv_bounds; exact HP1).
  apply Rabs_le_inv in He1.
  set (c := rnd (1 / P)) in *.
  assert (Hcb : 0 <= c <= 2) by (rewrite Hr1; nra).
  unfold unit_scale, float_of_int. unfold fin in Hfin. rewrite Hfin.
  destruct (fmul_correct (f_of_Z N) (pow10neg_float k) Hfin Hcf) as [Hm Hmf].
  { rewrite Hv, Hc. fold c. rewrite Rabs_pos_eq by nra.
    apply Rle_trans with (IZR (2 ^ 100)).
    - change (IZR (2 ^ 100)) with 1267650600228229401496703205376. nra.
    - change (IZR (2 ^ 100)) with (bpow radix2 100). lra. }
  eexists. split; [reflexivity|]. split; [exact Hmf|].
  rewrite Hm, Hv, Hc. fold c. split; [reflexivity|].
  destruct (Z.eq_dec N 0) as [->|HN0].
  { rewrite Rmult_0_l. unfold rnd. rewrite round_0 by auto with typeclass_instances.
    unfold Rdiv. rewrite !Rmult_0_l, Rminus_0_r, Rabs_R0. lra. }
  assert (HN1 : 1 <= IZR N) by (apply IZR_le; lia).
  destruct (rel_err (IZR N * c)) as (e2 & He2 & Hr2).
  { assert (bpow radix2 (-53) * (1 - bpow radix2 (-53)) <= c) by (rewrite Hr1; nra).
    rewrite Rabs_pos_eq by nra.
    apply Rle_trans with (bpow radix2 (-55)); [apply bpow_le; lia|].
    assert (bpow radix2 (-55) = bpow radix2 (-53) * / 4).
    { replace (-55)%Z with (-53 + -2)%Z by lia. rewrite bpow_plus. reflexivity. }
    nra. }
  apply Rabs_le_inv in He2.
  rewrite Hr2, Hr1.
  set (d := bpow radix2 (-53)) in *.
  set (x := IZR N / P).
  assert (Hx : 0 <= x) by (apply div_nonneg; lra).
  replace (IZR N * (1 / P * (1 + e1)) * (1 + e2) - x) with (x * (e1 + e2 + e1 * e2))
    by (unfold x; field; lra).
  assert (H51 : bpow radix2 (-51) = 4 * d).
  { unfold d. replace (-51)%Z with (2 + -53)%Z by lia. rewrite bpow_plus. reflexivity. }
  rewrite H51.
  assert (Hs : - (3 * d) <= e1 + e2 + e1 * e2 <= 3 * d) by nra.
  apply Rabs_le. nra.
Qed.

(* accepted strings: value and scale *)
Lemma decode_accepts ds u a b :
  (1 <= length ds <= 8)%nat -> Forall (fun c => 48 <= c <= 57)%Z ds ->
  In (u, (a, b)) grammar_scale ->
  let N := parse_dec ds in
  wire_q (ds ++ [u]) = Some (N * a, b)%Z /\
  exists v, decode_timeout (ds ++ [u]) = Ok v /\
    ((b = 1)%Z -> v = PyInt (N * a)) /\
    ((b <> 1)%Z -> exists f, v = PyFloat f /\ fin f = true /\
        Rabs (R64 f - IZR N / IZR b) <= IZR N / IZR b * bpow radix2 (-51)).
Proof.
  intros Hl Hd Hs N. split; [apply wire_q_grammar; assumption|].
  pose proof (parse_dec_bound8 ds Hl Hd) as HN. fold N in HN.
  assert (Hu : In u unit_letters) by (apply grammar_scale_units in Hs; tauto).
  unfold decode_timeout. rewrite re_match_accepts by assumption. fold N.
  unfold grammar_scale in Hs. cbn [In] in Hs.
  destruct Hs as [Hs|[Hs|[Hs|[Hs|[Hs|[Hs|[]]]]]]]; inversion Hs; subst u a b; clear Hs.
  1-3: (eexists; split; [reflexivity|]; split; [reflexivity|intros; lia]).
  - destruct (unit_scale_float N 3 HN ltac:(lia)) as (f & Hf1 & Hf2 & _ & Hf3).
    exists (PyFloat f). split; [exact Hf1|]. split; [intros; lia|]. intros _. exists f. auto.
  - destruct (unit_scale_float N 6 HN ltac:(lia)) as (f & Hf1 & Hf2 & _ & Hf3).
    exists (PyFloat f). split; [exact Hf1|]. split; [intros; lia|]. intros _. exists f. auto.
  - destruct (unit_scale_float N 9 HN ltac:(lia)) as (f & Hf1 & Hf2 & _ & Hf3).
    exists (PyFloat f). split; [exact Hf1|]. split; [intros; lia|]. intros _. exists f. auto.
Qed.

Lemma decode_rejects s : ~ in_grammar s -> decode_timeout s = Err ValueError.
Proof. intros H. unfold decode_timeout. rewrite re_match_rejects by exact H. reflexivity. Qed.

Lemma in_grammar_dec s : in_grammar s \/ ~ in_grammar s.
Proof.
  destruct (timeout_re_match s) as [g|] eqn:E.
  - left. apply re_match_iff. exists g. exact E.
  - right. intros H. apply re_match_iff in H as [g Hg]. congruence.
Qed.

Definition finnum (x : pynum) : bool := match x with PyInt _ => true | PyFloat f => fin f end.
Definition Rnum (x : pynum) : R := match x with PyInt z => IZR z | PyFloat f => R64 f end.

Lemma decode_grammar_ok s : in_grammar s ->
  exists v, decode_timeout s = Ok v /\ finnum v = true.
Proof.
  intros (ds & u & -> & Hl & Hd & Hu).
  destruct (unit_letters_scale u Hu) as (a & b & Hs).
  destruct (decode_accepts ds u a b Hl Hd Hs) as (_ & v & Hv & H1 & H2).
  exists v. split; [exact Hv|].
  destruct (Z.eq_dec b 1) as [E|E].
  - rewrite (H1 E). reflexivity.
  - destruct (H2 E) as (f & -> & Hf & _). exact Hf.
Qed.

Lemma decode_total s :
  (in_grammar s /\ exists v, decode_timeout s = Ok v /\ finnum v = true) \/
  (~ in_grammar s /\ decode_timeout s = Err ValueError).
Proof.
  destruct (in_grammar_dec s) as [H|H].
  - left. split; [exact H|apply decode_grammar_ok; exact H].
  - right. split; [exact H|apply decode_rejects; exact H].
Qed.

(* ------------------------------------------------------------------------------------------ *)
(** * minimum over repeated grpc-timeout headers *)

Lemma py_lt_correct a b : finnum a = true -> finnum b = true ->
  (py_lt a b = true <-> Rnum a < Rnum b).
Proof.
  intros Ha Hb. destruct a as [x|f], b as [y|g]; cbn [py_lt Rnum finnum] in *.
  - split; intros H.
    + apply IZR_lt. lia.
    + apply lt_IZR in H. lia.
  - rewrite cmp_float_q_correct by (try exact Hb; lia).
    replace (IZR x / IZR 1) with (IZR x) by (unfold Rdiv; rewrite Rinv_1; ring).
    destruct (Rcompare_spec (R64 g) (IZR x)); split; intros; try discriminate; try lra; reflexivity.
  - rewrite cmp_float_q_correct by (try exact Ha; lia).
    replace (IZR y / IZR 1) with (IZR y) by (unfold Rdiv; rewrite Rinv_1; ring).
    destruct (Rcompare_spec (R64 f) (IZR y)); split; intros; try discriminate; try lra; reflexivity.
  - unfold b64_compare. rewrite Bcompare_correct by assumption.
    fold (R64 f). fold (R64 g).
    destruct (Rcompare_spec (R64 f) (R64 g)); split; intros; try discriminate; try lra; reflexivity.
Qed.

Lemma py_min_from_spec : forall l cur,
  finnum cur = true -> Forall (fun x => finnum x = true) l ->
  let m := py_min_from cur l in
  In m (cur :: l) /\ finnum m = true /\ forall x, In x (cur :: l) -> Rnum m <= Rnum x.
Proof.
  induction l as [|y l IH]; intros cur Hc Hl.
  - cbn. split; [auto|]. split; [exact Hc|]. intros x [<-|[]]. lra.
  - inversion Hl as [|? ? Hy Hl']; subst. cbn [py_min_from].
    destruct (py_lt y cur) eqn:E.
    + apply py_lt_correct in E; [|assumption|assumption].
      destruct (IH y Hy Hl') as (Hin & Hfin & Hmin). cbv zeta. split; [|split].
      * destruct Hin as [<-|Hin]; cbn; auto.
      * exact Hfin.
      * intros x [<-|[<-|Hx]].
        -- specialize (Hmin y (or_introl eq_refl)). lra.
        -- apply Hmin. left. reflexivity.
        -- apply Hmin. right. exact Hx.
    + assert (Hle : Rnum cur <= Rnum y).
      { destruct (Rle_lt_dec (Rnum cur) (Rnum y)) as [H|H]; [exact H|].
        apply py_lt_correct in H; [congruence|assumption|assumption]. }
      destruct (IH cur Hc Hl') as (Hin & Hfin & Hmin). cbv zeta. split; [|split].
      * destruct Hin as [<-|Hin]; cbn; auto.
      * exact Hfin.
      * intros x [<-|[<-|Hx]].
        -- apply Hmin. left. reflexivity.
        -- specialize (Hmin cur (or_introl eq_refl)). lra.
        -- apply Hmin. right. exact Hx.
Qed.

Lemma decode_all_spec : forall vs,
  (Forall in_grammar vs /\
   exists xs, decode_all vs = Ok xs /\ Forall (fun x => finnum x = true) xs /\
              Forall2 (fun v x => decode_timeout v = Ok x) vs xs) \/
  (Exists (fun v => ~ in_grammar v) vs /\ decode_all vs = Err ValueError).
Proof.
  induction vs as [|v vs IH].
  - left. split; [constructor|]. exists []. repeat split; constructor.
  - cbn [decode_all]. destruct (decode_total v) as [(Hg & x & Hx & Hfx)|(Hg & Hx)].
    + rewrite Hx. destruct IH as [(Hall & xs & Hd & Hf & H2)|(Hex & Hd)].
      * left. split; [constructor; assumption|]. exists (x :: xs). rewrite Hd.
        split; [reflexivity|]. split; constructor; assumption.
      * right. split; [apply Exists_cons_tl; exact Hex|]. rewrite Hd. reflexivity.
    + right. split; [apply Exists_cons_hd; exact Hg|]. rewrite Hx. reflexivity.
Qed.

Lemma Forall2_in_r {A B} (P : A -> B -> Prop) l1 l2 y :
  Forall2 P l1 l2 -> In y l2 -> exists x, In x l1 /\ P x y.
Proof.
  induction 1 as [|a b l1 l2 Hab H IH]; intros Hin; [contradiction|].
  destruct Hin as [<-|Hin].
  - exists a. split; [left; reflexivity|exact Hab].
  - destruct (IH Hin) as (x & Hx & Hp). exists x. split; [right; exact Hx|exact Hp].
Qed.
Lemma Forall2_in_l {A B} (P : A -> B -> Prop) l1 l2 x :
  Forall2 P l1 l2 -> In x l1 -> exists y, In y l2 /\ P x y.
Proof.
  induction 1 as [|a b l1 l2 Hab H IH]; intros Hin; [contradiction|].
  destruct Hin as [<-|Hin].
  - exists b. split; [left; reflexivity|exact Hab].
  - destruct (IH Hin) as (y & Hy & Hp). exists y. split; [right; exact Hy|exact Hp].
Qed.

(* Deadline.from_headers: None without a grpc-timeout header, ValueError if any value is outside
   the grammar, otherwise the smallest of the decoded values *)
Lemma from_headers_min hs :
  let vs := timeout_values hs in
  (vs = [] -> from_headers_timeout hs = Ok None) /\
  (Exists (fun v => ~ in_grammar v) vs -> from_headers_timeout hs = Err ValueError) /\
  (vs <> [] -> Forall in_grammar vs ->
   exists m, from_headers_timeout hs = Ok (Some m) /\
             (exists v, In v vs /\ decode_timeout v = Ok m) /\
             (forall v x, In v vs -> decode_timeout v = Ok x -> Rnum m <= Rnum x)).
Proof.
  intros vs. unfold from_headers_timeout. fold vs. split; [|split].
  - intros ->. reflexivity.
  - intros Hex. destruct (decode_all_spec vs) as [(Hall & _)|(_ & Hd)].
    + exfalso. apply Exists_exists in Hex as (v & Hv & Hn). rewrite Forall_forall in Hall.
      exact (Hn (Hall v Hv)).
    + rewrite Hd. reflexivity.
  - intros Hne Hall. destruct (decode_all_spec vs) as [(_ & xs & Hd & Hf & H2)|(Hex & _)].
    + rewrite Hd. destruct xs as [|x0 xs].
      { inversion H2; subst. congruence. }
      inversion Hf as [|? ? Hf0 Hf']; subst.
      destruct (py_min_from_spec xs x0 Hf0 Hf') as (Hin & _ & Hmin).
      exists (py_min_from x0 xs). split; [reflexivity|]. split.
      * destruct (Forall2_in_r _ _ _ _ H2 Hin) as (v & Hv & Hdv). exists v. auto.
      * intros v x Hv Hx. apply Hmin.
        destruct (Forall2_in_l _ _ _ _ H2 Hv) as (x' & Hx' & Hdx). cbv beta in Hdx. congruence.
    + exfalso. apply Exists_exists in Hex as (v & Hv & Hn). rewrite Forall_forall in Hall.
      exact (Hn (Hall v Hv)).
Qed.

(* only headers named exactly grpc-timeout count *)
Lemma zlist_eqb_eq a b : zlist_eqb a b = true <-> a = b.
Proof.
  revert b. induction a as [|x a IH]; intros [|y b]; cbn; split; intros H;
    try discriminate; try reflexivity.
  - apply andb_true_iff in H as [H1 H2]. apply Z.eqb_eq in H1. apply IH in H2. congruence.
  - inversion H; subst. rewrite Z.eqb_refl. cbn. apply IH. reflexivity.
Qed.

Lemma timeout_values_spec hs v :
  In v (timeout_values hs) <-> In (grpc_timeout_name, v) hs.
Proof.
  unfold timeout_values. rewrite in_map_iff. split.
  - intros ([k v'] & <- & H). apply filter_In in H as [H1 H2]. cbn in H2.
    apply zlist_eqb_eq in H2. subst. exact H1.
  - intros H. exists (grpc_timeout_name, v). split; [reflexivity|].
    apply filter_In. split; [exact H|]. cbn [fst]. apply zlist_eqb_eq. reflexivity.
Qed.

(* ------------------------------------------------------------------------------------------ *)
(** * the model's constants are the ones in the source *)
Lemma source_facts :
  timeout_re_sem = ([([48; 49; 50; 51; 52; 53; 54; 55; 56; 57], 1, 8);
                      ([72; 77; 83; 109; 110; 117], 1, 1)], 0, [(0, 1); (1, 2)])%Z /\
  unit_chars = s2z "HMSmun" /\
  units = [(72, UInt 3600); (77, UInt 60); (83, UInt 1);
           (109, UPow10Neg 3); (117, UPow10Neg 6); (110, UPow10Neg 9)]%Z /\
  grpc_timeout_name = s2z "grpc-timeout".
Proof. vm_compute. repeat split. Qed.

(* a true special case of "never lengthens": above 10 s there is no product, only truncation *)
Lemma enc_float_seconds (t : f64) : fin t = true -> 10 < R64 t <= 99999999 ->
  exists s q, encode_timeout (PyFloat t) = Ok s /\ wire_q s = Some q /\
              q2r q <= R64 t /\ R64 t - q2r q < 1.
Proof.
  intros Ht [H10 H1]. rewrite encode_unfold.
  assert (C1 : py_gt_q (PyFloat t) 10 1 = true) by (apply py_gt_q_float; [lia|exact Ht|lra]).
  rewrite C1. rewrite enc_branch_float_plain by exact Ht.
  set (n := Ztrunc (R64 t)).
  assert (Hfl : n = Zfloor (R64 t)) by (apply Ztrunc_floor; lra).
  assert (Hn0 : (0 <= n)%Z) by (rewrite Hfl; apply Zfloor_lub; simpl; lra).
  assert (Hlb : IZR n <= R64 t) by (rewrite Hfl; apply Zfloor_lb).
  assert (Hub : R64 t < IZR n + 1) by (rewrite Hfl; apply Zfloor_ub).
  assert (Hn1 : (n <= 99999999)%Z) by (apply le_IZR; lra).
  rewrite py_str_int_nonneg by exact Hn0.
  exists (dec_of_nonneg n ++ [83%Z]), (n * 1, 10 ^ 0)%Z. split; [reflexivity|].
  split; [apply rendered_wire_q; [lia|cbn; auto]|].
  unfold q2r. cbn [fst snd]. rewrite Z.mul_1_r. change (IZR (10 ^ 0)) with 1.
  split; lra.
Qed.

(* the encoded value is accepted by the decoder *)
Lemma decode_of_encode_float (t : f64) : fin t = true -> 0 <= R64 t <= 99999999 ->
  exists s v, encode_timeout (PyFloat t) = Ok s /\ in_grammar s /\
              decode_timeout s = Ok v /\ finnum v = true.
Proof.
  intros Ht Hr. destruct (enc_float_spec t Ht Hr) as (s & q & He & Hg & _).
  destruct (decode_grammar_ok s Hg) as (v & Hv & Hf). exists s, v. auto.
Qed.

Lemma decode_of_encode_int z : (0 <= z <= 99999999)%Z ->
  exists s v, encode_timeout (PyInt z) = Ok s /\ in_grammar s /\
              decode_timeout s = Ok v /\ finnum v = true.
Proof.
  intros Hz. destruct (enc_int_spec z Hz) as (s & q & He & Hg & _).
  destruct (decode_grammar_ok s Hg) as (v & Hv & Hf). exists s, v. auto.
Qed.
