(* Non-vacuity examples for C17: concrete configurations and schedules that satisfy the hypotheses
   of the theorems, with the log the model produces.  Everything is decided by vm_compute. *)
From Coq Require Import ZArith List Bool.
From GV Require Import Model.Keepalive Proofs.C17Proofs.
Import ListNotations.
Open Scope Z_scope.

Definition T (s : Z) : ev := Tick (sec s) true false.

(* keepalive 10 s / timeout 4 s, pings allowed without calls, no budget, min interval 1 s *)
Definition ex_cfg : cfg := mkCfg true (sec 10) (sec 4) true 0 (sec 1).

Example ex_cfg_ok : cfg_ok ex_cfg.
Proof. vm_compute. repeat split; congruence. Qed.

(* a live peer: every ping acknowledged 3 s later (< 4 s) *)
Definition ex_live : list ev := [T 10; T 13; Ack; T 20; T 23; Ack; T 30; T 33; Ack; T 39].

Example ex_live_log :
  snd (run ex_cfg 0 ex_live) =
  [(sec 10, IPing); (sec 13, ITick); (sec 13, IAck); (sec 20, IPing); (sec 23, ITick);
   (sec 23, IAck); (sec 30, IPing); (sec 33, ITick); (sec 33, IAck); (sec 39, ITick)].
Proof. vm_compute. reflexivity. Qed.

Example ex_live_hypothesis :
  acked_in_time (k_timeout ex_cfg) (snd (run ex_cfg 0 ex_live)) (now (fst (run ex_cfg 0 ex_live))).
Proof. apply acked_in_timeb_sound. vm_compute. reflexivity. Qed.

(* the same peer stops acknowledging at sigma = 25 s: closed at 34 s <= 25 + 10 + 4 *)
Definition ex_dead : list ev := [T 10; T 13; Ack; T 20; T 23; Ack; T 30; T 34; T 40].

Example ex_dead_log :
  snd (run ex_cfg 0 ex_dead) =
  [(sec 10, IPing); (sec 13, ITick); (sec 13, IAck); (sec 20, IPing); (sec 23, ITick);
   (sec 23, IAck); (sec 30, IPing); (sec 34, IClose); (sec 40, ITick)].
Proof. vm_compute. reflexivity. Qed.

Example ex_dead_hypotheses :
  quiet ex_cfg (sec 25) (snd (run ex_cfg 0 ex_dead)) /\
  bound ex_cfg (sec 25) < now (fst (run ex_cfg 0 ex_dead)).
Proof. split; [apply quietb_sound|]; vm_compute; reflexivity. Qed.

(* the ping of 30 s is followed by no acknowledgement at all *)
Example ex_dead_unanswered :
  exists l1 l2, snd (run ex_cfg 0 ex_dead) = l1 ++ (sec 30, IPing) :: l2 /\
                has IAck l2 = false /\ has ILost l2 = false /\
                sec 30 + k_timeout ex_cfg < now (fst (run ex_cfg 0 ex_dead)).
Proof.
  exists [(sec 10, IPing); (sec 13, ITick); (sec 13, IAck); (sec 20, IPing); (sec 23, ITick);
          (sec 23, IAck)], [(sec 34, IClose); (sec 40, ITick)].
  vm_compute. repeat split; reflexivity.
Qed.

(* the acknowledgement arrives exactly `timeout` after the ping: processed before the timer of the
   same instant it saves the connection, after it the connection is closed *)
Example ex_ack_at_timeout_before_timer :
  snd (run ex_cfg 0 [T 10; Tick (sec 14) false false; Ack; T 14; T 15]) =
  [(sec 10, IPing); (sec 14, ITick); (sec 14, IAck); (sec 14, ITick); (sec 15, ITick)].
Proof. vm_compute. reflexivity. Qed.

Example ex_ack_at_timeout_after_timer :
  snd (run ex_cfg 0 [T 10; T 14; Ack; T 15]) =
  [(sec 10, IPing); (sec 14, IClose); (sec 14, IAck); (sec 15, ITick)].
Proof. vm_compute. reflexivity. Qed.

(* ping timer and close timer due at the same instant (timeout = time): both orders *)
Definition ex_tie : cfg := mkCfg true (sec 10) (sec 10) true 0 (sec 1).
Example ex_tie_close_first :
  snd (run ex_tie 0 [T 10; Tick (sec 20) true true; T 30]) =
  [(sec 10, IPing); (sec 20, IClose); (sec 30, ITick)].
Proof. vm_compute. reflexivity. Qed.
Example ex_tie_ping_first :
  snd (run ex_tie 0 [T 10; Tick (sec 20) true false; T 30]) =
  [(sec 10, IPing); (sec 20, IPing); (sec 20, IClose); (sec 30, ITick)].
Proof. vm_compute. reflexivity. Qed.

(* the DEFAULT server configuration (7200 s / 20 s, calls required, 2 pings without data, 300 s):
   one call in flight, the peer never answers: one ping at 7200 s, closed at 7220 s *)
Definition ex_server : cfg := mkCfg true (sec 7200) (sec 20) false 2 (sec 300).

Example ex_server_is_default : default_cfg RServer = Some ex_server.
Proof. vm_compute. reflexivity. Qed.

Example ex_server_silent_peer :
  snd (run ex_server 0 [StreamOpened; T 7200; T 7220; T 14400; T 20000]) =
  [(0, IOpen); (sec 7200, IPing); (sec 7220, IClose); (sec 14400, ITick); (sec 20000, ITick)].
Proof. vm_compute. reflexivity. Qed.

(* ... and without a call in flight the default configuration sends nothing (ISkip) *)
Example ex_server_idle :
  snd (run ex_server 0 [T 7200; T 14400; T 20000]) =
  [(sec 7200, ISkip); (sec 14400, ISkip); (sec 20000, ITick)].
Proof. vm_compute. reflexivity. Qed.

(* budget of 2 pings without data, live peer, a call in flight: the third ping is suppressed until
   data is sent; pings are 300 s apart although the timer fires every 100 s *)
Definition ex_budget : cfg := mkCfg true (sec 100) (sec 20) false 2 (sec 300).
Example ex_budget_log :
  ping_times (snd (run ex_budget 0
    [StreamOpened; T 100; Ack; T 200; T 300; T 400; Ack; T 500; T 600; T 700; T 800; DataSent;
     T 900; Ack; T 1000])) = [sec 100; sec 400; sec 900].
Proof. vm_compute. reflexivity. Qed.

(* the same budget on a call that only RECEIVES (a download): the application keeps consuming inbound
   data (Acked), which is not data sent: after two pings nothing more goes out *)
Example ex_budget_receiving :
  ping_times (snd (run ex_budget 0
    [StreamOpened; HeadersSent; T 50; Acked; T 100; Ack; Acked; T 200; Acked; T 300; Acked; T 400; Ack;
     Acked; T 500; Acked; T 600; Acked; T 700; Acked; T 800; Acked; T 900; Acked; T 1000; Acked;
     T 1100])) = [sec 100; sec 400].
Proof. vm_compute. reflexivity. Qed.

(* the client default: keepalive off *)
Example ex_client_default_off :
  exists c, default_cfg RClient = Some c /\ k_enabled c = false /\
            snd (run c 0 [StreamOpened; T 7200; T 20000]) =
            [(0, IOpen); (sec 7200, ITick); (sec 20000, ITick)].
Proof. eexists. split; [vm_compute; reflexivity|]. vm_compute. split; reflexivity. Qed.

(* the refutation witness, spelled out *)
Example ex_witness_log :
  snd (run wit_cfg 0 wit_evs) =
  [(sec 10, IPing); (sec 20, IPing); (sec 25, ITick); (sec 25, IAck); (sec 30, ISkip);
   (sec 40, ISkip); (sec 45, ITick)].
Proof. vm_compute. reflexivity. Qed.
