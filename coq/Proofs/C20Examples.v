(* Non-vacuity examples and refutation witnesses for C20.  Everything is decided by vm_compute on
   concrete descriptor sets (the same ones as corpus/C20/*.json, which the driver replays on the
   real plugin on every run). *)
From Coq Require Import String ZArith List Bool.
From GV Require Import Lib.Str Gen.Facts Gen.FactsC20 Model.Plugin Proofs.C20Proofs.
Import ListNotations.
Open Scope Z_scope.

Definition M (n : string) (nested : list msg) : msg := Msg (s2z n) nested.
Definition me (n : string) (cs ss : bool) (i o : string) : method := Method (s2z n) cs ss (s2z i) (s2z o).

(* corpus/C20/01: dotted packages, directories, hyphens, .protodevel, a dependency, nested types
   three deep, the same simple name `Id` in two packages, all four cardinalities, a service without
   methods, a file without services *)
Definition ex_dep : file :=
  File (s2z "dep/common-types.proto") (s2z "acme.common") []
       [M "Id" [M "Part" [M "Deep" []]]] [].
Definition ex_api : file :=
  File (s2z "svc/my-api.protodevel") (s2z "acme.api.v1") [s2z "dep/common-types.proto"]
       [M "Req" [M "Inner" []]; M "Id" []]
       [Service (s2z "Greeter")
          [me "Hello" false false ".acme.api.v1.Req" ".acme.common.Id.Part.Deep";
           me "Many" true false ".acme.api.v1.Req.Inner" ".acme.api.v1.Id";
           me "Down" false true ".acme.common.Id" ".acme.api.v1.Id";
           me "Bidi" true true ".acme.common.Id.Part" ".acme.api.v1.Id"];
        Service (s2z "Empty") []].
Definition ex_nosvc : file := File (s2z "nosvc.proto") [] [] [M "M" []] [].
Definition ex_req : request :=
  Request [ex_dep; ex_api; ex_nosvc] [s2z "svc/my-api.protodevel"; s2z "nosvc.proto"].

Example ex_unique_types : unique_types (r_files ex_req).
Proof. apply unique_typesb_sound. vm_compute. reflexivity. Qed.

Example ex_unique_files : NoDup (map f_name (r_files ex_req)).
Proof. apply nodup_strb_sound. vm_compute. reflexivity. Qed.

Example ex_get_proto : get_proto (r_files ex_req) (s2z "svc/my-api.protodevel") = Some ex_api.
Proof. vm_compute. reflexivity. Qed.

Example ex_definition_clean : definition_clean (r_files ex_req) ex_api.
Proof. apply definition_cleanb_sound. vm_compute. reflexivity. Qed.

Example ex_types_map :
  types_entries (r_files ex_req) =
  [ (s2z ".acme.common.Id", s2z "dep.common_types_pb2.Id");
    (s2z ".acme.common.Id.Part", s2z "dep.common_types_pb2.Id.Part");
    (s2z ".acme.common.Id.Part.Deep", s2z "dep.common_types_pb2.Id.Part.Deep");
    (s2z ".acme.api.v1.Req", s2z "svc.my_api_pb2.Req");
    (s2z ".acme.api.v1.Req.Inner", s2z "svc.my_api_pb2.Req.Inner");
    (s2z ".acme.api.v1.Id", s2z "svc.my_api_pb2.Id");
    (s2z ".M", s2z "nosvc_pb2.M") ].
Proof. vm_compute. reflexivity. Qed.

Definition ex_route (m : string) : str := s2z ("/acme.api.v1.Greeter/" ++ m).

Definition ex_module : amodule :=
  AModule (s2z "svc/my-api.protodevel")
    [s2z "abc"; s2z "typing"; s2z "grpclib.const"; s2z "grpclib.client";
     s2z "dep.common_types_pb2"; s2z "svc.my_api_pb2"]
    [s2z "grpclib.server"]
    [ AService (s2z "Greeter") [s2z "Hello"; s2z "Many"; s2z "Down"; s2z "Bidi"]
        [ MapEntry (ex_route "Hello") (s2z "Hello") (s2z "UNARY_UNARY")
                   (s2z "svc.my_api_pb2.Req") (s2z "dep.common_types_pb2.Id.Part.Deep");
          MapEntry (ex_route "Many") (s2z "Many") (s2z "STREAM_UNARY")
                   (s2z "svc.my_api_pb2.Req.Inner") (s2z "svc.my_api_pb2.Id");
          MapEntry (ex_route "Down") (s2z "Down") (s2z "UNARY_STREAM")
                   (s2z "dep.common_types_pb2.Id") (s2z "svc.my_api_pb2.Id");
          MapEntry (ex_route "Bidi") (s2z "Bidi") (s2z "STREAM_STREAM")
                   (s2z "dep.common_types_pb2.Id.Part") (s2z "svc.my_api_pb2.Id") ]
        [ StubEntry (s2z "Hello") (s2z "UnaryUnaryMethod") (ex_route "Hello")
                    (s2z "svc.my_api_pb2.Req") (s2z "dep.common_types_pb2.Id.Part.Deep");
          StubEntry (s2z "Many") (s2z "StreamUnaryMethod") (ex_route "Many")
                    (s2z "svc.my_api_pb2.Req.Inner") (s2z "svc.my_api_pb2.Id");
          StubEntry (s2z "Down") (s2z "UnaryStreamMethod") (ex_route "Down")
                    (s2z "dep.common_types_pb2.Id") (s2z "svc.my_api_pb2.Id");
          StubEntry (s2z "Bidi") (s2z "StreamStreamMethod") (ex_route "Bidi")
                    (s2z "dep.common_types_pb2.Id.Part") (s2z "svc.my_api_pb2.Id") ];
      AService (s2z "Empty") [] [] [] ].

Example ex_main :
  main ex_req = Ok [ (s2z "svc/my_api_grpc.py", ex_module);
                     (s2z "nosvc_grpc.py", AModule (s2z "nosvc.proto") [] [] []) ].
Proof. vm_compute. reflexivity. Qed.

Example ex_syntax_ok : syntax_ok ex_module = true.
Proof. vm_compute. reflexivity. Qed.
Example ex_modelled : modelled ex_module = true.
Proof. vm_compute. reflexivity. Qed.

Example ex_exec : exec_module ex_module = Ok (ideal_exec ex_module).
Proof. vm_compute. reflexivity. Qed.

Example ex_exec_classes :
  match exec_module ex_module with
  | Ok cls => map fst cls = [s2z "GreeterBase"; s2z "GreeterStub"; s2z "EmptyBase"; s2z "EmptyStub"]
  | Err _ => False
  end.
Proof. vm_compute. reflexivity. Qed.

(* the empty package: no leading dot in the route, ".M" / ".M.N" as type names *)
Definition ex_nopkg : request :=
  Request [File (s2z "a.proto") [] [] [M "M" [M "N" []]]
             [Service (s2z "S") [me "Foo" false true ".M" ".M.N"]]] [s2z "a.proto"].

Example ex_nopkg_main :
  main ex_nopkg = Ok [ (s2z "a_grpc.py",
    AModule (s2z "a.proto")
      [s2z "abc"; s2z "typing"; s2z "grpclib.const"; s2z "grpclib.client"; s2z "a_pb2"]
      [s2z "grpclib.server"]
      [AService (s2z "S") [s2z "Foo"]
         [MapEntry (s2z "/S/Foo") (s2z "Foo") (s2z "UNARY_STREAM") (s2z "a_pb2.M") (s2z "a_pb2.M.N")]
         [StubEntry (s2z "Foo") (s2z "UnaryStreamMethod") (s2z "/S/Foo") (s2z "a_pb2.M") (s2z "a_pb2.M.N")]]) ].
Proof. vm_compute. reflexivity. Qed.

(* module names *)
Example ex_names :
  pb2_module_name (s2z "x-y/z-w.protodevel") = s2z "x_y.z_w_pb2" /\
  grpc_module_name (s2z "a/b-c.proto") = s2z "a.b_c_grpc" /\
  out_file_name (s2z "a/b-c.proto") = s2z "a/b_c_grpc.py" /\
  pb2_module_name (s2z "plain") = s2z "plain_pb2" /\
  pb2_module_name (s2z "x.proto.protodevel") = s2z "x.proto_pb2" /\
  pb2_module_name (s2z "x.protodevel.proto") = s2z "x.protodevel_pb2".
Proof. vm_compute. repeat split; reflexivity. Qed.

(* error branches *)
Example ex_keyerror :
  main (Request [File (s2z "a.proto") (s2z "p") [] [M "M" []]
                   [Service (s2z "S") [me "Foo" false false ".p.M" ".p.Nope"]]] [s2z "a.proto"])
  = Err EKeyError.
Proof. vm_compute. reflexivity. Qed.

Example ex_stopiteration : main (Request [ex_nosvc] [s2z "missing.proto"]) = Err EStopIteration.
Proof. vm_compute. reflexivity. Qed.

(* an undeclared type in a file that is NOT generated is never looked up *)
Example ex_ungenerated_not_checked :
  exists mods,
    main (Request [File (s2z "a.proto") (s2z "p") [] [M "M" []]
                     [Service (s2z "S") [me "Foo" false false ".p.M" ".p.Nope"]]; ex_nosvc]
                  [s2z "nosvc.proto"]) = Ok mods.
Proof. eexists. vm_compute. reflexivity. Qed.

(* duplicate method names (protoc rejects them): Python keeps the first position and the last value *)
Definition ex_dup : request :=
  Request [File (s2z "a.proto") [] [] [M "M" []; M "N" []]
             [Service (s2z "S") [me "Foo" false false ".M" ".M"; me "Bar" true false ".M" ".M";
                                 me "Foo" false true ".N" ".N"]]] [s2z "a.proto"].

Example ex_dup_exec :
  match main ex_dup with
  | Ok [(_, am)] =>
      match exec_module am with
      | Ok [(_, CBase b); (_, CStub st)] =>
          eb_abstract b = [s2z "Foo"; s2z "Bar"] /\
          eb_mapping b = Ok [ (s2z "/S/Foo", MapEntry (s2z "/S/Foo") (s2z "Foo") (s2z "UNARY_STREAM")
                                                      (s2z "a_pb2.N") (s2z "a_pb2.N"));
                              (s2z "/S/Bar", MapEntry (s2z "/S/Bar") (s2z "Bar") (s2z "STREAM_UNARY")
                                                      (s2z "a_pb2.M") (s2z "a_pb2.M")) ] /\
          match es_attrs st with
          | Ok attrs => map fst attrs = [s2z "Foo"; s2z "Bar"] /\
                        map (fun kv => s_cls (snd kv)) attrs = [s2z "UnaryStreamMethod"; s2z "StreamUnaryMethod"]
          | Err _ => False
          end
      | _ => False
      end
  | _ => False
  end.
Proof. vm_compute. repeat split; reflexivity. Qed.

(* duplicate fully-qualified type names in two files: the later file wins (dict.update) *)
Example ex_dup_type :
  lookup_last (s2z ".p.M")
    (types_entries [File (s2z "a.proto") (s2z "p") [] [M "M" []] [];
                    File (s2z "b.proto") (s2z "p") [] [M "M" []] []]) = Some (s2z "b_pb2.M").
Proof. vm_compute. reflexivity. Qed.

(* ------------------------------------------------------------------------------------------ *)
(* refutation witnesses *)

(* D31: a -> b -(import public)-> c; a's service uses c.M.  The plugin never reads
   public_dependency, so the model's file record has no such field: b simply depends on c. *)
Definition wit_public : request :=
  Request [ File (s2z "c.proto") (s2z "c") [] [M "M" []] [];
            File (s2z "b.proto") (s2z "b") [s2z "c.proto"] [M "B" []] [];
            File (s2z "a.proto") (s2z "a") [s2z "b.proto"] [M "A" []]
                 [Service (s2z "S") [me "Foo" false false ".a.A" ".c.M"]] ]
          [s2z "a.proto"].
Definition wit_public_file : file :=
  File (s2z "a.proto") (s2z "a") [s2z "b.proto"] [M "A" []]
       [Service (s2z "S") [me "Foo" false false ".a.A" ".c.M"]].
Definition wit_public_module : amodule :=
  AModule (s2z "a.proto")
    [s2z "abc"; s2z "typing"; s2z "grpclib.const"; s2z "grpclib.client"; s2z "b_pb2"; s2z "a_pb2"]
    [s2z "grpclib.server"]
    [AService (s2z "S") [s2z "Foo"]
       [MapEntry (s2z "/a.S/Foo") (s2z "Foo") (s2z "UNARY_UNARY") (s2z "a_pb2.A") (s2z "c_pb2.M")]
       [StubEntry (s2z "Foo") (s2z "UnaryUnaryMethod") (s2z "/a.S/Foo") (s2z "a_pb2.A") (s2z "c_pb2.M")]].

Example wit_public_facts :
  unique_typesb (r_files wit_public) = true /\
  nodup_strb (map f_name (r_files wit_public)) = true /\
  get_proto (r_files wit_public) (s2z "a.proto") = Some wit_public_file /\
  definition_clean_anyb (r_files wit_public) wit_public_file = true /\
  main wit_public = Ok [(s2z "a_grpc.py", wit_public_module)] /\
  syntax_ok wit_public_module = true /\ modelled wit_public_module = true /\
  exec_module wit_public_module =
    Ok [ (s2z "SBase", CBase (EBase [s2z "Foo"] (Err ENameError)));
         (s2z "SStub", CStub (EStub (Err ENameError))) ].
Proof. vm_compute. repeat split; reflexivity. Qed.

(* D32: a Python keyword as RPC name (a valid proto identifier) *)
Definition wit_keyword : request :=
  Request [File (s2z "nopkg") [] [] [M "M2" []]
             [Service (s2z "S") [me "class" false false ".M2" ".M2"]]] [s2z "nopkg"].

Example wit_keyword_facts :
  ident_shape (s2z "class") = true /\
  match main wit_keyword with
  | Ok [(_, am)] => exec_module am = Err ESyntaxError
  | _ => False
  end.
Proof. vm_compute. split; reflexivity. Qed.

(* D33: an RPC name with two leading underscores *)
Definition wit_private : request :=
  Request [File (s2z "a.proto") [] [] [M "M" []]
             [Service (s2z "S") [me "__Foo" false false ".M" ".M"]]] [s2z "a.proto"].

Example wit_private_facts :
  ident_shape (s2z "__Foo") = true /\
  match main wit_private with
  | Ok [(_, am)] =>
      syntax_ok am = true /\ modelled am = true /\
      match exec_module am with
      | Ok [(_, CBase b); (_, CStub st)] =>
          eb_abstract b = [s2z "_SBase__Foo"] /\
          match es_attrs st with Ok attrs => map fst attrs = [s2z "_SStub__Foo"] | Err _ => False end
      | _ => False
      end
  | _ => False
  end.
Proof. vm_compute. repeat split; reflexivity. Qed.

(* the keyword table is CPython 3.12's keyword.kwlist *)
Example py_keywords_are :
  py_keywords = map s2z
  ["False"; "None"; "True"; "and"; "as"; "assert"; "async"; "await"; "break"; "class"; "continue";
   "def"; "del"; "elif"; "else"; "except"; "finally"; "for"; "from"; "global"; "if"; "import"; "in";
   "is"; "lambda"; "nonlocal"; "not"; "or"; "pass"; "raise"; "return"; "try"; "while"; "with";
   "yield"]%string.
Proof. vm_compute. reflexivity. Qed.

Example std_imports_are :
  std_imports = map s2z ["abc"; "typing"; "grpclib.const"; "grpclib.client"]%string /\
  guarded_imports = [s2z "grpclib.server"] /\ base_suffix = s2z "Base" /\ stub_suffix = s2z "Stub".
Proof. vm_compute. repeat split; reflexivity. Qed.

(* ------------------------------------------------------------------------------------------ *)
(* the refuted full-strength statements *)

Fixpoint msg_idents (m : msg) : bool :=
  match m with Msg n ns => ident_shape n && forallb msg_idents ns end.

(* every name is a proto identifier (a letter or underscore, then letters, digits, underscores),
   packages are dotted identifiers *)
Definition proto_idents (req : request) : bool :=
  forallb (fun f =>
    (negb (nonempty (f_package f)) || forallb ident_shape (split_on 46 (f_package f))) &&
    forallb msg_idents (f_msgs f) &&
    forallb (fun s => ident_shape (sv_name s) && forallb (fun m => ident_shape (me_name m)) (sv_methods s))
            (f_services f)) (r_files req).

(* FULL (false): forall req mods nm, proto_idents req = true -> main req = Ok mods -> In nm mods ->
                 syntax_ok (snd nm) = true          -- "the generated module imports cleanly" *)
Lemma imports_cleanly_refuted :
  exists req mods nm, proto_idents req = true /\ unique_types (r_files req) /\
    main req = Ok mods /\ In nm mods /\ exec_module (snd nm) = Err ESyntaxError.
Proof.
  exists wit_keyword. eexists. eexists. split; [vm_compute; reflexivity|].
  split; [apply unique_typesb_sound; vm_compute; reflexivity|].
  split; [vm_compute; reflexivity|]. split; [left; reflexivity|]. vm_compute. reflexivity.
Qed.

(* FULL (false): executed_module with `definition_clean_any` (types declared in ANY file of the
   request, which is all protoc guarantees once `import public` is used) in place of
   `definition_clean` (own file or direct dependency) *)
Lemma executed_module_any_refuted :
  exists req mods g pf am,
    proto_idents req = true /\ unique_types (r_files req) /\ NoDup (map f_name (r_files req)) /\
    main req = Ok mods /\ In g (r_gen req) /\ get_proto (r_files req) g = Some pf /\
    definition_clean_any (r_files req) pf /\ In (out_file_name g, am) mods /\
    syntax_ok am = true /\ modelled am = true /\
    exec_module am = Ok [ (s2z "SBase", CBase (EBase [s2z "Foo"] (Err ENameError)));
                          (s2z "SStub", CStub (EStub (Err ENameError))) ].
Proof.
  exists wit_public, [(s2z "a_grpc.py", wit_public_module)], (s2z "a.proto"), wit_public_file, wit_public_module.
  destruct wit_public_facts as [H1 [H2 [H3 [H4 [H5 [H6 [H7 H8]]]]]]].
  split; [vm_compute; reflexivity|].
  split; [apply unique_typesb_sound; exact H1|]. split; [apply nodup_strb_sound; exact H2|].
  split; [exact H5|]. split; [left; reflexivity|]. split; [exact H3|].
  split; [apply definition_clean_anyb_sound; exact H4|]. split; [left; vm_compute; reflexivity|].
  split; [exact H6|]. split; [exact H7 | exact H8].
Qed.

(* FULL (false): in the executed module the abstract methods and the stub attributes carry the
   declared RPC names, for every proto identifier as RPC name *)
Lemma declared_names_refuted :
  exists req mods nm b st attrs,
    proto_idents req = true /\ unique_types (r_files req) /\ main req = Ok mods /\ In nm mods /\
    syntax_ok (snd nm) = true /\ modelled (snd nm) = true /\
    exec_module (snd nm) = Ok [(s2z "SBase", CBase b); (s2z "SStub", CStub st)] /\
    es_attrs st = Ok attrs /\
    eb_abstract b = [s2z "_SBase__Foo"] /\ map fst attrs = [s2z "_SStub__Foo"] /\
    map as_abstract (a_classes (snd nm)) = [[s2z "__Foo"]].
Proof.
  exists wit_private. do 5 eexists. split; [vm_compute; reflexivity|].
  split; [apply unique_typesb_sound; vm_compute; reflexivity|].
  split; [vm_compute; reflexivity|]. split; [left; reflexivity|].
  cbn [snd]. repeat split; vm_compute; reflexivity.
Qed.
