(* Proofs for Props/C17.v: the keepalive automaton of Model/Keepalive.v.
   Everything is proved for ALL configurations accepted by the validators (cfg_ok), all start
   instants and ALL event lists (induction over the run with invariants).  Axiom-free. *)
From Coq Require Import ZArith List Bool Lia ZifyBool.
From GV Require Import Model.Keepalive.
Import ListNotations.
Open Scope Z_scope.
#[local] Ltac Zify.zify_post_hook ::= Z.div_mod_to_equations.

(* ------------------------------------------------------------------------------------------ *)
(** * Lists and logs *)

Lemma app_split {A} (l o l1 l2 : list A) (x : A) :
  l ++ o = l1 ++ x :: l2 ->
  (exists m, l = l1 ++ x :: m /\ l2 = m ++ o) \/ (exists m, l1 = l ++ m /\ o = m ++ x :: l2).
Proof.
  revert l1. induction l as [|a l IH]; intros l1 H.
  - right. exists l1. split; [reflexivity|exact H].
  - destruct l1 as [|b l1]; cbn in H.
    + inversion H; subst. left. exists l. split; reflexivity.
    + inversion H; subst. destruct (IH _ H2) as [[m [E1 E2]]|[m [E1 E2]]].
      * left. exists m. subst. split; reflexivity.
      * right. exists m. subst. split; reflexivity.
Qed.

Definition times_le (b : Z) (l : log) : Prop := Forall (fun x => fst x <= b) l.
Definition times_ge (b : Z) (l : log) : Prop := Forall (fun x => b <= fst x) l.

Fixpoint mono (l : log) : Prop :=
  match l with
  | [] => True
  | x :: r => times_ge (fst x) r /\ mono r
  end.

Lemma mono_app l o :
  mono (l ++ o) <-> mono l /\ mono o /\ (forall x y, In x l -> In y o -> fst x <= fst y).
Proof.
  induction l as [|a l IH]; cbn.
  - split; [intros H; repeat split; auto; intros ? ? []|intros [_ [H _]]; exact H].
  - unfold times_ge in *. rewrite Forall_app, IH. split.
    + intros [[H1 H2] [H3 [H4 H5]]]. repeat split; auto.
      intros x y [->|Hx] Hy; [rewrite Forall_forall in H2; auto|eauto].
    + intros [[H1 H2] [H3 H4]]. repeat split; auto.
      rewrite Forall_forall. intros y Hy. apply H4; auto.
Qed.

Lemma mono_split l1 x l2 y : mono (l1 ++ x :: l2) -> In y l2 -> fst x <= fst y.
Proof.
  intros H Hy. apply mono_app in H. destruct H as [_ [[H _] _]].
  unfold times_ge in H. rewrite Forall_forall in H. auto.
Qed.

Lemma has_app i l o : has i (l ++ o) = has i l || has i o.
Proof. unfold has. apply existsb_app. Qed.

Lemma has_false_in i l t : has i l = false -> ~ In (t, i) l.
Proof.
  unfold has. intros H Hin.
  assert (existsb (fun x => item_eqb (snd x) i) l = true).
  { apply existsb_exists. exists (t, i). split; auto. cbn. destruct i; reflexivity. }
  congruence.
Qed.

Lemma item_eqb_eq a b : item_eqb a b = true <-> a = b.
Proof. destruct a, b; cbn; split; intros; congruence. Qed.

Lemma has_true_in i l : has i l = true -> exists t, In (t, i) l.
Proof.
  unfold has. intros H. apply existsb_exists in H. destruct H as [[t j] [Hin He]].
  cbn in He. apply item_eqb_eq in He. subst. eauto.
Qed.

Lemma in_has i l t : In (t, i) l -> has i l = true.
Proof.
  intros H. destruct (has i l) eqn:E; auto. exfalso. eapply has_false_in; eauto.
Qed.

Lemma tailcount_app l o acc : tailcount acc (l ++ o) = tailcount (tailcount acc l) o.
Proof.
  revert acc. induction l as [|[t i] l IH]; intros acc; cbn; auto.
  destruct i; apply IH.
Qed.

Lemma lastping_app l o acc : lastping acc (l ++ o) = lastping (lastping acc l) o.
Proof.
  revert acc. induction l as [|[t i] l IH]; intros acc; cbn; auto.
  destruct i; apply IH.
Qed.

Lemma ping_times_app l o : ping_times (l ++ o) = ping_times l ++ ping_times o.
Proof. unfold ping_times. rewrite filter_app, map_app. reflexivity. Qed.

Lemma in_ping_times p l : In p (ping_times l) <-> In (p, IPing) l.
Proof.
  unfold ping_times. rewrite in_map_iff. split.
  - intros [[t i] [E H]]. apply filter_In in H. destruct H as [H1 H2]. cbn in *.
    apply item_eqb_eq in H2. subst. exact H1.
  - intros H. exists (p, IPing). split; auto. apply filter_In. split; auto.
Qed.

(* ------------------------------------------------------------------------------------------ *)
(** * The run as an induction principle *)

Lemma run_from_app c a e1 e2 : run_from c a (e1 ++ e2) = run_from c (run_from c a e1) e2.
Proof. unfold run_from. apply fold_left_app. Qed.

Lemma run_snoc c t0 evs e : run c t0 (evs ++ [e]) = stepl c (run c t0 evs) e.
Proof. unfold run. rewrite run_from_app. reflexivity. Qed.

Lemma run_ind c t0 (P : st -> log -> Prop) :
  P (init c t0) [] ->
  (forall s l e, P s l -> P (fst (step c s e)) (l ++ snd (step c s e))) ->
  forall evs, P (fst (run c t0 evs)) (snd (run c t0 evs)).
Proof.
  intros H0 Hs evs. induction evs as [|e evs IH] using rev_ind.
  - exact H0.
  - rewrite run_snoc. unfold stepl. specialize (Hs _ _ e IH).
    destruct (step c (fst (run c t0 evs)) e) as [s1 o]. exact Hs.
Qed.

(* the log only grows *)
Lemma run_log_prefix c a evs : exists o, snd (run_from c a evs) = snd a ++ o.
Proof.
  revert a. induction evs as [|e evs IH]; intros a.
  - exists []. cbn. rewrite app_nil_r. reflexivity.
  - cbn. destruct (IH (stepl c a e)) as [o Ho]. unfold run_from in Ho. rewrite Ho.
    unfold stepl. destruct (step c (fst a) e) as [s1 o1]. cbn. exists (o1 ++ o).
    rewrite app_assoc. reflexivity.
Qed.

(* ------------------------------------------------------------------------------------------ *)
(** * What one step can do *)

Section Steps.
Variable c : cfg.

Definition at_time (s : st) (d : Z) : st := set_now s (Z.max (now s) d).

Lemma tick_cases s t incl cf :
  (tick c s t incl cf = idle s t /\
   (closed s = true \/
    ((forall d, ping_timer s = Some d -> t <= d) /\ (forall d, close_timer s = Some d -> t <= d))))
  \/ (closed s = false /\ exists d, ping_timer s = Some d /\ d <= t /\
        (forall d', close_timer s = Some d' -> d < d') /\
        tick c s t incl cf = fire_ping c (at_time s d))
  \/ (closed s = false /\ exists d, close_timer s = Some d /\ d <= t /\
        (forall d', ping_timer s = Some d' -> d <= d') /\
        tick c s t incl cf = fire_close (at_time s d))
  \/ (closed s = false /\ exists d, close_timer s = Some d /\ ping_timer s = Some d /\ d <= t /\
        tick c s t incl cf =
        (let '(s1, o1) := fire_ping c (at_time s d) in
         let '(s2, o2) := fire_close s1 in (s2, o1 ++ o2))).
Proof.
  unfold tick, at_time. destruct (closed s) eqn:Ecl.
  { left. split; auto. }
  destruct (ping_timer s) as [p|] eqn:Ep; destruct (close_timer s) as [q|] eqn:Eq; cbn [earliest].
  - destruct (is_due incl (Z.min p q) t) eqn:Edue.
    + assert (Hle : Z.min p q <= t) by (unfold is_due in Edue; destruct incl; lia).
      cbn [opt_is].
      destruct (p =? Z.min p q) eqn:E1; destruct (q =? Z.min p q) eqn:E2; cbn [andb].
      * assert (p = q) by lia. subst q. replace (Z.min p p) with p in * by lia.
        destruct cf.
        -- right. right. left. split; auto. exists p. repeat split; auto.
           intros d' H; inversion H; lia.
        -- right. right. right. split; auto. exists p. repeat split; auto.
      * assert (p < q) by lia.
        right. left. split; auto. exists p. replace (Z.min p q) with p in * by lia.
        repeat split; auto. intros d' H'; inversion H'; subst; lia.
      * assert (q < p) by lia.
        right. right. left. split; auto. exists q. replace (Z.min p q) with q in * by lia.
        repeat split; auto. intros d' H'; inversion H'; subst; lia.
      * lia.
    + left. split; auto. right.
      assert (t <= Z.min p q) by (unfold is_due in Edue; destruct incl; lia).
      split; intros d H0; inversion H0; subst; lia.
  - destruct (is_due incl p t) eqn:Edue.
    + assert (Hle : p <= t) by (unfold is_due in Edue; destruct incl; lia).
      cbn [opt_is]. rewrite Z.eqb_refl. cbn [andb].
      right. left. split; auto. exists p. repeat split; auto. intros d' H; inversion H.
    + left. split; auto. right.
      assert (t <= p) by (unfold is_due in Edue; destruct incl; lia).
      split; intros d H0; inversion H0; subst; lia.
  - destruct (is_due incl q t) eqn:Edue.
    + assert (Hle : q <= t) by (unfold is_due in Edue; destruct incl; lia).
      cbn [opt_is]. rewrite Z.eqb_refl. cbn [andb].
      right. right. left. split; auto. exists q. repeat split; auto. intros d' H; inversion H.
    + left. split; auto. right.
      assert (t <= q) by (unfold is_due in Edue; destruct incl; lia).
      split; intros d H0; inversion H0; subst; lia.
  - left. split; auto. right. split; intros d H0; inversion H0.
Qed.

End Steps.

(* ------------------------------------------------------------------------------------------ *)
(** * Micro-steps: every event is one or two of these (two = ping timer and close timer due at
      the same instant, ping callback first) *)

Section Micro.
Variable c : cfg.
Hypothesis Hok : cfg_ok c.

Inductive mstep (s : st) : st -> log -> Prop :=
| m_idle t :
    now s <= t ->
    (closed s = true \/
     ((forall d, ping_timer s = Some d -> t <= d) /\ (forall d, close_timer s = Some d -> t <= d))) ->
    mstep s (set_now s t) [(t, ITick)]
| m_ping d :
    closed s = false -> ping_timer s = Some d -> now s <= d ->
    (forall d', close_timer s = Some d' -> d <= d') ->
    need_ping c (set_now s d) = true ->
    mstep s (mkSt d (Some (d + k_time c))
                  (match close_timer s with None => Some (d + k_timeout c) | Some x => Some x end)
                  (pcount s + 1) (Some d) (last_data s) (opens s) false) [(d, IPing)]
| m_skip d :
    closed s = false -> ping_timer s = Some d -> now s <= d ->
    (forall d', close_timer s = Some d' -> d <= d') ->
    need_ping c (set_now s d) = false ->
    mstep s (mkSt d (Some (d + k_time c)) (close_timer s) (pcount s) (last_ping s) (last_data s)
                  (opens s) false) [(d, ISkip)]
| m_close d :
    closed s = false -> close_timer s = Some d -> now s <= d ->
    (forall d', ping_timer s = Some d' -> d <= d') ->
    mstep s (mkSt d None None (pcount s) (last_ping s) (last_data s) (opens s) true) [(d, IClose)]
| m_ack :
    mstep s (mkSt (now s) (ping_timer s) None (pcount s) (last_ping s) (last_data s) (opens s)
                  (closed s)) [(now s, IAck)]
| m_data :
    mstep s (mkSt (now s) (ping_timer s) (close_timer s) 0 (last_ping s) (Some (now s)) (opens s)
                  (closed s)) [(now s, IData)]
| m_headers :
    mstep s (mkSt (now s) (ping_timer s) (close_timer s) 0 (last_ping s) (last_data s) (opens s)
                  (closed s)) [(now s, IHeaders)]
| m_open :
    mstep s (mkSt (now s) (ping_timer s) (close_timer s) (pcount s) (last_ping s) (last_data s)
                  (opens s + 1) (closed s)) [(now s, IOpen)]
| m_shut :
    mstep s (mkSt (now s) (ping_timer s) (close_timer s) (pcount s) (last_ping s) (last_data s)
                  (Z.max 0 (opens s - 1)) (closed s)) [(now s, IShut)]
| m_lost :
    mstep s (mkSt (now s) None None (pcount s) (last_ping s) (last_data s) (opens s) true)
          [(now s, ILost)]
| m_acked :
    mstep s s [(now s, IRecv)].

(* base invariant: the log is time-ordered and bounded by the clock; armed timers lie ahead *)
Record base (s : st) (l : log) : Prop := {
  b_le : times_le (now s) l;
  b_mono : mono l;
  b_ping : closed s = false -> forall d, ping_timer s = Some d -> now s <= d <= now s + k_time c;
  b_close : closed s = false -> forall d, close_timer s = Some d ->
            now s <= d <= now s + k_timeout c
}.

Lemma base_init t0 : base (init c t0) [].
Proof.
  destruct Hok as [H1 [H2 _]].
  split; cbn.
  - constructor.
  - exact I.
  - intros _ d. destruct (k_enabled c); intros H; inversion H; lia.
  - intros _ d H; inversion H.
Qed.

Lemma log_extend n n' l o :
  times_le n l -> mono l -> n <= n' -> times_ge n o -> times_le n' o -> mono o ->
  times_le n' (l ++ o) /\ mono (l ++ o).
Proof.
  unfold times_le, times_ge. intros H1 H2 H3 H4 H5 H6. split.
  - apply Forall_app. split; auto. eapply Forall_impl; [|exact H1]. cbn. intros; lia.
  - apply mono_app. repeat split; auto. intros x y Hx Hy.
    rewrite Forall_forall in H1, H4. specialize (H1 _ Hx). specialize (H4 _ Hy). lia.
Qed.

Lemma log_extend1 n n' l i :
  times_le n l -> mono l -> n <= n' -> times_le n' (l ++ [(n', i)]) /\ mono (l ++ [(n', i)]).
Proof.
  intros. apply (log_extend n n'); auto; unfold times_ge, times_le.
  - constructor; [cbn; lia|constructor].
  - constructor; [cbn; lia|constructor].
  - cbn. split; [constructor|exact I].
Qed.

Lemma base_mstep s l s' o : base s l -> mstep s s' o -> base s' (l ++ o).
Proof.
  destruct Hok as [Ht [Hto _]].
  intros [Hle Hmo Hp Hc] M.
  destruct M as [t Hnt Hfree|d Hcl Hpt Hnd Hq Hn|d Hcl Hpt Hnd Hq Hn|d Hcl Hct Hnd Hq| | | | | | | ];
    destruct s as [nw pt ct pc lp ld op cl]; cbn in *.
  - destruct (log_extend1 nw t l ITick Hle Hmo Hnt) as [A B].
    split; cbn; auto.
    + intros Hcl d Hd. destruct Hfree as [H0|[H0 _]]; [congruence|].
      specialize (Hp Hcl d Hd). specialize (H0 d Hd). lia.
    + intros Hcl d Hd. destruct Hfree as [H0|[_ H0]]; [congruence|].
      specialize (Hc Hcl d Hd). specialize (H0 d Hd). lia.
  - destruct (log_extend1 nw d l IPing Hle Hmo Hnd) as [A B].
    split; cbn; auto.
    + intros _ d0 Hd; inversion Hd; lia.
    + intros _ d0 Hd. destruct ct as [x|].
      * injection Hd as E. subst d0. specialize (Hc Hcl x eq_refl). specialize (Hq x eq_refl). lia.
      * inversion Hd; lia.
  - destruct (log_extend1 nw d l ISkip Hle Hmo Hnd) as [A B].
    split; cbn; auto.
    + intros _ d0 Hd; inversion Hd; lia.
    + intros _ d0 Hd. specialize (Hc Hcl d0 Hd). specialize (Hq d0 Hd). lia.
  - destruct (log_extend1 nw d l IClose Hle Hmo Hnd) as [A B].
    split; cbn; auto; intros; congruence.
  - destruct (log_extend1 nw nw l IAck Hle Hmo (Z.le_refl _)) as [A B].
    split; cbn; auto. intros; congruence.
  - destruct (log_extend1 nw nw l IData Hle Hmo (Z.le_refl _)) as [A B].
    split; cbn; auto.
  - destruct (log_extend1 nw nw l IHeaders Hle Hmo (Z.le_refl _)) as [A B].
    split; cbn; auto.
  - destruct (log_extend1 nw nw l IOpen Hle Hmo (Z.le_refl _)) as [A B].
    split; cbn; auto.
  - destruct (log_extend1 nw nw l IShut Hle Hmo (Z.le_refl _)) as [A B].
    split; cbn; auto.
  - destruct (log_extend1 nw nw l ILost Hle Hmo (Z.le_refl _)) as [A B].
    split; cbn; auto; intros; congruence.
  - destruct (log_extend1 nw nw l IRecv Hle Hmo (Z.le_refl _)) as [A B].
    split; cbn; auto.
Qed.

(* a step of the model is one micro-step, or two at the same instant *)
Lemma step_msteps s l e :
  base s l ->
  mstep s (fst (step c s e)) (snd (step c s e)) \/
  exists s1 o1 o2, mstep s s1 o1 /\ mstep s1 (fst (step c s e)) o2 /\
                   snd (step c s e) = o1 ++ o2.
Proof.
  intros [Hle Hmo Hp Hc].
  destruct e; try (left; cbn; constructor).
  cbn [step].
  destruct (tick_cases c s t incl close_first) as [[E H]|[[Hcl [d [Hd [Hdt [Hq E]]]]]|[[Hcl [d [Hd [Hdt [Hq E]]]]]|[Hcl [d [Hd1 [Hd2 [Hdt E]]]]]]]]; rewrite E; clear E.
  - left. unfold idle. cbn. apply m_idle; [lia|].
    destruct H as [H|[H1 H2]]; [left; exact H|].
    destruct (closed s) eqn:Ecl; [left; reflexivity|right].
    split; intros d Hd.
    + specialize (Hp eq_refl d Hd). specialize (H1 d Hd). lia.
    + specialize (Hc eq_refl d Hd). specialize (H2 d Hd). lia.
  - left. specialize (Hp Hcl d Hd). unfold at_time. replace (Z.max (now s) d) with d by lia.
    unfold fire_ping. destruct (need_ping c (set_now s d)) eqn:En; cbn.
    + rewrite Hcl. apply m_ping; try solve [auto|lia|intros d' Hd'; specialize (Hq d' Hd'); lia].
    + rewrite Hcl. apply m_skip; try solve [auto|lia|intros d' Hd'; specialize (Hq d' Hd'); lia].
  - left. specialize (Hc Hcl d Hd). unfold at_time. replace (Z.max (now s) d) with d by lia.
    unfold fire_close. cbn. apply m_close; auto; lia.
  - right. specialize (Hc Hcl d Hd1). unfold at_time. replace (Z.max (now s) d) with d by lia.
    destruct Hok as [Ht [Hto _]].
    assert (Hq : forall d', close_timer s = Some d' -> d <= d')
      by (intros d' Hd'; rewrite Hd1 in Hd'; inversion Hd'; lia).
    unfold fire_ping. destruct (need_ping c (set_now s d)) eqn:En; cbn.
    + exists (mkSt d (Some (d + k_time c)) (Some d) (pcount s + 1) (Some d) (last_data s) (opens s)
                   false), [(d, IPing)], [(d, IClose)].
      split; [|split; [|reflexivity]].
      * pose proof (m_ping s d Hcl Hd2 (proj1 Hc) Hq En) as M. rewrite Hd1 in M. exact M.
      * apply (m_close (mkSt d (Some (d + k_time c)) (Some d) (pcount s + 1) (Some d) (last_data s)
                            (opens s) false) d); cbn;
          try solve [auto|lia|intros d' Hd'; inversion Hd'; lia].
    + exists (mkSt d (Some (d + k_time c)) (Some d) (pcount s) (last_ping s) (last_data s) (opens s)
                   false), [(d, ISkip)], [(d, IClose)].
      split; [|split; [|reflexivity]].
      * pose proof (m_skip s d Hcl Hd2 (proj1 Hc) Hq En) as M. rewrite Hd1 in M. exact M.
      * apply (m_close (mkSt d (Some (d + k_time c)) (Some d) (pcount s) (last_ping s) (last_data s)
                            (opens s) false) d); cbn;
          try solve [auto|lia|intros d' Hd'; inversion Hd'; lia].
Qed.

(* induction over runs by micro-steps, with the base invariant available *)
Lemma run_mind t0 (P : st -> log -> Prop) :
  P (init c t0) [] ->
  (forall s l s' o, base s l -> P s l -> mstep s s' o -> P s' (l ++ o)) ->
  forall evs, base (fst (run c t0 evs)) (snd (run c t0 evs)) /\
              P (fst (run c t0 evs)) (snd (run c t0 evs)).
Proof.
  intros H0 Hs.
  apply (run_ind c t0 (fun s l => base s l /\ P s l)).
  - split; [apply base_init|exact H0].
  - intros s l e [Hb Hp].
    destruct (step_msteps s l e Hb) as [M|[s1 [o1 [o2 [M1 [M2 E]]]]]].
    + split; [eapply base_mstep; eauto|eapply Hs; eauto].
    + rewrite E, app_assoc.
      assert (Hb1 : base s1 (l ++ o1)) by (eapply base_mstep; eauto).
      split; [eapply base_mstep; eauto|].
      eapply Hs; [exact Hb1| |exact M2]. eapply Hs; eauto.
Qed.

Lemma run_base t0 evs : base (fst (run c t0 evs)) (snd (run c t0 evs)).
Proof. apply (run_mind t0 (fun _ _ => True)); auto. Qed.

End Micro.

(* ------------------------------------------------------------------------------------------ *)
(** * Safety: a peer that acknowledges every ping in time is never disconnected by keepalive *)

Section Safety.
Variable c : cfg.
Hypothesis Hok : cfg_ok c.

(* where an armed close timer and a logged close come from *)
Definition prov (s : st) (l : log) : Prop :=
  (closed s = false -> forall d, close_timer s = Some d ->
     exists l1 l2, l = l1 ++ (d - k_timeout c, IPing) :: l2 /\ has IAck l2 = false) /\
  (forall t, In (t, IClose) l ->
     exists l1 l2 rest, l = l1 ++ (t - k_timeout c, IPing) :: l2 ++ (t, IClose) :: rest /\
                        has IAck l2 = false) /\
  (closed s = true -> has IClose l = true \/ has ILost l = true).

Lemma prov_extend_timer l o d :
  has IAck o = false ->
  (exists l1 l2, l = l1 ++ (d, IPing) :: l2 /\ has IAck l2 = false) ->
  exists l1 l2, l ++ o = l1 ++ (d, IPing) :: l2 /\ has IAck l2 = false.
Proof.
  intros Ho [l1 [l2 [E H]]]. exists l1, (l2 ++ o). subst l. split.
  - rewrite <- app_assoc. reflexivity.
  - rewrite has_app, H, Ho. reflexivity.
Qed.

Lemma prov_extend_close l o t :
  (exists l1 l2 rest, l = l1 ++ (t - k_timeout c, IPing) :: l2 ++ (t, IClose) :: rest /\
                      has IAck l2 = false) ->
  exists l1 l2 rest, l ++ o = l1 ++ (t - k_timeout c, IPing) :: l2 ++ (t, IClose) :: rest /\
                     has IAck l2 = false.
Proof.
  intros [l1 [l2 [rest [E H]]]]. exists l1, l2, (rest ++ o). subst l. split; auto.
  rewrite <- app_assoc. cbn. rewrite <- app_assoc. reflexivity.
Qed.

Lemma prov_mstep s l s' o : base c s l -> prov s l -> mstep c s s' o -> prov s' (l ++ o).
Proof.
  intros Hb [P1 [P2 P3]] M.
  assert (Hold : forall t, In (t, IClose) l ->
     exists l1 l2 rest, (l ++ o) = l1 ++ (t - k_timeout c, IPing) :: l2 ++ (t, IClose) :: rest /\
                        has IAck l2 = false)
    by (intros t Ht; apply prov_extend_close; auto).
  assert (Hcl3 : closed s = true -> has IClose (l ++ o) = true \/ has ILost (l ++ o) = true).
  { intros Hc. rewrite !has_app. destruct (P3 Hc) as [H|H]; rewrite H; auto. }
  destruct M as [t Hnt Hfree|d Hcl Hpt Hnd Hq Hn|d Hcl Hpt Hnd Hq Hn|d Hcl Hct Hnd Hq| | | | | | | ].
  - (* idle *)
    repeat split.
    + cbn. intros Hc d Hd. apply prov_extend_timer; auto.
    + intros t0 Hin. apply in_app_or in Hin. destruct Hin as [Hin|[Hin|[]]]; [auto|inversion Hin].
    + cbn. apply Hcl3.
  - (* ping *)
    repeat split.
    + cbn. intros _ d0 Hd. destruct (close_timer s) as [x|] eqn:Ect.
      * inversion Hd; subst. apply prov_extend_timer; auto.
      * inversion Hd; subst. exists l, []. split; [|reflexivity].
        replace (d + k_timeout c - k_timeout c) with d by lia. reflexivity.
    + intros t0 Hin. apply in_app_or in Hin. destruct Hin as [Hin|[Hin|[]]]; [auto|inversion Hin].
    + cbn. intros; congruence.
  - (* skip *)
    repeat split.
    + cbn. intros _ d0 Hd. apply prov_extend_timer; auto.
    + intros t0 Hin. apply in_app_or in Hin. destruct Hin as [Hin|[Hin|[]]]; [auto|inversion Hin].
    + cbn. intros; congruence.
  - (* close *)
    repeat split.
    + cbn. intros; congruence.
    + intros t0 Hin. apply in_app_or in Hin. destruct Hin as [Hin|[Hin|[]]]; [auto|].
      inversion Hin; subst t0. destruct (P1 Hcl d Hct) as [l1 [l2 [E H]]].
      exists l1, l2, []. split; auto. subst l. rewrite <- app_assoc. reflexivity.
    + cbn. intros _. left. rewrite has_app. cbn. apply orb_true_r.
  - (* ack *)
    repeat split.
    + cbn. intros; congruence.
    + intros t0 Hin. apply in_app_or in Hin. destruct Hin as [Hin|[Hin|[]]]; [auto|inversion Hin].
    + cbn. apply Hcl3.
  - repeat split.
    + cbn. intros Hc d Hd. apply prov_extend_timer; auto.
    + intros t0 Hin. apply in_app_or in Hin. destruct Hin as [Hin|[Hin|[]]]; [auto|inversion Hin].
    + cbn. apply Hcl3.
  - repeat split.
    + cbn. intros Hc d Hd. apply prov_extend_timer; auto.
    + intros t0 Hin. apply in_app_or in Hin. destruct Hin as [Hin|[Hin|[]]]; [auto|inversion Hin].
    + cbn. apply Hcl3.
  - repeat split.
    + cbn. intros Hc d Hd. apply prov_extend_timer; auto.
    + intros t0 Hin. apply in_app_or in Hin. destruct Hin as [Hin|[Hin|[]]]; [auto|inversion Hin].
    + cbn. apply Hcl3.
  - repeat split.
    + cbn. intros Hc d Hd. apply prov_extend_timer; auto.
    + intros t0 Hin. apply in_app_or in Hin. destruct Hin as [Hin|[Hin|[]]]; [auto|inversion Hin].
    + cbn. apply Hcl3.
  - (* lost *)
    repeat split.
    + cbn. intros; congruence.
    + intros t0 Hin. apply in_app_or in Hin. destruct Hin as [Hin|[Hin|[]]]; [auto|inversion Hin].
    + cbn. intros _. right. rewrite has_app. cbn. apply orb_true_r.
  - (* acked *)
    repeat split.
    + cbn. intros Hc d Hd. apply prov_extend_timer; auto.
    + intros t0 Hin. apply in_app_or in Hin. destruct Hin as [Hin|[Hin|[]]]; [auto|inversion Hin].
    + cbn. apply Hcl3.
Qed.

Lemma run_prov t0 evs :
  base c (fst (run c t0 evs)) (snd (run c t0 evs)) /\ prov (fst (run c t0 evs)) (snd (run c t0 evs)).
Proof.
  apply (run_mind c Hok t0 prov).
  - repeat split; cbn; intros; try congruence. contradiction.
  - intros. eapply prov_mstep; eauto.
Qed.

(* every PING in the log is followed by an acknowledgement that arrives strictly less than
   `timeout` after it was sent -- or its deadline has not been reached when the run ends *)
Definition acked_in_time (timeout : Z) (l : log) (end_time : Z) : Prop :=
  forall l1 p l2, l = l1 ++ (p, IPing) :: l2 ->
    (exists a, In (a, IAck) l2 /\ a < p + timeout) \/ end_time < p + timeout.

Lemma live_peer_never_dropped t0 evs :
  acked_in_time (k_timeout c) (snd (run c t0 evs)) (now (fst (run c t0 evs))) ->
  (forall t, ~ In (t, IClose) (snd (run c t0 evs))) /\
  (has ILost (snd (run c t0 evs)) = false -> closed (fst (run c t0 evs)) = false).
Proof.
  intros Hack. destruct (run_prov t0 evs) as [Hb [P1 [P2 P3]]].
  set (s := fst (run c t0 evs)) in *. set (l := snd (run c t0 evs)) in *.
  assert (Hno : forall t, ~ In (t, IClose) l).
  { intros t Hin. destruct (P2 t Hin) as [l1 [l2 [rest [E Hna]]]].
    destruct (Hack l1 (t - k_timeout c) (l2 ++ (t, IClose) :: rest) E) as [[a [Ha Hlt]]|Hend].
    - apply in_app_or in Ha. destruct Ha as [Ha|[Ha|Ha]].
      + eapply has_false_in; eauto.
      + inversion Ha.
      + pose proof (b_mono c s l Hb) as Hm. rewrite E in Hm.
        replace (l1 ++ (t - k_timeout c, IPing) :: l2 ++ (t, IClose) :: rest)
          with ((l1 ++ (t - k_timeout c, IPing) :: l2) ++ (t, IClose) :: rest) in Hm
          by (rewrite <- app_assoc; reflexivity).
        pose proof (mono_split _ _ _ _ Hm Ha) as Hle. cbn in Hle. lia.
    - pose proof (b_le c s l Hb) as Hle. unfold times_le in Hle. rewrite Forall_forall in Hle.
      specialize (Hle _ Hin). cbn in Hle. lia. }
  split; auto.
  intros Hnl. destruct (closed s) eqn:Ecl; auto.
  destruct (P3 eq_refl) as [H|H]; [|congruence].
  apply has_true_in in H. destruct H as [t Ht]. exfalso. eapply Hno; eauto.
Qed.

End Safety.

(* ------------------------------------------------------------------------------------------ *)
(** * A ping after which no acknowledgement (of any ping) arrives closes the connection within
      `timeout` *)

Section Unanswered.
Variable c : cfg.
Hypothesis Hok : cfg_ok c.

Definition watch (s : st) (l : log) : Prop :=
  forall l1 p l2, l = l1 ++ (p, IPing) :: l2 -> has IAck l2 = false -> has ILost l2 = false ->
    (exists d, p <= d <= p + k_timeout c /\ In (d, IClose) l2) \/
    (closed s = false /\ exists d, close_timer s = Some d /\ d <= p + k_timeout c).

Lemma single_split {A} (y x : A) m l2 : [y] = m ++ x :: l2 -> m = [] /\ y = x /\ l2 = [].
Proof.
  destruct m as [|a m]; cbn; intros H.
  - inversion H; auto.
  - inversion H. destruct m; discriminate.
Qed.

Lemma watch_mstep s l s' o : base c s l -> watch s l -> mstep c s s' o -> watch s' (l ++ o).
Proof.
  intros Hb W M l1 p l2 E Hna Hnl.
  destruct Hok as [Ht [Hto _]].
  apply app_split in E. destruct E as [[m [E1 E2]]|[m [E1 E2]]].
  - (* the ping is already in l *)
    subst l2. rewrite has_app in Hna, Hnl.
    apply orb_false_elim in Hna. destruct Hna as [Hna1 Hna2].
    apply orb_false_elim in Hnl. destruct Hnl as [Hnl1 Hnl2].
    assert (Hp : p <= now s).
    { pose proof (b_le c s l Hb) as Hle. unfold times_le in Hle. rewrite Forall_forall in Hle.
      assert (Hin : In (p, IPing) l) by (subst l; apply in_or_app; right; left; reflexivity).
      specialize (Hle _ Hin). exact Hle. }
    destruct (W l1 p m E1 Hna1 Hnl1) as [[d [Hd Hin]]|[Hcl [d [Hd Hle]]]].
    { left. exists d. split; auto. apply in_or_app. left. exact Hin. }
    destruct M as [t Hnt Hfree|d' Hcl' Hpt Hnd Hq Hn|d' Hcl' Hpt Hnd Hq Hn|d' Hcl' Hct Hnd Hq| | | | | | | ];
      cbn in *; try discriminate.
    + right. split; auto. exists d. auto.
    + right. split; auto. exists d. rewrite Hd. auto.
    + right. split; auto. exists d. auto.
    + left. rewrite Hd in Hct. inversion Hct; subst d'. exists d. split; [lia|].
      apply in_or_app. right. left. reflexivity.
    + right. split; auto. exists d. auto.
    + right. split; auto. exists d. auto.
    + right. split; auto. exists d. auto.
    + right. split; auto. exists d. auto.
    + right. split; auto. exists d. auto.
  - (* the ping is logged by this very step *)
    destruct M as [t Hnt Hfree|d' Hcl' Hpt Hnd Hq Hn|d' Hcl' Hpt Hnd Hq Hn|d' Hcl' Hct Hnd Hq| | | | | | | ];
      apply single_split in E2; destruct E2 as [_ [E2 _]]; inversion E2; subst.
    right. cbn. split; auto.
    destruct (close_timer s) as [x|] eqn:Ect.
    + exists x. split; auto. pose proof (b_close c s l Hb Hcl' x Ect). lia.
    + exists (p + k_timeout c). split; auto. lia.
Qed.

Lemma run_watch t0 evs :
  base c (fst (run c t0 evs)) (snd (run c t0 evs)) /\ watch (fst (run c t0 evs)) (snd (run c t0 evs)).
Proof.
  apply (run_mind c Hok t0 watch).
  - intros l1 p l2 E. destruct l1; discriminate.
  - intros. eapply watch_mstep; eauto.
Qed.

Lemma unanswered_ping_closes t0 evs l1 p l2 :
  snd (run c t0 evs) = l1 ++ (p, IPing) :: l2 ->
  has IAck l2 = false -> has ILost l2 = false ->
  p + k_timeout c < now (fst (run c t0 evs)) ->
  exists d, p <= d <= p + k_timeout c /\ In (d, IClose) l2.
Proof.
  intros E Hna Hnl Hlate. destruct (run_watch t0 evs) as [Hb W].
  destruct (W l1 p l2 E Hna Hnl) as [H|[Hcl [d [Hd Hle]]]]; auto.
  pose proof (b_close c _ _ Hb Hcl d Hd). lia.
Qed.

End Unanswered.

(* ------------------------------------------------------------------------------------------ *)
(** * Detection: a peer silent from instant sigma on is detected by sigma + time + timeout when the
      ping timer's firing in [sigma, sigma + time] is not suppressed *)

Section Detection.
Variable c : cfg.
Hypothesis Hok : cfg_ok c.
Variable sigma : Z.

(* no acknowledgement at or after sigma, no external close, and no suppressed ping (ISkip) at an
   instant of [sigma, sigma + time] *)
Definition quiet (l : log) : Prop :=
  (forall a, In (a, IAck) l -> a < sigma) /\
  (has ILost l = false) /\
  (forall q, In (q, ISkip) l -> q < sigma \/ sigma + k_time c < q).

Lemma quiet_prefix l o : quiet (l ++ o) -> quiet l.
Proof.
  intros [H1 [H2 H3]]. rewrite has_app in H2. apply orb_false_elim in H2. destruct H2 as [H2 _].
  repeat split; auto; intros; [apply H1|apply H3]; apply in_or_app; auto.
Qed.

Definition bound : Z := sigma + k_time c + k_timeout c.

Definition det (s : st) (l : log) : Prop :=
  quiet l ->
  (closed s = true /\ exists d, d <= bound /\ In (d, IClose) l) \/
  (closed s = false /\ exists dp, ping_timer s = Some dp /\
     (dp <= sigma + k_time c \/
      (sigma <= now s /\ exists dc, close_timer s = Some dc /\ dc <= bound))).

Lemma det_mstep s l s' o : base c s l -> det s l -> mstep c s s' o -> det s' (l ++ o).
Proof.
  intros Hb D M Q. unfold det, bound in *.
  destruct Hok as [Ht [Hto _]].
  specialize (D (quiet_prefix _ _ Q)).
  destruct D as [[Hcl [d [Hd Hin]]]|[Hcl [dp [Hdp Hcase]]]].
  { (* already closed: nothing changes that *)
    assert (Hin' : In (d, IClose) (l ++ o)) by (apply in_or_app; auto).
    destruct M as [t Hnt Hfree|d' Hcl' Hpt Hnd Hq Hn|d' Hcl' Hpt Hnd Hq Hn|d' Hcl' Hct Hnd Hq| | | | | | | ];
      try congruence; left; cbn; split; eauto. }
  destruct Q as [Qa [Ql Qs]].
  destruct M as [t Hnt Hfree|d' Hcl' Hpt Hnd Hq Hn|d' Hcl' Hpt Hnd Hq Hn|d' Hcl' Hct Hnd Hq| | | | | | | ];
    cbn in *.
  - (* idle *)
    right. split; auto. exists dp. split; auto.
    destruct Hcase as [H|[H1 H2]]; [left; exact H|right; split; [lia|exact H2]].
  - (* ping at d' = dp *)
    rewrite Hdp in Hpt. inversion Hpt; subst d'.
    right. split; auto. exists (dp + k_time c). split; auto.
    destruct Hcase as [H|[H1 [dc [H2 H3]]]].
    + destruct (Z_lt_le_dec dp sigma) as [Hlt|Hge].
      * left. lia.
      * right. split; auto.
        destruct (close_timer s) as [x|] eqn:Ect.
        -- exists x. split; auto. pose proof (b_close c s l Hb Hcl x Ect). lia.
        -- exists (dp + k_timeout c). split; auto. lia.
    + right. split; [lia|]. rewrite H2. exists dc. auto.
  - (* skip at d' = dp *)
    rewrite Hdp in Hpt. inversion Hpt; subst d'.
    right. split; auto. exists (dp + k_time c). split; auto.
    assert (Hsk : dp < sigma \/ sigma + k_time c < dp).
    { apply Qs. apply in_or_app. right. left. reflexivity. }
    destruct Hcase as [H|[H1 [dc [H2 H3]]]].
    + left. lia.
    + right. split; [lia|]. exists dc. auto.
  - (* close at d' *)
    left. split; auto. exists d'. split; [|apply in_or_app; right; left; reflexivity].
    destruct Hcase as [H|[H1 [dc [H2 H3]]]].
    + specialize (Hq dp Hdp). lia.
    + rewrite H2 in Hct. inversion Hct; subst. lia.
  - (* ack: only possible before sigma *)
    assert (Ha : now s < sigma) by (apply Qa; apply in_or_app; right; left; reflexivity).
    right. split; auto. exists dp. split; auto.
    destruct Hcase as [H|[H1 _]]; [left; exact H|lia].
  - right. split; auto. exists dp. split; auto.
  - right. split; auto. exists dp. split; auto.
  - right. split; auto. exists dp. split; auto.
  - right. split; auto. exists dp. split; auto.
  - (* lost: excluded *)
    rewrite has_app in Ql. cbn in Ql. rewrite orb_true_r in Ql. discriminate.
  - (* acked *)
    right. split; auto. exists dp. split; auto.
Qed.

Lemma silent_peer_detected t0 evs :
  k_enabled c = true -> t0 <= sigma ->
  quiet (snd (run c t0 evs)) ->
  bound < now (fst (run c t0 evs)) ->
  exists d, d <= bound /\ In (d, IClose) (snd (run c t0 evs)).
Proof.
  intros Hen Ht0 Q Hlate.
  destruct (run_mind c Hok t0 det) with (evs := evs) as [Hb D].
  - intros _. right. cbn. split; auto. rewrite Hen. exists (t0 + k_time c). split; auto. left. lia.
  - intros. eapply det_mstep; eauto.
  - destruct Hok as [Ht [Hto _]]. unfold det, bound in *.
    destruct (D Q) as [[_ H]|[Hcl [dp [Hdp Hcase]]]]; auto.
    exfalso. destruct Hcase as [H|[H1 [dc [H2 H3]]]].
    + pose proof (b_ping c _ _ Hb Hcl dp Hdp). lia.
    + pose proof (b_close c _ _ Hb Hcl dc H2). lia.
Qed.

End Detection.

(* ------------------------------------------------------------------------------------------ *)
(** * Rate: spacing of pings and the budget of pings without data *)

(* every PING is at least g after the previous one (`last` = instant of the previous PING) *)
Fixpoint spacedb (g : Z) (last : option Z) (l : log) : bool :=
  match l with
  | [] => true
  | (t, IPing) :: r =>
      (match last with Some p => p + g <=? t | None => true end) && spacedb g (Some t) r
  | _ :: r => spacedb g last r
  end.

(* never more than m PINGs in a row without a data/headers item (`acc` = PINGs so far) *)
Fixpoint budgetb (m acc : Z) (l : log) : bool :=
  match l with
  | [] => true
  | (_, IPing) :: r => (acc + 1 <=? m) && budgetb m (acc + 1) r
  | (_, IData) :: r | (_, IHeaders) :: r => budgetb m 0 r
  | _ :: r => budgetb m acc r
  end.

Lemma spacedb_app g l o last :
  spacedb g last (l ++ o) = spacedb g last l && spacedb g (lastping last l) o.
Proof.
  revert last. induction l as [|[t i] l IH]; intros last; cbn; auto.
  destruct i; try apply IH. rewrite IH, andb_assoc. reflexivity.
Qed.

Lemma budgetb_app m l o acc :
  budgetb m acc (l ++ o) = budgetb m acc l && budgetb m (tailcount acc l) o.
Proof.
  revert acc. induction l as [|[t i] l IH]; intros acc; cbn; auto.
  destruct i; try apply IH. rewrite IH, andb_assoc. reflexivity.
Qed.

Lemma spacedb_in g : 0 <= g -> forall l last p t,
  spacedb g last l = true -> last = Some p -> In (t, IPing) l -> p + g <= t.
Proof.
  intros Hg. induction l as [|[t' i] l IH]; intros last p t H E Hin; [contradiction|].
  destruct Hin as [Hin|Hin].
  - inversion Hin; subst. cbn in H. apply andb_prop in H. destruct H as [H _]. lia.
  - destruct i; cbn in H; try (eapply IH; eauto; fail).
    apply andb_prop in H. destruct H as [H1 H2]. subst last.
    specialize (IH (Some t') t' t H2 eq_refl Hin). lia.
Qed.

Lemma spacedb_pairs g l : 0 <= g -> spacedb g None l = true ->
  forall l1 p1 l2 p2, l = l1 ++ (p1, IPing) :: l2 -> In (p2, IPing) l2 -> p1 + g <= p2.
Proof.
  intros Hg H l1 p1 l2 p2 E Hin. subst l. rewrite spacedb_app in H.
  apply andb_prop in H. destruct H as [_ H]. cbn in H.
  apply andb_prop in H. destruct H as [_ H].
  eapply spacedb_in; eauto.
Qed.

Lemma count_item_cons i x l :
  count_item i (x :: l) = (if item_eqb (snd x) i then 1 else 0) + count_item i l.
Proof.
  unfold count_item. cbn. destruct (item_eqb (snd x) i); cbn [length]; lia.
Qed.

Lemma count_item_nonneg i l : 0 <= count_item i l.
Proof. unfold count_item. lia. Qed.

Lemma budgetb_segment m : forall seg acc,
  budgetb m acc seg = true -> forallb (fun x => negb (is_data x)) seg = true ->
  0 < count_item IPing seg -> acc + count_item IPing seg <= m.
Proof.
  induction seg as [|[t i] seg IH]; intros acc H Hnd Hpos.
  - unfold count_item in Hpos. cbn in Hpos. lia.
  - cbn in Hnd. apply andb_prop in Hnd. destruct Hnd as [Hd Hnd].
    rewrite count_item_cons in *. cbn [snd] in *.
    destruct i; cbn [budgetb] in H; cbn [item_eqb is_data snd negb] in *; try discriminate;
      try (rewrite Z.add_0_l in *; apply IH; auto; fail).
    apply andb_prop in H. destruct H as [H1 H2].
    pose proof (count_item_nonneg IPing seg).
    destruct (Z.eq_dec (count_item IPing seg) 0) as [E|E].
    + rewrite E. lia.
    + specialize (IH (acc + 1) H2 Hnd). lia.
Qed.

Lemma tailcount_nonneg l : forall acc, 0 <= acc -> 0 <= tailcount acc l.
Proof.
  induction l as [|[t i] l IH]; intros acc H; cbn; auto.
  destruct i; apply IH; lia.
Qed.

Lemma budgetb_mono m l : forall a b, a <= b -> budgetb m b l = true -> budgetb m a l = true.
Proof.
  induction l as [|[t i] l IH]; intros a b Hab H; cbn in *; auto.
  destruct i; try (eapply IH; eauto; fail); auto.
  apply andb_prop in H. destruct H as [H1 H2]. apply andb_true_intro. split; [lia|].
  apply (IH (a + 1) (b + 1)); auto; lia.
Qed.

Lemma budgetb_segments m l : 0 <= m -> budgetb m 0 l = true ->
  forall l1 seg l2, l = l1 ++ seg ++ l2 ->
    forallb (fun x => negb (is_data x)) seg = true -> count_item IPing seg <= m.
Proof.
  intros Hm H l1 seg l2 E Hnd. subst l.
  rewrite budgetb_app in H. apply andb_prop in H. destruct H as [_ H].
  rewrite budgetb_app in H. apply andb_prop in H. destruct H as [H _].
  pose proof (count_item_nonneg IPing seg).
  destruct (Z.eq_dec (count_item IPing seg) 0) as [E|E]; [lia|].
  pose proof (tailcount_nonneg l1 0 (Z.le_refl 0)).
  assert (H' : budgetb m 0 seg = true) by (eapply budgetb_mono; [|exact H]; lia).
  pose proof (budgetb_segment m seg 0 H' Hnd). lia.
Qed.

Section Rate.
Variable c : cfg.
Hypothesis Hok : cfg_ok c.

Record rate (s : st) (l : log) : Prop := {
  r_last : last_ping s = lastping None l;
  r_count : pcount s = tailcount 0 l;
  r_timer : closed s = false -> forall dp lp, ping_timer s = Some dp -> last_ping s = Some lp ->
            lp + k_time c <= dp;
  r_sp_time : spacedb (k_time c) None l = true;
  r_sp_min : spacedb (k_minint c) None l = true;
  r_budget : k_maxp c <> 0 -> budgetb (k_maxp c) 0 l = true
}.

Lemma need_ping_facts s :
  need_ping c s = true ->
  (k_maxp c <> 0 -> pcount s + 1 <= k_maxp c) /\
  (forall lp, last_ping s = Some lp -> lp + k_minint c <= now s).
Proof.
  unfold need_ping. intros H.
  destruct (negb (k_permit c) && negb (0 <? opens s)); [discriminate|].
  destruct (negb (k_maxp c =? 0) && (k_maxp c <=? pcount s)) eqn:E2; [discriminate|].
  split.
  - intros Hne. apply andb_false_elim in E2. destruct E2 as [E2|E2]; lia.
  - intros lp Hlp. rewrite Hlp in H. destruct (now s - lp <? k_minint c) eqn:E3; [discriminate|lia].
Qed.

Lemma rate_mstep s l s' o : base c s l -> rate s l -> mstep c s s' o -> rate s' (l ++ o).
Proof.
  intros Hb [R1 R2 R3 R4 R5 R6] M.
  destruct Hok as [Ht [Hto [Hmx Hmi]]].
  destruct M as [t Hnt Hfree|d Hcl Hpt Hnd Hq Hn|d Hcl Hpt Hnd Hq Hn|d Hcl Hct Hnd Hq| | | | | | | ];
    (split; cbn [last_ping pcount closed ping_timer set_now];
     [rewrite lastping_app, <- R1; try reflexivity
     |rewrite tailcount_app, <- R2; try reflexivity
     |
     |rewrite spacedb_app, R4, <- R1; try reflexivity
     |rewrite spacedb_app, R5, <- R1; try reflexivity
     |intros Hne; rewrite budgetb_app, (R6 Hne), <- R2; try reflexivity]);
    try (intros; congruence); try (exact R3).
  - (* ping: timer *)
    intros _ dp lp Hd Hl. inversion Hd; inversion Hl; lia.
  - (* ping: spacing by time *)
    cbn. destruct (last_ping s) as [lp|] eqn:El; auto.
    specialize (R3 Hcl d lp Hpt eq_refl). rewrite andb_true_r. lia.
  - (* ping: spacing by min interval *)
    cbn. destruct (last_ping s) as [lp|] eqn:El; auto.
    destruct (need_ping_facts _ Hn) as [_ F]. cbn in F. specialize (F lp El).
    rewrite andb_true_r. lia.
  - (* ping: budget *)
    cbn. destruct (need_ping_facts _ Hn) as [F _]. cbn in F. specialize (F Hne).
    rewrite andb_true_r. lia.
  - (* skip: timer *)
    intros _ dp lp Hd Hl. inversion Hd; subst dp.
    specialize (R3 Hcl d lp Hpt Hl). lia.
Qed.

Lemma run_rate t0 evs :
  base c (fst (run c t0 evs)) (snd (run c t0 evs)) /\ rate (fst (run c t0 evs)) (snd (run c t0 evs)).
Proof.
  apply (run_mind c Hok t0 rate).
  - split; cbn; auto. intros; congruence.
  - intros. eapply rate_mstep; eauto.
Qed.

(* any two PINGs are at least keepalive_time and at least min_interval apart *)
Lemma pings_spaced t0 evs l1 p1 l2 p2 :
  snd (run c t0 evs) = l1 ++ (p1, IPing) :: l2 -> In (p2, IPing) l2 ->
  p1 + k_time c <= p2 /\ p1 + k_minint c <= p2.
Proof.
  intros E Hin. destruct (run_rate t0 evs) as [_ R].
  destruct Hok as [Ht [Hto [Hmx Hmi]]]. split.
  - eapply (spacedb_pairs (k_time c)); eauto; [lia|apply R].
  - eapply (spacedb_pairs (k_minint c)); eauto; [lia|apply R].
Qed.

(* with a budget (max_pings_without_data <> 0): any stretch of the log without data/headers
   sent holds at most that many PINGs *)
Lemma pings_budget t0 evs l1 seg l2 :
  k_maxp c <> 0 ->
  snd (run c t0 evs) = l1 ++ seg ++ l2 ->
  forallb (fun x => negb (is_data x)) seg = true ->
  count_item IPing seg <= k_maxp c.
Proof.
  intros Hne E Hnd. destruct (run_rate t0 evs) as [_ R].
  destruct Hok as [Ht [Hto [Hmx Hmi]]].
  eapply budgetb_segments; eauto. apply R; auto.
Qed.

(* no limits configured: the ping timer never skips *)
Lemma unlimited_never_skips t0 evs q :
  k_permit c = true -> k_maxp c = 0 -> k_minint c <= k_time c ->
  ~ In (q, ISkip) (snd (run c t0 evs)).
Proof.
  intros Hp Hm Hi.
  destruct (run_mind c Hok t0 (fun s l => rate s l /\ ~ In (q, ISkip) l)) with (evs := evs)
    as [_ [_ H]]; auto.
  - split; [|intros []]. split; cbn; auto. intros; congruence.
  - intros s l s' o Hb [R Hno] M. split; [eapply rate_mstep; eauto|].
    intros Hin. apply in_app_or in Hin. destruct Hin as [Hin|Hin]; [auto|].
    destruct M as [t Hnt Hfree|d Hcl Hpt Hnd Hq Hn|d Hcl Hpt Hnd Hq Hn|d Hcl Hct Hnd Hq| | | | | | | ];
      destruct Hin as [Hin|[]]; try discriminate.
    clear Hin. unfold need_ping in Hn. rewrite Hp, Hm in Hn. cbn in Hn.
    destruct (last_ping s) as [lp|] eqn:El; [|discriminate].
    pose proof (r_timer s l R Hcl d lp Hpt El).
    destruct (d - lp <? k_minint c) eqn:E; [lia|discriminate].
Qed.

End Rate.

(* ------------------------------------------------------------------------------------------ *)
(** * Detection without configured limits, periodic firing, keepalive disabled *)

Section More.
Variable c : cfg.
Hypothesis Hok : cfg_ok c.

Lemma silent_peer_detected_unlimited sigma t0 evs :
  k_enabled c = true -> k_permit c = true -> k_maxp c = 0 -> k_minint c <= k_time c ->
  t0 <= sigma ->
  (forall a, In (a, IAck) (snd (run c t0 evs)) -> a < sigma) ->
  has ILost (snd (run c t0 evs)) = false ->
  sigma + k_time c + k_timeout c < now (fst (run c t0 evs)) ->
  exists d, d <= sigma + k_time c + k_timeout c /\ In (d, IClose) (snd (run c t0 evs)).
Proof.
  intros Hen Hp Hm Hi Ht0 Ha Hl Hlate.
  apply (silent_peer_detected c Hok sigma t0 evs Hen Ht0); auto.
  repeat split; auto.
  intros q Hq. exfalso. eapply unlimited_never_skips; eauto.
Qed.

(* while the connection is open the ping timer fires at t0 + j * time for every j >= 1, and each
   firing is logged as IPing (sent) or ISkip (_is_need_send_ping said no) *)
Definition periodic (t0 : Z) (s : st) (l : log) : Prop :=
  closed s = false -> k_enabled c = true ->
  exists k, 1 <= k /\ ping_timer s = Some (t0 + k * k_time c) /\
    forall j, 1 <= j < k ->
      In (t0 + j * k_time c, IPing) l \/ In (t0 + j * k_time c, ISkip) l.

Lemma periodic_mstep t0 s l s' o :
  base c s l -> periodic t0 s l -> mstep c s s' o -> periodic t0 s' (l ++ o).
Proof.
  intros Hb P M.
  assert (Hkeep : closed s = false -> k_enabled c = true ->
    exists k, 1 <= k /\ ping_timer s = Some (t0 + k * k_time c) /\
      forall j, 1 <= j < k ->
        In (t0 + j * k_time c, IPing) (l ++ o) \/ In (t0 + j * k_time c, ISkip) (l ++ o)).
  { intros H1 H2. destruct (P H1 H2) as [k [Hk [Hp Hall]]]. exists k. repeat split; auto.
    intros j Hj. destruct (Hall j Hj); [left|right]; apply in_or_app; auto. }
  destruct M as [t Hnt Hfree|d Hcl Hpt Hnd Hq Hn|d Hcl Hpt Hnd Hq Hn|d Hcl Hct Hnd Hq| | | | | | | ];
    intros Hc He; cbn in Hc |- *; try discriminate; auto.
  - destruct (P Hcl He) as [k [Hk [Hp Hall]]]. rewrite Hp in Hpt. inversion Hpt; subst d.
    exists (k + 1). repeat split; [lia|f_equal; lia|].
    intros j Hj. destruct (Z.eq_dec j k) as [->|Hne].
    + left. apply in_or_app. right. left. reflexivity.
    + destruct (Hall j ltac:(lia)); [left|right]; apply in_or_app; auto.
  - destruct (P Hcl He) as [k [Hk [Hp Hall]]]. rewrite Hp in Hpt. inversion Hpt; subst d.
    exists (k + 1). repeat split; [lia|f_equal; lia|].
    intros j Hj. destruct (Z.eq_dec j k) as [->|Hne].
    + right. apply in_or_app. right. left. reflexivity.
    + destruct (Hall j ltac:(lia)); [left|right]; apply in_or_app; auto.
Qed.

Lemma ping_timer_periodic t0 evs j :
  k_enabled c = true -> closed (fst (run c t0 evs)) = false ->
  1 <= j -> t0 + j * k_time c < now (fst (run c t0 evs)) ->
  In (t0 + j * k_time c, IPing) (snd (run c t0 evs)) \/
  In (t0 + j * k_time c, ISkip) (snd (run c t0 evs)).
Proof.
  intros He Hc Hj Hlate.
  destruct (run_mind c Hok t0 (periodic t0)) with (evs := evs) as [Hb P].
  - intros _ Hen. exists 1. unfold init. cbn [ping_timer]. rewrite Hen.
    repeat split; [lia|f_equal; lia|intros; lia].
  - intros. eapply periodic_mstep; eauto.
  - destruct (P Hc He) as [k [Hk [Hp Hall]]]. apply Hall. split; auto.
    pose proof (b_ping c _ _ Hb Hc _ Hp) as Hb1. destruct Hok as [Ht _]. nia.
Qed.

End More.

(* keepalive_time = None (the client default): nothing is ever sent or closed by keepalive *)
Lemma disabled_inert c t0 evs :
  k_enabled c = false ->
  has IPing (snd (run c t0 evs)) = false /\ has ISkip (snd (run c t0 evs)) = false /\
  has IClose (snd (run c t0 evs)) = false.
Proof.
  intros Hd.
  apply (run_ind c t0 (fun s l => (ping_timer s = None /\ close_timer s = None) /\
     (has IPing l = false /\ has ISkip l = false /\ has IClose l = false))).
  - cbn. rewrite Hd. auto.
  - intros s l e [[Hp Hc] [H1 [H2 H3]]]. rewrite !has_app, H1, H2, H3.
    destruct e; cbn; auto.
    unfold tick. rewrite Hp, Hc. cbn. destruct (closed s); cbn; auto.
Qed.

(* ------------------------------------------------------------------------------------------ *)
(** * The refutation: an acknowledgement of an OLDER ping clears the close timer that is the only
      watchdog of a NEWER ping; with the ping budget used up nothing is ever sent again *)

Definition is_tick (e : ev) : Prop := match e with Tick _ _ _ => True | _ => False end.

Definition stuck (c : cfg) (s : st) : Prop :=
  closed s = false /\ close_timer s = None /\ k_maxp c <> 0 /\ k_maxp c <= pcount s.

Lemma stuck_tick c s t incl cf :
  stuck c s ->
  stuck c (fst (tick c s t incl cf)) /\
  ping_times (snd (tick c s t incl cf)) = [] /\ has IClose (snd (tick c s t incl cf)) = false.
Proof.
  intros [Hc [Hct [Hm Hp]]]. unfold tick. rewrite Hc, Hct.
  destruct (ping_timer s) as [p|] eqn:Ept; cbn [earliest].
  - destruct (is_due incl p t).
    + cbn [opt_is]. rewrite andb_false_r.
      unfold fire_ping, need_ping. cbn [set_now opens pcount].
      assert (E : negb (k_maxp c =? 0) && (k_maxp c <=? pcount s) = true) by lia.
      rewrite E. destruct (negb (k_permit c) && negb (0 <? opens s)); cbn; repeat split; auto.
    + cbn. repeat split; auto.
  - cbn. repeat split; auto.
Qed.

Lemma stuck_forever c : forall evs a,
  Forall is_tick evs -> stuck c (fst a) ->
  closed (fst (run_from c a evs)) = false /\
  ping_times (snd (run_from c a evs)) = ping_times (snd a) /\
  has IClose (snd (run_from c a evs)) = has IClose (snd a).
Proof.
  induction evs as [|e evs IH]; intros a Hall Hs.
  - cbn. destruct Hs as [Hc _]. auto.
  - inversion Hall; subst. destruct e; try contradiction.
    destruct (stuck_tick c (fst a) t incl close_first Hs) as [Hs' [Hp Hcl]].
    destruct (tick c (fst a) t incl close_first) as [s1 o] eqn:E. cbn [fst snd] in *.
    assert (Est : stepl c a (Tick t incl close_first) = (s1, snd a ++ o))
      by (unfold stepl; cbn [step]; rewrite E; reflexivity).
    unfold run_from. cbn [fold_left]. rewrite Est.
    specialize (IH (s1, snd a ++ o) H2 Hs'). unfold run_from in IH. cbn [fst snd] in IH.
    destruct IH as [I1 [I2 I3]]. repeat split; auto.
    + rewrite I2, ping_times_app, Hp, app_nil_r. reflexivity.
    + rewrite I3, has_app, Hcl, orb_false_r. reflexivity.
Qed.

(* the full-strength claim of the property text: "if a ping stays unanswered for keepalive_timeout
   the connection is closed".  Acknowledgements answer pings in order (reliable ordered transport,
   h2 acks every PING), so with at most k acks in the whole run the (k+1)-th ping is unanswered. *)
Definition unanswered_ping_closes_full : Prop :=
  forall c t0 evs k p, cfg_ok c ->
    nth_error (ping_times (snd (run c t0 evs))) k = Some p ->
    count_item IAck (snd (run c t0 evs)) <= Z.of_nat k ->
    has ILost (snd (run c t0 evs)) = false ->
    p + k_timeout c < now (fst (run c t0 evs)) ->
    exists d, d <= p + k_timeout c /\ In (d, IClose) (snd (run c t0 evs)).

Definition sec (n : Z) : Z := n * ticks_per_second.

(* keepalive_time 10 s, keepalive_timeout 20 s, pings permitted without calls, the DEFAULT budget of
   2 pings without data, minimum interval 1 s *)
Definition wit_cfg : cfg := mkCfg true (sec 10) (sec 20) true 2 (sec 1).
(* ping at 10 s, ping at 20 s, the ack of the FIRST ping arrives at 25 s (15 s after it was sent,
   within the 20 s timeout), then the peer is dead; the clock runs on to 45 s *)
Definition wit_evs : list ev :=
  [Tick (sec 10) true false; Tick (sec 20) true false; Tick (sec 25) true false; Ack;
   Tick (sec 30) true false; Tick (sec 40) true false; Tick (sec 45) true false].

Lemma wit_facts :
  cfg_ok wit_cfg /\
  ping_times (snd (run wit_cfg 0 wit_evs)) = [sec 10; sec 20] /\
  count_item IAck (snd (run wit_cfg 0 wit_evs)) = 1 /\
  has ILost (snd (run wit_cfg 0 wit_evs)) = false /\
  has IClose (snd (run wit_cfg 0 wit_evs)) = false /\
  now (fst (run wit_cfg 0 wit_evs)) = sec 45 /\
  stuck wit_cfg (fst (run wit_cfg 0 wit_evs)).
Proof.
  repeat split; try (vm_compute; reflexivity); try (vm_compute; congruence).
Qed.

Lemma unanswered_ping_closes_refuted : ~ unanswered_ping_closes_full.
Proof.
  intros H.
  destruct wit_facts as [Hok [Hp [Ha [Hl [Hc [Hn _]]]]]].
  destruct (H wit_cfg 0 wit_evs 1%nat (sec 20) Hok) as [d [_ Hin]].
  - rewrite Hp. reflexivity.
  - rewrite Ha. cbn. lia.
  - exact Hl.
  - rewrite Hn. vm_compute. reflexivity.
  - apply in_has in Hin. congruence.
Qed.

(* ... and it is never detected afterwards, however long the clock runs, as long as the
   application sends nothing: no further ping, no close *)
Lemma dead_peer_never_detected :
  exists c t0 evs p,
    cfg_ok c /\ k_enabled c = true /\ k_permit c = true /\
    nth_error (ping_times (snd (run c t0 evs))) 1 = Some p /\
    count_item IAck (snd (run c t0 evs)) = 1 /\
    forall more, Forall is_tick more ->
      closed (fst (run c t0 (evs ++ more))) = false /\
      has IClose (snd (run c t0 (evs ++ more))) = false /\
      ping_times (snd (run c t0 (evs ++ more))) = ping_times (snd (run c t0 evs)).
Proof.
  exists wit_cfg, 0, wit_evs, (sec 20).
  destruct wit_facts as [Hok [Hp [Ha [Hl [Hc [Hn Hs]]]]]].
  split; [exact Hok|]. split; [reflexivity|]. split; [reflexivity|].
  split; [rewrite Hp; reflexivity|]. split; [exact Ha|].
  intros more Hm. unfold run in *. rewrite run_from_app.
  destruct (stuck_forever wit_cfg more _ Hm Hs) as [H1 [H2 H3]].
  split; [exact H1|]. split; [rewrite H3; exact Hc|exact H2].
Qed.

(* ------------------------------------------------------------------------------------------ *)
(** * Tie to the source text (Gen/FactsC17.v is regenerated from /repo on every run) *)

From Coq Require Import String.
From GV Require Import Lib.Str Gen.FactsC17.

(* the model's need_ping IS the source's _is_need_send_ping, for every configuration and state *)
Lemma need_ping_is_source c s : need_ping_src c s = Some (need_ping c s).
Proof.
  (* whatever equivalent shape the condition tree has: split on every test that is left after
     evaluation; each leaf is an arithmetic fact about the same atoms *)
  unfold need_ping_src, need_ping, need_send_ping_src. cbn.
  destruct (k_permit c), (last_ping s) as [lp|]; cbn;
    repeat match goal with
           | |- context [if ?b then _ else _] =>
               lazymatch b with
               | context [if _ then _ else _] => fail
               | _ => destruct b eqn:?
               end
           | |- context [match (if ?b then _ else _) with _ => _ end] => destruct b eqn:?
           end; cbn; try reflexivity; try (f_equal; lia); try lia.
Qed.

Definition r_ping_timer : list Z := s2z "PING_TIMER".
Definition r_close_timer : list Z := s2z "CLOSE_TIMER".
Definition r_ping_callback : list Z := s2z "PING_CALLBACK".

(* the keepalive effects the model was transcribed from.  The translator normalises first (private
   helpers inlined, tuple loops unrolled, once-bound locals substituted, logging / asserts / payload
   formatting / statistics dropped, attributes named by role, runs of independent simple effects
   sorted), so this is a statement about what the methods DO, not how they are spelled *)
Definition expected_initialize : list kstmt :=
  [SIf (KIsNotNone (ECfg n_time)) [SArm r_ping_timer n_time r_ping_callback]].
Definition expected_ping : list kstmt :=
  [SIf KNeedPing
     [SSendPing; SFlush; SSet n_last_ping ENow; SInc n_count;
      SIf (KNot (KIsNotNone (EAttr r_close_timer))) [SArm r_close_timer n_timeout (s2z "close")]];
   SArm r_ping_timer n_time r_ping_callback].
Definition expected_close : list kstmt :=
  [SIf KOpaque [SCloseTransport];
   SIf (KIsNotNone (EAttr r_ping_timer)) [SCancel r_ping_timer];
   SIf (KIsNotNone (EAttr r_close_timer)) [SCancel r_close_timer]].
Definition expected_ping_ack_process : list kstmt :=
  [SIf (KIsNotNone (EAttr r_close_timer)) [SSet r_close_timer ENone; SCancel r_close_timer]].

Lemma source_shape :
  src_initialize = expected_initialize /\
  src_ping = expected_ping /\
  src_close = expected_close /\
  src_ping_ack_process = expected_ping_ack_process /\
  src_headers_send_process = [SSet n_count (EConst 0)] /\
  src_data_send_process = [SSet (s2z "last_data_sent") ENow; SSet n_count (EConst 0)] /\
  src_ping_ack_handler = [SCall (s2z "ping_ack_process")] /\
  facts_ticks_per_second = ticks_per_second.
Proof. vm_compute. repeat split; reflexivity. Qed.

Lemma role_defaults :
  default_cfg RServer = Some (mkCfg true (sec 7200) (sec 20) false 2 (sec 300)) /\
  default_cfg RClient = Some (mkCfg false 0 (sec 20) false 2 (sec 300)) /\
  default_cfg RTest = Some (mkCfg false 0 (sec 20) false 2 (sec 300)).
Proof. vm_compute. repeat split; reflexivity. Qed.

(* what Configuration.__post_init__ accepts for the keepalive fields *)
Lemma validators :
  (forall fl z, field_accepts n_time (PNum fl z) = (0 <? z)) /\
  field_accepts n_time PNone = true /\
  (forall fl z, field_accepts n_timeout (PNum fl z) = (0 <? z)) /\
  field_accepts n_timeout PNone = false /\
  (forall z, field_accepts n_maxp (PNum false z) = (0 <=? z)) /\
  (forall z, field_accepts n_maxp (PNum true z) = false) /\
  (forall fl z, field_accepts n_minint (PNum fl z) = (0 <? z)) /\
  (forall b, field_accepts n_permit (PBool b) = true) /\
  (forall fl z, field_accepts n_permit (PNum fl z) = false).
Proof.
  repeat split; intros; try (vm_compute; reflexivity);
    unfold field_accepts; cbn; try destruct fl; cbn;
    unfold rejects; cbn; try lia; try reflexivity.
Qed.

Lemma cfg_okb_ok c : cfg_okb c = true <-> cfg_ok c.
Proof. unfold cfg_okb, cfg_ok. lia. Qed.

(* the numeric configurations the theorems quantify over are exactly the accepted ones *)
Lemma validators_accept_iff_cfg_ok c fl1 fl2 fl3 :
  field_accepts n_time (PNum fl1 (k_time c)) && field_accepts n_timeout (PNum fl2 (k_timeout c)) &&
  field_accepts n_maxp (PNum false (k_maxp c)) && field_accepts n_minint (PNum fl3 (k_minint c))
  = cfg_okb c.
Proof.
  destruct validators as [H1 [_ [H2 [_ [H3 [_ [H4 _]]]]]]].
  rewrite H1, H2, H3, H4. reflexivity.
Qed.

(* FINDING (robustness): None passes validation for the two limits although
   _is_need_send_ping compares them with numbers *)
Lemma validators_accept_none_limits :
  field_accepts n_maxp PNone = true /\ field_accepts n_minint PNone = true /\
  field_accepts n_permit PNone = true.
Proof. vm_compute. repeat split; reflexivity. Qed.

(* ------------------------------------------------------------------------------------------ *)
(** * Boolean checkers for the hypotheses (used by the examples) *)

Fixpoint acked_in_timeb (timeout : Z) (l : log) (end_time : Z) : bool :=
  match l with
  | [] => true
  | (p, IPing) :: r =>
      (existsb (fun x => item_eqb (snd x) IAck && (fst x <? p + timeout)) r
       || (end_time <? p + timeout)) && acked_in_timeb timeout r end_time
  | _ :: r => acked_in_timeb timeout r end_time
  end.

Lemma acked_in_timeb_sound timeout l end_time :
  acked_in_timeb timeout l end_time = true -> acked_in_time timeout l end_time.
Proof.
  intros H l1. revert l H. induction l1 as [|x l1 IH]; intros l H p l2 E; subst l.
  - cbn in H. apply andb_prop in H. destruct H as [H _].
    apply orb_prop in H. destruct H as [H|H]; [left|right; lia].
    apply existsb_exists in H. destruct H as [[a i] [Hin Hc]]. cbn in Hc.
    apply andb_prop in Hc. destruct Hc as [Hi Ha]. apply item_eqb_eq in Hi. subst i.
    exists a. split; auto. lia.
  - apply (IH (l1 ++ (p, IPing) :: l2)); auto.
    destruct x as [t i]. cbn in H. destruct i; auto.
    apply andb_prop in H. destruct H as [_ H]. exact H.
Qed.

Definition quietb (c : cfg) (sigma : Z) (l : log) : bool :=
  forallb (fun x => match snd x with
                    | IAck => fst x <? sigma
                    | ILost => false
                    | ISkip => (fst x <? sigma) || (sigma + k_time c <? fst x)
                    | _ => true
                    end) l.

Lemma quietb_sound c sigma l : quietb c sigma l = true -> quiet c sigma l.
Proof.
  unfold quietb, quiet. rewrite forallb_forall. intros H. repeat split.
  - intros a Hin. specialize (H _ Hin). cbn in H. lia.
  - destruct (has ILost l) eqn:E; auto. apply has_true_in in E. destruct E as [t Hin].
    specialize (H _ Hin). cbn in H. discriminate.
  - intros q Hin. specialize (H _ Hin). cbn in H. lia.
Qed.

(* ------------------------------------------------------------------------------------------ *)
(** * Inbound traffic never touches the keepalive state *)

(* Connection.ack (inbound DATA consumed, WINDOW_UPDATE sent) changes nothing ... *)
Lemma acked_is_inert c s : step c s Acked = (s, [(now s, IRecv)]).
Proof. reflexivity. Qed.

(* ... and its log item does not count as data sent: any stretch of the log made of anything but
   data/headers SENT -- acknowledgements of inbound data included, however many -- holds at most
   max_pings_without_data PINGs *)
Lemma recv_is_not_data t : is_data (t, IRecv) = false.
Proof. reflexivity. Qed.

(* every statement of grpclib that writes one of the keepalive variables: the counter is written by
   _ping (+1), headers_send_process (0) and data_send_process (0) and by nothing else *)
Lemma writers_exact :
  keepalive_writers =
  [ (s2z "ping_count_in_sequence",
     [(s2z "protocol:Connection.PING_CALLBACK", s2z "inc");
      (s2z "protocol:Connection.data_send_process", s2z "zero");
      (s2z "protocol:Connection.headers_send_process", s2z "zero")]);
    (s2z "last_ping_sent", [(s2z "protocol:Connection.PING_CALLBACK", s2z "now")]);
    (s2z "PING_TIMER",
     [(s2z "protocol:Connection.PING_CALLBACK", s2z "arm"); (s2z "protocol:Connection.initialize", s2z "arm")]);
    (s2z "CLOSE_TIMER",
     [(s2z "protocol:Connection.PING_CALLBACK", s2z "arm");
      (s2z "protocol:Connection.ping_ack_process", s2z "none")]) ].
Proof. vm_compute. reflexivity. Qed.

(* every DATA / HEADERS frame handed to h2 is followed by the counter reset -- per frame (chunk), not
   per message: in each of the three Stream methods every h2 call is directly followed by the hook *)
Definition site_ok (x : list Z * list Z * Z * Z) : bool :=
  match x with (_, _, calls, followed) => (1 <=? calls) && (calls =? followed) end.

Lemma every_frame_resets :
  forallb site_ok send_sites = true /\
  map (fun x => match x with (f, h, _, _) => (f, h) end) send_sites =
  [(s2z "Stream.send_data", s2z "data_send_process");
   (s2z "Stream.send_headers", s2z "headers_send_process");
   (s2z "Stream.send_request", s2z "headers_send_process")].
Proof. vm_compute. split; reflexivity. Qed.
