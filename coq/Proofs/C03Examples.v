(* Non-vacuity examples for C03: concrete, non-trivial requests / programs / environments satisfy the
   hypotheses of the theorems of Props/C03.v, and the model says on them what the real server was observed
   to do (the same cases are in corpus/C03 or in the enumeration of harness/drive_C03.py).  vm_compute only. *)
From Coq Require Import String ZArith List Bool.
From GV Require Import Lib.Str Gen.Facts Gen.FactsC03 Model.Base64 Model.Metadata Model.ServerCall
  Proofs.C03Proofs.
Import ListNotations.
Open Scope Z_scope.

Definition with_header (k v : string) : list header := good_request ++ [(s2z k, s2z v)].
Definition without (k : string) : list header :=
  filter (fun h => negb (zlist_eqb (fst h) (s2z k))) good_request.
Definition trailers_ok : frame := FTrailers 0 None.
Definition noeof (c : card) (x : extk) : env := mkE c 1 false false x None proto_subtype false.

(* a streaming handler: recv, headers, two messages around a sleep, return *)
Definition p_stream : prog := mkP [Recv; SendInitial false; SendMessage false; Sleep; SendMessage false] (Fin Return) Honour.
Example ex_stream_out :
  r_out (run_call known_paths good_request (std_env SS ENone) p_stream) = [resp_headers; FData; FData; trailers_ok].
Proof. vm_compute. reflexivity. Qed.
Example ex_stream_hyps :
  let r := run_call known_paths good_request (std_env SS ENone) p_stream in
  validate proto_subtype known_paths good_request = VAccept TNone /\ r_end r <> KHang /\ reset_kind (r_end r) = false /\
  silent_exit SS (r_pre r) (exit_exn (r_end r)) = false /\ returned_normally (r_end r) = true /\
  trail_done (r_pre r) = false /\ cancel_done (r_pre r) = false /\ accepted (r_out r) = true /\
  final_status (r_out r) = Some (0, None).
Proof. vm_compute. repeat split; discriminate. Qed.

(* a unary handler that answers and then fails: the message is out, the status is UNKNOWN *)
Example ex_exception :
  let r := run_call known_paths good_request (std_env UU ENone) (mkP [Recv; SendMessage false] (Fin (RaiseException XPlain)) Honour) in
  r_out r = [resp_headers; FData; FTrailers 2 (Some internal_msg)] /\ exit_exn (r_end r) = Some EExc /\
  trail_done (r_pre r) = false /\ cancel_done (r_pre r) = false /\ reset_kind (r_end r) = false.
Proof. vm_compute. repeat split. Qed.

(* raise GRPCError(NOT_FOUND, "nf") before anything was sent, client has not ended: trailers-only + RST *)
Example ex_grpc_error :
  let r := run_call known_paths good_request (noeof UU ENone)
             (mkP [Recv] (Fin (RaiseGRPC 5 (Some (s2z "nf")))) Honour) in
  r_out r = [FHeaders 200 true (Some 5) (Some (s2z "nf")) true; FRst] /\
  exit_exn (r_end r) = Some (EGRPC 5 (Some (s2z "nf"))) /\ accepted (r_out r) = true.
Proof. vm_compute. repeat split. Qed.

(* D42 (repaired): unary handler raises GRPCError(OK) without a message: UNKNOWN, exactly one terminal;
   the hypotheses of C03_grpc_ok_without_message_status hold *)
Example ex_grpc_ok_without_message :
  let r := run_call known_paths good_request (std_env UU ENone) (mkP [Recv] (Fin (RaiseGRPC status_ok None)) Honour) in
  exit_exn (r_end r) = Some (EGRPC status_ok None) /\ reset_kind (r_end r) = false /\
  trail_done (r_pre r) = false /\ cancel_done (r_pre r) = false /\ msg_done (r_pre r) = false /\
  r_out r = [FHeaders 200 true (Some 2) (Some internal_msg) true].
Proof. vm_compute. repeat split. Qed.

(* unary handler returns without a message: UNKNOWN, not OK *)
Example ex_unary_missing :
  final_status (r_out (run_call known_paths good_request (std_env UU ENone) (mkP [Recv] (Fin Return) Honour)))
  = Some (2, Some internal_msg).
Proof. vm_compute. reflexivity. Qed.

(* explicit trailers, then raise: the explicit status stands *)
Example ex_explicit_then_raise :
  let r := run_call known_paths good_request (std_env US ENone)
             (mkP [SendMessage false; SendTrailing 7 (Some (s2z "pd")) false] (Fin (RaiseGRPC 3 (Some (s2z "late")))) Honour) in
  trail_done (r_pre r) = true /\ final_status (r_out r) = Some (7, Some (s2z "pd")) /\
  r_out r = [resp_headers; FData; FTrailers 7 (Some (s2z "pd"))].
Proof. vm_compute. repeat split. Qed.

(* deadline while the handler waits for a second message; it swallows the cancellation and raises a
   BaseException: still DEADLINE_EXCEEDED *)
Example ex_deadline_swallowed :
  let hs := with_header "grpc-timeout" "100S" in
  let r := run_call known_paths hs (noeof SU ENone) (mkP [Recv; Recv] (Fin Return) (Swallow RaiseBase)) in
  validate proto_subtype known_paths hs = VAccept TValid /\ r_end r = KSwallowed CDeadline RaiseBase /\
  deadline_kind (r_end r) = true /\ trail_done (r_pre r) = false /\ cancel_done (r_pre r) = false /\
  r_out r = [FHeaders 200 true (Some 4) None true; FRst] /\ r_results r = [RMsg; RCancelled].
Proof. vm_compute. repeat split. Qed.

(* deadline falls into the second Sleep of a streaming handler *)
Example ex_deadline_in_sleep :
  let hs := with_header "grpc-timeout" "23436u" in
  let r := run_call known_paths hs (mkE SS 1 false true ENone (Some 1%nat) proto_subtype false)
             (mkP [Sleep; SendMessage false; Sleep; SendMessage false] (Fin Return) Honour) in
  r_end r = KCancelled CDeadline /\ r_out r = [resp_headers; FData; FTrailers 4 None].
Proof. vm_compute. repeat split. Qed.

(* client RST_STREAM while the handler waits: nothing more is sent; a prefix of a response, not a response *)
Example ex_client_reset :
  let r := run_call known_paths good_request (std_env SS EReset) (mkP [SendMessage false] Wait Honour) in
  r_end r = KCancelled CReset /\ reset_kind (r_end r) = true /\ r_out r = [resp_headers; FData] /\
  well_formed (r_out r) = true /\ accepted (r_out r) = false.
Proof. vm_compute. repeat split. Qed.

(* Server.close() swallowed: the handler goes on and the call ends normally *)
Example ex_close_swallowed :
  let r := run_call known_paths good_request (std_env UU EClose) (mkP [SendMessage false] Wait (Swallow Return)) in
  r_end r = KSwallowed CClose Return /\ r_out r = [resp_headers; FData; trailers_ok].
Proof. vm_compute. repeat split. Qed.

(* h2 closes a half-closed(local) stream when a send is refused: OK trailers-only, then send_message, then
   cancel -> no RST_STREAM any more; without the send_message the RST_STREAM goes out *)
Example ex_h2_local_closed :
  let r := run_call known_paths good_request (noeof US ENone)
             (mkP [SendTrailing 0 None false; SendMessage false; Cancel] (Fin Return) Honour) in
  r_out r = [FHeaders 200 true (Some 0) None true] /\ r_results r = [ROk; RH2Err; RH2Err].
Proof. vm_compute. repeat split. Qed.
Example ex_trailers_then_cancel :
  let r := run_call known_paths good_request (noeof US ENone)
             (mkP [SendTrailing 0 None false; Cancel] (Fin Return) Honour) in
  r_out r = [FHeaders 200 true (Some 0) None true; FRst] /\ r_results r = [ROk; ROk].
Proof. vm_compute. repeat split. Qed.

(* refused requests: the inputs of the repaired defect D3, and one per check *)
Example ex_no_path :
  validate proto_subtype known_paths (without ":path") = VAbort 4 200 (Some 12) (Some (s2z "Method not found")).
Proof. vm_compute. reflexivity. Qed.
Example ex_no_method : validate proto_subtype known_paths (without ":method") = VAbort 0 405 None None.
Proof. vm_compute. reflexivity. Qed.
Example ex_bad_bin :
  validate proto_subtype known_paths (with_header "x-bin" "A") = VAbort 6 200 (Some 2) (Some (s2z "Invalid metadata")).
Proof. vm_compute. reflexivity. Qed.
Example ex_bad_timeout :
  validate proto_subtype known_paths (with_header "grpc-timeout" "5x") = VAbort 5 200 (Some 2) (Some (s2z "Invalid grpc-timeout header")).
Proof. vm_compute. reflexivity. Qed.
Example ex_json :
  validate proto_subtype known_paths (good_request ++ [(s2z "content-type", s2z "application/grpc+json")])
  = VAbort 2 415 (Some 2) (Some (s2z "Unacceptable content-type header")).
Proof. vm_compute. reflexivity. Qed.
Example ex_no_te : validate proto_subtype known_paths (without "te") = VAbort 3 400 (Some 2) (Some te_msg).
Proof. vm_compute. reflexivity. Qed.
Example ex_two_defects_first_wins :
  validate proto_subtype known_paths (filter (fun h => negb (zlist_eqb (fst h) (s2z "te"))) (with_header ":path" "/nope"))
  = VAbort 3 400 (Some 2) (Some te_msg).
Proof. vm_compute. reflexivity. Qed.
(* D7: a deadline that has expired on arrival *)
Example ex_expired : validate proto_subtype known_paths (with_header "grpc-timeout" "0n") = VAccept TExpired.
Proof. vm_compute. reflexivity. Qed.
Example ex_expired_out :
  r_out (run_call known_paths (with_header "grpc-timeout" "0n") (std_env UU ENone) p_stream)
  = [FHeaders 200 true (Some 4) None true].
Proof. vm_compute. reflexivity. Qed.
Example ex_abort_out :
  let r := run_call known_paths (without ":path") (noeof UU ENone) p_stream in
  r_out r = [FHeaders 200 false (Some 12) (Some (s2z "Method not found")) true; FRst] /\ accepted (r_out r) = true.
Proof. vm_compute. repeat split. Qed.

(* rendering: the header lists as built in server.py *)
Example ex_render_trailers_only :
  render proto_subtype (FHeaders 200 true (Some 12) (Some (s2z "m")) true) =
  Some ([(s2z ":status", s2z "200"); (s2z "content-type", s2z "application/grpc+proto");
         (s2z "grpc-status", s2z "12"); (s2z "grpc-message", s2z "m")], true).
Proof. vm_compute. reflexivity. Qed.

(* timeouts *)
Example ex_timeouts :
  decode_timeout_zero (s2z "99999999n") = Some false /\ decode_timeout_zero (s2z "00000000H") = Some true /\
  decode_timeout_zero (s2z "123456789S") = None /\ decode_timeout_zero (s2z "5S ") = None /\
  decode_timeout_zero (s2z "S") = None /\ decode_timeout_zero (s2z "") = None.
Proof. vm_compute. repeat split. Qed.

(* the handler's own asyncio.TimeoutError while the request carries a deadline that is far away: UNKNOWN *)
Example ex_own_timeout :
  let hs := with_header "grpc-timeout" "100S" in
  let r := run_call known_paths hs (std_env UU ENone) (mkP [Recv; SendMessage false] (Fin (RaiseException XTimeout)) Honour) in
  validate proto_subtype known_paths hs = VAccept TValid /\ r_end r = KFin (RaiseException XTimeout) /\
  trail_done (r_pre r) = false /\ cancel_done (r_pre r) = false /\
  r_out r = [resp_headers; FData; FTrailers 2 (Some internal_msg)].
Proof. vm_compute. repeat split. Qed.

(* send_trailing_metadata with invalid metadata fails part-way; the handler then raises a plain exception:
   the exit path still sends trailers (UNKNOWN) *)
Example ex_trailing_fails_partway :
  let r := run_call known_paths good_request (std_env UU ENone)
             (mkP [SendMessage false; SendTrailing 0 None true] (Fin Return) Honour) in
  r_results r = [ROk; RError] /\ trail_done (r_pre r) = false /\
  r_out r = [resp_headers; FData; trailers_ok].
Proof. vm_compute. repeat split. Qed.

(* transport paused, send_trailing_metadata waits for write_ready, the deadline fires there: DEADLINE_EXCEEDED
   once the environment resumes writing *)
Example ex_paused_trailing_deadline :
  let hs := with_header "grpc-timeout" "100S" in
  let r := run_call known_paths hs (noeof UU ENone)
             (mkP [SendMessage false; Pause; SendTrailing 5 (Some (s2z "x")) false] (Fin Return) Honour) in
  r_results r = [ROk; ROk; RCancelled] /\ r_end r = KCancelled CDeadline /\
  r_out r = [resp_headers; FData; FTrailers 4 None; FRst].
Proof. vm_compute. repeat split. Qed.

(* send_message fails in the codec after the implicit HEADERS went out *)
Example ex_message_fails_partway :
  let r := run_call known_paths good_request (std_env UU ENone) (mkP [SendMessage true] (Fin Return) Honour) in
  r_results r = [RError] /\ r_out r = [resp_headers; FTrailers 2 (Some internal_msg)].
Proof. vm_compute. repeat split. Qed.

(* a deadline that has expired on arrival while the transport is paused: the handler is not called, the
   DEADLINE_EXCEEDED trailers go out as soon as the environment resumes writing -- for every cardinality *)
Example ex_expired_paused :
  forallb (fun c => match r_out (run_call known_paths (with_header "grpc-timeout" "0n") (mkE c 1 false false ENone None proto_subtype true) p_stream)
                    with [FHeaders 200 true (Some 4) None true; FRst] => true | _ => false end) [UU; US; SU; SS] = true.
Proof. vm_compute. reflexivity. Qed.

(* transport paused from the start, valid request: the first sending call waits; the deadline ends it *)
Example ex_paused_from_start :
  let r := run_call known_paths (with_header "grpc-timeout" "100S") (mkE UU 1 false true ENone None proto_subtype true)
             (mkP [Recv; SendMessage false] (Fin Return) Honour) in
  r_results r = [RMsg; RCancelled] /\ r_out r = [FHeaders 200 true (Some 4) None true].
Proof. vm_compute. repeat split. Qed.

(* a server whose codec is not the proto one (content subtype "json"): the bare application/grpc means +proto and
   is refused with 415 / UNKNOWN; its own subtype is accepted and every response shape carries
   application/grpc+json *)
Definition json : list Z := s2z "json".
Example ex_json_server_refuses_bare :
  validate json known_paths good_request = VAbort 2 415 (Some 2) (Some (s2z "Unacceptable content-type header")) /\
  validate json known_paths (request_with (s2z "application/grpc+proto"))
    = VAbort 2 415 (Some 2) (Some (s2z "Unacceptable content-type header")) /\
  validate json known_paths (request_with (s2z "application/grpc+json")) = VAccept TNone /\
  validate proto_subtype known_paths (request_with (s2z "application/grpc+json"))
    = VAbort 2 415 (Some 2) (Some (s2z "Unacceptable content-type header")).
Proof. vm_compute. repeat split. Qed.
Example ex_json_server_trailers_only :
  let e := mkE UU 1 false true ENone None json false in
  let r := run_call known_paths (request_with (s2z "application/grpc+json")) e
             (mkP [Recv] (Fin (RaiseGRPC 5 (Some (s2z "nf")))) Honour) in
  map (render json) (r_out r) =
  [Some ([(s2z ":status", s2z "200"); (s2z "content-type", s2z "application/grpc+json");
          (s2z "grpc-status", s2z "5"); (s2z "grpc-message", s2z "nf")], true)].
Proof. vm_compute. reflexivity. Qed.
