(* Lemmas for C09 (Props/C09.v states the theorems).  Model: Model/ServerLife.v. *)
From Coq Require Import List Bool Arith Lia.
From GV Require Import Gen.FactsC09 Model.ServerLife.
Import ListNotations.

(* ---------------------------------------------------------------------------------------------- *)
(* 1. the segment function `advance`                                                               *)

Lemma advance_static : forall p t,
  let u := advance p t in
  tc u = tc t /\ ti u = ti t /\ tbeh u = tbeh t /\ cancel_req u = cancel_req t /\ werr u = werr t /\
  in_tasks u = in_tasks t /\ in_cancelled u = in_cancelled t /\ h2reset u = h2reset t /\
  cb_pending u = cb_pending t /\ ncancel u = ncancel t /\ nhit u = nhit t /\ late u = late t /\
  cleanup_done u = cleanup_done t.
Proof.
  induction p as [|k r IH]; intros t; cbn [advance].
  - destruct t; cbn; repeat split; reflexivity.
  - destruct (can_pass k t).
    + specialize (IH (consume k t)). cbv zeta in *.
      destruct k; destruct t; cbn in *; exact IH.
    + destruct t; cbn; repeat split; reflexivity.
Qed.

Lemma advance_phase : forall p t,
  (ph (advance p t) = Finished /\ registered (advance p t) = false /\
   nrel (advance p t) = if registered t then S (nrel t) else nrel t) \/
  (exists k r, ph (advance p t) = Running k r /\ registered (advance p t) = registered t /\
               nrel (advance p t) = nrel t).
Proof.
  induction p as [|k r IH]; intros t; cbn [advance].
  - left. destruct t; cbn. repeat split; reflexivity.
  - destruct (can_pass k t).
    + specialize (IH (consume k t)).
      assert (registered (consume k t) = registered t /\ nrel (consume k t) = nrel t) as [E1 E2]
        by (destruct k; destruct t; cbn; split; reflexivity).
      rewrite E1, E2 in IH. exact IH.
    + right. exists k, r. destruct t; cbn. repeat split; reflexivity.
Qed.

Lemma unfinished_advance : forall p t,
  unfinished (advance p t) = true -> exists k r, ph (advance p t) = Running k r.
Proof.
  intros p t H. destruct (advance_phase p t) as [[E _]|[k [r [E _]]]].
  - unfold unfinished in H. rewrite E in H. discriminate.
  - eauto.
Qed.

(* ---------------------------------------------------------------------------------------------- *)
(* 2. per-task invariant                                                                            *)

Definition honour_inv (t : task) : Prop :=
  match tbeh t with
  | Swallow => True
  | Honour _ =>
      match ph t with
      | Created _ | Running _ _ => ncancel t = 0 /\ nhit t = 0 /\ late t = false
      | Cleanup _ => ncancel t = 1 /\ nhit t = 0 /\ (cancel_req t = true -> late t = true)
      | Finished => late t = false ->
                    nhit t = 0 /\ ncancel t <= 1 /\ (ncancel t = 1 -> cleanup_done t = true)
      end
  end.

Definition task_inv (t : task) : Prop :=
  (registered t = true -> nrel t = 0) /\
  (registered t = false -> nrel t = 1) /\
  (unfinished t = true -> registered t = true /\ cb_pending t = false) /\
  (unfinished t = false -> registered t = cb_pending t) /\
  (unfinished t = true -> in_tasks t = true \/ in_cancelled t = true) /\
  (forall p, ph t = Created p -> in_tasks t = false -> cancel_req t = true) /\
  honour_inv t.

(* a task transformer that the operations of the model apply to existing tasks *)
Definition tfun_ok (f : task -> task) : Prop :=
  forall t, tc (f t) = tc t /\ ti (f t) = ti t /\ tbeh (f t) = tbeh t /\
            (task_inv t -> task_inv (f t)) /\
            (unfinished (f t) = true -> unfinished t = true) /\
            (unfinished (f t) = true -> in_cancelled t = true -> in_cancelled (f t) = true).

Ltac tcrush :=
  repeat match goal with
         | |- _ /\ _ => split
         | |- _ -> _ => intro
         | H : _ /\ _ |- _ => destruct H
         end; cbn in *; try congruence; try lia; auto.

Ltac tf_split := split; [|split; [|split; [|split; [|split]]]].

Lemma tfun_id : tfun_ok (fun t => t).
Proof. intros t. tf_split; auto. Qed.

Lemma tfun_compose f g : tfun_ok f -> tfun_ok g -> tfun_ok (fun t => g (f t)).
Proof.
  intros Hf Hg t. destruct (Hf t) as (a1 & a2 & a3 & a4 & a5 & a6).
  destruct (Hg (f t)) as (b1 & b2 & b3 & b4 & b5 & b6).
  tf_split; try congruence; auto.
Qed.

Lemma tfun_if (c : task -> bool) f g : tfun_ok f -> tfun_ok g -> tfun_ok (fun t => if c t then f t else g t).
Proof. intros Hf Hg t. destruct (c t); [apply Hf | apply Hg]. Qed.

Lemma task_cancel_ok : tfun_ok task_cancel.
Proof.
  intros t. unfold task_cancel.
  destruct (unfinished t) eqn:U; [|tf_split; auto; congruence].
  destruct t as [c i b tm p cr ib cd sl we rg it ic hr cb nc nh lt cdn nr].
  unfold task_inv, honour_inv, unfinished, is_cleanup in *; cbn in *.
  tf_split; auto.
  intros (h1 & h2 & h3 & h4 & h5 & h6 & h7).
  split; [|split; [|split; [|split; [|split; [|split]]]]]; auto.
  destruct b; auto.
  destruct p; cbn in *; rewrite ?orb_false_r, ?orb_true_r; try discriminate; intuition.
Qed.

Ltac inv7 := split; [|split; [|split; [|split; [|split; [|split]]]]].
Ltac open_task t :=
  destruct t as [xc xi xb xtm xp xcr xib xcd xsl xwe xrg xit xic xhr xcb xnc xnh xlt xcdn xnr];
  unfold task_inv, honour_inv, unfinished, in_wrapper, is_cleanup in *; cbn in *.

(* setters that touch neither the life-cycle nor the history *)
Lemma set_wait_ok a b c : tfun_ok (fun t => set_wait t (a t) (b t) (c t)).
Proof. intros t. open_task t. tf_split; auto. Qed.
Lemma set_werr_ok v : tfun_ok (fun t => set_werr t v).
Proof. intros t. open_task t. tf_split; auto. Qed.
Lemma set_timer_ok v : tfun_ok (fun t => set_timer t v).
Proof. intros t. open_task t. tf_split; auto. Qed.
Lemma set_h2reset_ok v : tfun_ok (fun t => set_h2reset t v).
Proof. intros t. open_task t. tf_split; auto. Qed.

Lemma terminated_ok : tfun_ok terminated.
Proof.
  unfold terminated. apply tfun_if; [|apply tfun_id].
  apply (tfun_compose (fun t => set_werr t true) task_cancel); [apply set_werr_ok | apply task_cancel_ok].
Qed.

(* Handler.close on one task: it stays in _tasks, joins _cancelled *)
Lemma set_sets_close_ok : tfun_ok (fun t => set_sets t true true).
Proof.
  intros t. open_task t. tf_split; auto.
  intros (h1 & h2 & h3 & h4 & h5 & h6 & h7). inv7; auto. intros; discriminate.
Qed.

Lemma handler_close_task_ok : tfun_ok handler_close_task.
Proof.
  unfold handler_close_task. apply tfun_if; [|apply tfun_id].
  apply (tfun_compose (fun t => set_sets t true true) task_cancel);
    [apply set_sets_close_ok | apply task_cancel_ok].
Qed.

Lemma close_task_ok : tfun_ok close_task.
Proof.
  unfold close_task.
  apply (tfun_compose handler_close_task (fun t1 => if registered t1 then terminated t1 else t1)).
  - apply handler_close_task_ok.
  - apply tfun_if; [apply terminated_ok | apply tfun_id].
Qed.

(* Handler.cancel: pop from _tasks, cancel, add to _cancelled (only called when in_tasks) *)
Lemma pop_cancel_ok : tfun_ok (fun t => task_cancel (set_sets t false true)).
Proof.
  intros t. unfold task_cancel.
  assert (U : unfinished (set_sets t false true) = unfinished t) by (destruct t; reflexivity).
  rewrite U. destruct (unfinished t) eqn:E.
  - open_task t. tf_split; auto.
    intros (h1 & h2 & h3 & h4 & h5 & h6 & h7). inv7; auto.
    destruct xb; auto.
    destruct xp; cbn in *; rewrite ?orb_false_r, ?orb_true_r; try discriminate; intuition.
  - open_task t. tf_split; auto; try congruence.
    intros (h1 & h2 & h3 & h4 & h5 & h6 & h7). inv7; auto; try congruence.
    intros p0 E0. rewrite E0 in E. discriminate.
Qed.

Lemma rst_task_ok : tfun_ok rst_task.
Proof.
  unfold rst_task.
  apply (tfun_compose (fun t => terminated (set_h2reset t true))
                      (fun t1 => if in_tasks t1 then task_cancel (set_sets t1 false true) else t1)).
  - apply (tfun_compose (fun t => set_h2reset t true) terminated); [apply set_h2reset_ok | apply terminated_ok].
  - apply tfun_if; [apply pop_cancel_ok | apply tfun_id].
Qed.

Lemma collect_task_ok : tfun_ok collect_task.
Proof.
  intros t. unfold collect_task. destruct (unfinished t) eqn:E; [tf_split; auto|].
  open_task t. tf_split; auto; try congruence.
  intros (h1 & h2 & h3 & h4 & h5 & h6 & h7). inv7; auto; try congruence.
  intros p0 E0. rewrite E0 in E. discriminate.
Qed.

Lemma deadline_task_ok :
  tfun_ok (fun t => if timer t && in_wrapper t then task_cancel (set_werr (set_timer t false) true) else t).
Proof.
  apply tfun_if; [|apply tfun_id].
  apply (tfun_compose (fun t => set_werr (set_timer t false) true) task_cancel); [|apply task_cancel_ok].
  apply (tfun_compose (fun t => set_timer t false) (fun t => set_werr t true));
    [apply set_timer_ok | apply set_werr_ok].
Qed.

(* finish: the task ends and releases its stream *)
Lemma finish_fields t :
  let u := finish t in
  tc u = tc t /\ ti u = ti t /\ tbeh u = tbeh t /\ ph u = Finished /\ registered u = false /\
  nrel u = (if registered t then S (nrel t) else nrel t) /\ cb_pending u = cb_pending t /\
  cancel_req u = cancel_req t /\ in_tasks u = in_tasks t /\ in_cancelled u = in_cancelled t /\
  ncancel u = ncancel t /\ nhit u = nhit t /\ late u = late t /\ cleanup_done u = cleanup_done t.
Proof. destruct t; cbn. repeat split; reflexivity. Qed.

Lemma advance_inv p t :
  registered t = true -> nrel t = 0 -> cb_pending t = false ->
  (in_tasks t = true \/ in_cancelled t = true) ->
  (tbeh t = Swallow \/ (ncancel t = 0 /\ nhit t = 0 /\ late t = false)) ->
  task_inv (advance p t).
Proof.
  intros R N CB M H.
  pose proof (advance_static p t) as S. cbv zeta in S.
  destruct S as (s1 & s2 & s3 & s4 & s5 & s6 & s7 & s8 & s9 & s10 & s11 & s12 & s13).
  destruct (advance_phase p t) as [(E & R' & N')|(k & r & E & R' & N')].
  - rewrite R, N in N'.
    unfold task_inv, honour_inv, unfinished. rewrite E, R', N', s3, s9, s10, s11, s12, s13, CB.
    inv7; auto; try congruence; try discriminate.
    destruct (tbeh t); auto. intros L. destruct H as [H|(x & y & z)]; try congruence.
    rewrite x, y. repeat split; auto; lia.
  - unfold task_inv, honour_inv, unfinished. rewrite E, R', N', s3, s4, s6, s7, s9, s10, s11, s12.
    inv7; auto; try congruence; try discriminate.
    destruct (tbeh t); auto. destruct H as [H|(x & y & z)]; try congruence. auto.
Qed.

Lemma run_task_ok : tfun_ok run_task.
Proof.
  intros t. unfold run_task.
  destruct (ph t) as [p | k r | n |] eqn:P.
  - (* Created *)
    destruct (cancel_req t) eqn:CR.
    + open_task t. subst xp. tf_split; auto; try discriminate.
      intros (h1 & h2 & h3 & h4 & h5 & h6 & h7). destruct (h3 eq_refl) as [R CB]. subst.
      inv7; auto; try discriminate. destruct xb; auto. intuition lia.
    + pose proof (advance_static p t) as S. cbv zeta in S.
      destruct S as (s1 & s2 & s3 & s4 & s5 & s6 & s7 & s8 & s9 & s10 & s11 & s12 & s13).
      tf_split; auto.
      * intros (h1 & h2 & h3 & h4 & h5 & h6 & h7).
        assert (U : unfinished t = true) by (unfold unfinished; rewrite P; reflexivity).
        destruct (h3 U) as [R CB].
        apply advance_inv; auto.
        unfold honour_inv in h7. rewrite P in h7. destruct (tbeh t); auto.
      * intros _. unfold unfinished. rewrite P. reflexivity.
      * intros _ H. congruence.
  - (* Running *)
    destruct (cancel_req t) eqn:CR.
    + set (t1 := set_wait (set_hist (set_cancel_req t false) (S (ncancel t)) (nhit t) (cleanup_done t))
                          (inbox t) (credit t) false).
      assert (F1 : tc t1 = tc t /\ ti t1 = ti t /\ tbeh t1 = tbeh t /\ registered t1 = registered t /\
                   nrel t1 = nrel t /\ cb_pending t1 = cb_pending t /\ in_tasks t1 = in_tasks t /\
                   in_cancelled t1 = in_cancelled t /\ ph t1 = ph t /\ late t1 = late t)
        by (destruct t; cbn; repeat split; reflexivity).
      destruct F1 as (f1 & f2 & f3 & f4 & f5 & f6 & f7 & f8 & f9 & f10).
      assert (U : unfinished t = true) by (unfold unfinished; rewrite P; reflexivity).
      destruct (tbeh t) as [[|m]|] eqn:B.
      * (* Honour 0 *)
        clear f1 f2 f3 f4 f5 f6 f7 f8 f9 f10; subst t1.
        open_task t. subst. tf_split; auto; try discriminate.
        intros (h1 & h2 & h3 & h4 & h5 & h6 & h7). destruct (h3 eq_refl) as [R CB]. subst.
        rewrite (h1 eq_refl). inv7; auto; try discriminate.
        intros _. destruct h7 as (x & y & z). subst. repeat split; auto.
      * (* Honour (S m) *)
        clear f1 f2 f3 f4 f5 f6 f7 f8 f9 f10; subst t1.
        open_task t. subst. tf_split; auto.
        intros (h1 & h2 & h3 & h4 & h5 & h6 & h7). inv7; auto; try discriminate.
        destruct h7 as (x & y & z). subst. repeat split; auto.
      * (* Swallow *)
        pose proof (advance_static r t1) as S. cbv zeta in S.
        destruct S as (s1 & s2 & s3 & s4 & s5 & s6 & s7 & s8 & s9 & s10 & s11 & s12 & s13).
        tf_split; try congruence.
        -- intros (h1 & h2 & h3 & h4 & h5 & h6 & h7). destruct (h3 U) as [R CB].
           apply advance_inv; try congruence.
           ++ rewrite f5. apply h1. exact R.
           ++ rewrite f7, f8. auto.
           ++ left. congruence.
    + pose proof (advance_static (k :: r) t) as S. cbv zeta in S.
      destruct S as (s1 & s2 & s3 & s4 & s5 & s6 & s7 & s8 & s9 & s10 & s11 & s12 & s13).
      assert (U : unfinished t = true) by (unfold unfinished; rewrite P; reflexivity).
      tf_split; auto; try congruence.
      intros (h1 & h2 & h3 & h4 & h5 & h6 & h7). destruct (h3 U) as [R CB].
      apply advance_inv; auto.
      unfold honour_inv in h7. rewrite P in h7. destruct (tbeh t); auto.
  - (* Cleanup *)
    destruct (cancel_req t) eqn:CR.
    + open_task t. subst. tf_split; auto; try discriminate.
      intros (h1 & h2 & h3 & h4 & h5 & h6 & h7). destruct (h3 eq_refl) as [R CB]. subst.
      rewrite (h1 eq_refl). inv7; auto; try discriminate.
      destruct xb; auto. destruct h7 as (x & y & z). intros L. rewrite (z eq_refl) in L. discriminate.
    + destruct (slept t) eqn:SL; [|tf_split; auto].
      destruct n as [|m].
      * open_task t. subst. tf_split; auto; try discriminate.
        intros (h1 & h2 & h3 & h4 & h5 & h6 & h7). destruct (h3 eq_refl) as [R CB]. subst.
        rewrite (h1 eq_refl). inv7; auto; try discriminate.
        destruct xb; auto. destruct h7 as (x & y & z). intros _. subst. repeat split; auto.
      * open_task t. subst. tf_split; auto.
        intros (h1 & h2 & h3 & h4 & h5 & h6 & h7). inv7; auto; try discriminate.
  - (* Finished *)
    destruct (cb_pending t) eqn:CB; [|tf_split; auto].
    open_task t. subst. tf_split; auto; try discriminate.
    intros (h1 & h2 & h3 & h4 & h5 & h6 & h7). rewrite (h4 eq_refl) in *.
    rewrite (h1 eq_refl). inv7; auto; try discriminate.
Qed.

(* ---------------------------------------------------------------------------------------------- *)
(* 3. state invariant                                                                               *)

Definition key (t : task) : nat * nat := (tc t, ti t).
Definition keys (l : list task) := map key l.

Definition waiting (w : wstage) : bool :=
  match w with WLatch | WServer | WSub _ | WDone => true | _ => false end.

Record Inv (s : state) : Prop := mkInv {
  inv_tasks : Forall task_inv (tasks s);
  inv_nodup : NoDup (keys (tasks s));
  inv_conn : forall t, In t (tasks s) -> exists k, conn_at s (tc t) = Some k /\
               (unfinished t = true -> in_handlers k = true /\
                                       (proc_open k = false -> in_cancelled t = true));
  inv_lost : forall k, In k (conns s) -> lost k = true -> proc_open k = false;
  inv_handlers : forall k, In k (conns s) -> in_handlers k = false -> proc_open k = false;
  inv_closing : listening (srv s) = true ->
                forall k, In k (conns s) -> closing k = true -> proc_open k = false;
  inv_cstart : conns s <> [] \/ listening (srv s) = true -> started (srv s) = true;
  inv_started : waiting (wst s) = true -> started (srv s) = true;
  inv_sub : forall snap, wst s = WSub snap ->
              listening (srv s) = false /\ all_lost (conns s) = true /\
              forall t, In t (tasks s) -> unfinished t = true -> In (key t) snap;
  inv_done : wst s = WDone ->
              listening (srv s) = false /\ all_lost (conns s) = true /\
              forall t, In t (tasks s) -> unfinished t = false
}.

Definition conn_same (k k' : conn) : Prop :=
  proc_open k' = proc_open k /\ lost k' = lost k /\ in_handlers k' = in_handlers k /\
  closing k' = closing k.

Definition srv_mono (a b : server) : Prop :=
  (started a = true -> started b = true /\ listening b = listening a).

Lemma Forall2_nth {A B} (R : A -> B -> Prop) l l' : Forall2 R l l' ->
  forall n x, nth_error l n = Some x -> exists y, nth_error l' n = Some y /\ R x y.
Proof.
  induction 1; intros n a E; destruct n; cbn in *; try discriminate.
  - inversion E; subst. eauto.
  - eauto.
Qed.

Lemma Forall2_In_r {A B} (R : A -> B -> Prop) l l' : Forall2 R l l' ->
  forall y, In y l' -> exists x, In x l /\ R x y.
Proof.
  induction 1; intros b Hb; cbn in *; [tauto|]. destruct Hb as [->|Hb]; eauto.
  destruct (IHForall2 _ Hb) as (a & Ha & Hr). eauto.
Qed.

Lemma Forall2_nil_r {A B} (R : A -> B -> Prop) l l' : Forall2 R l l' -> l' <> [] -> l <> [].
Proof. intros H. inversion H; subst; congruence. Qed.

Lemma all_lost_same cs cs' : Forall2 conn_same cs cs' -> all_lost cs' = all_lost cs.
Proof.
  unfold all_lost. induction 1; cbn; auto. destruct H as (_ & e & _). rewrite e, IHForall2. reflexivity.
Qed.

Lemma Forall2_refl_same cs : Forall2 conn_same cs cs.
Proof. induction cs; constructor; auto. repeat split. Qed.

Lemma Forall2_upd_same cs n f : (forall k, conn_same k (f k)) -> Forall2 conn_same cs (upd_nth cs n f).
Proof.
  intros Hf. revert n. induction cs as [|k r IH]; intros n; cbn; [constructor|].
  destruct n; constructor; auto. apply Forall2_refl_same. repeat split.
Qed.

Lemma keys_map_tfun f l : tfun_ok f -> keys (map f l) = keys l.
Proof.
  intros Hf. unfold keys. rewrite map_map. apply map_ext. intros t. unfold key.
  destruct (Hf t) as (a & b & _). rewrite a, b. reflexivity.
Qed.

Lemma Forall_map_tfun f l : tfun_ok f -> Forall task_inv l -> Forall task_inv (map f l).
Proof.
  intros Hf H. induction H; cbn; constructor; auto. destruct (Hf x) as (_ & _ & _ & h & _). auto.
Qed.

(* operations that transform the existing tasks one by one and leave the connection flags alone *)
Lemma inv_map s f cs' sv' :
  Inv s -> tfun_ok f -> Forall2 conn_same (conns s) cs' -> srv_mono (srv s) sv' ->
  (started (srv s) = false -> cs' = [] /\ waiting (wst s) = false) ->
  (listening sv' = true -> started sv' = true) ->
  Inv (mkState (map f (tasks s)) cs' sv' (wst s)).
Proof.
  intros I Hf Hc Hs Hn Hl. destruct I as [i1 i2 i3 i4 i4a i4b i4c i5 i6 i7].
  assert (ST : started (srv s) = true -> started sv' = true /\ listening sv' = listening (srv s)) by exact Hs.
  constructor; cbn [tasks conns srv wst].
  - apply Forall_map_tfun; auto.
  - rewrite keys_map_tfun; auto.
  - intros t' Ht'. apply in_map_iff in Ht'. destruct Ht' as (t & <- & Ht).
    destruct (Hf t) as (a & b & c & d & e & g).
    destruct (i3 t Ht) as (k & Ek & Hk). unfold conn_at in *. cbn [tasks conns srv wst].
    destruct (Forall2_nth _ _ _ Hc _ _ Ek) as (k' & Ek' & (s1 & s2 & s3 & s4)).
    exists k'. rewrite a. split; auto. intros U. destruct (Hk (e U)) as [h1 h2].
    split; [congruence|]. intros PO. apply g; auto. apply h2. congruence.
  - intros k' Hk' L. destruct (Forall2_In_r _ _ _ Hc _ Hk') as (k & Hk & (s1 & s2 & s3 & s4)).
    rewrite s1. apply i4; auto. congruence.
  - intros k' Hk' L. destruct (Forall2_In_r _ _ _ Hc _ Hk') as (k & Hk & (s1 & s2 & s3 & s4)).
    rewrite s1. apply i4a; auto. congruence.
  - intros L k' Hk' C. destruct (Forall2_In_r _ _ _ Hc _ Hk') as (k & Hk & (s1 & s2 & s3 & s4)).
    rewrite s1. destruct (started (srv s)) eqn:S0.
    + destruct (ST eq_refl) as [_ e]. apply i4b; auto; congruence.
    + destruct (Hn eq_refl) as [e _]. subst cs'. destruct Hk'.
  - intros [NE|NE]; [|auto]. destruct (started (srv s)) eqn:S0.
    + apply ST; auto.
    + destruct (Hn eq_refl) as [e _]. congruence.
  - intros W. destruct (started (srv s)) eqn:S0.
    + apply ST; auto.
    + destruct (Hn eq_refl) as [_ e]. congruence.
  - intros snap E. destruct (i6 snap E) as (l1 & l2 & l3).
    assert (W : waiting (wst s) = true) by (rewrite E; reflexivity).
    destruct (ST (i5 W)) as [_ hl]. split; [congruence|]. split; [rewrite (all_lost_same _ _ Hc); auto|].
    intros t' Ht' U. apply in_map_iff in Ht'. destruct Ht' as (t & <- & Ht).
    destruct (Hf t) as (a & b & c & d & e & g). unfold key. rewrite a, b. apply l3; auto.
  - intros E. destruct (i7 E) as (l1 & l2 & l3).
    assert (W : waiting (wst s) = true) by (rewrite E; reflexivity).
    destruct (ST (i5 W)) as [_ hl]. split; [congruence|]. split; [rewrite (all_lost_same _ _ Hc); auto|].
    intros t' Ht'. apply in_map_iff in Ht'. destruct Ht' as (t & <- & Ht).
    destruct (Hf t) as (a & b & c & d & e & g).
    destruct (unfinished (f t)) eqn:U; auto. rewrite (l3 t Ht) in e. discriminate (e eq_refl).
Qed.

Lemma srv_mono_refl a : srv_mono a a.
Proof. intros H; auto. Qed.

Lemma on_task_tfun c i f : tfun_ok f -> tfun_ok (fun t => if is_key c i t then f t else t).
Proof. intros. apply tfun_if; auto. apply tfun_id. Qed.

Lemma on_conn_tfun c f : tfun_ok f -> tfun_ok (fun t => if tc t =? c then f t else t).
Proof. intros. apply (tfun_if (fun t => tc t =? c)); auto. apply tfun_id. Qed.

Lemma same_state s : mkState (tasks s) (conns s) (srv s) (wst s) = s.
Proof. destruct s; reflexivity. Qed.

(* when the server was never started there is no connection and nobody waits *)
Lemma not_started s : Inv s -> started (srv s) = false -> conns s = [] /\ waiting (wst s) = false.
Proof.
  intros I S0. split.
  - destruct (conns s) eqn:E; auto. assert (H : conns s <> []) by congruence.
    pose proof (inv_cstart s I (or_introl H)). congruence.
  - destruct (waiting (wst s)) eqn:W; auto. apply (inv_started s I) in W. congruence.
Qed.

(* the common case: same connections list, same server record *)
Lemma inv_map_tasks s f :
  Inv s -> tfun_ok f -> Inv (mkState (map f (tasks s)) (conns s) (srv s) (wst s)).
Proof.
  intros I Hf. apply inv_map; auto.
  - apply Forall2_refl_same.
  - apply srv_mono_refl.
  - intros S0. apply not_started; auto.
  - intros L. apply (inv_cstart s I). auto.
Qed.

(* ---------------------------------------------------------------------------------------------- *)
(* 4. every operation preserves the invariant                                                       *)

Lemma tick_task_ok :
  tfun_ok (fun t => match ph t with
                    | Running AS _ | Cleanup _ => set_wait t (inbox t) (credit t) true
                    | _ => t end).
Proof.
  intros t. destruct (ph t) as [p|k r|n|] eqn:P; try (tf_split; auto; fail).
  destruct k; tf_split; auto.
Qed.

Lemma msg_task_ok : tfun_ok (fun t => if registered t then set_wait t (S (inbox t)) (credit t) (slept t) else t).
Proof. apply tfun_if; [|apply tfun_id]. apply (set_wait_ok (fun t => S (inbox t)) credit slept). Qed.
Lemma credit_task_ok : tfun_ok (fun t => if registered t then set_wait t (inbox t) (S (credit t)) (slept t) else t).
Proof. apply tfun_if; [|apply tfun_id]. apply (set_wait_ok inbox (fun t => S (credit t)) slept). Qed.

Lemma inv_start s : Inv s -> Inv (step s Start).
Proof.
  intros I. cbn [step]. destruct (started (srv s)) eqn:S0.
  - rewrite <- (map_id (tasks s)). apply inv_map; auto.
    + apply tfun_id. + apply Forall2_refl_same. + intros _. cbn. auto.
    + intros; congruence.
  - destruct (not_started s I S0) as [C W].
    rewrite <- (map_id (tasks s)). apply inv_map; auto.
    + apply tfun_id. + apply Forall2_refl_same. + intros; congruence.
Qed.

Lemma srvclose_task_ok s :
  tfun_ok (fun t => match conn_at s (tc t) with
                    | Some k => if in_handlers k then handler_close_task t else t
                    | None => t end).
Proof.
  intros t. destruct (conn_at s (tc t)) as [k|]; [|apply tfun_id].
  destruct (in_handlers k); [apply handler_close_task_ok | apply tfun_id].
Qed.

Lemma all_lost_map g cs : (forall k, lost (g k) = lost k) -> all_lost (map g cs) = all_lost cs.
Proof.
  intros Hg. unfold all_lost. induction cs as [|k r IH]; cbn; auto. rewrite Hg, IH. reflexivity.
Qed.

(* changing only Handler.closing while the server no longer listens *)
Lemma inv_set_closing s g :
  Inv s -> listening (srv s) = false ->
  (forall k, proc_open (g k) = proc_open k /\ lost (g k) = lost k /\ in_handlers (g k) = in_handlers k) ->
  Inv (mkState (tasks s) (map g (conns s)) (srv s) (wst s)).
Proof.
  intros I L Hg. destruct I as [i1 i2 i3 i4 i4a i4b i4c i5 i6 i7].
  assert (AL : all_lost (map g (conns s)) = all_lost (conns s)).
  { apply all_lost_map. intros k. apply Hg. }
  constructor; cbn [tasks conns srv wst]; auto.
  - intros t Ht. destruct (i3 t Ht) as (k & Ek & Hk). unfold conn_at in *. cbn [conns].
    rewrite nth_error_map, Ek. cbn. exists (g k). split; auto.
    destruct (Hg k) as (a & b & c). rewrite a, c. auto.
  - intros k' Hk' Lk. apply in_map_iff in Hk'. destruct Hk' as (k & <- & Hk).
    destruct (Hg k) as (a & b & c). rewrite a. apply i4; auto. congruence.
  - intros k' Hk' Lk. apply in_map_iff in Hk'. destruct Hk' as (k & <- & Hk).
    destruct (Hg k) as (a & b & c). rewrite a. apply i4a; auto. congruence.
  - intros L'. congruence.
  - intros [NE|NE]; [|congruence]. apply i4c. left. destruct (conns s); cbn in *; congruence.
  - intros snap E. destruct (i6 snap E) as (l1 & l2 & l3). rewrite AL. auto.
  - intros E. destruct (i7 E) as (l1 & l2 & l3). rewrite AL. auto.
Qed.

Lemma inv_srvclose s : Inv s -> Inv (step s SrvClose).
Proof.
  intros I. cbn [step]. destruct (started (srv s)) eqn:S0.
  - set (s1 := mkState (map (fun t => match conn_at s (tc t) with
                                      | Some k => if in_handlers k then handler_close_task t else t
                                      | None => t end) (tasks s))
                       (conns s) (mkServer true false true (sgc (srv s)) (serr (srv s))) (wst s)).
    assert (I1 : Inv s1).
    { unfold s1. destruct I as [i1 i2 i3 i4 i4a i4b i4c i5 i6 i7].
      pose proof (mkInv s i1 i2 i3 i4 i4a i4b i4c i5 i6 i7) as I.
      assert (M := inv_map_tasks s _ I (srvclose_task_ok s)).
      destruct M as [m1 m2 m3 m4 m4a m4b m4c m5 m6 m7].
      constructor; cbn [tasks conns srv wst] in *; auto.
      - intros; discriminate.
      - intros snap E. destruct (m6 snap E) as (l1 & l2 & l3). auto.
      - intros E. destruct (m7 E) as (l1 & l2 & l3). auto. }
    apply (inv_set_closing s1 (fun k => if in_handlers k
                                        then mkConn (proc_open k) (lost k) true (in_handlers k) (gcn k) (crashed k)
                                        else k)) in I1; auto.
    intros k. destruct (in_handlers k) eqn:E; cbn; auto.
  - destruct (not_started s I S0) as [C W].
    rewrite <- (map_id (tasks s)). apply inv_map; auto.
    + apply tfun_id. + apply Forall2_refl_same. + intros; congruence.
    + cbn. intros L. pose proof (inv_cstart s I (or_intror L)). congruence.
Qed.

Lemma inv_waitclosed s : Inv s -> Inv (step s WaitClosed).
Proof.
  intros I. cbn [step]. destruct (wst s) eqn:W; try (exact I).
  destruct I as [i1 i2 i3 i4 i4a i4b i4c i5 i6 i7].
  constructor; cbn [tasks conns srv wst]; auto.
  - destruct (started (srv s)) eqn:S0; cbn; auto.
  - intros snap E. destruct (started (srv s)); discriminate.
  - intros E. destruct (started (srv s)); discriminate.
Qed.

Lemma find_task_nodup l t :
  NoDup (keys l) -> In t l -> find_task (tc t) (ti t) l = Some t.
Proof.
  unfold find_task. induction l as [|x r IH]; intros ND Ht; [destruct Ht|].
  cbn in ND. inversion ND as [|? ? N1 N2]; subst. cbn [find].
  destruct Ht as [->|Ht].
  - unfold is_key. rewrite !Nat.eqb_refl. reflexivity.
  - destruct (is_key (tc t) (ti t) x) eqn:K.
    + exfalso. apply N1. unfold is_key in K. apply andb_true_iff in K. destruct K as [a b].
      apply Nat.eqb_eq in a, b. unfold keys. apply in_map_iff. exists t. split; auto.
      unfold key. congruence.
    + auto.
Qed.

Lemma inv_runw s : Inv s -> Inv (step s RunW).
Proof.
  intros I. cbn [step]. destruct (wst s) eqn:W; try (exact I).
  - (* WLatch *)
    destruct (latch (srv s)); [|exact I].
    destruct I as [i1 i2 i3 i4 i4a i4b i4c i5 i6 i7].
    constructor; cbn [tasks conns srv wst]; auto; try (intros; discriminate).
    intros _. apply i5. rewrite W. reflexivity.
  - (* WServer *)
    destruct (negb (listening (srv s)) && all_lost (conns s)) eqn:C;
      [|exact I].
    apply andb_true_iff in C. destruct C as [C1 C2]. apply negb_true_iff in C1.
    destruct I as [i1 i2 i3 i4 i4a i4b i4c i5 i6 i7].
    constructor; cbn [tasks conns srv wst]; auto; try (intros; discriminate).
    + intros _. apply i5. rewrite W. reflexivity.
    + intros snap E. inversion E; subst snap. split; auto. split; auto.
      intros t Ht U. destruct (i3 t Ht) as (k & Ek & Hk). destruct (Hk U) as [h1 h2].
      unfold snapshot. apply in_map_iff. exists t. split; auto.
      apply filter_In. split; auto. rewrite Ek, h1, andb_true_r.
      apply h2. apply i4.
      * unfold conn_at in Ek. eapply nth_error_In; eauto.
      * unfold all_lost in C2. rewrite forallb_forall in C2. apply C2.
        unfold conn_at in Ek. eapply nth_error_In; eauto.
  - (* WSub *)
    destruct (forallb (task_done (tasks s)) snap) eqn:F; [|exact I].
    destruct I as [i1 i2 i3 i4 i4a i4b i4c i5 i6 i7].
    destruct (i6 snap W) as (l1 & l2 & l3).
    constructor; cbn [tasks conns srv wst]; auto; try (intros; discriminate).
    + intros _. apply i5. rewrite W. reflexivity.
    + intros _. split; auto. split; auto. intros t Ht.
      destruct (unfinished t) eqn:U; auto.
      rewrite forallb_forall in F. specialize (F _ (l3 t Ht U)).
      unfold task_done, key in F. cbn in F. rewrite (find_task_nodup _ _ i2 Ht), U in F. discriminate.
Qed.

(* --- list helpers --- *)
Lemma nth_error_upd {A} (l : list A) n f m :
  nth_error (upd_nth l n f) m = if m =? n then option_map f (nth_error l m) else nth_error l m.
Proof.
  revert n m. induction l as [|x r IH]; intros n m; cbn.
  - destruct m; destruct (_ =? _); reflexivity.
  - destruct n, m; cbn; auto.
Qed.

Lemma In_upd {A} (l : list A) n f x :
  In x (upd_nth l n f) -> In x l \/ exists y, nth_error l n = Some y /\ x = f y.
Proof.
  revert n. induction l as [|a r IH]; intros n H; cbn in *; [tauto|].
  destruct n; cbn in *.
  - destruct H as [<-|H]; eauto.
  - destruct H as [<-|H]; auto. destruct (IH _ H) as [H1|H1]; auto.
Qed.

Lemma upd_nil {A} (l : list A) n f : upd_nth l n f <> [] -> l <> [].
Proof. destruct l; cbn; congruence. Qed.

Lemma NoDup_snoc {A} (l : list A) x : NoDup l -> ~ In x l -> NoDup (l ++ [x]).
Proof.
  induction l as [|a r IH]; intros ND NI; cbn.
  - constructor; auto.
  - inversion ND; subst. constructor.
    + intros H. apply in_app_or in H. destruct H as [H|[H|[]]]; auto. subst. apply NI. left. reflexivity.
    + apply IH; auto. intros H. apply NI. right. exact H.
Qed.

Lemma find_none_keys c i l : find_task c i l = None -> ~ In (c, i) (keys l).
Proof.
  unfold find_task, keys. induction l as [|x r IH]; cbn; intros H; [tauto|].
  destruct (is_key c i x) eqn:K; [discriminate|]. intros [E|E]; [|apply IH; auto].
  unfold key in E. inversion E; subst. unfold is_key in K. rewrite !Nat.eqb_refl in K. discriminate.
Qed.

Lemma keys_find_none c i l : ~ In (c, i) (keys l) -> find_task c i l = None.
Proof.
  unfold find_task, keys. induction l as [|x r IH]; cbn; intros H; auto.
  destruct (is_key c i x) eqn:K.
  - exfalso. apply H. left. unfold is_key in K. apply andb_true_iff in K. destruct K as [a b].
    apply Nat.eqb_eq in a, b. unfold key. congruence.
  - apply IH. tauto.
Qed.

Lemma new_task_inv c i p b dl : task_inv (new_task c i p b dl).
Proof.
  unfold task_inv, honour_inv, new_task, unfinished; cbn. inv7; auto; try discriminate.
  destruct b; auto.
Qed.

(* --- Open --- *)
Lemma inv_add_task s c i p b dl k :
  Inv s -> conn_at s c = Some k -> proc_open k = true -> find_task c i (tasks s) = None ->
  Inv (mkState (tasks s ++ [new_task c i p b dl]) (conns s) (srv s) (wst s)).
Proof.
  intros I Ek PO F. destruct I as [i1 i2 i3 i4 i4a i4b i4c i5 i6 i7].
  assert (Hin : In k (conns s)) by (unfold conn_at in Ek; eapply nth_error_In; eauto).
  assert (NL : all_lost (conns s) = true -> False).
  { intros A. unfold all_lost in A. rewrite forallb_forall in A.
    rewrite (i4 k Hin (A k Hin)) in PO. discriminate. }
  constructor; cbn [tasks conns srv wst]; auto.
  - apply Forall_app. split; auto. constructor; [apply new_task_inv | constructor].
  - unfold keys. rewrite map_app. cbn. apply NoDup_snoc; auto. apply find_none_keys. exact F.
  - intros t Ht. apply in_app_or in Ht. destruct Ht as [Ht|[<-|[]]].
    + apply i3; auto.
    + cbn. exists k. unfold conn_at in *. cbn. split; auto. intros _. split.
      * destruct (in_handlers k) eqn:H; auto. rewrite (i4a k Hin H) in PO. discriminate.
      * intros Q. congruence.
  - intros snap E. destruct (i6 snap E) as (l1 & l2 & l3). exfalso. auto.
  - intros E. destruct (i7 E) as (l1 & l2 & l3). exfalso. auto.
Qed.

Lemma inv_open s c i p b dl : Inv s -> Inv (step s (Open c i p b dl)).
Proof.
  intros I. cbn [step].
  destruct (conn_at s c) as [k|] eqn:Ek; [|exact I].
  destruct (find_task c i (tasks s)) eqn:F; [exact I|].
  destruct (proc_open k) eqn:PO; [|exact I].
  set (n := S (gcn k)).
  set (g := fun k0 => mkConn (proc_open k0) (lost k0) (closing k0) (in_handlers k0) n (crashed k0)).
  set (f := fun t => if n mod handler_gc_interval =? 0 then (if tc t =? c then collect_task t else t) else t).
  assert (Hf : tfun_ok f).
  { unfold f. destruct (n mod handler_gc_interval =? 0); [apply on_conn_tfun; apply collect_task_ok | apply tfun_id]. }
  assert (E : (if n mod handler_gc_interval =? 0 then on_conn_tasks c collect_task (tasks s) else tasks s)
              = map f (tasks s)).
  { unfold f, on_conn_tasks. destruct (n mod handler_gc_interval =? 0); auto. symmetry. apply map_id. }
  rewrite E.
  assert (I1 : Inv (mkState (map f (tasks s)) (upd_nth (conns s) c g) (srv s) (wst s))).
  { apply inv_map; auto.
    - apply Forall2_upd_same. intros k0. unfold g, conn_same; cbn. auto.
    - apply srv_mono_refl.
    - intros S0. destruct (not_started s I S0) as [C W]. rewrite C. cbn. auto.
    - intros L. apply (inv_cstart s I). auto. }
  apply (inv_add_task _ c i p b dl (g k)) in I1; auto.
  - unfold conn_at in *. cbn. rewrite nth_error_upd, Nat.eqb_refl, Ek. reflexivity.
  - cbn. apply keys_find_none. rewrite keys_map_tfun; auto. apply find_none_keys. exact F.
Qed.

(* --- EventsProcessor.close --- *)
Lemma close_task_cancelled t :
  task_inv t -> unfinished (close_task t) = true -> in_cancelled (close_task t) = true.
Proof.
  intros (h1 & h2 & h3 & h4 & h5 & h6 & h7) U.
  destruct (close_task_ok t) as (_ & _ & _ & _ & e & _). specialize (e U).
  destruct (h5 e) as [IT|IC].
  - unfold close_task, handler_close_task. rewrite IT.
    set (t1 := task_cancel (set_sets t true true)).
    assert (Q : in_cancelled t1 = true).
    { unfold t1, task_cancel. destruct (unfinished (set_sets t true true)); destruct t; reflexivity. }
    destruct (registered t1); auto.
    unfold terminated. destruct (in_wrapper t1); auto.
    unfold task_cancel. destruct (unfinished (set_werr t1 true)); destruct t1; cbn in *; auto.
  - destruct (close_task_ok t) as (_ & _ & _ & _ & _ & g). auto.
Qed.

Lemma inv_processor_close s c b : Inv s -> Inv (processor_close s c b).
Proof.
  intros I. unfold processor_close. destruct (conn_at s c) as [k|] eqn:Ek; [|exact I].
  destruct (lost k) eqn:Lk; [exact I|].
  assert (Hin : In k (conns s)) by (unfold conn_at in Ek; eapply nth_error_In; eauto).
  assert (NL : all_lost (conns s) = true -> False).
  { intros A. unfold all_lost in A. rewrite forallb_forall in A. rewrite (A k Hin) in Lk. discriminate. }
  set (g := fun k0 => set_conn_flags k0 false (b || lost k0) true).
  pose proof (on_conn_tfun c close_task close_task_ok) as Hf.
  destruct I as [i1 i2 i3 i4 i4a i4b i4c i5 i6 i7].
  constructor; unfold on_conn_tasks; cbn [tasks conns srv wst]; auto.
  - apply Forall_map_tfun; auto.
  - rewrite keys_map_tfun; auto.
  - intros t' Ht'. apply in_map_iff in Ht'. destruct Ht' as (t & <- & Ht).
    destruct (i3 t Ht) as (k0 & Ek0 & Hk0). unfold conn_at in *. cbn [conns].
    rewrite Forall_forall in i1. pose proof (i1 t Ht) as It.
    destruct (tc t =? c) eqn:TC.
    + apply Nat.eqb_eq in TC. subst c. rewrite Ek in Ek0. inversion Ek0; subst k0.
      destruct (close_task_ok t) as (a1 & a2 & a3 & a4 & a5 & a6). rewrite a1.
      exists (g k). rewrite nth_error_upd, Nat.eqb_refl, Ek. split; auto.
      intros U. destruct (Hk0 (a5 U)) as [h1 h2]. split; auto.
      intros _. apply close_task_cancelled; auto.
    + exists k0. rewrite nth_error_upd, TC. auto.
  - intros k' Hk' L. apply In_upd in Hk'. destruct Hk' as [Hk'|(y & _ & ->)]; auto.
  - intros k' Hk' L. apply In_upd in Hk'. destruct Hk' as [Hk'|(y & _ & ->)]; auto.
  - intros L k' Hk' C. apply In_upd in Hk'. destruct Hk' as [Hk'|(y & _ & ->)]; auto.
  - intros [NE|NE]; auto. apply i4c. left. eapply upd_nil; eauto.
  - intros snap E. destruct (i6 snap E) as (l1 & l2 & l3). exfalso. auto.
  - intros E. destruct (i7 E) as (l1 & l2 & l3). exfalso. auto.
Qed.

(* --- Connect: Server.__gc_collect__ --- *)
Lemma collect_unfinished t : unfinished (collect_task t) = unfinished t.
Proof. unfold collect_task. destruct (unfinished t) eqn:E; auto. Qed.

Definition gc_rel (l' : list task) (j : nat) (k k' : conn) : Prop :=
  proc_open k' = proc_open k /\ lost k' = lost k /\ closing k' = closing k /\
  (in_handlers k' = in_handlers k \/
   (in_handlers k' = false /\ closing k = true /\
    forall t, In t l' -> tc t = j -> unfinished t = false)).

Lemma server_gc_spec cs : forall l n l' cs',
  Forall task_inv l -> server_gc l cs n = (l', cs') ->
  (exists f, tfun_ok f /\ l' = map f l /\ forall t, unfinished (f t) = unfinished t) /\
  length cs' = length cs /\
  forall j k, nth_error cs j = Some k -> exists k', nth_error cs' j = Some k' /\ gc_rel l' (n + j) k k'.
Proof.
  induction cs as [|k r IH]; intros l n l' cs' Hl E; cbn [server_gc] in E.
  - inversion E; subst. split; [|split; auto].
    + exists (fun t => t). split; [apply tfun_id|]. split; [symmetry; apply map_id | auto].
    + intros j k Hj. destruct j; discriminate.
  - destruct (in_handlers k && closing k) eqn:C.
    + set (l1 := on_conn_tasks n collect_task l) in *.
      assert (Hf1 : tfun_ok (fun t => if tc t =? n then collect_task t else t))
        by (apply on_conn_tfun; apply collect_task_ok).
      assert (Hl1 : Forall task_inv l1) by (unfold l1, on_conn_tasks; apply Forall_map_tfun; auto).
      destruct (server_gc l1 r (S n)) as [l2 r2] eqn:R. inversion E; subst l' cs'. clear E.
      destruct (IH l1 (S n) l2 r2 Hl1 R) as ((f2 & Hf2 & E2 & U2) & Len & Hr).
      split; [|split].
      * exists (fun t => f2 (if tc t =? n then collect_task t else t)). split; [|split].
        -- apply (tfun_compose _ f2); auto.
        -- rewrite E2. unfold l1, on_conn_tasks. rewrite map_map. reflexivity.
        -- intros t. rewrite U2. destruct (tc t =? n); auto. apply collect_unfinished.
      * cbn. rewrite Len. reflexivity.
      * intros j k0 Hj. destruct j; cbn in Hj.
        -- inversion Hj; subst k0. cbn [nth_error]. eexists. split; [reflexivity|].
           apply andb_true_iff in C. destruct C as [C1 C2].
           destruct (handler_idle n l1) eqn:Idle.
           ++ unfold gc_rel; cbn. repeat split; auto. right. repeat split; auto.
              intros t Ht Tc. rewrite Nat.add_0_r in Tc. rewrite E2 in Ht. apply in_map_iff in Ht.
              destruct Ht as (t1 & <- & Ht1). rewrite U2.
              destruct (Hf2 t1) as (a1 & _). rewrite a1 in Tc.
              unfold handler_idle in Idle. rewrite forallb_forall in Idle. specialize (Idle _ Ht1).
              rewrite Forall_forall in Hl1. destruct (Hl1 _ Ht1) as (_ & _ & _ & _ & h5 & _).
              destruct (unfinished t1) eqn:U; auto. destruct (h5 eq_refl) as [X|X];
                rewrite Tc, Nat.eqb_refl, X in Idle; cbn in Idle; rewrite ?orb_true_r in Idle; discriminate.
           ++ unfold gc_rel. repeat split; auto.
        -- destruct (Hr j k0 Hj) as (k' & Ek' & G). exists k'. split; auto.
           replace (n + S j) with (S n + j) by lia. exact G.
    + destruct (server_gc l r (S n)) as [l2 r2] eqn:R. inversion E; subst l' cs'. clear E.
      destruct (IH l (S n) l2 r2 Hl R) as (Hf & Len & Hr).
      split; [auto|split].
      * cbn. rewrite Len. reflexivity.
      * intros j k0 Hj. destruct j; cbn in Hj.
        -- inversion Hj; subst k0. cbn [nth_error]. eexists. split; [reflexivity|].
           unfold gc_rel. repeat split; auto.
        -- destruct (Hr j k0 Hj) as (k' & Ek' & G). exists k'. split; auto.
           replace (n + S j) with (S n + j) by lia. exact G.
Qed.

Lemma inv_connect s : Inv s -> Inv (step s Connect).
Proof.
  intros I. cbn [step]. destruct (listening (srv s)) eqn:L; [|exact I].
  set (n := S (sgc (srv s))).
  destruct (if n mod server_gc_interval =? 0 then server_gc (tasks s) (conns s) 0 else (tasks s, conns s))
    as [l' cs'] eqn:G.
  assert (SP : (exists f, tfun_ok f /\ l' = map f (tasks s) /\ forall t, unfinished (f t) = unfinished t) /\
               length cs' = length (conns s) /\
               forall j k, nth_error (conns s) j = Some k ->
                           exists k', nth_error cs' j = Some k' /\ gc_rel l' j k k').
  { destruct (n mod server_gc_interval =? 0).
    - apply (server_gc_spec (conns s) (tasks s) 0 l' cs'); auto. apply (inv_tasks s I).
    - inversion G; subst. split; [|split; auto].
      + exists (fun t => t). split; [apply tfun_id|]. split; [symmetry; apply map_id|auto].
      + intros j k Hj. exists k. split; auto. unfold gc_rel. repeat split; auto. }
  destruct SP as ((f & Hf & El & Uf) & Len & Hc). clear G.
  destruct I as [i1 i2 i3 i4 i4a i4b i4c i5 i6 i7].
  assert (ST : started (srv s) = true) by (apply i4c; auto).
  assert (Hback : forall k', In k' cs' -> exists j k, nth_error (conns s) j = Some k /\
                                                     nth_error cs' j = Some k' /\ gc_rel l' j k k').
  { intros k' Hk'. apply In_nth_error in Hk'. destruct Hk' as (j & Ej).
    assert (J : j < length (conns s)) by (rewrite <- Len; apply nth_error_Some; congruence).
    apply nth_error_Some in J. destruct (nth_error (conns s) j) as [k|] eqn:Ek; [|congruence].
    destruct (Hc j k Ek) as (k2 & Ek2 & G). rewrite Ej in Ek2. inversion Ek2; subst. eauto. }
  constructor; cbn [tasks conns srv wst]; subst l'.
  - apply Forall_map_tfun; auto.
  - rewrite keys_map_tfun; auto.
  - intros t' Ht'. pose proof Ht' as Hin'. apply in_map_iff in Ht'. destruct Ht' as (t & <- & Ht).
    destruct (Hf t) as (a & b & c & d & e & g).
    destruct (i3 t Ht) as (k & Ek & Hk). unfold conn_at in *. cbn [conns].
    destruct (Hc _ _ Ek) as (k' & Ek' & (g1 & g2 & g3 & g4)).
    exists k'. rewrite a. split.
    + rewrite nth_error_app1; auto. apply nth_error_Some. congruence.
    + intros U. destruct (Hk (e U)) as [h1 h2]. split.
      * destruct g4 as [g4|(g4 & _ & g5)]; [congruence|].
        rewrite (g5 _ Hin' a) in U. discriminate.
      * intros PO. apply g; auto. apply h2. congruence.
  - intros k' Hk' Lk. apply in_app_or in Hk'. destruct Hk' as [Hk'|[<-|[]]]; [|discriminate].
    destruct (Hback _ Hk') as (j & k & Ek & _ & (g1 & g2 & g3 & g4)).
    rewrite g1. apply i4; [eapply nth_error_In; eauto | congruence].
  - intros k' Hk' Lk. apply in_app_or in Hk'. destruct Hk' as [Hk'|[<-|[]]]; [|discriminate].
    destruct (Hback _ Hk') as (j & k & Ek & _ & (g1 & g2 & g3 & g4)).
    rewrite g1. destruct g4 as [g4|(_ & g4 & _)].
    + apply i4a; [eapply nth_error_In; eauto | congruence].
    + apply i4b; auto. eapply nth_error_In; eauto.
  - intros _ k' Hk' Ck. apply in_app_or in Hk'. destruct Hk' as [Hk'|[<-|[]]]; [|discriminate].
    destruct (Hback _ Hk') as (j & k & Ek & _ & (g1 & g2 & g3 & g4)).
    rewrite g1. apply i4b; auto; [eapply nth_error_In; eauto | congruence].
  - intros _. exact ST.
  - intros _. exact ST.
  - intros snap E. destruct (i6 snap E) as (l1 & _). congruence.
  - intros E. destruct (i7 E) as (l1 & _). congruence.
Qed.

Theorem step_inv s o : Inv s -> Inv (step s o).
Proof.
  intros I. destruct o.
  - apply inv_start; auto.
  - apply inv_connect; auto.
  - apply inv_open; auto.
  - cbn [step]. destruct (conn_open s c); [|exact I].
    apply (inv_map_tasks s _ I (on_task_tfun c i _ msg_task_ok)).
  - cbn [step]. destruct (conn_open s c); [|exact I].
    apply (inv_map_tasks s _ I (on_task_tfun c i _ credit_task_ok)).
  - cbn [step]. apply (inv_map_tasks s _ I tick_task_ok).
  - cbn [step]. destruct (conn_open s c); [|exact I].
    destruct (find_task c i (tasks s)) as [t|]; [|exact I].
    destruct (registered t && negb (h2reset t)); [|exact I].
    apply inv_map; auto.
    + apply on_task_tfun. apply rst_task_ok.
    + apply Forall2_refl_same.
    + apply srv_mono_refl.
    + intros S0. apply not_started; auto.
    + intros L. apply (inv_cstart s I). auto.
  - cbn [step]. apply (inv_map_tasks s _ I (on_task_tfun c i _ deadline_task_ok)).
  - cbn [step]. destruct (conn_open s c); [|exact I]. apply inv_processor_close; auto.
  - cbn [step]. apply inv_processor_close; auto.
  - apply inv_srvclose; auto.
  - apply inv_waitclosed; auto.
  - cbn [step]. apply (inv_map_tasks s _ I (on_task_tfun c i _ run_task_ok)).
  - apply inv_runw; auto.
Qed.

Lemma inv_init : Inv init.
Proof.
  constructor; cbn; auto; try (intros; discriminate); try (intros; tauto).
  all: try constructor.
  all: try (intros [H|H]; congruence).
Qed.

Theorem run_ops_inv ops : forall s, Inv s -> Inv (run_ops ops s).
Proof. unfold run_ops. induction ops as [|o r IH]; intros s I; cbn; auto. apply IH. apply step_inv; auto. Qed.

Corollary reachable_inv ops : Inv (run_ops ops init).
Proof. apply run_ops_inv. apply inv_init. Qed.

(* ---------------------------------------------------------------------------------------------- *)
(* 5. counting CancelledError deliveries                                                            *)

Ltac conj_split := repeat match goal with |- _ /\ _ => split end.

Definition pend (t : task) : nat := ncancel t + (if cancel_req t then 1 else 0).
Definition started_t (t : task) : bool := match ph t with Created _ => false | _ => true end.

(* what a cancellation cause may do to a task: set the pending-cancel flag, nothing else that counts *)
Definition flagger (f : task -> task) : Prop :=
  forall t, key (f t) = key t /\ tbeh (f t) = tbeh t /\ ph (f t) = ph t /\ ncancel (f t) = ncancel t /\
            nhit (f t) = nhit t /\ cleanup_done (f t) = cleanup_done t /\
            (cancel_req t = true -> cancel_req (f t) = true) /\
            (late (f t) = true -> late t = true \/ is_cleanup t = true).

(* what every other operation may do: never create a delivery out of nothing *)
Definition quiet (f : task -> task) : Prop :=
  forall t, key (f t) = key t /\ tbeh (f t) = tbeh t /\
            pend (f t) <= pend t /\
            (started_t t = true -> pend (f t) = pend t /\ started_t (f t) = true) /\
            (late (f t) = true -> late t = true) /\
            (nhit t <= nhit (f t)).

Lemma flagger_id : flagger (fun t => t).
Proof. intros t. conj_split; auto. Qed.
Lemma quiet_id : quiet (fun t => t).
Proof. intros t. conj_split; auto. Qed.

Lemma flagger_compose f g : flagger f -> flagger g -> flagger (fun t => g (f t)).
Proof.
  intros Hf Hg t. destruct (Hf t) as (a1 & a2 & a3 & a4 & a5 & a6 & a7 & a8).
  destruct (Hg (f t)) as (b1 & b2 & b3 & b4 & b5 & b6 & b7 & b8).
  conj_split; try congruence; auto.
  intros L. destruct (b8 L) as [X|X]; auto. right. unfold is_cleanup in *. rewrite a3 in X. exact X.
Qed.

Lemma flagger_if (c : task -> bool) f g : flagger f -> flagger g -> flagger (fun t => if c t then f t else g t).
Proof. intros Hf Hg t. destruct (c t); [apply Hf | apply Hg]. Qed.
Lemma quiet_if (c : task -> bool) f g : quiet f -> quiet g -> quiet (fun t => if c t then f t else g t).
Proof. intros Hf Hg t. destruct (c t); [apply Hf | apply Hg]. Qed.

Lemma quiet_compose f g : quiet f -> quiet g -> quiet (fun t => g (f t)).
Proof.
  intros Hf Hg t. destruct (Hf t) as (a1 & a2 & a3 & a4 & a5 & a6).
  destruct (Hg (f t)) as (b1 & b2 & b3 & b4 & b5 & b6).
  conj_split; try congruence; auto; try lia.
  intros S. destruct (a4 S) as [x y]. destruct (b4 y). split; [lia|auto].
Qed.

Ltac open_t t :=
  destruct t as [xc xi xb xtm xp xcr xib xcd xsl xwe xrg xit xic xhr xcb xnc xnh xlt xcdn xnr];
  unfold key, pend, started_t, unfinished, in_wrapper, is_cleanup in *; cbn in *.

Lemma flagger_task_cancel : flagger task_cancel.
Proof.
  intros t. unfold task_cancel. destruct (unfinished t) eqn:U; [|conj_split; auto].
  open_t t. conj_split; auto. intros L. apply orb_true_iff in L. destruct L; auto.
Qed.

Lemma flagger_set_werr v : flagger (fun t => set_werr t v).
Proof. intros t. open_t t. conj_split; auto. Qed.
Lemma flagger_set_timer v : flagger (fun t => set_timer t v).
Proof. intros t. open_t t. conj_split; auto. Qed.
Lemma flagger_set_h2reset v : flagger (fun t => set_h2reset t v).
Proof. intros t. open_t t. conj_split; auto. Qed.
Lemma flagger_set_sets a b : flagger (fun t => set_sets t a b).
Proof. intros t. open_t t. conj_split; auto. Qed.

Lemma flagger_terminated : flagger terminated.
Proof.
  unfold terminated. apply flagger_if; [|apply flagger_id].
  apply (flagger_compose (fun t => set_werr t true) task_cancel);
    [apply flagger_set_werr | apply flagger_task_cancel].
Qed.

Lemma flagger_handler_close : flagger handler_close_task.
Proof.
  unfold handler_close_task. apply flagger_if; [|apply flagger_id].
  apply (flagger_compose (fun t => set_sets t true true) task_cancel);
    [apply flagger_set_sets | apply flagger_task_cancel].
Qed.

Lemma flagger_close_task : flagger close_task.
Proof.
  unfold close_task.
  apply (flagger_compose handler_close_task (fun t1 => if registered t1 then terminated t1 else t1)).
  - apply flagger_handler_close.
  - apply flagger_if; [apply flagger_terminated | apply flagger_id].
Qed.

Lemma flagger_rst_task : flagger rst_task.
Proof.
  unfold rst_task.
  apply (flagger_compose (fun t => terminated (set_h2reset t true))
                         (fun t1 => if in_tasks t1 then task_cancel (set_sets t1 false true) else t1)).
  - apply (flagger_compose (fun t => set_h2reset t true) terminated);
      [apply flagger_set_h2reset | apply flagger_terminated].
  - apply flagger_if; [|apply flagger_id].
    apply (flagger_compose (fun t => set_sets t false true) task_cancel);
      [apply flagger_set_sets | apply flagger_task_cancel].
Qed.

Lemma flagger_deadline :
  flagger (fun t => if timer t && in_wrapper t then task_cancel (set_werr (set_timer t false) true) else t).
Proof.
  apply flagger_if; [|apply flagger_id].
  apply (flagger_compose (fun t => set_werr (set_timer t false) true) task_cancel); [|apply flagger_task_cancel].
  apply (flagger_compose (fun t => set_timer t false) (fun t => set_werr t true));
    [apply flagger_set_timer | apply flagger_set_werr].
Qed.

Lemma quiet_set_wait a b c : quiet (fun t => set_wait t (a t) (b t) (c t)).
Proof. intros t. open_t t. conj_split; auto. Qed.

Lemma quiet_collect : quiet collect_task.
Proof.
  intros t. unfold collect_task. destruct (unfinished t); [conj_split; auto|].
  open_t t. conj_split; auto.
Qed.

Lemma quiet_tick :
  quiet (fun t => match ph t with
                  | Running AS _ | Cleanup _ => set_wait t (inbox t) (credit t) true
                  | _ => t end).
Proof.
  intros t. destruct (ph t) as [p|k r|n|] eqn:P; [| destruct k | |]; conj_split; auto.
Qed.

Lemma quiet_run_task : quiet run_task.
Proof.
  intros t. unfold run_task.
  destruct (ph t) as [p | k r | n |] eqn:P.
  - destruct (cancel_req t) eqn:CR.
    + open_t t. subst. conj_split; auto; try lia; try discriminate.
    + pose proof (advance_static p t) as S. cbv zeta in S.
      destruct S as (s1 & s2 & s3 & s4 & s5 & s6 & s7 & s8 & s9 & s10 & s11 & s12 & s13).
      unfold key, pend, started_t. rewrite s1, s2, s3, s4, s10, s11, s12, P.
      conj_split; auto; try discriminate.
  - destruct (cancel_req t) eqn:CR.
    + destruct (tbeh t) as [[|m]|] eqn:B.
      * open_t t. subst. conj_split; auto; lia.
      * open_t t. subst. conj_split; auto; lia.
      * set (t1 := set_wait (set_hist (set_cancel_req t false) (S (ncancel t)) (nhit t) (cleanup_done t))
                            (inbox t) (credit t) false).
        pose proof (advance_static r t1) as S. cbv zeta in S.
        destruct S as (s1 & s2 & s3 & s4 & s5 & s6 & s7 & s8 & s9 & s10 & s11 & s12 & s13).
        assert (F : tc t1 = tc t /\ ti t1 = ti t /\ tbeh t1 = tbeh t /\ cancel_req t1 = false /\
                    ncancel t1 = S (ncancel t) /\ late t1 = late t /\ nhit t1 = nhit t)
          by (destruct t; cbn; conj_split; reflexivity).
        destruct F as (f1 & f2 & f3 & f4 & f5 & f6 & f7).
        unfold key, pend, started_t. rewrite s1, s2, s3, s4, s10, s11, s12, f1, f2, f3, f4, f5, f6, f7, CR, P.
        destruct (advance_phase r t1) as [(E & _)|(k' & r' & E & _)]; rewrite E;
          conj_split; auto; lia.
    + pose proof (advance_static (k :: r) t) as S. cbv zeta in S.
      destruct S as (s1 & s2 & s3 & s4 & s5 & s6 & s7 & s8 & s9 & s10 & s11 & s12 & s13).
      unfold key, pend, started_t. rewrite s1, s2, s3, s4, s10, s11, s12, P.
      destruct (advance_phase (k :: r) t) as [(E & _)|(k' & r' & E & _)]; rewrite E;
        conj_split; auto.
  - destruct (cancel_req t) eqn:CR.
    + open_t t. subst. conj_split; auto; lia.
    + destruct (slept t); [|conj_split; auto]. destruct n; open_t t; subst; conj_split; auto.
  - destruct (cb_pending t); [|conj_split; auto]. open_t t. subst. conj_split; auto.
Qed.

(* the task list after one operation: every existing task transformed by one function (a flagger for a
   cancellation cause, a quiet function otherwise), plus possibly one fresh task *)
Definition fresh (t : task) : Prop := pend t = 0 /\ late t = false /\ nhit t = 0.

Lemma step_shape s o :
  exists f extra, tasks (step s o) = map f (tasks s) ++ extra /\
                  (if is_cause o then flagger f else quiet f) /\ Forall fresh extra.
Proof.
  assert (ID : forall b : bool, if b then flagger (fun t => t) else quiet (fun t => t))
    by (intros []; [apply flagger_id | apply quiet_id]).
  assert (SAME : forall b : bool, exists f extra, tasks s = map f (tasks s) ++ extra /\
                      (if b then flagger f else quiet f) /\ Forall fresh extra).
  { intros b. exists (fun t => t), []. rewrite map_id, app_nil_r. split; [reflexivity|]. split; [apply ID | constructor]. }
  destruct o; cbn [step is_cause].
  - (* Start *) destruct (started (srv s)); apply (SAME false).
  - (* Connect *)
    destruct (listening (srv s)); [|apply (SAME false)].
    destruct (S (sgc (srv s)) mod server_gc_interval =? 0); [|cbn; apply (SAME false)].
    destruct (server_gc (tasks s) (conns s) 0) as [l cs] eqn:G. cbn [tasks].
    assert (Q : forall cs l n l' cs', server_gc l cs n = (l', cs') -> exists f, quiet f /\ l' = map f l).
    { clear. induction cs as [|k r IH]; intros l n l' cs' E; cbn [server_gc] in E.
      - inversion E; subst. exists (fun t => t). split; [apply quiet_id | symmetry; apply map_id].
      - destruct (in_handlers k && closing k).
        + destruct (server_gc (on_conn_tasks n collect_task l) r (S n)) as [l2 r2] eqn:R.
          inversion E; subst. destruct (IH _ _ _ _ R) as (f2 & Q2 & E2).
          exists (fun t => f2 (if tc t =? n then collect_task t else t)). split.
          * apply (quiet_compose _ f2); auto.
            apply (quiet_if (fun t => tc t =? n)); [apply quiet_collect | apply quiet_id].
          * rewrite E2. unfold on_conn_tasks. rewrite map_map. reflexivity.
        + destruct (server_gc l r (S n)) as [l2 r2] eqn:R. inversion E; subst. eapply IH; eauto. }
    destruct (Q _ _ _ _ _ G) as (f & Qf & Ef). exists f, []. rewrite app_nil_r. auto.
  - (* Open *)
    destruct (conn_at s c) as [k|]; [|apply (SAME false)].
    destruct (find_task c i (tasks s)); [apply (SAME false)|].
    destruct (proc_open k); [|apply (SAME false)]. cbn [tasks].
    destruct (S (gcn k) mod handler_gc_interval =? 0).
    + exists (fun t => if tc t =? c then collect_task t else t), [new_task c i p b dl]. split; auto. split.
      * apply (quiet_if (fun t => tc t =? c)); [apply quiet_collect | apply quiet_id].
      * constructor; [|constructor]. unfold fresh, pend; cbn. auto.
    + exists (fun t => t), [new_task c i p b dl]. rewrite map_id. split; auto. split; [apply quiet_id|].
      constructor; [|constructor]. unfold fresh, pend; cbn. auto.
  - (* Msg *) destruct (conn_open s c); [|apply (SAME false)]. cbn [tasks].
    eexists _, []. rewrite app_nil_r. split; [reflexivity|]. split; auto.
    apply quiet_if; [|apply quiet_id]. apply quiet_if; [|apply quiet_id].
    apply (quiet_set_wait (fun t => S (inbox t)) credit slept).
  - (* Credit *) destruct (conn_open s c); [|apply (SAME false)]. cbn [tasks].
    eexists _, []. rewrite app_nil_r. split; [reflexivity|]. split; auto.
    apply quiet_if; [|apply quiet_id]. apply quiet_if; [|apply quiet_id].
    apply (quiet_set_wait inbox (fun t => S (credit t)) slept).
  - (* Tick *) cbn [tasks]. eexists _, []. rewrite app_nil_r. split; [reflexivity|]. split; auto.
    apply quiet_tick.
  - (* Rst *) destruct (conn_open s c); [|apply (SAME true)].
    destruct (find_task c i (tasks s)) as [t|]; [|apply (SAME true)].
    destruct (registered t && negb (h2reset t)); [|apply (SAME true)]. cbn [tasks].
    eexists _, []. rewrite app_nil_r. split; [reflexivity|]. split; auto.
    apply flagger_if; [apply flagger_rst_task | apply flagger_id].
  - (* Deadline *) cbn [tasks]. eexists _, []. rewrite app_nil_r. split; [reflexivity|]. split; auto.
    apply flagger_if; [apply flagger_deadline | apply flagger_id].
  - (* Goaway *) destruct (conn_open s c); [|apply (SAME true)].
    unfold processor_close. destruct (conn_at s c) as [k|]; [|apply (SAME true)].
    destruct (lost k); [apply (SAME true)|]. cbn [tasks].
    eexists _, []. rewrite app_nil_r. split; [reflexivity|]. split; auto.
    apply (flagger_if (fun t => tc t =? c)); [apply flagger_close_task | apply flagger_id].
  - (* Lost *)
    unfold processor_close. destruct (conn_at s c) as [k|]; [|apply (SAME true)].
    destruct (lost k); [apply (SAME true)|]. cbn [tasks].
    eexists _, []. rewrite app_nil_r. split; [reflexivity|]. split; auto.
    apply (flagger_if (fun t => tc t =? c)); [apply flagger_close_task | apply flagger_id].
  - (* SrvClose *) destruct (started (srv s)); [|apply (SAME true)]. cbn [tasks].
    eexists _, []. rewrite app_nil_r. split; [reflexivity|]. split; auto.
    intros t. destruct (conn_at s (tc t)) as [k|]; [|apply flagger_id].
    destruct (in_handlers k); [apply flagger_handler_close | apply flagger_id].
  - (* WaitClosed *) destruct (wst s); apply (SAME false).
  - (* Run *) cbn [tasks]. eexists _, []. rewrite app_nil_r. split; [reflexivity|]. split; auto.
    apply quiet_if; [apply quiet_run_task | apply quiet_id].
  - (* RunW *)
    destruct (wst s); try apply (SAME false).
    + destruct (latch (srv s)); apply (SAME false).
    + destruct (negb (listening (srv s)) && all_lost (conns s)); apply (SAME false).
    + destruct (forallb (task_done (tasks s)) snap); apply (SAME false).
Qed.

Fixpoint count_causes (ops : list op) : nat :=
  match ops with [] => 0 | o :: r => (if is_cause o then 1 else 0) + count_causes r end.

Lemma flagger_pend f t : flagger f -> pend (f t) <= pend t + 1.
Proof.
  intros Hf. destruct (Hf t) as (_ & _ & _ & a & _ & _ & b & _). unfold pend. rewrite a.
  destruct (cancel_req t); [rewrite (b eq_refl); lia|]. destruct (cancel_req (f t)); lia.
Qed.

(* (a) every CancelledError a handler sees is accounted for by a distinct cause *)
Lemma deliveries_le_causes_gen ops : forall s n,
  (forall t, In t (tasks s) -> pend t <= n) ->
  forall t, In t (tasks (run_ops ops s)) -> pend t <= n + count_causes ops.
Proof.
  unfold run_ops. induction ops as [|o r IH]; intros s n H t Ht; cbn in *.
  - rewrite Nat.add_0_r. auto.
  - destruct (step_shape s o) as (f & extra & E & Hf & Hx).
    apply (IH (step s o) (n + (if is_cause o then 1 else 0))) in Ht; [lia|].
    intros t' Ht'. rewrite E in Ht'. apply in_app_or in Ht'. destruct Ht' as [Ht'|Ht'].
    + apply in_map_iff in Ht'. destruct Ht' as (t0 & <- & Ht0). specialize (H _ Ht0).
      destruct (is_cause o).
      * pose proof (flagger_pend f t0 Hf). lia.
      * destruct (Hf t0) as (_ & _ & a & _). lia.
    + rewrite Forall_forall in Hx. destruct (Hx _ Ht') as (a & _). lia.
Qed.

Theorem deliveries_le_causes ops t :
  In t (tasks (run_ops ops init)) -> ncancel t <= count_causes ops.
Proof.
  intros Ht. pose proof (deliveries_le_causes_gen ops init 0) as H. cbn in H.
  specialize (H (fun _ F => match F with end) t Ht). unfold pend in H. lia.
Qed.

(* (b) a started task followed through operations that are not causes keeps its count exactly *)
Lemma benign_keeps_pend ops : forall s t,
  forallb (fun o => negb (is_cause o)) ops = true ->
  In t (tasks s) -> started_t t = true ->
  exists t', In t' (tasks (run_ops ops s)) /\ key t' = key t /\ pend t' = pend t /\ started_t t' = true.
Proof.
  unfold run_ops. induction ops as [|o r IH]; intros s t B Ht St; cbn in *.
  - exists t. auto.
  - apply andb_true_iff in B. destruct B as [B1 B2]. apply negb_true_iff in B1.
    destruct (step_shape s o) as (f & extra & E & Hf & Hx). rewrite B1 in Hf.
    destruct (Hf t) as (a & b & c & d & e & g). destruct (d St) as [d1 d2].
    destruct (IH (step s o) (f t) B2) as (t' & h1 & h2 & h3 & h4); auto.
    + rewrite E. apply in_or_app. left. apply in_map. exact Ht.
    + exists t'. repeat split; auto; congruence.
Qed.

(* a cause sets the flag at most; together: exactly one CancelledError per cause that reaches a
   running task, delivered when the task next runs *)
Theorem single_cause_one_delivery s o ops t :
  is_cause o = true -> forallb (fun o => negb (is_cause o)) ops = true ->
  In t (tasks s) -> started_t t = true -> cancel_req t = false ->
  exists t1 t', In t1 (tasks (step s o)) /\ key t1 = key t /\ ncancel t1 = ncancel t /\
                In t' (tasks (run_ops ops (step s o))) /\ key t' = key t /\
                ncancel t' + (if cancel_req t' then 1 else 0)
                = ncancel t + (if cancel_req t1 then 1 else 0).
Proof.
  intros C B Ht St CR.
  destruct (step_shape s o) as (f & extra & E & Hf & Hx). rewrite C in Hf.
  destruct (Hf t) as (a1 & a2 & a3 & a4 & a5 & a6 & a7 & a8).
  assert (H1 : In (f t) (tasks (step s o))).
  { rewrite E. apply in_or_app. left. apply in_map. exact Ht. }
  assert (S1 : started_t (f t) = true) by (unfold started_t in *; rewrite a3; exact St).
  destruct (benign_keeps_pend ops (step s o) (f t) B H1 S1) as (t' & h1 & h2 & h3 & h4).
  exists (f t), t'. repeat split; auto; try congruence.
  unfold pend in h3. rewrite h3, a4. reflexivity.
Qed.

Lemma run_delivers t :
  cancel_req t = true -> unfinished t = true ->
  cancel_req (run_task t) = false /\
  (started_t t = true -> ncancel (run_task t) = S (ncancel t)).
Proof.
  intros CR U. unfold run_task, unfinished, started_t in *.
  destruct (ph t) as [p|k r|n|] eqn:P; rewrite ?CR; try discriminate.
  - split; [destruct t; reflexivity | discriminate].
  - destruct (tbeh t) as [[|m]|]; try (split; intros; destruct t; reflexivity).
    pose proof (advance_static r (set_wait (set_hist (set_cancel_req t false) (S (ncancel t)) (nhit t)
                                  (cleanup_done t)) (inbox t) (credit t) false)) as S.
    cbv zeta in S. destruct S as (_ & _ & _ & s4 & _ & _ & _ & _ & _ & s10 & _). rewrite s4, s10.
    split; intros; destruct t; reflexivity.
  - split; intros; destruct t; reflexivity.
Qed.

(* ---------------------------------------------------------------------------------------------- *)
(* 6. cancelled once, cleanup completes (partial) -- and the refutation                             *)

(* from the invariant: for a handler that honours cancellation, unless some cancel() call reached it
   while it was inside its cleanup (ghost flag `late`), it sees at most one CancelledError, none
   inside the cleanup, and a cleanup that was started ran to completion when the task is done *)
Theorem cancelled_once_partial ops t c :
  In t (tasks (run_ops ops init)) -> tbeh t = Honour c -> late t = false ->
  ncancel t <= 1 /\ nhit t = 0 /\ (ph t = Finished -> ncancel t = 1 -> cleanup_done t = true).
Proof.
  intros Ht B L. pose proof (reachable_inv ops) as I.
  pose proof (inv_tasks _ I) as F. rewrite Forall_forall in F.
  destruct (F t Ht) as (_ & _ & _ & _ & _ & _ & h7). unfold honour_inv in h7. rewrite B in h7.
  destruct (ph t) eqn:P.
  - destruct h7 as (a & b & _). repeat split; try lia; try discriminate.
  - destruct h7 as (a & b & _). repeat split; try lia; try discriminate.
  - destruct h7 as (a & b & _). repeat split; try lia; try discriminate.
  - destruct (h7 L) as (a & b & d). repeat split; auto.
Qed.

(* the ghost flag at the level of traces: it can only be raised by a cause that arrives while the
   task is in its cleanup *)
Fixpoint calm (ops : list op) (s : state) : Prop :=
  match ops with
  | [] => True
  | o :: r => (is_cause o = true -> forall t, In t (tasks s) -> is_cleanup t = false) /\ calm r (step s o)
  end.

Lemma calm_no_late ops : forall s,
  calm ops s -> (forall t, In t (tasks s) -> late t = false) ->
  forall t, In t (tasks (run_ops ops s)) -> late t = false.
Proof.
  unfold run_ops. induction ops as [|o r IH]; intros s C H t Ht; cbn in *; auto.
  destruct C as [C1 C2]. apply (IH (step s o)); auto.
  intros t' Ht'. destruct (step_shape s o) as (f & extra & E & Hf & Hx).
  rewrite E in Ht'. apply in_app_or in Ht'. destruct Ht' as [Ht'|Ht'].
  - apply in_map_iff in Ht'. destruct Ht' as (t0 & <- & Ht0).
    destruct (late (f t0)) eqn:L; auto. exfalso.
    destruct (is_cause o) eqn:Co.
    + destruct (Hf t0) as (_ & _ & _ & _ & _ & _ & _ & a8). destruct (a8 L) as [X|X].
      * rewrite (H _ Ht0) in X. discriminate.
      * rewrite (C1 eq_refl _ Ht0) in X. discriminate.
    + destruct (Hf t0) as (_ & _ & _ & _ & a5 & _). rewrite (H _ Ht0) in a5. discriminate (a5 L).
  - rewrite Forall_forall in Hx. apply Hx; auto.
Qed.

Theorem cancelled_once_calm ops t c :
  calm ops init -> In t (tasks (run_ops ops init)) -> tbeh t = Honour c ->
  ncancel t <= 1 /\ nhit t = 0 /\ (ph t = Finished -> ncancel t = 1 -> cleanup_done t = true).
Proof.
  intros C Ht B. apply (cancelled_once_partial ops t c); auto.
  apply (calm_no_late ops init C); auto. intros t' [].
Qed.

(* D20: Server.close(), the handler starts its cleanup, the connection drops *)
Definition d20_ops : list op :=
  [Start; Connect; Open 0 0 [AS] (Honour 2) false; Run 0 0; SrvClose; Run 0 0; Lost 0; Run 0 0].

Theorem cancelled_once_refuted :
  exists ops t c, In t (tasks (run_ops ops init)) /\ tbeh t = Honour c /\
                  ncancel t = 2 /\ nhit t = 1 /\ ph t = Finished /\ cleanup_done t = false.
Proof.
  exists d20_ops. eexists. exists 2. vm_compute. split; [left; reflexivity|]. repeat split; reflexivity.
Qed.

(* ---------------------------------------------------------------------------------------------- *)
(* 7. release                                                                                       *)

Theorem released_at_most_once ops t :
  In t (tasks (run_ops ops init)) ->
  nrel t <= 1 /\ (registered t = true <-> nrel t = 0) /\
  (unfinished t = true -> registered t = true) /\
  (ph t = Finished -> cb_pending t = false -> registered t = false /\ nrel t = 1).
Proof.
  intros Ht. pose proof (inv_tasks _ (reachable_inv ops)) as F. rewrite Forall_forall in F.
  destruct (F t Ht) as (h1 & h2 & h3 & h4 & _).
  destruct (registered t) eqn:R.
  - rewrite (h1 eq_refl). split; [lia|]. split; [tauto|]. split; [auto|].
    intros P CB. unfold unfinished in h4. rewrite P in h4. specialize (h4 eq_refl). congruence.
  - rewrite (h2 eq_refl). split; [lia|]. split; [split; intros; [discriminate|lia]|]. split; [|auto].
    intros U. destruct (h3 U). congruence.
Qed.

Lemma find_on_task c i f l :
  (forall t, tc (f t) = tc t /\ ti (f t) = ti t) ->
  find_task c i (on_task c i f l) = option_map f (find_task c i l).
Proof.
  intros Hf. unfold find_task, on_task. induction l as [|x r IH]; cbn; auto.
  destruct (is_key c i x) eqn:K.
  - assert (K' : is_key c i (f x) = true) by (unfold is_key in *; destruct (Hf x) as [a b]; rewrite a, b; exact K).
    rewrite K'. reflexivity.
  - rewrite K. exact IH.
Qed.

(* a finished handler task has released its stream after (at most) one more callback of the loop,
   including the task that was cancelled before it ever ran *)
Theorem finished_is_released ops c i t :
  find_task c i (tasks (run_ops ops init)) = Some t -> unfinished t = false ->
  exists t', find_task c i (tasks (step (run_ops ops init) (Run c i))) = Some t' /\
             registered t' = false /\ nrel t' = 1 /\ cb_pending t' = false.
Proof.
  intros F U. set (s := run_ops ops init) in *.
  assert (Ht : In t (tasks s)) by (apply find_some in F; tauto).
  pose proof (inv_tasks _ (reachable_inv ops)) as Fa. rewrite Forall_forall in Fa.
  destruct (Fa t Ht) as (h1 & h2 & h3 & h4 & _). fold s in Fa.
  cbn [step tasks]. rewrite find_on_task.
  - rewrite F. cbn. eexists. split; [reflexivity|].
    unfold run_task. unfold unfinished in U. destruct (ph t) eqn:P; try discriminate.
    specialize (h4 ltac:(unfold unfinished; rewrite P; reflexivity)).
    destruct (cb_pending t) eqn:CB.
    + rewrite h4 in h1. specialize (h1 eq_refl). destruct t; cbn in *. subst. auto.
    + rewrite (h2 h4). auto.
  - intros t0. destruct (run_task_ok t0) as (a & b & _). auto.
Qed.

Example never_ran_is_released :
  let s := run_ops [Start; Connect; Open 0 0 [AR; AS] (Honour 1) false; Rst 0 0; Run 0 0; Run 0 0] init in
  exists t, find_task 0 0 (tasks s) = Some t /\ ph t = Finished /\ ncancel t = 0 /\
            registered t = false /\ nrel t = 1.
Proof. vm_compute. eexists. repeat split; reflexivity. Qed.

(* ---------------------------------------------------------------------------------------------- *)
(* 8. Server.wait_closed                                                                            *)

Theorem wait_closed_safe ops :
  wst (run_ops ops init) = WDone ->
  forall t, In t (tasks (run_ops ops init)) -> ph t = Finished.
Proof.
  intros W t Ht. destruct (inv_done _ (reachable_inv ops) W) as (_ & _ & H).
  specialize (H t Ht). unfold unfinished in H. destruct (ph t); try discriminate. reflexivity.
Qed.

Definition wait_started (w : wstage) : bool :=
  match w with WLatch | WServer | WSub _ => true | _ => false end.

Lemma all_done_snapshot l snap :
  (forall t, In t l -> unfinished t = false) -> forallb (task_done l) snap = true.
Proof.
  intros H. apply forallb_forall. intros k _. unfold task_done, find_task.
  destruct (find (is_key (fst k) (snd k)) l) eqn:F; auto.
  apply find_some in F. destruct F as [F _]. rewrite (H _ F). reflexivity.
Qed.

(* once Server.close() was called, every connection is gone (the Python 3.12 condition of
   asyncio.Server.wait_closed) and every handler task is done, three stages of the waiter finish it *)
Theorem wait_closed_live s :
  wait_started (wst s) = true ->
  latch (srv s) = true -> listening (srv s) = false -> all_lost (conns s) = true ->
  (forall t, In t (tasks s) -> unfinished t = false) ->
  wst (run_ops [RunW; RunW; RunW] s) = WDone.
Proof.
  intros W La Li Al Fin. unfold run_ops. cbn [fold_left].
  destruct (wst s) eqn:E; try discriminate.
  - cbn [step]. rewrite E, La. cbn [step wst srv conns tasks]. rewrite Li, Al. cbn [negb andb].
    cbn [step wst tasks]. rewrite (all_done_snapshot _ _ Fin). reflexivity.
  - cbn [step]. rewrite E, Li, Al. cbn [negb andb].
    cbn [step wst tasks]. rewrite (all_done_snapshot _ _ Fin). cbn [step wst]. reflexivity.
  - cbn [step]. rewrite E, (all_done_snapshot _ _ Fin). cbn [step wst]. reflexivity.
Qed.

(* D10 in the model: with the Python 3.12 semantics an open connection -- even an idle one -- keeps
   wait_closed() from ever returning, no matter how often the waiter is scheduled *)
Lemma runw_stuck s : wst s = WServer -> all_lost (conns s) = false -> step s RunW = s.
Proof. intros W A. cbn [step]. rewrite W, A, andb_false_r. reflexivity. Qed.

Theorem wait_closed_blocked_by_open_connection s n :
  wst s = WServer -> all_lost (conns s) = false -> wst (run_ops (repeat RunW n) s) = WServer.
Proof.
  intros W A. induction n as [|n IH]; [exact W|].
  unfold run_ops in *. cbn [repeat fold_left]. rewrite (runw_stuck s W A). exact IH.
Qed.

Definition d10_ops : list op :=
  [Start; Connect; Connect; Open 0 0 [AS] (Honour 1) false; Run 0 0; SrvClose; WaitClosed;
   Run 0 0; Tick; Run 0 0; Lost 0; RunW; RunW; RunW].

Theorem wait_closed_returns_refuted :
  exists ops, let s := run_ops ops init in
    latch (srv s) = true /\ (forall t, In t (tasks s) -> ph t = Finished) /\
    forall n, wst (run_ops (repeat RunW n) s) <> WDone.
Proof.
  exists d10_ops. cbv zeta. split; [vm_compute; reflexivity|]. split.
  - vm_compute. intros t [<-|[]]. reflexivity.
  - intros n. rewrite wait_closed_blocked_by_open_connection; [discriminate| |]; vm_compute; reflexivity.
Qed.

(* ---------------------------------------------------------------------------------------------- *)
(* 9. a reset touches one stream only; each cause reaches every handler in its scope                *)

(* every task is a key of _tasks, or was reset (popped), or is done *)
Definition tq (t : task) : Prop := in_tasks t = true \/ h2reset t = true \/ unfinished t = false.
Definition tqfun (f : task -> task) : Prop := forall t, tq t -> tq (f t).

Ltac open_q t :=
  destruct t as [xc xi xb xtm xp xcr xib xcd xsl xwe xrg xit xic xhr xcb xnc xnh xlt xcdn xnr];
  unfold tq, unfinished, in_wrapper, is_cleanup in *; cbn in *.

Lemma tq_task_cancel : tqfun task_cancel.
Proof. intros t. unfold task_cancel. destruct (unfinished t) eqn:U; auto. Qed.
Lemma tq_set_werr v : tqfun (fun t => set_werr t v).
Proof. intros t H. exact H. Qed.
Lemma tq_terminated : tqfun terminated.
Proof.
  intros t H. unfold terminated. destruct (in_wrapper t); auto. apply tq_task_cancel. exact H.
Qed.
Lemma tq_handler_close : tqfun handler_close_task.
Proof.
  intros t H. unfold handler_close_task. destruct (in_tasks t) eqn:E; auto. apply tq_task_cancel.
  left. destruct t; reflexivity.
Qed.
Lemma tq_close_task : tqfun close_task.
Proof.
  intros t H. unfold close_task. apply tq_handler_close in H.
  destruct (registered (handler_close_task t)); auto. apply tq_terminated; auto.
Qed.
Lemma tq_rst_task : tqfun rst_task.
Proof.
  intros t H. unfold rst_task.
  assert (H2 : h2reset (terminated (set_h2reset t true)) = true).
  { unfold terminated, task_cancel. destruct (in_wrapper _); [destruct (unfinished _)|]; destruct t; reflexivity. }
  set (t1 := terminated (set_h2reset t true)) in *.
  destruct (in_tasks t1).
  - apply tq_task_cancel. right. left. clearbody t1. destruct t1; cbn in *; auto.
  - right. left. exact H2.
Qed.
Lemma tq_collect : tqfun collect_task.
Proof.
  intros t H. unfold collect_task. destruct (unfinished t) eqn:U; auto.
  right. right. destruct t; cbn in *; auto.
Qed.

Lemma tq_advance p u : in_tasks u = true \/ h2reset u = true -> tq (advance p u).
Proof.
  intros Hu. pose proof (advance_static p u) as S. cbv zeta in S.
  destruct S as (_ & _ & _ & _ & _ & s6 & _ & s8 & _).
  unfold tq. rewrite s6, s8. tauto.
Qed.

Lemma tq_run_task : tqfun run_task.
Proof.
  intros t H. unfold run_task. destruct (ph t) as [p|k r|n|] eqn:P.
  - destruct (cancel_req t).
    + right. right. destruct t; reflexivity.
    + apply tq_advance. destruct H as [X|[X|X]]; auto. unfold unfinished in X. rewrite P in X. discriminate.
  - assert (H' : in_tasks t = true \/ h2reset t = true).
    { destruct H as [X|[X|X]]; auto. unfold unfinished in X. rewrite P in X. discriminate. }
    destruct (cancel_req t); [|apply tq_advance; auto].
    destruct (tbeh t) as [[|m]|].
    + right. right. destruct t; reflexivity.
    + unfold tq. destruct t; cbn in *. tauto.
    + apply tq_advance. destruct t; cbn in *; exact H'.
  - destruct (cancel_req t); [right; right; destruct t; reflexivity|].
    destruct (slept t); auto. destruct n; [right; right; destruct t; reflexivity|].
    unfold tq, unfinished in *. destruct t; cbn in *. subst. tauto.
  - destruct (cb_pending t); auto.
Qed.

Lemma tq_reachable ops : forall t, In t (tasks (run_ops ops init)) -> tq t.
Proof.
  assert (G : forall ops s, (forall t, In t (tasks s) -> tq t) ->
                            forall t, In t (tasks (run_ops ops s)) -> tq t).
  { unfold run_ops. induction ops0 as [|o r IH]; intros s H t Ht; cbn in *; auto.
    apply (IH (step s o)); auto. clear t Ht. intros t Ht.
    assert (M : forall f, tqfun f -> forall l, (forall t, In t l -> tq t) -> forall t, In t (map f l) -> tq t).
    { intros f Hf l Hl t0 H0. apply in_map_iff in H0. destruct H0 as (x & <- & Hx). auto. }
    assert (IFK : forall c i f, tqfun f -> tqfun (fun t => if is_key c i t then f t else t)).
    { intros c i f Hf t0 H0. destruct (is_key c i t0); auto. }
    assert (IFC : forall c f, tqfun f -> tqfun (fun t => if tc t =? c then f t else t)).
    { intros c f Hf t0 H0. destruct (tc t0 =? c); auto. }
    destruct o; cbn [step] in Ht.
    - destruct (started (srv s)); auto.
    - destruct (listening (srv s)); auto.
      destruct (S (sgc (srv s)) mod server_gc_interval =? 0); auto.
      destruct (server_gc (tasks s) (conns s) 0) as [l cs] eqn:Gc. cbn [tasks] in Ht.
      assert (Q : forall cs l n l' cs', server_gc l cs n = (l', cs') ->
                    (forall t, In t l -> tq t) -> forall t, In t l' -> tq t).
      { clear. induction cs as [|k r IH]; intros l n l' cs' E Hl; cbn [server_gc] in E.
        - inversion E; subst. auto.
        - destruct (in_handlers k && closing k).
          + destruct (server_gc (on_conn_tasks n collect_task l) r (S n)) as [l2 r2] eqn:R.
            inversion E; subst. apply (IH _ _ _ _ R). intros t Ht. unfold on_conn_tasks in Ht.
            apply in_map_iff in Ht. destruct Ht as (x & <- & Hx). destruct (tc x =? n); auto.
            apply tq_collect; auto.
          + destruct (server_gc l r (S n)) as [l2 r2] eqn:R. inversion E; subst. eapply IH; eauto. }
      eapply Q; eauto.
    - destruct (conn_at s c) as [k|]; auto. destruct (find_task c i (tasks s)); auto.
      destruct (proc_open k); auto. cbn [tasks] in Ht. apply in_app_or in Ht. destruct Ht as [Ht|[<-|[]]].
      + destruct (S (gcn k) mod handler_gc_interval =? 0); auto.
        unfold on_conn_tasks in Ht. eapply M; eauto. apply IFC. apply tq_collect.
      + left. reflexivity.
    - destruct (conn_open s c); auto. cbn [tasks] in Ht. unfold on_task in Ht. eapply M; eauto.
      apply IFK. intros t0 H0. destruct (registered t0); auto.
    - destruct (conn_open s c); auto. cbn [tasks] in Ht. unfold on_task in Ht. eapply M; eauto.
      apply IFK. intros t0 H0. destruct (registered t0); auto.
    - cbn [tasks] in Ht. eapply M; eauto. intros t0 H0. destruct (ph t0) as [|k0 ? | |]; auto. destruct k0; auto.
    - destruct (conn_open s c); auto. destruct (find_task c i (tasks s)) as [t1|]; auto.
      destruct (registered t1 && negb (h2reset t1)); auto. cbn [tasks] in Ht. unfold on_task in Ht.
      eapply M; eauto. apply IFK. apply tq_rst_task.
    - cbn [tasks] in Ht. unfold on_task in Ht. eapply M; eauto. apply IFK.
      intros t0 H0. destruct (timer t0 && in_wrapper t0); auto. apply tq_task_cancel. exact H0.
    - destruct (conn_open s c); auto. unfold processor_close in Ht.
      destruct (conn_at s c) as [k|]; auto. destruct (lost k); auto. cbn [tasks] in Ht.
      unfold on_conn_tasks in Ht. eapply M; eauto. apply IFC. apply tq_close_task.
    - unfold processor_close in Ht.
      destruct (conn_at s c) as [k|]; auto. destruct (lost k); auto. cbn [tasks] in Ht.
      unfold on_conn_tasks in Ht. eapply M; eauto. apply IFC. apply tq_close_task.
    - destruct (started (srv s)); auto. cbn [tasks] in Ht. eapply M; eauto.
      intros t0 H0. destruct (conn_at s (tc t0)) as [k|]; auto. destruct (in_handlers k); auto.
      apply tq_handler_close; auto.
    - destruct (wst s); auto.
    - cbn [tasks] in Ht. unfold on_task in Ht. eapply M; eauto. apply IFK. apply tq_run_task.
    - destruct (wst s); auto.
      + destruct (latch (srv s)); auto.
      + destruct (negb (listening (srv s)) && all_lost (conns s)); auto.
      + destruct (forallb (task_done (tasks s)) snap); auto. }
  intros t Ht. apply (G ops init); auto. intros t0 [].
Qed.

(* RST_STREAM on stream (c,i): no other task, no connection, nothing of the server, nothing of the waiter
   changes -- in every state; in particular nothing is raised (Handler.cancel pops with a default) *)
Theorem rst_isolated s c i :
  exists g, tasks (step s (Rst c i)) = map g (tasks s) /\
            (forall t, is_key c i t = false -> g t = t) /\
            conns (step s (Rst c i)) = conns s /\
            srv (step s (Rst c i)) = srv s /\ wst (step s (Rst c i)) = wst s.
Proof.
  assert (ID : exists g, tasks s = map g (tasks s) /\ (forall t, is_key c i t = false -> g t = t) /\
                         conns s = conns s /\ srv s = srv s /\ wst s = wst s).
  { exists (fun t => t). rewrite map_id. repeat split; auto. }
  cbn [step]. destruct (conn_open s c); auto.
  destruct (find_task c i (tasks s)) as [t|]; auto.
  destruct (registered t && negb (h2reset t)); auto. cbn [tasks srv wst conns].
  exists (fun t0 => if is_key c i t0 then rst_task t0 else t0). repeat split; auto.
  intros t0 K. rewrite K. reflexivity.
Qed.

(* the first reset of a stream whose handler is in flight (any phase before Finished) cancels exactly
   that task: pending CancelledError, moved from _tasks to _cancelled, nothing delivered yet *)
Theorem rst_cancels_target ops c i t :
  let s := run_ops ops init in
  find_task c i (tasks s) = Some t -> unfinished t = true ->
  conn_open s c = true -> h2reset t = false ->
  exists t', find_task c i (tasks (step s (Rst c i))) = Some t' /\
             cancel_req t' = true /\ in_tasks t' = false /\ in_cancelled t' = true /\
             ncancel t' = ncancel t /\ ph t' = ph t.
Proof.
  intros s F U CO H2.
  assert (Ht : In t (tasks s)) by (apply find_some in F; tauto).
  pose proof (tq_reachable ops t Ht) as Q.
  pose proof (inv_tasks _ (reachable_inv ops)) as Fa. rewrite Forall_forall in Fa.
  destruct (Fa t Ht) as (_ & _ & h3 & _). destruct (h3 U) as [R _].
  assert (IT : in_tasks t = true) by (destruct Q as [X|[X|X]]; congruence).
  cbn [step]. rewrite CO. fold s. rewrite F, R, H2. cbn [andb negb tasks].
  rewrite find_on_task; [|intros t0; destruct (rst_task_ok t0) as (a & b & _); auto].
  rewrite F. cbn [option_map]. eexists. split; [reflexivity|].
  unfold rst_task, terminated.
  assert (E : in_tasks (if in_wrapper (set_h2reset t true)
                        then task_cancel (set_werr (set_h2reset t true) true)
                        else set_h2reset t true) = true).
  { destruct (in_wrapper _); [unfold task_cancel; destruct (unfinished _)|]; destruct t; cbn in *; auto. }
  rewrite E. unfold task_cancel, unfinished, in_wrapper in *.
  destruct t as [xc xi xb xtm xp xcr xib xcd xsl xwe xrg xit xic xhr xcb xnc xnh xlt xcdn xnr]; cbn in *.
  destruct xp; try discriminate; cbn; auto 10.
Qed.

(* a reset for a stream whose handler task is already done (finished, collected or not, stream not yet
   released) delivers nothing and cancels nothing *)
Theorem rst_noop_for_finished t :
  unfinished t = false ->
  ph (rst_task t) = ph t /\ cancel_req (rst_task t) = cancel_req t /\ ncancel (rst_task t) = ncancel t /\
  nhit (rst_task t) = nhit t /\ registered (rst_task t) = registered t /\ nrel (rst_task t) = nrel t /\
  cb_pending (rst_task t) = cb_pending t /\ late (rst_task t) = late t.
Proof.
  intros U. unfold rst_task, terminated, task_cancel, in_wrapper, unfinished in *.
  destruct t as [xc xi xb xtm xp xcr xib xcd xsl xwe xrg xit xic xhr xcb xnc xnh xlt xcdn xnr]; cbn in *.
  destruct xp; try discriminate; cbn. destruct xit; cbn; repeat split; reflexivity.
Qed.

(* the window of the repaired defect D91: Server.close() cancelled a task that never ran, the task is
   done but its done-callback has not released the stream yet, the 10th accept collected it *)
Definition gc_window_ops : list op :=
  [Start; Connect] ++ map (fun i => Open 0 i [AS] (Honour 1) false) (seq 0 9) ++
  [SrvClose; Run 0 8; Open 0 9 [AS] (Honour 1) false; Rst 0 8; Run 0 8].

(* connection_lost / GOAWAY: every unfinished handler task of the connection is cancelled *)
Theorem close_cancels_all ops c b t' :
  let s := run_ops ops init in
  (exists k, conn_at s c = Some k /\ lost k = false) ->
  In t' (tasks (processor_close s c b)) -> tc t' = c -> unfinished t' = true -> cancel_req t' = true.
Proof.
  intros s (k & Ek & Lk) Ht' Tc U. unfold processor_close in Ht'. rewrite Ek, Lk in Ht'.
  cbn [tasks] in Ht'. unfold on_conn_tasks in Ht'. apply in_map_iff in Ht'.
  destruct Ht' as (t & E & Ht). 
  destruct (close_task_ok t) as (a1 & _ & _ & _ & a5 & _).
  assert (TC : tc t =? c = true).
  { destruct (tc t =? c) eqn:X; auto. subst t'. rewrite Tc in X. rewrite Nat.eqb_refl in X. discriminate. }
  rewrite TC in E. subst t'. specialize (a5 U).
  pose proof (inv_tasks _ (reachable_inv ops)) as Fa. rewrite Forall_forall in Fa.
  destruct (Fa t Ht) as (_ & _ & h3 & _ & _ & h6 & _). destruct (h3 a5) as [R _].
  destruct (flagger_close_task t) as (_ & _ & _ & _ & _ & _ & keep & _).
  destruct (cancel_req t) eqn:CR; [auto|].
  unfold close_task, handler_close_task.
  destruct (in_tasks t) eqn:IT.
  - set (t1 := task_cancel (set_sets t true true)).
    assert (C1 : cancel_req t1 = true).
    { unfold t1, task_cancel. replace (unfinished (set_sets t true true)) with (unfinished t) by (destruct t; reflexivity).
      rewrite a5. destruct t; reflexivity. }
    destruct (registered t1); auto.
    destruct (flagger_terminated t1) as (_ & _ & _ & _ & _ & _ & kp & _). auto.
  - rewrite R. unfold terminated, in_wrapper, unfinished in *.
    destruct (ph t) eqn:P; try discriminate.
    + discriminate (h6 _ eq_refl eq_refl).
    + unfold task_cancel, unfinished. destruct t; cbn in *. rewrite P. reflexivity.
    + unfold task_cancel, unfinished. destruct t; cbn in *. rewrite P. reflexivity.
Qed.

(* Server.close(): every unfinished task that is still a value of some handler's _tasks is cancelled
   and joins _cancelled (so that wait_closed() waits for it) *)
Theorem srvclose_cancels ops t :
  let s := run_ops ops init in
  started (srv s) = true -> In t (tasks s) -> unfinished t = true -> in_tasks t = true ->
  exists t', In t' (tasks (step s SrvClose)) /\ key t' = key t /\
             cancel_req t' = true /\ in_cancelled t' = true /\ ncancel t' = ncancel t.
Proof.
  intros s St Ht U IT. cbn [step]. rewrite St. cbn [tasks].
  destruct (inv_conn _ (reachable_inv ops) t Ht) as (k & Ek & Hk). destruct (Hk U) as [IH _].
  fold s in Ek.
  exists (handler_close_task t). split.
  - apply in_map_iff. exists t. split; auto. rewrite Ek, IH. reflexivity.
  - unfold handler_close_task. rewrite IT. unfold task_cancel.
    replace (unfinished (set_sets t true true)) with (unfinished t) by (destruct t; reflexivity).
    rewrite U. destruct t; cbn. auto.
Qed.

(* ---------------------------------------------------------------------------------------------- *)
(* 10. which second cause lands in the cleanup                                                      *)

Definition pair_expected (a b : cause) : bool :=
  match a, b with
  | CRst, CRst            (* h2 emits one StreamReset per stream *)
  | CRst, CSrvClose       (* Handler.cancel popped the task from _tasks: Handler.close() skips it *)
  | CDeadline, CDeadline  (* one-shot timer *)
  | CGoaway, CRst | CGoaway, CGoaway     (* no event is processed after EventsProcessor.close *)
  | CLost, CRst | CLost, CGoaway | CLost, CLost => false
  | _, _ => true
  end.

Theorem pair_table : forall a b, pair_lands a b = pair_expected a b.
Proof. intros a b; destruct a, b; vm_compute; reflexivity. Qed.

(* ---------------------------------------------------------------------------------------------- *)
(* 11. graceful_exit                                                                                *)

Definition gclose (g : gserver) : gserver := mkG (g_started g) (S (g_closes g)).

Lemma first_stage_all_started l :
  forallb g_started l = true -> first_stage l = (map gclose l, false).
Proof.
  induction l as [|g r IH]; cbn; auto. intros H. apply andb_true_iff in H. destruct H as [H1 H2].
  rewrite (IH H2), H1. unfold gclose. rewrite H1. reflexivity.
Qed.

Lemma first_stage_some_not_started l :
  forallb g_started l = false ->
  first_stage l = (map (fun g => if g_started g then gclose g else g) l, true).
Proof.
  induction l as [|g r IH]; cbn; [discriminate|]. intros H.
  destruct (g_started g) eqn:S0; cbn in H.
  - rewrite (IH H). unfold gclose. rewrite S0. reflexivity.
  - destruct (forallb g_started r) eqn:R.
    + rewrite (first_stage_all_started r R). f_equal. f_equal.
      apply map_ext_in. intros a Ha. rewrite forallb_forall in R. rewrite (R a Ha). reflexivity.
    + rewrite (IH eq_refl). reflexivity.
Qed.

(* first signal, every server started: each server is closed once, nothing is raised, the flag is set *)
Theorem graceful_first_signal l sig ex :
  forallb g_started l = true ->
  exit_handler sig (mkGS l false ex) = mkGS (map gclose l) true ex.
Proof. intros H. unfold exit_handler. cbn. rewrite (first_stage_all_started l H). reflexivity. Qed.

(* any later signal: SystemExit(128 + sig), no server is closed again *)
Theorem graceful_second_signal l sig ex :
  exit_handler sig (mkGS l true ex) = mkGS l true ((128 + sig) :: ex).
Proof. reflexivity. Qed.

(* a server that was not started: the first signal goes to the second stage (after closing the
   started ones); the flag stays unset because SystemExit leaves _exit_handler before flag.append *)
Theorem graceful_not_started l sig ex :
  forallb g_started l = false ->
  exit_handler sig (mkGS l false ex) =
  mkGS (map (fun g => if g_started g then gclose g else g) l) false ((128 + sig) :: ex).
Proof. intros H. unfold exit_handler. cbn. rewrite (first_stage_some_not_started l H). reflexivity. Qed.

(* whole signal sequences, every server started: closed exactly once, one SystemExit per later signal *)
Theorem graceful_sequence l sig sigs :
  forallb g_started l = true ->
  fold_left (fun st sg => exit_handler sg st) (sig :: sigs) (mkGS l false []) =
  mkGS (map gclose l) true (rev (map (fun sg => 128 + sg) sigs)).
Proof.
  intros H. cbn [fold_left]. rewrite (graceful_first_signal l sig [] H).
  assert (G : forall sigs ex, fold_left (fun st sg => exit_handler sg st) sigs (mkGS (map gclose l) true ex)
                              = mkGS (map gclose l) true (rev (map (fun sg => 128 + sg) sigs) ++ ex)).
  { induction sigs0 as [|a r IH]; intros ex; cbn [fold_left map rev]; auto.
    rewrite graceful_second_signal, IH, <- app_assoc. reflexivity. }
  rewrite G, app_nil_r. reflexivity.
Qed.

(* ---------------------------------------------------------------------------------------------- *)
(* 12. the garbage collectors never lose a live handler                                             *)

(* Server.__gc_collect__ (every 10th accepted connection) drops a Handler from Server._handlers only
   when Handler.check_closed() holds, i.e. no unfinished task in _tasks OR _cancelled; and every
   unfinished task is in one of the two sets (a reset handler lives in _cancelled only).  So whatever
   sweeps happened, the Handler of every unfinished task is still known to Server.close() and
   Server.wait_closed(), and the task is still in a set they look at *)
Theorem handlers_kept ops t :
  In t (tasks (run_ops ops init)) -> unfinished t = true ->
  (in_tasks t = true \/ in_cancelled t = true) /\
  exists k, conn_at (run_ops ops init) (tc t) = Some k /\ in_handlers k = true /\
            (proc_open k = false -> in_cancelled t = true).
Proof.
  intros Ht U. pose proof (reachable_inv ops) as I.
  pose proof (inv_tasks _ I) as F. rewrite Forall_forall in F.
  destruct (F t Ht) as (_ & _ & _ & _ & h5 & _). split; [auto|].
  destruct (inv_conn _ I t Ht) as (k & Ek & Hk). destruct (Hk U). eauto.
Qed.

(* ---------------------------------------------------------------------------------------------- *)
(* 13. one wrapper, several tasks                                                                   *)

Lemma wmem_add t u l : wmem t (wadd u l) = (t =? u) || wmem t l.
Proof.
  unfold wadd. destruct (wmem u l) eqn:M.
  - destruct (t =? u) eqn:E; auto. apply Nat.eqb_eq in E. subst. exact M.
  - unfold wmem. rewrite existsb_app. cbn. rewrite orb_false_r. apply orb_comm.
Qed.

Lemma wmem_discard t u l : wmem t (wdiscard u l) = negb (t =? u) && wmem t l.
Proof.
  unfold wmem, wdiscard. induction l as [|x r IH]; cbn; [rewrite andb_false_r; reflexivity|].
  destruct (x =? u) eqn:E; cbn.
  - apply Nat.eqb_eq in E. subst. rewrite IH. destruct (t =? u) eqn:F; cbn; auto.
  - rewrite IH. destruct (t =? x) eqn:F; cbn.
    + apply Nat.eqb_eq in F. subst. rewrite E. reflexivity.
    + reflexivity.
Qed.

Lemma wrapper_inv t ops : forall w st,
  werror w = fst st -> wmem t (wtasks w) = snd st ->
  werror (fold_left wstep ops w) = fst (fold_left (wspec_step t) ops st) /\
  wmem t (wtasks (fold_left wstep ops w)) = snd (fold_left (wspec_step t) ops st).
Proof.
  induction ops as [|o r IH]; intros w [err ins] E M; cbn in *; auto.
  apply IH; destruct o as [u|u|]; cbn; subst; try destruct (werror w) eqn:W; cbn;
    repeat match goal with
           | |- context [existsb (Nat.eqb t) ?l] => change (existsb (Nat.eqb t) l) with (wmem t l)
           end;
    rewrite ?wmem_add, ?wmem_discard; try rewrite (Nat.eqb_sym t u); try destruct (u =? t); cbn;
    rewrite ?orb_false_r, ?orb_true_r; auto.
Qed.

(* membership in the wrapper's task set is, for every task, exactly "inside its own with-block" -- it does
   not depend on the order in which OTHER tasks enter and leave (no LIFO discipline is assumed) *)
Theorem wrapper_members_exact ops t : wmem t (wtasks (wrun ops)) = wspec t ops.
Proof. unfold wrun, wspec. apply (wrapper_inv t ops (mkWrap [] false [] []) (false, false)); reflexivity. Qed.

(* hence Wrapper.cancel reaches exactly the tasks that are inside a with-block at that moment *)
Theorem wrapper_cancel_reaches ops t :
  wmem t (wcancelled (wrun (ops ++ [WCancel]))) = wmem t (wcancelled (wrun ops)) || wspec t ops.
Proof.
  unfold wrun. rewrite fold_left_app. cbn. unfold wmem at 1. rewrite existsb_app.
  fold (wmem t (wcancelled (fold_left wstep ops (mkWrap [] false [] [])))).
  fold (wmem t (wtasks (fold_left wstep ops (mkWrap [] false [] [])))).
  f_equal. apply wrapper_members_exact.
Qed.
