(* Non-vacuity examples for C15: the hypotheses of the theorems are satisfied by concrete,
   non-trivial inputs; the model produces on them what CPython produces; the grammar predicate
   really excludes what the property calls invalid.  Everything is decided by vm_compute (the two
   range examples additionally use the exact-comparison lemma). *)
From Coq Require Import String ZArith List Bool Lia Reals Lra.
From Flocq Require Import Core IEEE754.BinarySingleNaN IEEE754.Binary IEEE754.Bits.
From GV Require Import Lib.Str Gen.Facts Model.Timeout Proofs.C15Proofs.
Import ListNotations.
Open Scope Z_scope.

Definition fl (bits : Z) : pynum := PyFloat (b64_of_bits bits).

(* floats, as struct.pack('>d', x): 2.5, 0.013, 1e-06, 99999999.0, 10.0, 12.9 *)
Example ex_enc_2_5 : encode_timeout (fl 0x4004000000000000) = Ok (s2z "2500m").
Proof. vm_compute; reflexivity. Qed.
Example ex_enc_0_013 : encode_timeout (fl 0x3f8a9fbe76c8b439) = Ok (s2z "13m").
Proof. vm_compute; reflexivity. Qed.
Example ex_enc_1e_6 : encode_timeout (fl 0x3eb0c6f7a0b5ed8d) = Ok (s2z "1000n").   (* pinned test *)
Proof. vm_compute; reflexivity. Qed.
Example ex_enc_max : encode_timeout (fl 0x4197d783fc000000) = Ok (s2z "99999999S").
Proof. vm_compute; reflexivity. Qed.
Example ex_enc_10 : encode_timeout (fl 0x4024000000000000) = Ok (s2z "10000m").
Proof. vm_compute; reflexivity. Qed.
Example ex_enc_12_9 : encode_timeout (fl 0x4029cccccccccccd) = Ok (s2z "12S").
Proof. vm_compute; reflexivity. Qed.
Example ex_enc_zero : encode_timeout (fl 0) = Ok (s2z "0n").
Proof. vm_compute; reflexivity. Qed.
Example ex_enc_neg_zero : encode_timeout (fl 0x8000000000000000) = Ok (s2z "0n").
Proof. vm_compute; reflexivity. Qed.
Example ex_enc_denormal : encode_timeout (fl 1) = Ok (s2z "0n").
Proof. vm_compute; reflexivity. Qed.
(* outside the domain of the property: the error branches of the total model *)
Example ex_enc_nan : encode_timeout (fl 0x7ff8000000000000) = Err ValueError.
Proof. vm_compute; reflexivity. Qed.
Example ex_enc_inf : encode_timeout (fl 0x7ff0000000000000) = Err OverflowError.
Proof. vm_compute; reflexivity. Qed.
Example ex_enc_negative : encode_timeout (fl 0xc014000000000000) = Ok (s2z "-5000000000n").
Proof. vm_compute; reflexivity. Qed.
(* ints *)
Example ex_enc_int_5 : encode_timeout (PyInt 5) = Ok (s2z "5000m").
Proof. vm_compute; reflexivity. Qed.
Example ex_enc_int_11 : encode_timeout (PyInt 11) = Ok (s2z "11S").
Proof. vm_compute; reflexivity. Qed.
Example ex_enc_int_0 : encode_timeout (PyInt 0) = Ok (s2z "0n").
Proof. vm_compute; reflexivity. Qed.

(* the hypotheses "finite and in [0, 99999999]" hold of 0.013 and of 2.5 *)
Example ex_range_0_013 :
  fin t_0_013 = true /\ (0 <= R64 t_0_013 <= 99999999)%R.
Proof.
  assert (Hf : fin t_0_013 = true) by (vm_compute; reflexivity).
  assert (C0 : cmp_float_q t_0_013 0 1 = Some Gt) by (vm_compute; reflexivity).
  assert (C1 : cmp_float_q t_0_013 99999999 1 = Some Lt) by (vm_compute; reflexivity).
  apply cmp_float_q_Gt in C0; [|lia|exact Hf]. apply cmp_float_q_Lt in C1; [|lia|exact Hf].
  split; [exact Hf|lra].
Qed.
Example ex_range_12_9 :
  let t := b64_of_bits 0x4029cccccccccccd in fin t = true /\ (10 < R64 t <= 99999999)%R.
Proof.
  cbv zeta. set (t := b64_of_bits 0x4029cccccccccccd).
  assert (Hf : fin t = true) by (vm_compute; reflexivity).
  assert (C0 : cmp_float_q t 10 1 = Some Gt) by (vm_compute; reflexivity).
  assert (C1 : cmp_float_q t 99999999 1 = Some Lt) by (vm_compute; reflexivity).
  apply cmp_float_q_Gt in C0; [|lia|exact Hf]. apply cmp_float_q_Lt in C1; [|lia|exact Hf].
  split; [exact Hf|lra].
Qed.

(* decoder: values as CPython computes them (13 * 10**-3 = 0x3f8a9fbe76c8b43a, one ulp above 0.013) *)
Example ex_dec_13m :
  match decode_timeout (s2z "13m") with Ok (PyFloat f) => bits_of_b64 f | _ => -1 end
  = 0x3f8a9fbe76c8b43a.
Proof. vm_compute; reflexivity. Qed.
Example ex_dec_2500m :
  match decode_timeout (s2z "2500m") with Ok (PyFloat f) => bits_of_b64 f | _ => -1 end
  = 0x4004000000000000.
Proof. vm_compute; reflexivity. Qed.
Example ex_dec_H : decode_timeout (s2z "13H") = Ok (PyInt 46800).
Proof. vm_compute; reflexivity. Qed.
Example ex_dec_leading_zeros : decode_timeout (s2z "007S") = Ok (PyInt 7).
Proof. vm_compute; reflexivity. Qed.
Example ex_dec_8_digits : decode_timeout (s2z "99999999S") = Ok (PyInt 99999999).
Proof. vm_compute; reflexivity. Qed.
Example ex_wire_q : wire_q (s2z "13m") = Some (13, 1000).
Proof. vm_compute; reflexivity. Qed.

(* the strings of the repaired defect D13 and the other malformed classes are rejected *)
Example ex_dec_rejects :
  map decode_timeout
      [ s2z "5S" ++ [10];             (* trailing newline *)
        s2z "123456789S";             (* nine digits *)
        [1635; 83];                   (* ARABIC-INDIC DIGIT THREE + S *)
        [];                           (* empty *)
        s2z "S"; s2z "5"; s2z "+5S"; s2z "-5S"; s2z "5 S"; s2z " 5S"; s2z "5s"; s2z "5h";
        s2z "5.0S"; s2z "5SS"; s2z "1e3S"; [65297; 83] (* fullwidth digit one *) ]
  = repeat (Err ValueError) 16.
Proof. vm_compute; reflexivity. Qed.

Example ex_grammar : in_grammar (s2z "99999999n").
Proof.
  exists (s2z "99999999"), 110. split; [reflexivity|]. split; [cbn; lia|].
  split; [|cbn; tauto]. cbn. repeat (apply Forall_cons; [lia|]). apply Forall_nil.
Qed.
Example ex_grammar_scale : In (109, (1, 1000)) grammar_scale.
Proof. cbn; tauto. Qed.

(* repeated headers: the smallest governs, other names are ignored, order does not matter *)
Definition ex_headers : list (list Z * list Z) :=
  [ (s2z ":path", s2z "/a/b"); (s2z "grpc-timeout", s2z "2S");
    (s2z "grpc-timeout-x", s2z "1n"); (s2z "grpc-timeout", s2z "250m");
    (s2z "Grpc-Timeout", s2z "1n"); (s2z "grpc-timeout", s2z "1M") ].
Example ex_values : timeout_values ex_headers = [s2z "2S"; s2z "250m"; s2z "1M"].
Proof. vm_compute; reflexivity. Qed.
Example ex_min :
  match from_headers (b64_of_bits 0) ex_headers with
  | Ok (Some d) => bits_of_b64 d | _ => -1 end = 0x3fd0000000000000.          (* 0.0 + 0.25 *)
Proof. vm_compute; reflexivity. Qed.
Example ex_min_none : from_headers (b64_of_bits 0) [(s2z ":path", s2z "/a/b")] = Ok None.
Proof. vm_compute; reflexivity. Qed.
Example ex_min_invalid :
  from_headers (b64_of_bits 0) (ex_headers ++ [(s2z "grpc-timeout", s2z "1s")]) = Err ValueError.
Proof. vm_compute; reflexivity. Qed.
(* an int and an equal float: min keeps the first *)
Example ex_min_tie :
  from_headers_timeout [(s2z "grpc-timeout", s2z "1S"); (s2z "grpc-timeout", s2z "1000m")]
  = Ok (Some (PyInt 1)).
Proof. vm_compute; reflexivity. Qed.
