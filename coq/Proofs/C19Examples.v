(* Non-vacuity examples for Props/C19.v: concrete non-trivial inputs that satisfy the hypotheses of the
   theorems, evaluated by the kernel. *)
From Coq Require Import ZArith List Bool.
From GV Require Import Gen.FactsC19 Model.Health Proofs.C19Proofs Proofs.C19WatchProofs Proofs.C19CheckProofs.
Import ListNotations.
Open Scope Z_scope.

(* ---- aggregate *)
Example agg_all_true : agg_status [STrue; STrue; STrue] = R_SERVING.
Proof. vm_compute; reflexivity. Qed.
Example agg_all_none : agg_status [SNone; SNone] = R_UNKNOWN.
Proof. vm_compute; reflexivity. Qed.
Example agg_mixed : agg_status [STrue; SNone] = R_NOT_SERVING /\ agg_status [STrue; SFalse; STrue] = R_NOT_SERVING
                    /\ agg_status [SFalse] = R_NOT_SERVING.
Proof. vm_compute; repeat split. Qed.
(* _status(set()) -- never evaluated by Health: the empty check list is answered SERVING before *)
Example agg_empty : agg_status [] = R_NOT_SERVING.
Proof. vm_compute; reflexivity. Qed.

(* ---- registry and Check *)
Definition ex_cfg : list (Z * list nat) := [(1, [0; 1]%nat); (2, [1; 2; 2]%nat); (3, [])].
Example ex_registry :
  health_init (Some ex_cfg) = [(1, [0; 1]%nat); (2, [1; 2]%nat); (3, []); (0, [0; 1; 2]%nat)].
Proof. vm_compute; reflexivity. Qed.
Example ex_cfg_has_no_overall : existsb (fun kv => fst kv =? overall) ex_cfg = false.
Proof. vm_compute; reflexivity. Qed.
Example ex_check :
  let reg := health_init (Some ex_cfg) in
  check_rpc reg [STrue; STrue; SNone] 1 = CA_Resp R_SERVING /\
  check_rpc reg [STrue; STrue; SNone] 2 = CA_Resp R_NOT_SERVING /\
  check_rpc reg [STrue; SNone; SNone] 2 = CA_Resp R_UNKNOWN /\
  check_rpc reg [STrue; STrue; SNone] 3 = CA_Resp R_SERVING /\
  check_rpc reg [STrue; STrue; STrue] 0 = CA_Resp R_SERVING /\
  check_rpc reg [STrue; STrue; SNone] 9 = CA_Status 5 /\
  lookup reg 9 = None /\ lookup reg 1 = Some [0; 1]%nat.
Proof. vm_compute; repeat split. Qed.

(* ---- Watch: a set lands between the steps of the wait tasks and of the Watch task *)
Definition ex_reg : registry := health_init (Some [(1, [0; 1]%nat)]).
Definition ex_ops : list wop :=
  [OWatch 1 false;                                   (* first message: UNKNOWN *)
   OLocal 0 (LWaitRun 0); OLocal 0 (LWaitRun 1);     (* both wait tasks block *)
   OSet 0 STrue;                                     (* event 0 set, wait 0 woken *)
   OLocal 0 (LWaitRun 0); OLocal 0 LCompl;           (* wait 0 done, asyncio.wait resolved *)
   OSet 1 STrue;                                     (* lands before the Watch task runs *)
   OLocal 0 LRunW;                                   (* reads (True, True): SERVING; wait 1 woken, kept *)
   OSet 0 SFalse;                                    (* while the new wait 0 has not even started *)
   OLocal 0 (LWaitRun 1); OLocal 0 LCompl; OLocal 0 LRunW;   (* NOT_SERVING *)
   OLocal 0 (LWaitRun 0); OLocal 0 LCompl; OLocal 0 LRunW;   (* NOT_SERVING again (duplicate) *)
   OLocal 0 (LWaitRun 0); OLocal 0 (LWaitRun 1)].
Example ex_watch_run :
  let s := wrun (winit ex_reg [SNone; SNone]) ex_ops in
  exists w, s_ws s = [w] /\ w_pc w = PWaiting /\ forallb slot_quiet (w_slots w) = true /\
            rev (w_sent w) = [R_UNKNOWN; R_SERVING; R_NOT_SERVING; R_NOT_SERVING] /\
            cur_status (s_vals s) (w_slots w) = R_NOT_SERVING /\ quiescent s = true.
Proof. eexists. vm_compute. repeat split. Qed.

(* the same scenario under the FIFO ready queue (what the correspondence runs execute) coalesces the two
   later changes into one message *)
Example ex_watch_fifo :
  let sq := fold_left (run_cmd 100) [CSpawn (OWatch 1 false); CSettle; CExt (OSet 0 STrue); CIter 2;
                                     CExt (OSet 1 STrue); CIter 1; CExt (OSet 0 SFalse); CSettle]
                      (winit ex_reg [SNone; SNone], []) in
  map (fun w => rev (w_sent w)) (s_ws (fst sq)) = [[R_UNKNOWN; R_SERVING; R_NOT_SERVING]] /\ snd sq = [] /\
  quiescent (fst sq) = true.
Proof. vm_compute. repeat split. Qed.

(* a blocked send_message, a second watcher on OVERALL, an unsubscription, an unregistered service *)
Example ex_watch_slow :
  let s := wrun (winit ex_reg [STrue; SNone])
                [OWatch 1 true; OWatch 0 false; OWatch 7 false; OSet 1 STrue;
                 OLocal 0 (LWaitRun 0); OLocal 0 (LWaitRun 1); OLocal 1 (LWaitRun 0); OLocal 1 (LWaitRun 1);
                 OLocal 1 LCompl; OLocal 1 LRunW; OLocal 1 LCancel; OSet 0 SNone;
                 OLocal 0 LSendDone; OLocal 0 LCompl; OLocal 0 LRunW; OLocal 0 (LSetSlow false);
                 OLocal 0 LSendDone; OLocal 0 (LWaitRun 0); OLocal 0 (LWaitRun 1);
                 OLocal 0 LCompl; OLocal 0 LRunW; OLocal 0 (LWaitRun 0); OLocal 0 (LWaitRun 1)] in
  map (fun w => (w_pc w, rev (w_sent w))) (s_ws s) =
    [(PWaiting, [R_NOT_SERVING; R_NOT_SERVING; R_NOT_SERVING]); (PEnded, [R_NOT_SERVING; R_SERVING]); (PIdle, [R_SERVICE_UNKNOWN])]
  /\ quiescent s = true /\ cur_status (s_vals s) (w_slots (hd (mkW PEnded false [] []) (s_ws s))) = R_NOT_SERVING.
Proof. vm_compute. repeat split. Qed.

Example ex_watch_measure : sys_mu (wrun (winit ex_reg [SNone; SNone]) [OWatch 1 false; OSet 0 STrue]) = 10%nat.
Proof. vm_compute; reflexivity. Qed.

(* ---- ServiceCheck (ticks of 1/8 s: check_ttl = 30 s, check_timeout = 10 s) *)
Definition k0 := kinit 240 80 0.

(* a 50 s check: interrupted at 10 s, counts as failing; a waiter is released with it; later a fast check passes *)
Definition ex_kops : list kop :=
  [KCall; KAdvance 40; KCall; KAdvance 400; KTimeout; KResume 1;
   KAdvance 100; KCall;                      (* cached: 100 < 240 *)
   KAdvance 200; KCall; KFuncEnd FTrue].
Example ex_check_run :
  let k := krun k0 ex_kops in
  k_value k = STrue /\ k_callers k = [CRet SFalse 80; CRet SFalse 80; CRet SFalse 180; CRet STrue 380] /\
  invocations k = [(380, Some 380, Some (HRet FTrue)); (0, Some 80, Some HTimeout)] /\
  k_notes k = [(380, STrue); (80, SFalse)] /\ k_lock k = true.
Proof. vm_compute. repeat split. Qed.

Example ex_runner : runner_state (krun k0 [KCall; KAdvance 3]) = Some false.
Proof. vm_compute; reflexivity. Qed.
Example ex_at_deadline :
  let k := krun k0 [KCall; KAdvance 500] in
  runner_state k = Some false /\ k_run k = Some (0, Some (0 + k_tmo k), SNone) /\ k_now k = 0 + k_tmo k.
Proof. vm_compute. repeat split. Qed.
Example ex_cancelling : runner_state (krun k0 [KCall; KAdvance 3; KCancel 0]) = Some true.
Proof. vm_compute; reflexivity. Qed.
Example ex_expired :
  let k := krun k0 [KCall; KFuncEnd FRaise; KAdvance 240] in
  cached k = false /\ k_lock k = true /\ 0 < k_tmo k /\ k_value k = SFalse.
Proof. vm_compute. repeat split. Qed.
Example ex_fresh : cached (krun k0 [KCall; KFuncEnd FNone; KAdvance 239]) = true.
Proof. vm_compute; reflexivity. Qed.
Example ex_zero_timeout :
  let k := kstep (kinit 240 0 0) KCall in k_value k = SFalse /\ k_log k = [] /\ k_callers k = [CRet SFalse 0].
Proof. vm_compute. repeat split. Qed.
Example ex_nonbool : k_value (krun k0 [KCall; KFuncEnd FTrue; KAdvance 300; KCall; KFuncEnd FNonBool]) = SFalse.
Proof. vm_compute; reflexivity. Qed.
Example ex_waiters_blocked :
  let k := krun k0 [KCall; KCall; KCall] in k_callers k = [CRun false; CWait; CWait] /\ k_lock k = false.
Proof. vm_compute. repeat split. Qed.
Example ex_lost_cancel :
  k_callers (krun k0 lost_cancel_witness) = [CRet SFalse 80].
Proof. vm_compute; reflexivity. Qed.
Example ex_timed_runner :
  let t := run_timed 100 240 80 [(400, FTrue); (0, FTrue)] [(0, TCall None); (40, TCall None); (800, TCall None)] 8000 in
  k_callers (t_k t) = [CRet SFalse 80; CRet SFalse 80; CRet STrue 800] /\
  k_log (t_k t) = [(800, 800, HRet FTrue); (0, 80, HTimeout)].
Proof. vm_compute. repeat split. Qed.
