(* Proofs for Props/C20.v: the protoc plugin model (Model/Plugin.v).
   Axiom-free; every lemma used by Props/C20.v is closed under the global context. *)
From Coq Require Import ZArith List Bool Lia ZifyBool.
From GV Require Import Lib.Str Gen.Facts Gen.FactsC20 Model.Plugin.
Import ListNotations.
Open Scope Z_scope.
#[local] Ltac Zify.zify_post_hook ::= Z.div_mod_to_equations.

(* ------------------------------------------------------------------------------------------ *)
(** * Strings *)

Lemma zlist_eqb_eq a b : zlist_eqb a b = true <-> a = b.
Proof.
  revert b. induction a as [|x a IH]; intros [|y b]; cbn [zlist_eqb]; split; intros H;
    try reflexivity; try discriminate.
  - apply andb_true_iff in H as [Hx Hr]. apply Z.eqb_eq in Hx. apply IH in Hr. congruence.
  - injection H as -> ->. apply andb_true_iff. split; [apply Z.eqb_refl | apply IH; reflexivity].
Qed.

Lemma zlist_eqb_refl a : zlist_eqb a a = true.
Proof. apply zlist_eqb_eq. reflexivity. Qed.

Lemma zlist_eqb_neq a b : zlist_eqb a b = false <-> a <> b.
Proof.
  split; intros H.
  - intros ->. rewrite zlist_eqb_refl in H. discriminate.
  - destruct (zlist_eqb a b) eqn:E; [|reflexivity]. apply zlist_eqb_eq in E. contradiction.
Qed.

Lemma mem_str_In k l : mem_str k l = true <-> In k l.
Proof.
  unfold mem_str. rewrite existsb_exists. split.
  - intros [x [Hin He]]. apply zlist_eqb_eq in He. subst. exact Hin.
  - intros H. exists k. split; [exact H | apply zlist_eqb_refl].
Qed.

Lemma starts_with_app p s : starts_with p (p ++ s) = true.
Proof.
  induction p as [|x p IH]; cbn [starts_with app]; [reflexivity|].
  rewrite Z.eqb_refl. exact IH.
Qed.

Lemma starts_with_inv p s : starts_with p s = true -> exists r, s = p ++ r.
Proof.
  revert s. induction p as [|x p IH]; intros s H; cbn [starts_with] in H.
  - exists s. reflexivity.
  - destruct s as [|y s]; [discriminate|]. apply andb_true_iff in H as [Hx Hr].
    apply Z.eqb_eq in Hx. subst y. destruct (IH _ Hr) as [r ->]. exists r. reflexivity.
Qed.

Lemma ends_with_app suf b : ends_with suf (b ++ suf) = true.
Proof. unfold ends_with. rewrite rev_app_distr. apply starts_with_app. Qed.

Lemma ends_with_inv suf s : ends_with suf s = true -> exists b, s = b ++ suf.
Proof.
  unfold ends_with. intros H. apply starts_with_inv in H as [r Hr].
  exists (rev r). rewrite <- (rev_involutive s), Hr, rev_app_distr, rev_involutive. reflexivity.
Qed.

Lemma firstn_drop_suffix {A} (b suf : list A) :
  firstn (length (b ++ suf) - length suf) (b ++ suf) = b.
Proof.
  rewrite app_length. replace (length b + length suf - length suf)%nat with (length b + 0)%nat by lia.
  rewrite firstn_app_2. cbn [firstn]. apply app_nil_r.
Qed.

(* ------------------------------------------------------------------------------------------ *)
(** * Dictionaries: lookup_last (dict.update order) and dict_of (namespace order) *)

Lemma lookup_last_Some_In {A} k (v : A) l : lookup_last k l = Some v -> In (k, v) l.
Proof.
  induction l as [|[k' v'] r IH]; cbn [lookup_last]; [discriminate|].
  destruct (lookup_last k r) eqn:E.
  - intros H. injection H as ->. right. apply IH. reflexivity.
  - destruct (zlist_eqb k k') eqn:Ek; [|discriminate].
    intros H. injection H as ->. apply zlist_eqb_eq in Ek. subst. left. reflexivity.
Qed.

Lemma lookup_last_None {A} k (l : list (str * A)) :
  lookup_last k l = None <-> ~ In k (map fst l).
Proof.
  induction l as [|[k' v] r IH]; cbn [lookup_last map fst In].
  - split; [intros _ H; exact H | reflexivity].
  - destruct (lookup_last k r) eqn:E.
    + split; [discriminate|]. intros H. exfalso. apply H. right.
      apply lookup_last_Some_In in E. apply (in_map fst) in E. exact E.
    + destruct (zlist_eqb k k') eqn:Ek.
      * apply zlist_eqb_eq in Ek. subst. split; [discriminate|]. intros H. exfalso. apply H. left. reflexivity.
      * apply zlist_eqb_neq in Ek. split; [|reflexivity]. intros _ [H|H]; [congruence|].
        apply (proj1 IH); [reflexivity | exact H].
Qed.

Lemma lookup_last_NoDup {A} k (v : A) l :
  NoDup (map fst l) -> In (k, v) l -> lookup_last k l = Some v.
Proof.
  induction l as [|[k' v'] r IH]; cbn [map fst]; intros Hnd Hin; [contradiction|].
  inversion Hnd as [|? ? Hnot Hnd']; subst. cbn [lookup_last]. destruct Hin as [Heq|Hin].
  - injection Heq as -> ->. apply lookup_last_None in Hnot. rewrite Hnot, zlist_eqb_refl. reflexivity.
  - rewrite (IH Hnd' Hin). reflexivity.
Qed.

(* a later entry with the same key wins *)
Lemma lookup_last_app {A} k (l1 l2 : list (str * A)) :
  lookup_last k (l1 ++ l2) =
  match lookup_last k l2 with Some x => Some x | None => lookup_last k l1 end.
Proof.
  induction l1 as [|[k' v] r IH]; cbn [app lookup_last].
  - destruct (lookup_last k l2); reflexivity.
  - rewrite IH. destruct (lookup_last k l2); [reflexivity|]. reflexivity.
Qed.

Lemma NoDup_keys_functional {A} (l : list (str * A)) k v1 v2 :
  NoDup (map fst l) -> In (k, v1) l -> In (k, v2) l -> v1 = v2.
Proof.
  intros Hnd H1 H2. apply (lookup_last_NoDup _ _ _ Hnd) in H1. apply (lookup_last_NoDup _ _ _ Hnd) in H2.
  congruence.
Qed.

Lemma assoc_dict_set {V} k k' (v : V) d :
  assoc_str k (dict_set k' v d) = if zlist_eqb k k' then Some v else assoc_str k d.
Proof.
  induction d as [|[k0 v0] r IH]; cbn [dict_set assoc_str].
  - destruct (zlist_eqb k k'); reflexivity.
  - destruct (zlist_eqb k' k0) eqn:E0.
    + apply zlist_eqb_eq in E0. subst k0. cbn [assoc_str]. destruct (zlist_eqb k k'); reflexivity.
    + cbn [assoc_str]. destruct (zlist_eqb k k0) eqn:E1.
      * apply zlist_eqb_eq in E1. subst k0.
        destruct (zlist_eqb k k') eqn:E2; [|reflexivity].
        apply zlist_eqb_eq in E2. subst. rewrite zlist_eqb_refl in E0. discriminate.
      * exact IH.
Qed.

Lemma dict_set_keys {V} k (v : V) d :
  map fst (dict_set k v d) = if mem_str k (map fst d) then map fst d else map fst d ++ [k].
Proof.
  induction d as [|[k0 v0] r IH]; cbn [dict_set map fst]; [reflexivity|].
  unfold mem_str in *. cbn [existsb]. destruct (zlist_eqb k k0) eqn:E0; cbn [orb map fst].
  - reflexivity.
  - rewrite IH. destruct (existsb (zlist_eqb k) (map fst r)); reflexivity.
Qed.

Lemma NoDup_snoc {A} (l : list A) k : NoDup l -> ~ In k l -> NoDup (l ++ [k]).
Proof.
  induction l as [|x l IH]; cbn [app]; intros Hnd Hk.
  - constructor; [intros [] | constructor].
  - inversion Hnd as [|? ? Hx Hl]; subst. constructor.
    + rewrite in_app_iff. intros [H|[H|[]]]; [contradiction|]. subst. apply Hk. left. reflexivity.
    + apply IH; [exact Hl|]. intros H. apply Hk. right. exact H.
Qed.

Lemma dict_set_NoDup {V} k (v : V) d : NoDup (map fst d) -> NoDup (map fst (dict_set k v d)).
Proof.
  intros H. rewrite dict_set_keys. destruct (mem_str k (map fst d)) eqn:E; [exact H|].
  apply NoDup_snoc; [exact H|]. intros Hin. apply mem_str_In in Hin. congruence.
Qed.

Definition dict_step {V} (d : list (str * V)) (kv : str * V) := dict_set (fst kv) (snd kv) d.

Lemma dict_fold_NoDup {V} (l d : list (str * V)) :
  NoDup (map fst d) -> NoDup (map fst (fold_left dict_step l d)).
Proof.
  revert d. induction l as [|[k v] r IH]; intros d H; cbn [fold_left]; [exact H|].
  apply IH. apply dict_set_NoDup. exact H.
Qed.

Lemma dict_fold_assoc {V} k (l d : list (str * V)) :
  assoc_str k (fold_left dict_step l d) =
  match lookup_last k l with Some x => Some x | None => assoc_str k d end.
Proof.
  revert d. induction l as [|[k' v] r IH]; intros d; cbn [fold_left lookup_last]; [reflexivity|].
  rewrite IH. destruct (lookup_last k r); [reflexivity|].
  unfold dict_step. cbn [fst snd]. rewrite assoc_dict_set. destruct (zlist_eqb k k'); reflexivity.
Qed.

(* Python: the value bound to a repeated key is the LAST one *)
Lemma dict_of_last_wins {V} k (l : list (str * V)) : assoc_str k (dict_of l) = lookup_last k l.
Proof.
  unfold dict_of. change (fun d kv => dict_set (fst kv) (snd kv) d) with (@dict_step V).
  rewrite dict_fold_assoc. destruct (lookup_last k l); reflexivity.
Qed.

Lemma dict_of_NoDup {V} (l : list (str * V)) : NoDup (map fst (dict_of l)).
Proof.
  unfold dict_of. change (fun d kv => dict_set (fst kv) (snd kv) d) with (@dict_step V).
  apply dict_fold_NoDup. constructor.
Qed.

Lemma dict_set_fresh {V} k (v : V) d : ~ In k (map fst d) -> dict_set k v d = d ++ [(k, v)].
Proof.
  induction d as [|[k0 v0] r IH]; cbn [dict_set map fst In app]; intros H; [reflexivity|].
  destruct (zlist_eqb k k0) eqn:E.
  - apply zlist_eqb_eq in E. subst. exfalso. apply H. left. reflexivity.
  - rewrite IH; [reflexivity|]. intros Hin. apply H. right. exact Hin.
Qed.

Lemma dict_fold_id {V} (l d : list (str * V)) :
  NoDup (map fst (d ++ l)) -> fold_left dict_step l d = d ++ l.
Proof.
  revert d. induction l as [|[k v] r IH]; intros d H; cbn [fold_left].
  - rewrite app_nil_r. reflexivity.
  - unfold dict_step at 2. cbn [fst snd]. rewrite dict_set_fresh.
    + rewrite IH; rewrite <- app_assoc; [reflexivity | exact H].
    + rewrite map_app in H. cbn [map fst] in H. apply NoDup_remove_2 in H.
      intros Hin. apply H. apply in_or_app. left. exact Hin.
Qed.

(* without repeated keys nothing is overwritten or reordered *)
Lemma dict_of_NoDup_id {V} (l : list (str * V)) : NoDup (map fst l) -> dict_of l = l.
Proof.
  intros H. unfold dict_of. change (fun d kv => dict_set (fst kv) (snd kv) d) with (@dict_step V).
  rewrite dict_fold_id; [reflexivity | exact H].
Qed.

(* ------------------------------------------------------------------------------------------ *)
(** * mapM *)

Lemma mapM_Ok {E A B} (f : A -> res E B) l r :
  mapM f l = Ok r <-> Forall2 (fun x y => f x = Ok y) l r.
Proof.
  revert r. induction l as [|x l IH]; intros r; cbn [mapM].
  - split; intros H; [injection H as <-; constructor | inversion H; reflexivity].
  - destruct (f x) as [y|e] eqn:Ef.
    + destruct (mapM f l) as [ys|e] eqn:Em.
      * split; intros H.
        -- injection H as <-. constructor; [exact Ef | apply IH; reflexivity].
        -- inversion H as [|? y' ? ys' Hy Hys]; subst. apply IH in Hys. congruence.
      * split; [discriminate|]. intros H. inversion H as [|? y' ? ys' Hy Hys]; subst.
        apply IH in Hys. discriminate.
    + split; [discriminate|]. intros H. inversion H; subst. congruence.
Qed.

Lemma mapM_Ok_map {E A B} (f : A -> res E B) (g : A -> B) l r :
  mapM f l = Ok r -> (forall x y, In x l -> f x = Ok y -> y = g x) -> r = map g l.
Proof.
  intros H Hg. apply mapM_Ok in H. induction H as [|x y l r Hxy Hall IH]; cbn [map]; [reflexivity|].
  f_equal.
  - apply Hg; [left; reflexivity | exact Hxy].
  - apply IH. intros x' y' Hin. apply Hg. right. exact Hin.
Qed.

Lemma mapM_total {E A B} (f : A -> res E B) l :
  (forall x, In x l -> exists y, f x = Ok y) -> exists r, mapM f l = Ok r.
Proof.
  induction l as [|x l IH]; intros H; cbn [mapM]; [eexists; reflexivity|].
  destruct (H x (or_introl eq_refl)) as [y ->].
  destruct IH as [r ->]; [intros x' Hx'; apply H; right; exact Hx' | eexists; reflexivity].
Qed.

Lemma mapM_Err {E A B} (f : A -> res E B) l e :
  mapM f l = Err e -> exists x, In x l /\ f x = Err e.
Proof.
  induction l as [|x l IH]; cbn [mapM]; [discriminate|].
  destruct (f x) as [y|e'] eqn:Ef.
  - destruct (mapM f l) as [ys|e'] eqn:Em; [discriminate|]. intros H. injection H as ->.
    destruct (IH eq_refl) as [x' [Hin Hx']]. exists x'. split; [right; exact Hin | exact Hx'].
  - intros H. injection H as ->. exists x. split; [left; reflexivity | exact Ef].
Qed.

Lemma mapM_fails {E A B} (f : A -> res E B) l x e :
  In x l -> f x = Err e -> exists e', mapM f l = Err e'.
Proof.
  intros Hin Hx. destruct (mapM f l) as [r|e'] eqn:Em; [|eexists; reflexivity].
  apply mapM_Ok in Em. exfalso. induction Em as [|x' y l r Hxy Hall IH]; [contradiction|].
  destruct Hin as [->|Hin]; [congruence | exact (IH Hin)].
Qed.

(* ------------------------------------------------------------------------------------------ *)
(** * Module names *)

Definition dash_slash (c : Z) : Z := if c =? 45 then 95 else if c =? 47 then 46 else c.

Lemma base_module_name_spec p : base_module_name p = map dash_slash (strip_proto p).
Proof.
  unfold base_module_name, base_replacements. cbn [fold_left fst snd].
  unfold replace_char. rewrite map_map. apply map_ext. intros c. unfold dash_slash.
  destruct (c =? 45) eqn:E1.
  - apply Z.eqb_eq in E1. subst. reflexivity.
  - reflexivity.
Qed.

Lemma strip_proto_protodevel b : strip_proto (b ++ [46; 112; 114; 111; 116; 111; 100; 101; 118; 101; 108]) = b.
Proof.
  unfold strip_proto, strip_suffixes. cbn [strip_first]. rewrite ends_with_app. apply firstn_drop_suffix.
Qed.

Lemma ends_with_last_differs suf s x y b :
  x <> y -> ends_with (suf ++ [x]) (b ++ s ++ [y]) = false.
Proof.
  intros Hxy. unfold ends_with. rewrite !rev_app_distr. cbn [rev app starts_with].
  replace (x =? y) with false by (symmetry; apply Z.eqb_neq; exact Hxy). reflexivity.
Qed.

Lemma strip_proto_proto b : strip_proto (b ++ [46; 112; 114; 111; 116; 111]) = b.
Proof.
  unfold strip_proto, strip_suffixes. cbn [strip_first].
  change [46; 112; 114; 111; 116; 111; 100; 101; 118; 101; 108]
    with ([46; 112; 114; 111; 116; 111; 100; 101; 118; 101] ++ [108]).
  change (b ++ [46; 112; 114; 111; 116; 111]) with (b ++ [46; 112; 114; 111; 116] ++ [111]).
  rewrite ends_with_last_differs by lia.
  change (b ++ [46; 112; 114; 111; 116] ++ [111]) with (b ++ [46; 112; 114; 111; 116; 111]).
  rewrite ends_with_app. apply firstn_drop_suffix.
Qed.

Lemma strip_proto_other p :
  ends_with [46; 112; 114; 111; 116; 111; 100; 101; 118; 101; 108] p = false ->
  ends_with [46; 112; 114; 111; 116; 111] p = false -> strip_proto p = p.
Proof. intros H1 H2. unfold strip_proto, strip_suffixes. cbn [strip_first]. rewrite H1, H2. reflexivity. Qed.

(* strip_proto only ever removes a suffix *)
Lemma strip_proto_prefix p : exists suf, p = strip_proto p ++ suf.
Proof.
  unfold strip_proto, strip_suffixes. cbn [strip_first].
  destruct (ends_with _ p) eqn:E1.
  - apply ends_with_inv in E1 as [b ->]. eexists. rewrite firstn_drop_suffix. reflexivity.
  - destruct (ends_with [46; 112; 114; 111; 116; 111] p) eqn:E2.
    + apply ends_with_inv in E2 as [b ->]. eexists. rewrite firstn_drop_suffix. reflexivity.
    + exists []. rewrite app_nil_r. reflexivity.
Qed.

Lemma module_name_no_dash_slash p c : In c (base_module_name p) -> c <> 45 /\ c <> 47.
Proof.
  rewrite base_module_name_spec, in_map_iff. intros [x [<- _]]. unfold dash_slash.
  destruct (x =? 45) eqn:E1; [lia|]. destruct (x =? 47) eqn:E2; lia.
Qed.

(* ------------------------------------------------------------------------------------------ *)
(** * Declared message types and the types map *)

(* `declares ms path`: path = [Outer; ...; Inner] names a message nested along that chain in ms *)
Fixpoint declares (ms : list msg) (path : list str) : Prop :=
  match path with
  | [] => False
  | n :: rest => exists ns, In (Msg n ns) ms /\ (rest = [] \/ declares ns rest)
  end.

Section msg_induction.
  Variable P : msg -> Prop.
  Hypothesis Hstep : forall n ns, Forall P ns -> P (Msg n ns).
  Fixpoint msg_ind' (m : msg) : P m :=
    match m with
    | Msg n ns =>
        Hstep n ns ((fix go (l : list msg) : Forall P l :=
                       match l with
                       | [] => Forall_nil P
                       | x :: r => Forall_cons x (msg_ind' x) (go r)
                       end) ns)
    end.
End msg_induction.

Lemma type_names_unfold pkg modname parents n ns :
  type_names pkg modname parents (Msg n ns) =
  (proto_name pkg (parents ++ [n]), py_name modname (parents ++ [n])) ::
  msgs_types pkg modname (parents ++ [n]) ns.
Proof.
  reflexivity.   (* the inner fix of type_names is flat_map itself *)
Qed.

Lemma declares_in_types path : forall ms pkg modname parents,
  declares ms path ->
  In (proto_name pkg (parents ++ path), py_name modname (parents ++ path))
     (msgs_types pkg modname parents ms).
Proof.
  induction path as [|n rest IH]; intros ms pkg modname parents H; cbn [declares] in H; [contradiction|].
  destruct H as [ns [Hin Hrest]]. unfold msgs_types. apply in_flat_map.
  exists (Msg n ns). split; [exact Hin|]. rewrite type_names_unfold. destruct Hrest as [->|Hd].
  - left. reflexivity.
  - right. specialize (IH ns pkg modname (parents ++ [n]) Hd).
    rewrite <- app_assoc in IH. exact IH.
Qed.

Lemma types_in_declares pkg modname k v : forall ms parents,
  In (k, v) (msgs_types pkg modname parents ms) ->
  exists path, declares ms path /\
               k = proto_name pkg (parents ++ path) /\ v = py_name modname (parents ++ path).
Proof.
  assert (Hm : forall m parents, In (k, v) (type_names pkg modname parents m) ->
                exists path, declares [m] path /\
                  k = proto_name pkg (parents ++ path) /\ v = py_name modname (parents ++ path)).
  { intros m. induction m as [n ns IHns] using msg_ind'. intros parents Hin.
    rewrite type_names_unfold in Hin. destruct Hin as [Heq|Hin].
    - injection Heq as <- <-. exists [n]. split; [|split; reflexivity].
      cbn [declares]. exists ns. split; [left; reflexivity | left; reflexivity].
    - unfold msgs_types in Hin. apply in_flat_map in Hin as [x [Hx Hin]].
      rewrite Forall_forall in IHns. destruct (IHns x Hx _ Hin) as [path [Hd [Hk Hv]]].
      exists (n :: path). split; [|split].
      + cbn [declares]. exists ns. split; [left; reflexivity|]. right.
        destruct path as [|p rest]; [contradiction|]. cbn [declares] in Hd |- *.
        destruct Hd as [ns' [[Heq|[]] Hrest]]. subst x. exists ns'. split; [exact Hx | exact Hrest].
      + rewrite Hk, <- app_assoc. reflexivity.
      + rewrite Hv, <- app_assoc. reflexivity. }
  intros ms parents Hin. unfold msgs_types in Hin. apply in_flat_map in Hin as [m [Hm' Hin]].
  destruct (Hm m parents Hin) as [path [Hd Hkv]]. exists path. split; [|exact Hkv].
  destruct path as [|p rest]; [contradiction|]. cbn [declares] in Hd |- *.
  destruct Hd as [ns [[Heq|[]] Hrest]]. subst m. exists ns. split; [exact Hm' | exact Hrest].
Qed.

(* `resolves files t py`: some file of the request declares a message whose fully-qualified proto
   name is t, and py is that message's python path <pb2 module>.<Outer>...<Inner> *)
Definition resolves (files : list file) (t py : str) : Prop :=
  exists f path, In f files /\ declares (f_msgs f) path /\
                 t = proto_name (f_package f) path /\
                 py = py_name (pb2_module_name (f_name f)) path.

Definition unique_types (files : list file) : Prop := NoDup (map fst (types_entries files)).

Lemma resolves_iff_entry files t py : resolves files t py <-> In (t, py) (types_entries files).
Proof.
  unfold resolves, types_entries. rewrite in_flat_map. split.
  - intros [f [path [Hf [Hd [-> ->]]]]]. exists f. split; [exact Hf|].
    unfold file_types. apply (declares_in_types path _ _ _ [] Hd).
  - intros [f [Hf Hin]]. unfold file_types in Hin. apply types_in_declares in Hin as [path [Hd [Hk Hv]]].
    exists f, path. cbn [app] in Hk, Hv. auto.
Qed.

(* whatever the lookup returns is the python path of a declaration with that full name ... *)
Lemma lookup_sound files t py : lookup_last t (types_entries files) = Some py -> resolves files t py.
Proof. intros H. apply resolves_iff_entry. apply lookup_last_Some_In. exact H. Qed.

(* ... it fails (KeyError) exactly for names no file declares ... *)
Lemma lookup_none files t :
  lookup_last t (types_entries files) = None <-> ~ exists py, resolves files t py.
Proof.
  rewrite lookup_last_None. split; intros H.
  - intros [py Hr]. apply H. apply resolves_iff_entry in Hr. apply (in_map fst) in Hr. exact Hr.
  - intros Hin. apply in_map_iff in Hin as [[k v] [Hk Hin]]. cbn [fst] in Hk. subst k.
    apply H. exists v. apply resolves_iff_entry. exact Hin.
Qed.

(* ... and with unique fully-qualified names it returns THE declaration *)
Lemma lookup_complete files t py :
  unique_types files -> resolves files t py -> lookup_last t (types_entries files) = Some py.
Proof. intros Hu Hr. apply lookup_last_NoDup; [exact Hu | apply resolves_iff_entry; exact Hr]. Qed.

Lemma resolves_functional files t p1 p2 :
  unique_types files -> resolves files t p1 -> resolves files t p2 -> p1 = p2.
Proof.
  intros Hu H1 H2. apply resolves_iff_entry in H1, H2. exact (NoDup_keys_functional _ _ _ _ Hu H1 H2).
Qed.

(* without uniqueness: the declaration in the LAST file (dict.update order) wins *)
Lemma lookup_later_file_wins files1 files2 t py :
  lookup_last t (types_entries files2) = Some py ->
  lookup_last t (types_entries (files1 ++ files2)) = Some py.
Proof.
  intros H. unfold types_entries. rewrite flat_map_app, lookup_last_app.
  unfold types_entries in H. rewrite H. reflexivity.
Qed.

(* ------------------------------------------------------------------------------------------ *)
(** * The cardinality tables (Gen.Facts: const.Cardinality; Gen.FactsC20: observed on the probes) *)

(* _CARDINALITY, const.Cardinality, the if-chain of render and client.*Method._cardinality fit together *)
Lemma cardinality_tables cs ss :
  exists c cls, cardinality_of cs ss = Some c /\ member_flags c = Some (cs, ss) /\
                method_cls c = Some cls /\ class_cardinality cls = Some c.
Proof. destruct cs, ss; vm_compute; eexists; eexists; repeat split. Qed.

Lemma cardinality_injective cs ss cs' ss' :
  cardinality_of cs ss = cardinality_of cs' ss' -> (cs, ss) = (cs', ss').
Proof. destruct cs, ss, cs', ss'; vm_compute; intros H; try reflexivity; discriminate. Qed.

Lemma cardinality_onto :
  length cardinality_members = 4%nat /\ length flags_cardinality = 4%nat /\
  forallb (fun nf => match cardinality_of (fst (snd nf)) (snd (snd nf)) with
                     | Some c => zlist_eqb c (fst nf)
                     | None => false
                     end) cardinality_members = true.
Proof. vm_compute. repeat split. Qed.

Lemma cardinality_member_of_table name flags :
  In (name, flags) cardinality_members -> cardinality_of (fst flags) (snd flags) = Some name.
Proof.
  intros Hin. destruct cardinality_onto as [_ [_ H]]. rewrite forallb_forall in H.
  specialize (H _ Hin). cbn [fst snd] in H.
  destruct (cardinality_of (fst flags) (snd flags)); [|discriminate].
  apply zlist_eqb_eq in H. subst. reflexivity.
Qed.

Lemma method_cls_of_cardinality cs ss c : cardinality_of cs ss = Some c -> exists cls, method_cls c = Some cls.
Proof.
  intros H. destruct (cardinality_tables cs ss) as [c' [cls [H1 [_ [H3 _]]]]].
  rewrite H in H1. injection H1 as ->. exists cls. exact H3.
Qed.

(* ------------------------------------------------------------------------------------------ *)
(** * What main() produces: the module as a function of the descriptor set *)

Definition od {A} (d : A) (o : option A) : A := match o with Some x => x | None => d end.

Section spec.
  Variable tm : list (str * str).

  Definition the_card (m : method) : str := od [] (cardinality_of (me_cs m) (me_ss m)).
  Definition the_req (m : method) : str := od [] (lookup_last (me_in m) tm).
  Definition the_rep (m : method) : str := od [] (lookup_last (me_out m) tm).
  Definition the_cls (m : method) : str := od [] (method_cls (the_card m)).

  Definition spec_entry (pkg svc : str) (m : method) : map_entry :=
    MapEntry (route pkg svc (me_name m)) (me_name m) (the_card m) (the_req m) (the_rep m).
  Definition spec_stub (pkg svc : str) (m : method) : stub_entry :=
    StubEntry (me_name m) (the_cls m) (route pkg svc (me_name m)) (the_req m) (the_rep m).
  Definition spec_service (pkg : str) (s : service) : aservice :=
    AService (sv_name s) (map me_name (sv_methods s))
             (map (spec_entry pkg (sv_name s)) (sv_methods s))
             (map (spec_stub pkg (sv_name s)) (sv_methods s)).
  Definition spec_module (pf : file) (g : str) : amodule :=
    match f_services pf with
    | [] => AModule (f_name pf) [] [] []
    | _ => AModule (f_name pf) (std_imports ++ map pb2_module_name (f_deps pf ++ [g])) guarded_imports
                   (map (spec_service (f_package pf)) (f_services pf))
    end.

  (* the lookups main() performs for one method all succeed *)
  Definition method_ok (m : method) : Prop :=
    lookup_last (me_in m) tm <> None /\ lookup_last (me_out m) tm <> None.
  Definition file_ok (pf : file) : Prop :=
    forall s m, In s (f_services pf) -> In m (sv_methods s) -> method_ok m.

  Definition spec_pmethod (m : method) : pmethod := PMethod (me_name m) (the_card m) (the_req m) (the_rep m).
  Definition spec_pservice (s : service) : pservice := PService (sv_name s) (map spec_pmethod (sv_methods s)).

  Lemma mk_method_Ok m pm : mk_method tm m = Ok pm -> pm = spec_pmethod m /\ method_ok m.
  Proof.
    unfold mk_method, spec_pmethod, method_ok, the_card, the_req, the_rep.
    destruct (cardinality_of _ _); [|discriminate].
    destruct (lookup_last (me_in m) tm); [|discriminate].
    destruct (lookup_last (me_out m) tm); [|discriminate].
    intros H. injection H as <-. cbn [od]. repeat split; discriminate.
  Qed.

  Lemma mk_method_total m : method_ok m -> mk_method tm m = Ok (spec_pmethod m).
  Proof.
    unfold mk_method, spec_pmethod, method_ok, the_card, the_req, the_rep. intros [H1 H2].
    destruct (cardinality_tables (me_cs m) (me_ss m)) as [c [_ [-> _]]].
    destruct (lookup_last (me_in m) tm); [|contradiction].
    destruct (lookup_last (me_out m) tm); [|contradiction]. reflexivity.
  Qed.

  Lemma mk_method_Err m e : mk_method tm m = Err e -> e = EKeyError /\ ~ method_ok m.
  Proof.
    intros H. split.
    - unfold mk_method in H. destruct (cardinality_of _ _); [|congruence].
      destruct (lookup_last (me_in m) tm); [|congruence].
      destruct (lookup_last (me_out m) tm); [discriminate|congruence].
    - intros Hok. rewrite (mk_method_total _ Hok) in H. discriminate.
  Qed.

  Lemma mk_service_Ok s ps :
    mk_service tm s = Ok ps -> ps = spec_pservice s /\ forall m, In m (sv_methods s) -> method_ok m.
  Proof.
    unfold mk_service. destruct (mapM (mk_method tm) (sv_methods s)) as [ms|e] eqn:Em; [|discriminate].
    intros H. injection H as <-. split.
    - unfold spec_pservice. f_equal. apply (mapM_Ok_map _ _ _ _ Em).
      intros x y _ Hxy. apply mk_method_Ok in Hxy as [-> _]. reflexivity.
    - intros m Hin. apply mapM_Ok in Em. clear -Em Hin. induction Em as [|x y l r Hxy _ IH]; [contradiction|].
      destruct Hin as [->|Hin]; [apply mk_method_Ok in Hxy as [_ H]; exact H | exact (IH Hin)].
  Qed.

  Lemma mk_service_total s :
    (forall m, In m (sv_methods s) -> method_ok m) -> mk_service tm s = Ok (spec_pservice s).
  Proof.
    intros H. unfold mk_service.
    destruct (mapM_total (mk_method tm) (sv_methods s)) as [r Hr].
    { intros m Hm. eexists. apply mk_method_total. apply H. exact Hm. }
    rewrite Hr. unfold spec_pservice. f_equal. f_equal. apply (mapM_Ok_map _ _ _ _ Hr).
    intros x y _ Hxy. apply mk_method_Ok in Hxy as [-> _]. reflexivity.
  Qed.

  Lemma render_stub_entry_spec pkg svc m :
    render_stub_entry pkg svc (spec_pmethod m) = Ok (spec_stub pkg svc m).
  Proof.
    unfold render_stub_entry, spec_pmethod, spec_stub, the_cls. cbn [pm_card pm_name pm_req pm_rep].
    unfold the_card. destruct (cardinality_tables (me_cs m) (me_ss m)) as [c [cls [Hc [_ [Hcls _]]]]].
    rewrite Hc. cbn [od]. rewrite Hcls. reflexivity.
  Qed.

  Lemma render_service_spec pkg s :
    render_service pkg (spec_pservice s) = Ok (spec_service pkg s).
  Proof.
    unfold render_service, spec_pservice, spec_service. cbn [ps_name ps_methods].
    assert (H : mapM (render_stub_entry pkg (sv_name s)) (map spec_pmethod (sv_methods s))
                = Ok (map (spec_stub pkg (sv_name s)) (sv_methods s))).
    { induction (sv_methods s) as [|m l IH]; cbn [map mapM]; [reflexivity|].
      rewrite render_stub_entry_spec, IH. reflexivity. }
    rewrite H. rewrite !map_map. reflexivity.
  Qed.

  Lemma render_spec pf g :
    render (f_name pf) (f_package pf) (map pb2_module_name (f_deps pf ++ [g]))
           (map spec_pservice (f_services pf)) = Ok (spec_module pf g).
  Proof.
    unfold render, spec_module. destruct (f_services pf) as [|s l]; [reflexivity|].
    set (ss := s :: l). cbn [map]. fold (map spec_pservice l). change (spec_pservice s :: map spec_pservice l) with (map spec_pservice ss).
    assert (H : mapM (render_service (f_package pf)) (map spec_pservice ss)
                = Ok (map (spec_service (f_package pf)) ss)).
    { induction ss as [|x r IH]; cbn [map mapM]; [reflexivity|].
      rewrite render_service_spec, IH. reflexivity. }
    rewrite H. reflexivity.
  Qed.
End spec.

(* ------------------------------------------------------------------------------------------ *)
(** * main() *)

Lemma get_proto_Some files g pf : get_proto files g = Some pf -> In pf files /\ f_name pf = g.
Proof.
  unfold get_proto. intros H. apply find_some in H as [Hin He]. apply zlist_eqb_eq in He. auto.
Qed.

Lemma get_proto_unique files pf :
  NoDup (map f_name files) -> In pf files -> get_proto files (f_name pf) = Some pf.
Proof.
  unfold get_proto. induction files as [|f r IH]; cbn [map find]; intros Hnd Hin; [contradiction|].
  inversion Hnd as [|? ? Hnot Hnd']; subst. destruct Hin as [->|Hin].
  - rewrite zlist_eqb_refl. reflexivity.
  - destruct (zlist_eqb (f_name f) (f_name pf)) eqn:E.
    + apply zlist_eqb_eq in E. exfalso. apply Hnot. rewrite E. apply in_map. exact Hin.
    + apply IH; assumption.
Qed.

Lemma get_proto_None files g : get_proto files g = None <-> ~ In g (map f_name files).
Proof.
  unfold get_proto. split.
  - intros H Hin. apply in_map_iff in Hin as [f [Hf Hin]].
    apply (find_none _ _ H) in Hin. rewrite Hf, zlist_eqb_refl in Hin. discriminate.
  - intros H. destruct (find _ files) as [f|] eqn:E; [|reflexivity].
    apply find_some in E as [Hin He]. apply zlist_eqb_eq in He. exfalso. apply H. rewrite <- He.
    apply in_map. exact Hin.
Qed.

Definition generated (files : list file) (tm : list (str * str)) (g : str) (nm : str * amodule) : Prop :=
  exists pf, get_proto files g = Some pf /\ file_ok tm pf /\
             nm = (out_file_name g, spec_module tm pf g).

Lemma services_Ok tm pf svcs :
  mapM (mk_service tm) (f_services pf) = Ok svcs ->
  svcs = map (spec_pservice tm) (f_services pf) /\ file_ok tm pf.
Proof.
  intros H. split.
  - apply (mapM_Ok_map _ _ _ _ H). intros x y _ Hxy. apply mk_service_Ok in Hxy as [-> _]. reflexivity.
  - intros s m Hs Hm. apply mapM_Ok in H. clear -H Hs Hm.
    induction H as [|x y l r Hxy _ IH]; [contradiction|].
    destruct Hs as [->|Hs]; [|exact (IH Hs)]. apply mk_service_Ok in Hxy as [_ Hok]. apply Hok. exact Hm.
Qed.

Lemma services_total tm pf :
  file_ok tm pf -> mapM (mk_service tm) (f_services pf) = Ok (map (spec_pservice tm) (f_services pf)).
Proof.
  intros Hok. destruct (mapM_total (mk_service tm) (f_services pf)) as [r Hr].
  { intros s Hs. eexists. apply mk_service_total. intros m Hm. exact (Hok s m Hs Hm). }
  rewrite Hr. f_equal. apply (services_Ok _ _ _ Hr).
Qed.

Lemma gen_file_Ok tm files g nm : gen_file tm files g = Ok nm <-> generated files tm g nm.
Proof.
  unfold gen_file, generated. split.
  - destruct (get_proto files g) as [pf|]; [|discriminate].
    destruct (mapM (mk_service tm) (f_services pf)) as [svcs|e] eqn:Es; [|discriminate].
    apply services_Ok in Es as [-> Hok]. rewrite render_spec. intros H. injection H as <-.
    exists pf. auto.
  - intros [pf [-> [Hok ->]]]. rewrite (services_total _ _ Hok), render_spec. reflexivity.
Qed.

Lemma gen_file_Err tm files g e :
  gen_file tm files g = Err e ->
  (e = EStopIteration /\ get_proto files g = None) \/
  (e = EKeyError /\ exists pf, get_proto files g = Some pf /\ ~ file_ok tm pf).
Proof.
  unfold gen_file. destruct (get_proto files g) as [pf|]; [|intros H; injection H as <-; left; auto].
  destruct (mapM (mk_service tm) (f_services pf)) as [svcs|e'] eqn:Es.
  - apply services_Ok in Es as [-> Hok]. rewrite render_spec. discriminate.
  - intros H. injection H as ->. right. apply mapM_Err in Es as [s [Hs Hes]].
    unfold mk_service in Hes. destruct (mapM (mk_method tm) (sv_methods s)) as [ms|e'] eqn:Em; [discriminate|].
    injection Hes as ->. apply mapM_Err in Em as [m [Hm Hem]]. apply mk_method_Err in Hem as [-> Hnot].
    split; [reflexivity|]. exists pf. split; [reflexivity|]. intros Hok. apply Hnot. exact (Hok s m Hs Hm).
Qed.

Definition tm_of (req : request) : list (str * str) := types_entries (r_files req).

Lemma main_Ok req mods :
  main req = Ok mods <-> Forall2 (generated (r_files req) (tm_of req)) (r_gen req) mods.
Proof.
  unfold main. rewrite mapM_Ok. split; intros H; induction H; constructor; auto; apply gen_file_Ok; assumption.
Qed.

Lemma main_Err req e :
  main req = Err e ->
  exists g, In g (r_gen req) /\
    ((e = EStopIteration /\ get_proto (r_files req) g = None) \/
     (e = EKeyError /\ exists pf, get_proto (r_files req) g = Some pf /\ ~ file_ok (tm_of req) pf)).
Proof.
  unfold main. intros H. apply mapM_Err in H as [g [Hg He]]. exists g. split; [exact Hg|].
  apply gen_file_Err. exact He.
Qed.

Lemma main_total req :
  (forall g, In g (r_gen req) -> exists pf, get_proto (r_files req) g = Some pf /\ file_ok (tm_of req) pf) ->
  exists mods, main req = Ok mods.
Proof.
  intros H. unfold main. apply mapM_total. intros g Hg. destruct (H g Hg) as [pf [Hp Hok]].
  eexists. apply gen_file_Ok. exists pf. eauto.
Qed.

Lemma main_fails req g :
  In g (r_gen req) ->
  (get_proto (r_files req) g = None \/
   exists pf, get_proto (r_files req) g = Some pf /\ ~ file_ok (tm_of req) pf) ->
  exists e, main req = Err e.
Proof.
  intros Hg Hbad. destruct (main req) as [mods|e] eqn:Em; [|eexists; reflexivity]. exfalso.
  apply main_Ok in Em. clear -Em Hg Hbad. induction Em as [|x y l r Hxy _ IH]; [contradiction|].
  destruct Hg as [->|Hg]; [|exact (IH Hg)]. destruct Hxy as [pf [Hp [Hok _]]].
  destruct Hbad as [Hn|[pf' [Hp' Hnot]]]; [congruence|]. rewrite Hp in Hp'. injection Hp' as <-. contradiction.
Qed.

(* every output file name: dots of the module name become slashes, ".py" appended *)
Lemma main_output_names req mods :
  main req = Ok mods -> map fst mods = map out_file_name (r_gen req).
Proof.
  intros H. apply main_Ok in H. induction H as [|g nm l r Hg _ IH]; cbn [map]; [reflexivity|].
  destruct Hg as [pf [_ [_ ->]]]. cbn [fst]. rewrite IH. reflexivity.
Qed.

Lemma main_In req mods g :
  main req = Ok mods -> In g (r_gen req) ->
  exists pf, get_proto (r_files req) g = Some pf /\ file_ok (tm_of req) pf /\
             In (out_file_name g, spec_module (tm_of req) pf g) mods.
Proof.
  intros H Hg. apply main_Ok in H. induction H as [|x nm l r Hx _ IH]; [contradiction|].
  destruct Hg as [->|Hg].
  - destruct Hx as [pf [Hp [Hok ->]]]. exists pf. split; [exact Hp|]. split; [exact Hok|]. left. reflexivity.
  - destruct (IH Hg) as [pf [Hp [Hok Hin]]]. exists pf. split; [exact Hp|]. split; [exact Hok|]. right. exact Hin.
Qed.

(* ------------------------------------------------------------------------------------------ *)
(** * Every declared RPC in the rendered module *)

Lemma main_In_mods req mods nm :
  main req = Ok mods -> In nm mods ->
  exists g, In g (r_gen req) /\ generated (r_files req) (tm_of req) g nm.
Proof.
  intros H Hin. apply main_Ok in H. induction H as [|g y l r Hg _ IH]; [contradiction|].
  destruct Hin as [->|Hin].
  - exists g. split; [left; reflexivity | exact Hg].
  - destruct (IH Hin) as [g' [Hg' Hgen]]. exists g'. split; [right; exact Hg' | exact Hgen].
Qed.

Lemma spec_module_classes tm pf g :
  a_classes (spec_module tm pf g) = map (spec_service tm (f_package pf)) (f_services pf).
Proof. unfold spec_module. destruct (f_services pf); reflexivity. Qed.

Lemma spec_module_imports tm pf g :
  f_services pf <> [] ->
  a_imports (spec_module tm pf g) = std_imports ++ map pb2_module_name (f_deps pf ++ [g]) /\
  a_guarded (spec_module tm pf g) = guarded_imports.
Proof. unfold spec_module. destruct (f_services pf); [contradiction|]. intros _. split; reflexivity. Qed.

Lemma spec_module_empty tm pf g :
  f_services pf = [] -> spec_module tm pf g = AModule (f_name pf) [] [] [].
Proof. unfold spec_module. intros ->. reflexivity. Qed.

Lemma the_req_resolved files m rq :
  unique_types files -> resolves files (me_in m) rq -> the_req (types_entries files) m = rq.
Proof. intros Hu Hr. unfold the_req. rewrite (lookup_complete _ _ _ Hu Hr). reflexivity. Qed.

Lemma the_rep_resolved files m rp :
  unique_types files -> resolves files (me_out m) rp -> the_rep (types_entries files) m = rp.
Proof. intros Hu Hr. unfold the_rep. rewrite (lookup_complete _ _ _ Hu Hr). reflexivity. Qed.

(* the main per-RPC statement *)
Lemma rpc_rendered req mods g pf s m rq rp :
  unique_types (r_files req) ->
  main req = Ok mods -> In g (r_gen req) -> get_proto (r_files req) g = Some pf ->
  In s (f_services pf) -> In m (sv_methods s) ->
  resolves (r_files req) (me_in m) rq -> resolves (r_files req) (me_out m) rp ->
  exists am a c cls,
    In (out_file_name g, am) mods /\ In a (a_classes am) /\ as_name a = sv_name s /\
    cardinality_of (me_cs m) (me_ss m) = Some c /\ member_flags c = Some (me_cs m, me_ss m) /\
    method_cls c = Some cls /\ class_cardinality cls = Some c /\
    In (me_name m) (as_abstract a) /\
    In (MapEntry (route (f_package pf) (sv_name s) (me_name m)) (me_name m) c rq rp) (as_mapping a) /\
    In (StubEntry (me_name m) cls (route (f_package pf) (sv_name s) (me_name m)) rq rp) (as_stub a).
Proof.
  intros Hu Hmain Hg Hp Hs Hm Hrq Hrp.
  destruct (main_In _ _ _ Hmain Hg) as [pf' [Hp' [_ Hin]]]. rewrite Hp in Hp'. injection Hp' as <-.
  destruct (cardinality_tables (me_cs m) (me_ss m)) as [c [cls [Hc [Hf [Hcls Hcc]]]]].
  exists (spec_module (tm_of req) pf g), (spec_service (tm_of req) (f_package pf) s), c, cls.
  split; [exact Hin|]. split; [rewrite spec_module_classes; apply in_map; exact Hs|].
  split; [reflexivity|]. repeat (split; [assumption|]).
  cbn [spec_service as_abstract as_mapping as_stub]. split; [apply in_map; exact Hm|]. split.
  - apply in_map_iff. exists m. split; [|exact Hm]. unfold spec_entry, the_card. rewrite Hc. cbn [od].
    unfold tm_of. rewrite (the_req_resolved _ _ _ Hu Hrq), (the_rep_resolved _ _ _ Hu Hrp). reflexivity.
  - apply in_map_iff. exists m. split; [|exact Hm]. unfold spec_stub, the_cls, the_card. rewrite Hc. cbn [od].
    rewrite Hcls. cbn [od].
    unfold tm_of. rewrite (the_req_resolved _ _ _ Hu Hrq), (the_rep_resolved _ _ _ Hu Hrp). reflexivity.
Qed.

(* shape of the module: names in declaration order, one entry per declared method, nothing else *)
Definition service_shape (pkg : str) (s : service) (a : aservice) : Prop :=
  as_name a = sv_name s /\
  as_abstract a = map me_name (sv_methods s) /\
  map e_func (as_mapping a) = map me_name (sv_methods s) /\
  map s_attr (as_stub a) = map me_name (sv_methods s) /\
  map e_route (as_mapping a) = map (fun m => route pkg (sv_name s) (me_name m)) (sv_methods s) /\
  map s_route (as_stub a) = map (fun m => route pkg (sv_name s) (me_name m)) (sv_methods s).

Lemma spec_service_shape tm pkg s : service_shape pkg s (spec_service tm pkg s).
Proof.
  unfold service_shape, spec_service. cbn [as_name as_abstract as_mapping as_stub].
  rewrite !map_map. repeat split; reflexivity.
Qed.

Lemma Forall2_map_r {A B} (P : A -> B -> Prop) (f : A -> B) l :
  (forall x, In x l -> P x (f x)) -> Forall2 P l (map f l).
Proof.
  induction l as [|x l IH]; intros H; cbn [map]; constructor.
  - apply H. left. reflexivity.
  - apply IH. intros y Hy. apply H. right. exact Hy.
Qed.

Lemma Forall2_map_both {A B C} (P : B -> C -> Prop) (f : A -> B) (g : A -> C) l :
  (forall x, In x l -> P (f x) (g x)) -> Forall2 P (map f l) (map g l).
Proof.
  induction l as [|x l IH]; intros H; cbn [map]; constructor.
  - apply H. left. reflexivity.
  - apply IH. intros y Hy. apply H. right. exact Hy.
Qed.

Lemma module_shape req mods g pf :
  main req = Ok mods -> In g (r_gen req) -> get_proto (r_files req) g = Some pf ->
  exists am, In (out_file_name g, am) mods /\ a_source am = f_name pf /\
    (f_services pf = [] -> a_imports am = [] /\ a_guarded am = [] /\ a_classes am = []) /\
    (f_services pf <> [] ->
       a_imports am = std_imports ++ map pb2_module_name (f_deps pf ++ [g]) /\
       a_guarded am = guarded_imports) /\
    Forall2 (service_shape (f_package pf)) (f_services pf) (a_classes am).
Proof.
  intros Hmain Hg Hp. destruct (main_In _ _ _ Hmain Hg) as [pf' [Hp' [_ Hin]]].
  rewrite Hp in Hp'. injection Hp' as <-. eexists. split; [exact Hin|]. split; [|split; [|split]].
  - unfold spec_module. destruct (f_services pf); reflexivity.
  - intros He. rewrite (spec_module_empty _ _ _ He). auto.
  - apply spec_module_imports.
  - rewrite spec_module_classes. apply Forall2_map_r. intros s _. apply spec_service_shape.
Qed.

(* Base mapping and Stub agree with each other, entry by entry *)
Definition agree (e : map_entry) (st : stub_entry) : Prop :=
  e_route e = s_route st /\ e_func e = s_attr st /\ e_req e = s_req st /\ e_rep e = s_rep st /\
  method_cls (e_card e) = Some (s_cls st) /\ class_cardinality (s_cls st) = Some (e_card e).

Lemma base_stub_agree req mods nm a :
  main req = Ok mods -> In nm mods -> In a (a_classes (snd nm)) -> Forall2 agree (as_mapping a) (as_stub a).
Proof.
  intros Hmain Hnm Ha. destruct (main_In_mods _ _ _ Hmain Hnm) as [g [_ [pf [_ [_ ->]]]]].
  cbn [snd] in Ha. rewrite spec_module_classes in Ha. apply in_map_iff in Ha as [s [<- _]].
  cbn [spec_service as_mapping as_stub]. apply Forall2_map_both. intros m _.
  unfold agree, spec_entry, spec_stub. cbn [e_route e_func e_req e_rep e_card s_route s_attr s_req s_rep s_cls].
  repeat (split; [reflexivity|]).
  unfold the_cls, the_card. destruct (cardinality_tables (me_cs m) (me_ss m)) as [c [cls [Hc [_ [Hcls Hcc]]]]].
  rewrite Hc. cbn [od]. rewrite Hcls. cbn [od]. auto.
Qed.

(* the route *)
Lemma route_nonempty_package pkg svc m :
  pkg <> [] -> route pkg svc m = [47] ++ pkg ++ [46] ++ svc ++ [47] ++ m.
Proof.
  intros H. unfold route, service_qual, dot. destruct pkg; [contradiction|]. cbn [nonempty].
  rewrite <- !app_assoc. reflexivity.
Qed.

Lemma route_empty_package svc m : route [] svc m = [47] ++ svc ++ [47] ++ m.
Proof. reflexivity. Qed.

Lemma route_injective pkg svc m1 m2 : route pkg svc m1 = route pkg svc m2 -> m1 = m2.
Proof.
  unfold route. intros H. apply app_inv_head in H. apply app_inv_head in H. apply app_inv_head in H. exact H.
Qed.

Lemma NoDup_map_injective {A B} (f : A -> B) l :
  (forall x y, f x = f y -> x = y) -> NoDup l -> NoDup (map f l).
Proof.
  intros Hinj H. induction H as [|x l Hx Hl IH]; cbn [map]; constructor; [|exact IH].
  intros Hin. apply in_map_iff in Hin as [y [Hy Hin]]. apply Hinj in Hy. subst. contradiction.
Qed.

(* ------------------------------------------------------------------------------------------ *)
(** * The executed module *)

(* nothing overwritten, mangled, reordered or failing: the executed classes are the rendered ones *)
Definition ideal_service (a : aservice) : list (str * eclass) :=
  [ (as_name a ++ base_suffix,
     CBase (EBase (as_abstract a) (Ok (map (fun e => (e_route e, e)) (as_mapping a)))));
    (as_name a ++ stub_suffix,
     CStub (EStub (Ok (map (fun s => (s_attr s, s)) (as_stub a))))) ].
Definition ideal_exec (m : amodule) : list (str * eclass) := flat_map ideal_service (a_classes m).

Definition service_clean (m : amodule) (a : aservice) : Prop :=
  NoDup (as_abstract a) /\ NoDup (map e_route (as_mapping a)) /\ NoDup (map s_attr (as_stub a)) /\
  (forall n, In n (as_abstract a) -> is_private n = false) /\
  (forall e, In e (as_mapping a) ->
     is_private (e_func e) = false /\ evaluable m (e_req e) = true /\ evaluable m (e_rep e) = true) /\
  (forall s, In s (as_stub a) ->
     is_private (s_attr s) = false /\ evaluable m (s_req s) = true /\ evaluable m (s_rep s) = true).

Lemma mangle_plain cls n : is_private n = false -> mangle cls n = n.
Proof. unfold mangle. intros ->. reflexivity. Qed.

Lemma base_ne_stub x y : x ++ base_suffix <> y ++ stub_suffix.
Proof.
  intros H. apply (f_equal (@rev Z)) in H. rewrite !rev_app_distr in H.
  unfold base_suffix, stub_suffix in H. cbn [rev app] in H. discriminate.
Qed.

Lemma class_names_NoDup (l : list aservice) :
  NoDup (map as_name l) ->
  NoDup (flat_map (fun a => [as_name a ++ base_suffix; as_name a ++ stub_suffix]) l).
Proof.
  induction l as [|a l IH]; cbn [map flat_map app]; intros H; [constructor|].
  inversion H as [|? ? Hnot Hl]; subst. specialize (IH Hl).
  assert (Hfresh : forall suf, (suf = base_suffix \/ suf = stub_suffix) ->
            ~ In (as_name a ++ suf) (flat_map (fun a => [as_name a ++ base_suffix; as_name a ++ stub_suffix]) l)).
  { intros suf Hsuf Hin. apply in_flat_map in Hin as [b [Hb [Heq|[Heq|[]]]]].
    - destruct Hsuf as [->| ->].
      + apply app_inv_tail in Heq. apply Hnot. rewrite <- Heq. apply in_map. exact Hb.
      + exact (base_ne_stub _ _ Heq).
    - destruct Hsuf as [->| ->].
      + symmetry in Heq. exact (base_ne_stub _ _ Heq).
      + apply app_inv_tail in Heq. apply Hnot. rewrite <- Heq. apply in_map. exact Hb. }
  constructor.
  - intros [Heq|Hin].
    + symmetry in Heq. exact (base_ne_stub _ _ Heq).
    + exact (Hfresh base_suffix (or_introl eq_refl) Hin).
  - constructor; [|exact IH]. exact (Hfresh stub_suffix (or_intror eq_refl)).
Qed.

Lemma forallb_true_In {A} (f : A -> bool) l : (forall x, In x l -> f x = true) -> forallb f l = true.
Proof. intros H. apply forallb_forall. exact H. Qed.

Lemma exec_service_clean m a : service_clean m a -> exec_service m a = ideal_service a.
Proof.
  intros [Hna [Hnr [Hns [Hpa [He Hs]]]]]. unfold exec_service, ideal_service. f_equal; [|f_equal].
  - f_equal. f_equal. f_equal.
    + rewrite (map_ext_in _ (fun n => (n, tt))).
      * rewrite dict_of_NoDup_id; rewrite map_map; cbn [fst]; rewrite map_id; [reflexivity | exact Hna].
      * intros n Hn. rewrite mangle_plain; [reflexivity | apply Hpa; exact Hn].
    + rewrite forallb_true_In.
      * f_equal. rewrite (map_ext_in _ (fun e => (e_route e, e))).
        -- apply dict_of_NoDup_id. rewrite map_map. cbn [fst]. exact Hnr.
        -- intros e Hin. destruct (He e Hin) as [Hp _]. rewrite mangle_plain by exact Hp.
           destruct e; reflexivity.
      * intros e Hin. destruct (He e Hin) as [_ [H1 H2]]. rewrite H1, H2. reflexivity.
  - f_equal. f_equal. f_equal. rewrite forallb_true_In.
    + f_equal. rewrite (map_ext_in _ (fun s => (s_attr s, s))).
      * apply dict_of_NoDup_id. rewrite map_map. cbn [fst]. exact Hns.
      * intros s Hin. destruct (Hs s Hin) as [Hp _]. rewrite mangle_plain by exact Hp. reflexivity.
    + intros s Hin. destruct (Hs s Hin) as [_ [H1 H2]]. rewrite H1, H2. reflexivity.
Qed.

Lemma flat_map_ext_in {A B} (f g : A -> list B) l :
  (forall x, In x l -> f x = g x) -> flat_map f l = flat_map g l.
Proof.
  induction l as [|x l IH]; intros H; cbn [flat_map]; [reflexivity|].
  rewrite H by (left; reflexivity). rewrite IH; [reflexivity|]. intros y Hy. apply H. right. exact Hy.
Qed.

Lemma ideal_keys (l : list aservice) :
  map fst (flat_map ideal_service l) =
  flat_map (fun a => [as_name a ++ base_suffix; as_name a ++ stub_suffix]) l.
Proof.
  induction l as [|a l IH]; cbn [flat_map map app ideal_service fst]; [reflexivity|].
  rewrite IH. reflexivity.
Qed.

Lemma exec_faithful m :
  syntax_ok m = true -> modelled m = true ->
  NoDup (map as_name (a_classes m)) ->
  (forall a, In a (a_classes m) -> service_clean m a) ->
  exec_module m = Ok (ideal_exec m).
Proof.
  intros Hsyn Hmod Hnd Hclean. unfold exec_module. rewrite Hsyn, Hmod. cbn [negb]. f_equal.
  rewrite (flat_map_ext_in _ ideal_service) by (intros a Ha; apply exec_service_clean, Hclean, Ha).
  unfold ideal_exec. apply dict_of_NoDup_id. rewrite ideal_keys. apply class_names_NoDup. exact Hnd.
Qed.

(* ---- first components of dotted paths ---- *)

Lemma hd_split_cons c x r : (x =? c) = false -> hd [] (split_on c (x :: r)) = x :: hd [] (split_on c r).
Proof. intros H. cbn [split_on]. rewrite H. destruct (split_on c r); reflexivity. Qed.

Lemma top_name_app_dot a b : top_name (a ++ 46 :: b) = top_name a.
Proof.
  unfold top_name. induction a as [|x a IH]; cbn [app].
  - reflexivity.
  - destruct (x =? 46) eqn:E.
    + cbn [split_on]. rewrite E. reflexivity.
    + rewrite !hd_split_cons by exact E. rewrite IH. reflexivity.
Qed.

Lemma top_name_py_name modname path : top_name (py_name modname path) = top_name modname.
Proof.
  unfold py_name. cbn [join]. destruct path as [|p r]; [reflexivity|].
  unfold dot. cbn [app]. apply top_name_app_dot.
Qed.

(* ---- the module main() renders is clean when the definition is ---- *)

(* t is declared in the file itself or in a file it imports directly *)
Definition resolves_direct (files : list file) (pf : file) (t py : str) : Prop :=
  exists f path, In f files /\ (f_name f = f_name pf \/ In (f_name f) (f_deps pf)) /\
                 declares (f_msgs f) path /\
                 t = proto_name (f_package f) path /\
                 py = py_name (pb2_module_name (f_name f)) path.

Lemma resolves_direct_resolves files pf t py : resolves_direct files pf t py -> resolves files t py.
Proof. intros [f [path [Hf [_ H]]]]. exists f, path. split; [exact Hf | exact H]. Qed.

Lemma direct_evaluable tm files pf g t py :
  f_services pf <> [] -> f_name pf = g -> resolves_direct files pf t py ->
  evaluable (spec_module tm pf g) py = true.
Proof.
  intros Hs Hg [f [path [_ [Hdir [_ [_ ->]]]]]]. unfold evaluable, bound_names.
  destruct (spec_module_imports tm pf g Hs) as [-> _]. apply mem_str_In.
  rewrite top_name_py_name. apply in_map. apply in_or_app. right. apply in_map.
  apply in_or_app. destruct Hdir as [Hn|Hd].
  - right. left. congruence.
  - left. exact Hd.
Qed.

Definition definition_clean (files : list file) (pf : file) : Prop :=
  NoDup (map sv_name (f_services pf)) /\
  forall s, In s (f_services pf) ->
    NoDup (map me_name (sv_methods s)) /\
    forall m, In m (sv_methods s) ->
      is_private (me_name m) = false /\
      (exists rq, resolves_direct files pf (me_in m) rq) /\
      (exists rp, resolves_direct files pf (me_out m) rp).

Lemma spec_module_clean files pf g :
  unique_types files -> f_name pf = g -> definition_clean files pf ->
  let am := spec_module (types_entries files) pf g in
  NoDup (map as_name (a_classes am)) /\ forall a, In a (a_classes am) -> service_clean am a.
Proof.
  intros Hu Hg [Hnd Hsv] am. subst am. rewrite spec_module_classes. split.
  - rewrite map_map. cbn [spec_service as_name]. exact Hnd.
  - intros a Ha. apply in_map_iff in Ha as [s [<- Hs]]. destruct (Hsv s Hs) as [Hnm Hm].
    assert (Hne : f_services pf <> []) by (intros E; rewrite E in Hs; contradiction).
    unfold service_clean. cbn [spec_service as_abstract as_mapping as_stub]. rewrite !map_map.
    cbn [spec_entry e_route spec_stub s_attr].
    split; [exact Hnm|]. split.
    { change (fun x => route (f_package pf) (sv_name s) (me_name x))
        with (fun x => (fun n => route (f_package pf) (sv_name s) n) (me_name x)).
      rewrite <- map_map. apply NoDup_map_injective; [apply route_injective | exact Hnm]. }
    split; [exact Hnm|]. split.
    { intros n Hn. apply in_map_iff in Hn as [m [<- Hin]]. apply (Hm m Hin). }
    assert (Hev : forall m, In m (sv_methods s) ->
              evaluable (spec_module (types_entries files) pf g) (the_req (types_entries files) m) = true /\
              evaluable (spec_module (types_entries files) pf g) (the_rep (types_entries files) m) = true).
    { intros m Hin. destruct (Hm m Hin) as [_ [[rq Hrq] [rp Hrp]]].
      rewrite (the_req_resolved _ _ _ Hu (resolves_direct_resolves _ _ _ _ Hrq)).
      rewrite (the_rep_resolved _ _ _ Hu (resolves_direct_resolves _ _ _ _ Hrp)).
      split; eapply direct_evaluable; eauto. }
    split.
    + intros e He. apply in_map_iff in He as [m [<- Hin]]. cbn [spec_entry e_func e_req e_rep].
      split; [apply (Hm m Hin) | apply Hev; exact Hin].
    + intros st Hst. apply in_map_iff in Hst as [m [<- Hin]]. cbn [spec_stub s_attr s_req s_rep].
      split; [apply (Hm m Hin) | apply Hev; exact Hin].
Qed.

(* the end-to-end statement on the executed module *)
Lemma executed_module req mods g pf :
  unique_types (r_files req) ->
  main req = Ok mods -> In g (r_gen req) -> get_proto (r_files req) g = Some pf ->
  definition_clean (r_files req) pf ->
  exists am, In (out_file_name g, am) mods /\
    (syntax_ok am = true -> modelled am = true -> exec_module am = Ok (ideal_exec am)).
Proof.
  intros Hu Hmain Hg Hp Hclean. destruct (main_In _ _ _ Hmain Hg) as [pf' [Hp' [_ Hin]]].
  rewrite Hp in Hp'. injection Hp' as <-. eexists. split; [exact Hin|]. intros Hsyn Hmod.
  destruct (get_proto_Some _ _ _ Hp) as [_ Hname].
  destruct (spec_module_clean (r_files req) pf g Hu Hname Hclean) as [Hnd Hsc].
  apply exec_faithful; assumption.
Qed.

Lemma no_services_no_classes req mods g pf :
  main req = Ok mods -> In g (r_gen req) -> get_proto (r_files req) g = Some pf ->
  f_services pf = [] ->
  In (out_file_name g, AModule (f_name pf) [] [] []) mods /\
  exec_module (AModule (f_name pf) [] [] []) = Ok [].
Proof.
  intros Hmain Hg Hp He. destruct (main_In _ _ _ Hmain Hg) as [pf' [Hp' [_ Hin]]].
  rewrite Hp in Hp'. injection Hp' as <-. rewrite (spec_module_empty _ _ _ He) in Hin.
  split; [exact Hin | reflexivity].
Qed.

(* ------------------------------------------------------------------------------------------ *)
(** * When main() succeeds and when it raises *)

Definition all_types_declared (files : list file) (pf : file) : Prop :=
  forall s m, In s (f_services pf) -> In m (sv_methods s) ->
    (exists rq, resolves files (me_in m) rq) /\ (exists rp, resolves files (me_out m) rp).

Lemma lookup_not_None files t :
  lookup_last t (types_entries files) <> None <-> exists py, resolves files t py.
Proof.
  split.
  - intros H. destruct (lookup_last t (types_entries files)) as [py|] eqn:E; [|contradiction].
    exists py. apply lookup_sound. exact E.
  - intros Hex E. apply lookup_none in E. contradiction.
Qed.

Lemma file_ok_iff files pf : file_ok (types_entries files) pf <-> all_types_declared files pf.
Proof.
  unfold file_ok, all_types_declared, method_ok. split; intros H s m Hs Hm; destruct (H s m Hs Hm) as [H1 H2];
    split; apply lookup_not_None; assumption.
Qed.

Lemma main_succeeds req :
  (forall g, In g (r_gen req) ->
     exists pf, get_proto (r_files req) g = Some pf /\ all_types_declared (r_files req) pf) ->
  exists mods, main req = Ok mods /\ map fst mods = map out_file_name (r_gen req).
Proof.
  intros H. destruct (main_total req) as [mods Hm].
  - intros g Hg. destruct (H g Hg) as [pf [Hp Hd]]. exists pf. split; [exact Hp|]. apply file_ok_iff. exact Hd.
  - exists mods. split; [exact Hm | apply main_output_names; exact Hm].
Qed.

(* KeyError: a generated file references a type that no file of the request declares;
   StopIteration: file_to_generate names no file of the request; nothing else is ever raised *)
Lemma main_raises req e :
  main req = Err e ->
  exists g, In g (r_gen req) /\
    ((e = EStopIteration /\ ~ In g (map f_name (r_files req))) \/
     (e = EKeyError /\ exists pf, get_proto (r_files req) g = Some pf /\
                                  ~ all_types_declared (r_files req) pf)).
Proof.
  intros H. apply main_Err in H as [g [Hg [[-> Hn]|[-> [pf [Hp Hnot]]]]]]; exists g; (split; [exact Hg|]).
  - left. split; [reflexivity | apply get_proto_None; exact Hn].
  - right. split; [reflexivity|]. exists pf. split; [exact Hp|]. intros Hd. apply Hnot. apply file_ok_iff. exact Hd.
Qed.

Lemma main_undeclared_type_raises req g pf :
  In g (r_gen req) -> get_proto (r_files req) g = Some pf ->
  ~ all_types_declared (r_files req) pf -> exists e, main req = Err e.
Proof.
  intros Hg Hp Hnot. apply (main_fails req g Hg). right. exists pf. split; [exact Hp|].
  intros Hok. apply Hnot. apply file_ok_iff. exact Hok.
Qed.

Lemma main_missing_file_raises req g :
  In g (r_gen req) -> ~ In g (map f_name (r_files req)) -> exists e, main req = Err e.
Proof. intros Hg Hn. apply (main_fails req g Hg). left. apply get_proto_None. exact Hn. Qed.

(* ------------------------------------------------------------------------------------------ *)
(** * Boolean checkers for the hypotheses (used by the examples; sound, proved here) *)

Fixpoint nodup_strb (l : list str) : bool :=
  match l with [] => true | x :: r => negb (mem_str x r) && nodup_strb r end.

Lemma nodup_strb_sound l : nodup_strb l = true -> NoDup l.
Proof.
  induction l as [|x r IH]; cbn [nodup_strb]; intros H; constructor.
  - apply andb_true_iff in H as [H _]. intros Hin. apply mem_str_In in Hin. rewrite Hin in H. discriminate.
  - apply IH. apply andb_true_iff in H as [_ H]. exact H.
Qed.

Definition direct_files (files : list file) (pf : file) : list file :=
  filter (fun f => zlist_eqb (f_name f) (f_name pf) || mem_str (f_name f) (f_deps pf)) files.

Definition has_key (t : str) (l : list (str * str)) : bool := mem_str t (map fst l).

Lemma has_key_direct files pf t :
  has_key t (types_entries (direct_files files pf)) = true -> exists py, resolves_direct files pf t py.
Proof.
  unfold has_key. intros H. apply mem_str_In in H. apply in_map_iff in H as [[k v] [Hk Hin]].
  cbn [fst] in Hk. subst k. exists v. apply resolves_iff_entry in Hin as [f [path [Hf [Hd [Ht Hv]]]]].
  unfold direct_files in Hf. apply filter_In in Hf as [Hf Hb]. exists f, path. split; [exact Hf|].
  split; [|auto]. apply orb_true_iff in Hb as [Hb|Hb].
  - left. apply zlist_eqb_eq. exact Hb.
  - right. apply mem_str_In. exact Hb.
Qed.

Definition definition_cleanb (files : list file) (pf : file) : bool :=
  nodup_strb (map sv_name (f_services pf)) &&
  forallb (fun s =>
    nodup_strb (map me_name (sv_methods s)) &&
    forallb (fun m => negb (is_private (me_name m)) &&
                      has_key (me_in m) (types_entries (direct_files files pf)) &&
                      has_key (me_out m) (types_entries (direct_files files pf)))
            (sv_methods s)) (f_services pf).

Lemma definition_cleanb_sound files pf : definition_cleanb files pf = true -> definition_clean files pf.
Proof.
  unfold definition_cleanb, definition_clean. intros H. apply andb_true_iff in H as [H1 H2]. split.
  - apply nodup_strb_sound. exact H1.
  - intros s Hs. rewrite forallb_forall in H2. specialize (H2 s Hs). apply andb_true_iff in H2 as [H2 H3].
    split; [apply nodup_strb_sound; exact H2|]. intros m Hm. rewrite forallb_forall in H3.
    specialize (H3 m Hm). apply andb_true_iff in H3 as [H3 H5]. apply andb_true_iff in H3 as [H3 H4].
    split; [apply negb_true_iff; exact H3|]. split; apply has_key_direct; assumption.
Qed.

Definition unique_typesb (files : list file) : bool := nodup_strb (map fst (types_entries files)).
Lemma unique_typesb_sound files : unique_typesb files = true -> unique_types files.
Proof. apply nodup_strb_sound. Qed.

(* weaker: declared in ANY file of the request (what protoc guarantees, `import public` included) *)
Definition definition_clean_any (files : list file) (pf : file) : Prop :=
  NoDup (map sv_name (f_services pf)) /\
  forall s, In s (f_services pf) ->
    NoDup (map me_name (sv_methods s)) /\
    forall m, In m (sv_methods s) ->
      is_private (me_name m) = false /\
      (exists rq, resolves files (me_in m) rq) /\ (exists rp, resolves files (me_out m) rp).

Definition definition_clean_anyb (files : list file) (pf : file) : bool :=
  nodup_strb (map sv_name (f_services pf)) &&
  forallb (fun s =>
    nodup_strb (map me_name (sv_methods s)) &&
    forallb (fun m => negb (is_private (me_name m)) &&
                      has_key (me_in m) (types_entries files) && has_key (me_out m) (types_entries files))
            (sv_methods s)) (f_services pf).

Lemma has_key_any files t : has_key t (types_entries files) = true -> exists py, resolves files t py.
Proof.
  unfold has_key. intros H. apply mem_str_In in H. apply in_map_iff in H as [[k v] [Hk Hin]].
  cbn [fst] in Hk. subst k. exists v. apply resolves_iff_entry. exact Hin.
Qed.

Lemma definition_clean_anyb_sound files pf :
  definition_clean_anyb files pf = true -> definition_clean_any files pf.
Proof.
  unfold definition_clean_anyb, definition_clean_any. intros H. apply andb_true_iff in H as [H1 H2]. split.
  - apply nodup_strb_sound. exact H1.
  - intros s Hs. rewrite forallb_forall in H2. specialize (H2 s Hs). apply andb_true_iff in H2 as [H2 H3].
    split; [apply nodup_strb_sound; exact H2|]. intros m Hm. rewrite forallb_forall in H3.
    specialize (H3 m Hm). apply andb_true_iff in H3 as [H3 H5]. apply andb_true_iff in H3 as [H3 H4].
    split; [apply negb_true_iff; exact H3|]. split; apply has_key_any; assumption.
Qed.

(* ------------------------------------------------------------------------------------------ *)
(** * The model agrees with what the plugin answered on the probes (Gen.FactsC20, observed on every run) *)

Definition names_agree (r : str * (str * str)) : bool :=
  zlist_eqb (pb2_module_name (fst r)) (fst (snd r)) && zlist_eqb (out_file_name (fst r)) (snd (snd r)).
Definition route_agrees (r : (str * (str * str)) * (str * str)) : bool :=
  let want := route (fst (fst r)) (fst (snd (fst r))) (snd (snd (fst r))) in
  zlist_eqb want (fst (snd r)) && zlist_eqb want (snd (snd r)).

Lemma source_probes :
  forallb names_agree names_probe = true /\ forallb route_agrees route_probe = true /\
  Nat.leb 20 (length names_probe) = true /\ Nat.leb 40 (length route_probe) = true /\
  existsb (fun r => negb (nonempty (fst (fst r)))) route_probe = true.
Proof. vm_compute. repeat split; reflexivity. Qed.

Lemma names_probe_In p m o :
  In (p, (m, o)) names_probe -> pb2_module_name p = m /\ out_file_name p = o.
Proof.
  intros Hin. destruct source_probes as [H _]. rewrite forallb_forall in H. specialize (H _ Hin).
  unfold names_agree in H. cbn [fst snd] in H. apply andb_true_iff in H as [H1 H2].
  apply zlist_eqb_eq in H1, H2. auto.
Qed.

Lemma route_probe_In pkg svc m rb rs :
  In ((pkg, (svc, m)), (rb, rs)) route_probe -> route pkg svc m = rb /\ route pkg svc m = rs.
Proof.
  intros Hin. destruct source_probes as [_ [H _]]. rewrite forallb_forall in H. specialize (H _ Hin).
  unfold route_agrees in H. cbn [fst snd] in H. apply andb_true_iff in H as [H1 H2].
  apply zlist_eqb_eq in H1, H2. auto.
Qed.

(* ------------------------------------------------------------------------------------------ *)
(** * Statements in the form used by Props/C20.v *)

Lemma module_names p :
  pb2_module_name p = map dash_slash (strip_proto p) ++ [95; 112; 98; 50] /\
  grpc_module_name p = map dash_slash (strip_proto p) ++ [95; 103; 114; 112; 99] /\
  out_file_name p = map (fun c => if c =? 46 then 47 else c) (grpc_module_name p) ++ [46; 112; 121].
Proof.
  split; [|split].
  - unfold pb2_module_name. rewrite base_module_name_spec. reflexivity.
  - unfold grpc_module_name. rewrite base_module_name_spec. reflexivity.
  - reflexivity.
Qed.

Lemma strip_proto_cases :
  (forall b, strip_proto (b ++ [46; 112; 114; 111; 116; 111; 100; 101; 118; 101; 108]) = b) /\
  (forall b, strip_proto (b ++ [46; 112; 114; 111; 116; 111]) = b) /\
  (forall p, ends_with [46; 112; 114; 111; 116; 111; 100; 101; 118; 101; 108] p = false ->
             ends_with [46; 112; 114; 111; 116; 111] p = false -> strip_proto p = p).
Proof. split; [exact strip_proto_protodevel | split; [exact strip_proto_proto | exact strip_proto_other]]. Qed.

Lemma cardinality_bijection :
  (forall cs ss cs' ss', cardinality_of cs ss = cardinality_of cs' ss' -> (cs, ss) = (cs', ss')) /\
  length cardinality_members = 4%nat /\
  (forall name flags, In (name, flags) cardinality_members ->
                      cardinality_of (fst flags) (snd flags) = Some name).
Proof.
  split; [exact cardinality_injective|]. split; [apply cardinality_onto | exact cardinality_member_of_table].
Qed.

(* with distinct RPC names every RPC has exactly one abstract method, mapping entry and stub attribute *)
Lemma shape_exactly_once pkg s a :
  service_shape pkg s a -> NoDup (map me_name (sv_methods s)) ->
  NoDup (as_abstract a) /\ NoDup (map e_route (as_mapping a)) /\ NoDup (map e_func (as_mapping a)) /\
  NoDup (map s_attr (as_stub a)) /\ NoDup (map s_route (as_stub a)) /\
  length (as_mapping a) = length (sv_methods s) /\ length (as_stub a) = length (sv_methods s).
Proof.
  intros [_ [Ha [Hf [Hs [Hr Hsr]]]]] Hnd.
  assert (Hroutes : NoDup (map (fun m => route pkg (sv_name s) (me_name m)) (sv_methods s))).
  { change (fun m => route pkg (sv_name s) (me_name m))
      with (fun m => (fun n => route pkg (sv_name s) n) (me_name m)).
    rewrite <- map_map. apply NoDup_map_injective; [apply route_injective | exact Hnd]. }
  rewrite Ha, Hf, Hs, Hr, Hsr. repeat (split; [assumption|]).
  split.
  - rewrite <- (map_length e_func), Hf, map_length. reflexivity.
  - rewrite <- (map_length s_attr), Hs, map_length. reflexivity.
Qed.

Lemma dict_semantics {V} (l : list (str * V)) :
  (forall k, assoc_str k (dict_of l) = lookup_last k l) /\ NoDup (map fst (dict_of l)) /\
  (NoDup (map fst l) -> dict_of l = l).
Proof. split; [intros k; apply dict_of_last_wins | split; [apply dict_of_NoDup | apply dict_of_NoDup_id]]. Qed.
