(* C04 -- proofs.  Part 1: the guard kernel (Model/GuardKernel.v): an inductive invariant over ALL
   label lists (all schedules, all resolutions of the environment's choices, all well-guarded paths),
   from which: once Wrapper.cancel has run, no task is suspended, every ready task finishes in its
   next scheduling step, and at quiescence every task is Done -- with the wrapper's error if it was
   blocked at a cancel or started afterwards.  Part 2: the delivery of termination events
   (Model/Termination.v).  Part 3: instantiation on the GENERATED client operations. *)
From Coq Require Import List Bool Arith Lia ZArith.
From GV Require Import Model.StreamIR Model.StreamSem Model.GuardKernel Model.Termination.
Import ListNotations.

(* ================================================================================================ *)
(* Part 1: the kernel                                                                               *)
(* ================================================================================================ *)

Definition head_await (a : path) : Prop := exists s r, a = AAwait s :: r.

Definition wrap_res (es : list err) (r : result) : Prop :=
  exists e, In e es /\ r = RRaise (XWrap e).

Definition tinv (we : option err) (mem : list nat) (es : list err) (i : nat) (tk : task) : Prop :=
  match st tk with
  | Fresh => depth tk = 0 /\ acts tk = orig tk /\ wgd 0 (acts tk) = true /\ mark tk <> MAtCancel
  | Blocked => depth tk = 1 /\ wgd 1 (acts tk) = true /\ head_await (acts tk) /\ In i mem /\ we = None
  | Woken cp => depth tk = 1 /\ wgd 1 (acts tk) = true /\ head_await (acts tk) /\ In i mem
                /\ (we <> None -> cp = true) /\ (cp = true -> we <> None)
  | Done r => (mark tk = MAtCancel -> wrap_res es r)
              /\ (mark tk = MAfter -> first_enter (orig tk) = true -> wrap_res es r)
  end
  /\ (mark tk <> MBefore -> we <> None).

Definition kinv (s : kstate) : Prop :=
  (forall e, werr s = Some e -> In e (errs s)) /\
  forall i tk, nth_error (tasks s) i = Some tk -> tinv (werr s) (members s) (errs s) i tk.

(* ---- list plumbing ---- *)
Lemma nth_set_nth_eq {A} (l : list A) n x : n < length l -> nth_error (set_nth n x l) n = Some x.
Proof.
  revert n. induction l as [|y r IH]; intros [|n] H; simpl in *; try lia; [reflexivity|].
  apply IH. lia.
Qed.

Lemma nth_set_nth_ne {A} (l : list A) n m x : n <> m -> nth_error (set_nth n x l) m = nth_error l m.
Proof.
  revert n m. induction l as [|y r IH]; intros [|n] [|m] H; simpl; try reflexivity; try congruence.
  apply IH. congruence.
Qed.

Lemma nth_mapi_from {A B} (f : nat -> A -> B) l : forall n i,
  nth_error (mapi_from f n l) i = option_map (f (n + i)) (nth_error l i).
Proof.
  induction l as [|x r IH]; intros n [|i]; simpl; try reflexivity.
  - rewrite Nat.add_0_r. reflexivity.
  - rewrite IH. replace (S n + i) with (n + S i) by lia. reflexivity.
Qed.

Lemma is_member_In i mem : is_member i mem = true <-> In i mem.
Proof.
  unfold is_member. rewrite existsb_exists. split.
  - intros [x [Hx He]]. apply Nat.eqb_eq in He. subst. exact Hx.
  - intro H. exists i. split; [exact H | apply Nat.eqb_refl].
Qed.

Lemma In_drop_ne i j mem : j <> i -> (In j (drop i mem) <-> In j mem).
Proof.
  intro H. unfold drop. rewrite filter_In. split; [tauto|]. intro Hj. split; [exact Hj|].
  apply negb_true_iff. apply Nat.eqb_neq. exact H.
Qed.

Lemma wrap_res_mono es e r : wrap_res es r -> wrap_res (e :: es) r.
Proof. intros [x [Hx Hr]]. exists x. split; [right; exact Hx | exact Hr]. Qed.

(* ---- one scheduling step of a task ---- *)
Lemma finish_st we i d mem sd r :
  exists r', x_st (finish we i d mem sd r) = Done r' /\
             (forall j, j <> i -> (In j (x_mem (finish we i d mem sd r)) <-> In j mem)) /\
             (d = 0 -> r' = r) /\
             (d <> 0 -> forall e, we = Some e -> r' = RRaise (XWrap e)).
Proof.
  destruct d as [|d]; simpl.
  - exists r. split; [reflexivity|]. split; [intros; tauto|]. split; [intros _; reflexivity|].
    intro H. exfalso. apply H. reflexivity.
  - eexists. split; [reflexivity|]. split; [|split].
    + intros j Hj. apply In_drop_ne. exact Hj.
    + intro H; discriminate.
    + intros _ e He. subst we. reflexivity.
Qed.

Definition exec_post (we : option err) (i : nat) (a : path) (mem : list nat) (x : xres) : Prop :=
  (forall j, j <> i -> (In j (x_mem x) <-> In j mem)) /\
  match x_st x with
  | Blocked => x_depth x = 1 /\ wgd 1 (x_acts x) = true /\ head_await (x_acts x) /\ In i (x_mem x)
               /\ we = None
  | Done r => forall e, we = Some e -> first_enter a = true -> r = RRaise (XWrap e)
  | _ => False
  end.

Lemma exec_spec we i : forall a d mem sd ds,
  wgd d a = true -> d <= 1 -> (d = 1 -> In i mem /\ we = None) ->
  exec_post we i a mem (exec we i a d mem sd ds).
Proof.
  induction a as [|ac a IH]; intros d mem sd ds Hwg Hd H1.
  - simpl in Hwg. apply Nat.eqb_eq in Hwg. subst d. simpl. split; [tauto|]. intros e _ H. discriminate.
  - destruct ac; simpl in Hwg |- *.
    + (* AEnter *)
      apply andb_prop in Hwg. destruct Hwg as [Hd0 Hwg]. apply Nat.eqb_eq in Hd0. subst d.
      destruct we as [e|].
      * simpl. split; [tauto|]. intros e' He' _. congruence.
      * specialize (IH 1 (i :: mem) sd ds Hwg (le_n 1)).
        destruct IH as [Hm Hs]; [intros _; split; [left; reflexivity | reflexivity]|].
        split.
        -- intros j Hj. rewrite (Hm j Hj). simpl. split; [intros [E|E]; [congruence|exact E] | tauto].
        -- destruct (x_st (exec None i a 1 (i :: mem) sd ds)); try exact Hs.
           intros e He; discriminate.
    + (* AExit *)
      apply andb_prop in Hwg. destruct Hwg as [Hd1 Hwg]. apply Nat.eqb_eq in Hd1. subst d.
      destruct (H1 eq_refl) as [Hin Hwe]. subst we.
      specialize (IH 0 (drop i mem) sd ds Hwg (Nat.le_0_l 1)).
      destruct IH as [Hm Hs]; [intro H; discriminate|].
      split.
      * intros j Hj. rewrite (Hm j Hj). apply In_drop_ne. exact Hj.
      * simpl. destruct (x_st (exec None i a 0 (drop i mem) sd ds)); try exact Hs.
        intros e He; discriminate.
    + (* AAwait *)
      apply andb_prop in Hwg. destruct Hwg as [Hd1 Hwg]. apply Nat.eqb_eq in Hd1. subst d.
      destruct (H1 eq_refl) as [Hin Hwe]. subst we.
      destruct ds as [|[| |] ds'].
      * simpl. split; [tauto|]. split; [reflexivity|]. split; [simpl; exact Hwg|].
        split; [exists s, a; reflexivity|]. split; [exact Hin | reflexivity].
      * specialize (IH 1 mem (s :: sd) ds' Hwg (le_n 1) H1). destruct IH as [Hm Hs].
        split; [exact Hm|]. destruct (x_st (exec None i a 1 mem (s :: sd) ds')); try exact Hs.
        intros e He; discriminate.
      * simpl. split; [tauto|]. split; [reflexivity|]. split; [simpl; exact Hwg|].
        split; [exists s, a; reflexivity|]. split; [exact Hin | reflexivity].
      * simpl. split; [intros j Hj; apply In_drop_ne; exact Hj|]. intros e He; discriminate.
    + (* ARaise *)
      destruct (finish_st we i d mem sd (RRaise (XProg e))) as [r' [Hst [Hm _]]].
      split; [exact Hm|]. rewrite Hst. intros e' _ H; discriminate.
    + (* AReturn *)
      apply Nat.eqb_eq in Hwg. subst d. simpl. split; [tauto|]. intros e _ H; discriminate.
    + (* ASet *)
      specialize (IH d mem sd ds Hwg Hd H1). destruct IH as [Hm Hs]. split; [exact Hm|].
      destruct (x_st (exec we i a d mem sd ds)); try exact Hs.
    + (* AHelp *)
      assert (Hgo : forall ds', exec_post we i (AHelp h :: a) mem (exec we i a d mem sd ds')).
      { intro ds'. specialize (IH d mem sd ds' Hwg Hd H1). destruct IH as [Hm Hs]. split; [exact Hm|].
        destruct (x_st (exec we i a d mem sd ds')); try exact Hs. intros e _ H; discriminate. }
      destruct ds as [|[| |] ds']; try apply Hgo.
      destruct (finish_st we i d mem sd (RRaise XAdv)) as [r' [Hst [Hm _]]].
      split; [exact Hm|]. rewrite Hst. intros e' _ H; discriminate.
    + (* AOther *)
      assert (Hgo : forall ds', exec_post we i (AOther :: a) mem (exec we i a d mem sd ds')).
      { intro ds'. specialize (IH d mem sd ds' Hwg Hd H1). destruct IH as [Hm Hs]. split; [exact Hm|].
        destruct (x_st (exec we i a d mem sd ds')); try exact Hs. intros e _ H; discriminate. }
      destruct ds as [|[| |] ds']; try apply Hgo.
      destruct (finish_st we i d mem sd (RRaise XAdv)) as [r' [Hst [Hm _]]].
      split; [exact Hm|]. rewrite Hst. intros e' _ H; discriminate.
Qed.

(* tinv of the other tasks only depends on their own membership *)
Lemma tinv_other we mem mem' es j tk :
  (In j mem <-> In j mem') -> tinv we mem es j tk -> tinv we mem' es j tk.
Proof.
  intros Hm [H Hk]. split; [|exact Hk]. destruct (st tk); try exact H.
  - destruct H as (a & b & c & d & e). split; [exact a|]. split; [exact b|]. split; [exact c|].
    split; [apply (proj1 Hm); exact d | exact e].
  - destruct H as (a & b & c & d & e). split; [exact a|]. split; [exact b|]. split; [exact c|].
    split; [apply (proj1 Hm); exact d | exact e].
Qed.

Lemma mark_dec (m : tmark) : m = MBefore \/ m <> MBefore.
Proof. destruct m; [left; reflexivity | right; discriminate | right; discriminate]. Qed.

(* the post-condition of a scheduling step gives the invariant of the scheduled task *)
Lemma tinv_of_post we es i tk a mem x :
  (forall e, we = Some e -> In e es) ->
  exec_post we i a mem x ->
  (mark tk <> MBefore -> we <> None) ->
  (we <> None -> mark tk <> MAtCancel /\ a = orig tk) ->
  tinv we (x_mem x) es i
       {| acts := x_acts x; depth := x_depth x; st := x_st x; mark := mark tk; orig := orig tk |}.
Proof.
  intros Hes [_ Hp] Hmk Hfr. split; [|exact Hmk]. cbn [st acts depth mark orig].
  destruct (x_st x) as [| |cp|r]; try contradiction.
  - exact Hp.
  - destruct we as [e|].
    + destruct Hfr as [Hm Ha]; [discriminate|]. split.
      * intro H. contradiction.
      * intros _ Hfe. exists e. split; [apply Hes; reflexivity|]. apply Hp; [reflexivity|].
        rewrite Ha. exact Hfe.
    + split; intro H; destruct (mark_dec (mark tk)) as [E|E]; try congruence;
        exfalso; apply (Hmk E); reflexivity.
Qed.

Lemma kinv_init : kinv kinit.
Proof. split; [intros e H; discriminate|]. intros [|i] tk H; discriminate. Qed.

Lemma kinv_step s l : kinv s -> label_ok l -> kinv (kstep s l).
Proof.
  intros [Hes Hts] Hok. destruct l as [p|t ds|t|e]; simpl.
  - (* Spawn *)
    split; [exact Hes|]. cbn [tasks werr members errs]. intros i tk Hn.
    destruct (Nat.lt_ge_cases i (length (tasks s))) as [Hlt|Hge].
    + rewrite nth_error_app1 in Hn by exact Hlt. apply Hts. exact Hn.
    + rewrite nth_error_app2 in Hn by exact Hge.
      destruct (i - length (tasks s)) as [|k]; [|destruct k; discriminate].
      simpl in Hn. injection Hn as <-. split; cbn [st depth acts orig mark].
      * repeat split; try reflexivity; [exact Hok|]. destruct (werr s); discriminate.
      * destruct (werr s); [intros _; discriminate | intro H; congruence].
  - (* Run *)
    destruct (nth_error (tasks s) t) as [tk|] eqn:Ht; [|split; assumption].
    pose proof (Hts t tk Ht) as [Hi Hmk].
    assert (Hlen : t < length (tasks s)) by (apply nth_error_Some; congruence).
    unfold run_task. destruct (st tk) as [| |cp|r] eqn:Hst; try (split; assumption).
    + (* Fresh *)
      destruct Hi as (Hd & Ha & Hwg & Hnm).
      pose proof (exec_spec (werr s) t (acts tk) (depth tk) (members s) (sites_done s) ds) as Hx.
      rewrite Hd in Hx. specialize (Hx Hwg (Nat.le_0_l 1)). destruct Hx as [Hm Hp]; [intro H; discriminate|].
      rewrite Hd. set (x := exec (werr s) t (acts tk) 0 (members s) (sites_done s) ds) in *.
      split; [exact Hes|]. cbn [tasks werr members errs]. intros i tk' Hn.
      destruct (Nat.eq_dec t i) as [<-|Hne].
      * rewrite nth_set_nth_eq in Hn by exact Hlen. injection Hn as <-.
        apply tinv_of_post with (a := acts tk) (mem := members s); try assumption.
        -- split; assumption.
        -- intros _. split; assumption.
      * rewrite nth_set_nth_ne in Hn by exact Hne.
        apply tinv_other with (mem := members s); [symmetry; apply Hm; congruence | apply Hts; exact Hn].
    + destruct cp.
      * (* Woken true: CancelledError at the await, replaced by the wrapper's error on the way out *)
        destruct Hi as (Hd & Hwg & Hh & Hin & _ & Hw). specialize (Hw eq_refl).
        destruct (werr s) as [e|] eqn:Hwe; [|congruence].
        rewrite Hd. simpl.
        split; [exact Hes|].
        cbn [tasks werr members errs]. intros i tk' Hn.
        destruct (Nat.eq_dec t i) as [<-|Hne].
        -- rewrite nth_set_nth_eq in Hn by exact Hlen. injection Hn as <-.
           split; cbn [st mark orig].
           ++ split; intros; exists e; (split; [apply Hes; reflexivity | reflexivity]).
           ++ intros _; discriminate.
        -- rewrite nth_set_nth_ne in Hn by exact Hne.
           apply tinv_other with (mem := members s).
           ++ symmetry. apply In_drop_ne. congruence.
           ++ apply Hts. exact Hn.
      * (* Woken false: the await completed, the task goes on *)
        destruct Hi as (Hd & Hwg & [sx [rx Ha]] & Hin & Hw & _).
        assert (Hwe : werr s = None).
        { destruct (werr s); [|reflexivity]. assert (false = true) by (apply Hw; discriminate). discriminate. }
        rewrite Ha. rewrite Ha in Hwg. simpl in Hwg.
        pose proof (exec_spec (werr s) t rx (depth tk) (members s) (sx :: sites_done s) ds) as Hx.
        rewrite Hd in Hx. specialize (Hx Hwg (le_n 1)). destruct Hx as [Hm Hp]; [intros _; split; assumption|].
        rewrite Hd. set (x := exec (werr s) t rx 1 (members s) (sx :: sites_done s) ds) in *.
        split; [exact Hes|]. cbn [tasks werr members errs]. intros i tk' Hn.
        destruct (Nat.eq_dec t i) as [<-|Hne].
        -- rewrite nth_set_nth_eq in Hn by exact Hlen. injection Hn as <-.
           apply tinv_of_post with (a := rx) (mem := members s); try assumption.
           ++ split; assumption.
           ++ intro H. congruence.
        -- rewrite nth_set_nth_ne in Hn by exact Hne.
           apply tinv_other with (mem := members s); [symmetry; apply Hm; congruence | apply Hts; exact Hn].
  - (* Complete *)
    destruct (nth_error (tasks s) t) as [tk|] eqn:Ht; [|split; assumption].
    destruct (st tk) eqn:Hst; try (split; assumption).
    pose proof (Hts t tk Ht) as [Hi Hmk]. rewrite Hst in Hi. destruct Hi as (Hd & Hwg & Hh & Hin & Hwe).
    assert (Hlen : t < length (tasks s)) by (apply nth_error_Some; congruence).
    split; [exact Hes|]. cbn [tasks werr members errs]. intros i tk' Hn.
    destruct (Nat.eq_dec t i) as [<-|Hne].
    + rewrite nth_set_nth_eq in Hn by exact Hlen. injection Hn as <-.
      split; cbn [st acts depth mark orig]; [|exact Hmk].
      repeat split; try assumption; intro H; congruence.
    + rewrite nth_set_nth_ne in Hn by exact Hne. apply Hts. exact Hn.
  - (* WCancel *)
    split; [intros e' H; injection H as <-; left; reflexivity|].
    cbn [tasks werr members errs]. intros i tk' Hn.
    rewrite nth_mapi_from in Hn. simpl in Hn.
    destruct (nth_error (tasks s) i) as [tk|] eqn:Ht; [|discriminate]. injection Hn as <-.
    pose proof (Hts i tk Ht) as [Hi Hmk]. unfold cancel_task.
    destruct (st tk) as [| |cp|r] eqn:Hst.
    + assert (Hsame : (if is_member i (members s) then tk else tk) = tk) by (destruct (is_member i (members s)); reflexivity).
      rewrite Hsame. split; [rewrite Hst; exact Hi | intros _; discriminate].
    + destruct Hi as (Hd & Hwg & Hh & Hin & Hwe).
      rewrite (proj2 (is_member_In i (members s)) Hin).
      split; cbn [st acts depth mark orig]; [|intros _; discriminate].
      repeat split; try assumption; try reflexivity. intros _; discriminate.
    + destruct Hi as (Hd & Hwg & Hh & Hin & _).
      rewrite (proj2 (is_member_In i (members s)) Hin).
      split; cbn [st acts depth mark orig]; [|intros _; discriminate].
      repeat split; try assumption; try reflexivity. intros _; discriminate.
    + assert (Hsame : (if is_member i (members s) then tk else tk) = tk) by (destruct (is_member i (members s)); reflexivity).
      rewrite Hsame. split; [|intros _; discriminate]. rewrite Hst. destruct Hi as [Ha Hb].
      split; intros; apply wrap_res_mono; auto.
Qed.

Lemma kinv_run ls : forall s, kinv s -> Forall label_ok ls -> kinv (krun ls s).
Proof.
  induction ls as [|l ls IH]; intros s Hs Hok; [exact Hs|].
  inversion Hok; subst. simpl. apply IH; [apply kinv_step; assumption | assumption].
Qed.

(* ---- consequences of the invariant ---- *)

(* once the wrapper holds an error no task is suspended any more *)
Lemma kinv_no_blocked s : kinv s -> werr s <> None ->
  forall i tk, nth_error (tasks s) i = Some tk -> st tk <> Blocked.
Proof.
  intros [_ Hts] Hwe i tk Hn Hst. destruct (Hts i tk Hn) as [Hi _]. rewrite Hst in Hi.
  destruct Hi as (_ & _ & _ & _ & H). contradiction.
Qed.

Lemma kinv_quiescent_done s : kinv s -> werr s <> None -> quiescent s = true ->
  forall i tk, nth_error (tasks s) i = Some tk ->
    exists r, st tk = Done r
      /\ (mark tk = MAtCancel -> wrap_res (errs s) r)
      /\ (mark tk = MAfter -> first_enter (orig tk) = true -> wrap_res (errs s) r).
Proof.
  intros Hk Hwe Hq i tk Hn.
  pose proof (kinv_no_blocked s Hk Hwe i tk Hn) as Hnb.
  unfold quiescent in Hq. rewrite forallb_forall in Hq.
  specialize (Hq tk (nth_error_In _ _ Hn)).
  destruct Hk as [_ Hts]. destruct (Hts i tk Hn) as [Hi _].
  destruct (st tk) as [| |cp|r]; try discriminate; try congruence.
  exists r. split; [reflexivity | exact Hi].
Qed.

(* "promptly": a ready task of a cancelled wrapper is Done after its next scheduling step *)
Lemma kinv_ready_finishes s : kinv s -> werr s <> None ->
  forall t tk ds, nth_error (tasks s) t = Some tk -> is_ready (st tk) = true ->
    exists tk' r, nth_error (tasks (kstep s (Run t ds))) t = Some tk' /\ st tk' = Done r.
Proof.
  intros Hk Hwe t tk ds Hn Hr.
  assert (Hlen : t < length (tasks s)) by (apply nth_error_Some; congruence).
  destruct Hk as [Hes Hts]. destruct (Hts t tk Hn) as [Hi _].
  simpl. rewrite Hn. unfold run_task. destruct (st tk) as [| |cp|r] eqn:Hst; try discriminate.
  - destruct Hi as (Hd & Ha & Hwg & _).
    pose proof (exec_spec (werr s) t (acts tk) (depth tk) (members s) (sites_done s) ds) as Hx.
    rewrite Hd in Hx. specialize (Hx Hwg (Nat.le_0_l 1)). destruct Hx as [_ Hp]; [intro H; discriminate|].
    rewrite Hd. cbn [tasks]. rewrite nth_set_nth_eq by exact Hlen.
    destruct (x_st (exec (werr s) t (acts tk) 0 (members s) (sites_done s) ds)) as [| |c|r] eqn:Hxs;
      try contradiction.
    + destruct Hp as (_ & _ & _ & _ & H). contradiction.
    + eexists. exists r. split; reflexivity.
  - destruct Hi as (Hd & _ & _ & _ & Hw & _).
    assert (cp = true) by (apply Hw; exact Hwe). subst cp.
    destruct (finish_st (werr s) t (depth tk) (members s) (sites_done s) (RRaise XCancelled))
      as [r' [Hfs _]].
    cbn [tasks]. rewrite nth_set_nth_eq by exact Hlen.
    eexists. exists r'. split; [reflexivity|]. exact Hfs.
Qed.

(* META-THEOREM.  Over all label lists = all schedules, all decisions of the environment, all
   operations whose paths are well guarded, any number of tasks and of cancels: *)
Theorem guarded_ops_complete_after_cancel :
  forall ls, Forall label_ok ls ->
    let s := krun ls kinit in
    werr s <> None ->
    (* nothing is suspended, *)
    (forall i tk, nth_error (tasks s) i = Some tk -> st tk <> Blocked) /\
    (* whatever is ready finishes in its next scheduling step, *)
    (forall t tk ds, nth_error (tasks s) t = Some tk -> is_ready (st tk) = true ->
       exists tk' r, nth_error (tasks (kstep s (Run t ds))) t = Some tk' /\ st tk' = Done r) /\
    (* and at quiescence every task is Done: with an error passed to Wrapper.cancel if it was
       blocked at a cancel, or was started after one and reaches a guard *)
    (quiescent s = true ->
       forall i tk, nth_error (tasks s) i = Some tk ->
         exists r, st tk = Done r
           /\ (mark tk = MAtCancel -> wrap_res (errs s) r)
           /\ (mark tk = MAfter -> first_enter (orig tk) = true -> wrap_res (errs s) r)).
Proof.
  intros ls Hok s Hwe.
  assert (Hk : kinv s) by (apply kinv_run; [apply kinv_init | exact Hok]).
  split; [|split].
  - apply kinv_no_blocked; assumption.
  - apply kinv_ready_finishes; assumption.
  - apply kinv_quiescent_done; assumption.
Qed.

(* the hypothesis is needed: an await outside the guard (the shape of the old, unguarded
   Stream.end()) is never woken by Wrapper.cancel *)
Definition old_end_path : path := [AAwait (SPrim PEnd); ASet].

Lemma unguarded_await_hangs :
  exists ls, let s := krun ls kinit in
    werr s <> None /\ quiescent s = true /\
    exists tk, nth_error (tasks s) 0 = Some tk /\ st tk = Blocked.
Proof.
  exists [Spawn old_end_path; Run 0 []; WCancel ETerminated].
  vm_compute. split; [discriminate|]. split; [reflexivity|]. eexists. split; reflexivity.
Qed.

(* Wrapper._error is sticky *)
Lemma werr_sticky s l : werr s <> None -> werr (kstep s l) <> None.
Proof.
  intro H. destruct l as [p|t ds|t|e]; simpl; try exact H.
  - destruct (nth_error (tasks s) t); [|exact H]. destruct (run_task _ _ _ _ _ _); exact H.
  - destruct (nth_error (tasks s) t) as [tk|]; [|exact H]. destruct (st tk); exact H.
  - discriminate.
Qed.

(* the errors a wrapper ever held all came from Wrapper.cancel; with one source there is one error *)
Lemma errs_only_from s l e0 : (forall e, In e (errs s) -> e = e0) ->
  (forall e, l = WCancel e -> e = e0) -> forall e, In e (errs (kstep s l)) -> e = e0.
Proof.
  intros H Hl e. destruct l as [p|t ds|t|e']; simpl; try apply H.
  - destruct (nth_error (tasks s) t); [|apply H]. destruct (run_task _ _ _ _ _ _); apply H.
  - destruct (nth_error (tasks s) t) as [tk|]; [|apply H]. destruct (st tk); apply H.
  - intros [E|E]; [subst; apply Hl; reflexivity | apply H; exact E].
Qed.

(* ================================================================================================ *)
(* Part 2: termination events reach the wrappers of the REGISTERED calls                            *)
(* ================================================================================================ *)

Definition errs_ok (c : call) : Prop :=
  forall e, In e (errs (ck c)) -> e = ETerminated \/ (has_deadline c = true /\ e = ETimeout).

Definition cinv (c : call) : Prop :=
  kinv (ck c) /\ (hit c = true -> werr (ck c) <> None) /\ errs_ok c.

Definition sinv (s : sys) : Prop := Forall cinv s.

Definition slabel_wg (l : slabel) : Prop :=
  match l with LK _ (Spawn p) => well_guarded p = true | _ => True end.

Lemma Forall_set_nth {A} (P : A -> Prop) l n x : Forall P l -> P x -> Forall P (set_nth n x l).
Proof.
  intros Hl Hx. revert n. induction Hl as [|y r Hy Hr IH]; intros [|n]; simpl; constructor; auto.
Qed.

Lemma Forall_upd (P : call -> Prop) s n f :
  Forall P s -> (forall c, P c -> P (f c)) -> Forall P (upd n f s).
Proof.
  intros Hs Hf. unfold upd. destruct (nth_error s n) as [c|] eqn:E; [|exact Hs].
  apply Forall_set_nth; [exact Hs|]. apply Hf. rewrite Forall_forall in Hs. apply Hs.
  eapply nth_error_In. exact E.
Qed.

Lemma errs_kstep s l : errs (kstep s l) = match l with WCancel e => e :: errs s | _ => errs s end.
Proof.
  destruct l as [p|t ds|t|e]; simpl; try reflexivity.
  - destruct (nth_error (tasks s) t); [|reflexivity]. destruct (run_task _ _ _ _ _ _); reflexivity.
  - destruct (nth_error (tasks s) t) as [tk|]; [|reflexivity]. destruct (st tk); reflexivity.
Qed.

Lemma cinv_kstep c kl : cinv c -> label_ok kl -> (forall e, kl <> WCancel e) ->
  cinv (with_k c (kstep (ck c) kl)).
Proof.
  intros (Hk & Hh & He) Hok Hnc. split; [|split]; cbn [ck with_k hit].
  - apply kinv_step; assumption.
  - intro H. apply werr_sticky. apply Hh. exact H.
  - unfold errs_ok. cbn [ck with_k has_deadline]. rewrite errs_kstep.
    destruct kl; try exact He. exfalso. eapply Hnc. reflexivity.
Qed.

Lemma cinv_terminate c : cinv c -> cinv (terminate c).
Proof.
  intros (Hk & Hh & He). split; [|split]; cbn [ck terminate hit].
  - apply kinv_step; [exact Hk | exact I].
  - intros _. simpl. discriminate.
  - unfold errs_ok. cbn [ck terminate has_deadline]. rewrite errs_kstep.
    intros e [<-|H]; [left; reflexivity | apply He; exact H].
Qed.

Lemma sinv_step s l : sinv s -> slabel_wg l -> sinv (sstep s l).
Proof.
  intros Hs Hok. destruct l as [dl|c kl|c rm|e|c|c]; cbn [sstep].
  - apply Forall_app. split; [exact Hs|]. constructor; [|constructor].
    split; [apply kinv_init|]. split; [discriminate|]. intros e [].
  - destruct kl as [p|t ds|t|e]; try exact Hs; apply Forall_upd; try exact Hs; intros cl Hc;
      apply cinv_kstep; try exact Hc; try exact I; try exact Hok; intros e; discriminate.
  - apply Forall_upd; [exact Hs|]. intros cl Hc. destruct (registered cl); [apply cinv_terminate|]; exact Hc.
  - unfold sinv in *. rewrite Forall_forall in *. intros c' Hin. apply in_map_iff in Hin.
    destruct Hin as [cl [<- Hin]]. specialize (Hs cl Hin). unfold conn_event.
    destruct (registered cl); [apply cinv_terminate; exact Hs|].
    destruct (opening cl); [|exact Hs]. exact Hs.
  - apply Forall_upd; [exact Hs|]. intros cl Hc. exact Hc.
  - apply Forall_upd; [exact Hs|]. intros cl (Hk & Hh & He).
    destruct (has_deadline cl) eqn:Hd; [|split; [|split]; assumption].
    split; [|split]; cbn [ck with_k hit].
    + apply kinv_step; [exact Hk | exact I].
    + intros _. simpl. discriminate.
    + unfold errs_ok. cbn [ck with_k has_deadline]. rewrite errs_kstep.
      intros e [<-|H]; [right; split; [exact Hd | reflexivity] | apply He; exact H].
Qed.

Lemma sinv_run ls : forall s, sinv s -> Forall slabel_wg ls -> sinv (srun ls s).
Proof.
  induction ls as [|l ls IH]; intros s Hs Hok; [exact Hs|].
  inversion Hok; subst. simpl. apply IH; [apply sinv_step; assumption | assumption].
Qed.

Lemma nth_set_nth_same {A} (l : list A) n x c :
  nth_error l n = Some c -> nth_error (set_nth n x l) n = Some x.
Proof. intro H. apply nth_set_nth_eq. apply nth_error_Some. congruence. Qed.

(* EventsProcessor.close (GOAWAY, protocol error, connection_lost, Channel.close): the wrapper of
   EVERY registered call gets StreamTerminatedError *)
Theorem conn_event_reaches_every_registered s e c cl :
  nth_error s c = Some cl -> registered cl = true ->
  exists cl', nth_error (sstep s (LConn e)) c = Some cl'
              /\ werr (ck cl') = Some ETerminated /\ hit cl' = true.
Proof.
  intros Hn Hr. simpl. rewrite nth_error_map, Hn. simpl. unfold conn_event. rewrite Hr.
  eexists. split; [reflexivity|]. split; reflexivity.
Qed.

(* ... and a call that is not registered is not told: its wrapper, tasks and members are untouched *)
Theorem conn_event_skips_unregistered s e c cl :
  nth_error s c = Some cl -> registered cl = false ->
  exists cl', nth_error (sstep s (LConn e)) c = Some cl' /\ ck cl' = ck cl /\ hit cl' = hit cl.
Proof.
  intros Hn Hr. simpl. rewrite nth_error_map, Hn. simpl. unfold conn_event. rewrite Hr.
  destruct (opening cl); eexists; (split; [reflexivity|]); split; reflexivity.
Qed.

(* RST_STREAM from the peer, or h2's own reset after a stream-level violation by the peer (either value
   of `remote`): that registered call, and no other *)
Theorem rst_reaches_that_call_only s c cl remote :
  nth_error s c = Some cl -> registered cl = true ->
  (exists cl', nth_error (sstep s (LRst c remote)) c = Some cl'
               /\ werr (ck cl') = Some ETerminated /\ hit cl' = true)
  /\ forall c', c' <> c -> nth_error (sstep s (LRst c remote)) c' = nth_error s c'.
Proof.
  intros Hn Hr. simpl. unfold upd. rewrite Hn, Hr. split.
  - eexists. split; [eapply nth_set_nth_same; exact Hn|]. split; reflexivity.
  - intros c' Hne. apply nth_set_nth_ne. congruence.
Qed.

(* the `_partial` theorem: every operation of a call that WAS REGISTERED when the event came *)
Theorem hit_call_ops_complete :
  forall ls, Forall slabel_wg ls ->
    let s := srun ls [] in
    forall c cl, nth_error s c = Some cl -> hit cl = true ->
      let k := ck cl in
      werr k <> None /\
      (forall i tk, nth_error (tasks k) i = Some tk -> st tk <> Blocked) /\
      (forall t tk ds, nth_error (tasks k) t = Some tk -> is_ready (st tk) = true ->
         exists tk' r, nth_error (tasks (kstep k (Run t ds))) t = Some tk' /\ st tk' = Done r) /\
      (quiescent k = true ->
         forall i tk, nth_error (tasks k) i = Some tk ->
           exists r, st tk = Done r
             /\ (mark tk = MAtCancel \/ (mark tk = MAfter /\ first_enter (orig tk) = true) ->
                 r = RRaise (XWrap ETerminated)
                 \/ (has_deadline cl = true /\ r = RRaise (XWrap ETimeout)))).
Proof.
  intros ls Hok s c cl Hn Hh k.
  assert (Hs : sinv s) by (apply sinv_run; [constructor | exact Hok]).
  unfold sinv in Hs. rewrite Forall_forall in Hs.
  destruct (Hs cl (nth_error_In _ _ Hn)) as (Hk & Hhit & He).
  specialize (Hhit Hh). split; [exact Hhit|]. split; [|split].
  - apply kinv_no_blocked; assumption.
  - apply kinv_ready_finishes; assumption.
  - intros Hq i tk Hi. destruct (kinv_quiescent_done k Hk Hhit Hq i tk Hi) as [r (Hst & Ha & Hb)].
    exists r. split; [exact Hst|]. intros Hm.
    assert (Hw : wrap_res (errs k) r) by (destruct Hm as [Hm|[Hm Hf]]; auto).
    destruct Hw as [e [Hin ->]]. destruct (He e Hin) as [->|[Hd ->]]; [left | right]; auto.
Qed.

(* ---- the error upgrade ---- *)
Theorem maybe_raise_none_iff h t :
  maybe_raise h t = None <->
  (match h with Some hh => h_ok hh = true | None => True end) /\
  (match t with
   | Some g => g = GCode 0
   | None => match h with Some hh => h_gs hh = GMissing \/ h_gs hh = GCode 0 | None => True end
   end).
Proof.
  unfold maybe_raise, grpc_status_raises.
  destruct h as [[ok mp gs]|]; cbn [h_ok h_mapped h_gs].
  - destruct ok.
    + destruct t as [[| |k]|].
      * split; [discriminate | intros [_ H]; discriminate].
      * split; [discriminate | intros [_ H]; discriminate].
      * destruct (Z.eqb k 0) eqn:E.
        -- apply Z.eqb_eq in E. subst. split; auto.
        -- split; [discriminate|]. intros [_ H]. injection H as ->. discriminate.
      * destruct gs as [| |k].
        -- split; auto.
        -- split; [discriminate | intros [_ [H|H]]; discriminate].
        -- destruct (Z.eqb k 0) eqn:E.
           ++ apply Z.eqb_eq in E. subst. split; auto.
           ++ split; [discriminate|]. intros [_ [H|H]]; [discriminate|]. injection H as ->. discriminate.
    + split; [discriminate | intros [H _]; discriminate].
  - destruct t as [[| |k]|].
    + split; [discriminate | intros [_ H]; discriminate].
    + split; [discriminate | intros [_ H]; discriminate].
    + destruct (Z.eqb k 0) eqn:E.
      * apply Z.eqb_eq in E. subst. split; auto.
      * split; [discriminate|]. intros [_ H]. injection H as ->. discriminate.
    + split; auto.
Qed.

(* which status the GRPCError carries *)
Theorem maybe_raise_code h t k :
  maybe_raise h t = Some k ->
  (exists hh, h = Some hh /\ h_ok hh = false /\ k = h_mapped hh)
  \/ (exists g, (t = Some g \/ (t = None /\ exists hh, h = Some hh /\ h_gs hh = g /\ g <> GMissing))
                /\ grpc_status_raises g = Some k).
Proof.
  unfold maybe_raise. destruct h as [[ok mp gs]|]; cbn [h_ok h_mapped h_gs].
  - destruct ok.
    + destruct t as [g|].
      * intro H. right. exists g. split; [left; reflexivity | exact H].
      * destruct gs as [| |k'] eqn:Eg; [discriminate| |]; intro H; right;
          eexists; (split; [right; split; [reflexivity|]; eexists; split; [reflexivity|];
                            split; [reflexivity | discriminate] | exact H]).
    + intro H. injection H as <-. left. eexists. split; [reflexivity|]. split; reflexivity.
  - destruct t as [g|]; [|discriminate]. intro H. right. exists g. split; [left; reflexivity | exact H].
Qed.

(* what __aexit__ raises: StreamTerminatedError is upgraded to the explaining GRPCError exactly when a
   failing status had arrived; every other exception (and a normal exit) passes through unchanged *)
Theorem aexit_upgrade h t :
  (forall k, aexit_outcome OTerminated h t = OGrpc k <-> maybe_raise h t = Some k) /\
  (aexit_outcome OTerminated h t = OTerminated <-> maybe_raise h t = None) /\
  (forall x, x <> OTerminated -> aexit_outcome x h t = x).
Proof.
  unfold aexit_outcome. split; [|split].
  - intro k. destruct (maybe_raise h t); split; intro H; try discriminate; congruence.
  - destruct (maybe_raise h t); split; intro H; try discriminate; reflexivity.
  - intros x Hx. destruct x; try reflexivity. congruence.
Qed.

Corollary aexit_no_status : aexit_outcome OTerminated None None = OTerminated.
Proof. reflexivity. Qed.

(* ---- path tables ---- *)
Lemma path_beq_eq a : forall b, path_beq a b = true -> a = b.
Proof.
  induction a as [|x r IH]; intros [|y q] H; simpl in H; try discriminate; [reflexivity|].
  apply andb_prop in H. destruct H as [H1 H2]. apply internal_action_dec_bl in H1.
  apply IH in H2. congruence.
Qed.

Lemma in_paths_In tbl p : in_paths tbl p = true -> In p (call_paths tbl).
Proof.
  unfold in_paths. rewrite existsb_exists. intros [q [Hq He]]. apply path_beq_eq in He. subst. exact Hq.
Qed.

Lemma collect_In l : forall r, collect l = Some r ->
  forall a, In (Some a) l -> forall p, In p a -> In p r.
Proof.
  induction l as [|[x|] l IH]; intros r Hc a Ha p Hp; simpl in *; try contradiction; try discriminate.
  destruct (collect l) as [b|] eqn:E; [|discriminate]. injection Hc as <-.
  apply in_or_app. destruct Ha as [Ha|Ha].
  - injection Ha as ->. left. exact Hp.
  - right. eapply IH; [reflexivity | exact Ha | exact Hp].
Qed.

Lemma slabel_ok_wg tbl : forallb well_guarded (call_paths tbl) = true ->
  forall l, slabel_ok tbl l -> slabel_wg l.
Proof.
  intros H l Hl. rewrite forallb_forall in H. destruct l as [dl|c kl|c rm|e|c|c]; try exact I.
  destruct kl; try exact I. simpl in *. apply H. exact Hl.
Qed.

(* ================================================================================================ *)
(* Part 3: instantiation on the GENERATED client operations (Gen/StreamOps.v, re-sliced from        *)
(* /repo/grpclib/client.py on every run)                                                            *)
(* ================================================================================================ *)
From GV Require Import Gen.StreamOps.

Lemma client_paths_computed : call_paths_opt client_ops <> None.
Proof. vm_compute. discriminate. Qed.

Lemma client_has_all_ops : has_all_ops client_ops = true.
Proof. vm_compute. reflexivity. Qed.

Lemma client_paths_guarded_b : forallb well_guarded (call_paths client_ops) = true.
Proof. vm_compute. reflexivity. Qed.

Lemma client_paths_guarded p : In p (call_paths client_ops) -> well_guarded p = true.
Proof. apply (proj1 (forallb_forall _ _) client_paths_guarded_b). Qed.

Lemma prog_paths_in_call_paths ps :
  In (Some ps) (map (fun op : opname * program => prog_paths client_ops (snd op)) client_ops
                ++ [prog_paths client_ops maybe_finish_prog]) ->
  forall p, In p ps -> In p (call_paths client_ops).
Proof.
  intros Hin p Hp. unfold call_paths. pose proof client_paths_computed as Hc.
  destruct (call_paths_opt client_ops) as [r|] eqn:E; [|congruence].
  unfold call_paths_opt in E. eapply collect_In; [exact E | exact Hin | exact Hp].
Qed.

(* every await of every path of every public client operation is inside exactly one
   `with self._wrapper` (this is what failed for the old, unguarded Stream.end()) *)
Theorem every_client_await_guarded :
  forall o prog ps p, In (o, prog) client_ops -> prog_paths client_ops prog = Some ps ->
                      In p ps -> well_guarded p = true.
Proof.
  intros o prog ps p Hin Hps Hp. apply client_paths_guarded.
  apply (prog_paths_in_call_paths ps); [|exact Hp].
  apply in_or_app. left. apply in_map_iff. exists (o, prog). split; [exact Hps | exact Hin].
Qed.

(* ... and so is every await of the implicit finish of the context exit (_maybe_finish) *)
Theorem context_exit_awaits_guarded :
  forall ps p, prog_paths client_ops maybe_finish_prog = Some ps -> In p ps ->
               In p (call_paths client_ops) /\ well_guarded p = true.
Proof.
  intros ps p Hps Hp.
  assert (H : In p (call_paths client_ops)).
  { apply (prog_paths_in_call_paths ps); [|exact Hp].
    apply in_or_app. right. left. exact Hps. }
  split; [exact H | apply client_paths_guarded; exact H].
Qed.

(* MAIN (`_partial`: the call was registered when the event came).  For every history of the
   connection -- any number of calls, any operations of the generated client API started at any
   time (also the implicit finish of the context exit), any schedule, any environment decisions, any
   order of RST_STREAM / GOAWAY / protocol error / connection_lost / Channel.close / deadline
   timers / context exits -- a call that a termination event found registered: has no suspended
   operation, every ready operation finishes in its next scheduling step, and at quiescence every
   operation is Done; those blocked at the event or started afterwards (and reaching a guard) with
   StreamTerminatedError -- or with TimeoutError if the call has a deadline. *)
Theorem registered_client_call_ops_complete :
  forall ls, Forall (slabel_ok client_ops) ls ->
    let s := srun ls [] in
    forall c cl, nth_error s c = Some cl -> hit cl = true ->
      let k := ck cl in
      werr k <> None /\
      (forall i tk, nth_error (tasks k) i = Some tk -> st tk <> Blocked) /\
      (forall t tk ds, nth_error (tasks k) t = Some tk -> is_ready (st tk) = true ->
         exists tk' r, nth_error (tasks (kstep k (Run t ds))) t = Some tk' /\ st tk' = Done r) /\
      (quiescent k = true ->
         forall i tk, nth_error (tasks k) i = Some tk ->
           exists r, st tk = Done r
             /\ (mark tk = MAtCancel \/ (mark tk = MAfter /\ first_enter (orig tk) = true) ->
                 r = RRaise (XWrap ETerminated)
                 \/ (has_deadline cl = true /\ r = RRaise (XWrap ETimeout)))).
Proof.
  intros ls Hok. apply hit_call_ops_complete.
  eapply Forall_impl; [|exact Hok]. apply slabel_ok_wg. exact client_paths_guarded_b.
Qed.

(* FULL-STRENGTH statement (false of the faithful model -- defect D6):
     forall ls, Forall (slabel_ok client_ops) ls -> let s := srun ls [] in
     forall c cl, nth_error s c = Some cl -> (hit cl = true \/ missed cl = true) ->
       quiescent (ck cl) = true -> forall i tk, nth_error (tasks (ck cl)) i = Some tk -> exists r, st tk = Done r
   i.e. also a call that a connection-level event found INSIDE protocol.Stream.send_request.
   Witness: send_request suspended inside protocol.Stream.send_request, then connection_lost. *)
Definition d6_cell : cell :=
  {| c_op := KSr; c_reason := RPaused; c_event := VLost; c_during := true; c_deadline := false;
     c_status := StNone; c_variant := VaBase |}.

Definition d6_path : path :=
  match op_program client_ops KSr with
  | Some prog =>
      match trace TRACE_FUEL client_ops (cell_cx d6_cell false false) 0 prog no_flags false with
      | Some r => t_path r
      | None => []
      end
  | None => []
  end.

Definition d6_labels : list slabel :=
  [LNewCall false; LK 0 (Spawn d6_path); LK 0 (Run 0 (decisions d6_cell d6_path)); LConn CLost].

Theorem unregistered_waiter_refuted :
  Forall (slabel_ok client_ops) d6_labels /\
  exists cl tk, nth_error (srun d6_labels []) 0 = Some cl
    /\ missed cl = true /\ hit cl = false /\ werr (ck cl) = None
    /\ quiescent (ck cl) = true
    /\ nth_error (tasks (ck cl)) 0 = Some tk /\ st tk = Blocked /\ at_open tk = true
    /\ is_member 0 (members (ck cl)) = true.
Proof.
  split.
  - unfold d6_labels. constructor; [exact I|]. constructor.
    + change (In d6_path (call_paths client_ops)). apply in_paths_In. vm_compute. reflexivity.
    + constructor; [exact I|]. constructor; [exact I|]. constructor.
  - remember (srun d6_labels []) as s eqn:Es. vm_compute in Es. subst s.
    eexists. eexists. split; [reflexivity|]. repeat split; reflexivity.
Qed.

(* the deadline is the only thing that rescues such a call *)
Theorem unregistered_waiter_deadline_rescues :
  let ls := [LNewCall true; LK 0 (Spawn d6_path); LK 0 (Run 0 (decisions d6_cell d6_path));
             LConn CLost; LDeadline 0; LK 0 (Run 0 [])] in
  exists cl tk, nth_error (srun ls []) 0 = Some cl
    /\ nth_error (tasks (ck cl)) 0 = Some tk /\ st tk = Done (RRaise (XWrap ETimeout)).
Proof.
  cbv zeta. match goal with |- context [srun ?l []] => remember (srun l []) as s eqn:Es end.
  vm_compute in Es. subst s. eexists. eexists. repeat split; reflexivity.
Qed.

(* ---- the whole correspondence matrix, inside the model ---- *)
Definition all_ops := [KSr; KSm; KEn; KRi; KRm; KRt; KCa; KAx; KCall false; KCall true].
Definition all_reasons := [RPaused; RWindow; RSlot; RSilent].
Definition all_events := [VRst; VGoaway; VGarbage; VLost; VClose; VSerr].
Definition all_statuses := [StNone; StH503; StTonly 7; StTrailers 5; StTrailers 0; StH200; StH200Msg].
Definition all_variants := [VaBase; VaImplicit; VaAfterHeaders].
Definition bools := [false; true].

Definition all_cells : list cell :=
  flat_map (fun o => flat_map (fun r => flat_map (fun e => flat_map (fun d => flat_map (fun dl =>
  flat_map (fun stt => map (fun v =>
    {| c_op := o; c_reason := r; c_event := e; c_during := d; c_deadline := dl; c_status := stt;
       c_variant := v |}) all_variants) all_statuses) bools) bools) all_events) all_reasons) all_ops.

Definition is_pending (o : outcome) : bool := match o with OPending => true | _ => false end.
Definition is_setup_ok (su : setup) : bool := match su with SOk => true | _ => false end.
Definition is_setup_error (su : setup) : bool := match su with SError => true | _ => false end.

(* the class of defect D6: the event was connection-level and found the call suspended inside
   protocol.Stream.send_request, not registered *)
Definition d6_class (c : cell) (p : prediction) : bool :=
  negb (p_registered p) && c_during c && conn_level (c_event c)
  && match p_blocked p with Some s => is_open_site s | None => false end.

(* what the property asks of the call: the GRPCError explaining the failure when a failing status had
   arrived, a stream-termination error otherwise *)
Definition expected_ctx (c : cell) : outcome :=
  match c_status c with
  | StH503 => OGrpc 14
  | StTonly k | StTrailers k => if Z.eqb k 0 then OTerminated else OGrpc k
  | StNone | StH200 | StH200Msg => OTerminated
  end.

(* a cell that asks for recv_initial_metadata after it has been received: the call is refused *)
Definition misuse_class (c : cell) : bool :=
  match c_op c, c_variant c with KRi, VaAfterHeaders => true | _, _ => false end.

Definition outcome_eqb (a b : outcome) : bool :=
  match a, b with
  | OOk, OOk | OTerminated, OTerminated | OTimeout, OTimeout | OProtocol, OProtocol
  | OCancelled, OCancelled | OOther, OOther | OPending, OPending => true
  | OGrpc x, OGrpc y => Z.eqb x y
  | _, _ => false
  end.

Definition is_term_error (o : outcome) : bool :=
  match o with OTerminated | OGrpc _ => true | _ => false end.

Definition cell_check (c : cell) : bool :=
  let p := predict client_ops c in
  p_inpaths p && negb (is_setup_error (p_setup p))
  && (negb (is_setup_ok (p_setup p))
      || (eqb (is_pending (p_op p)) (d6_class c p)
          && eqb (is_pending (p_op p)) (p_missed p)
          && (is_pending (p_op p) || negb (is_pending (p_ctx p)))
          && eqb (is_pending (p_late p)) (is_pending (p_op p) && negb (c_deadline c))
          && (is_pending (p_op p)
              || (if misuse_class c then outcome_eqb (p_op p) OProtocol
                  else is_term_error (p_op p) && outcome_eqb (p_ctx p) (expected_ctx c))))).

Lemma matrix_check_b : forallb cell_check all_cells = true.
Proof. vm_compute. reflexivity. Qed.

Lemma outcome_eqb_eq a b : outcome_eqb a b = true -> a = b.
Proof.
  destruct a, b; simpl; intro H; try discriminate; try reflexivity.
  apply Z.eqb_eq in H. congruence.
Qed.

(* Over the complete matrix operation(10: the 7 operations, the context exit, the stub-style call
   with a unary / streaming request) x reason(4) x event(6) x order(2) x deadline(2) x
   status-already-arrived(7) x variant(3) = 20160 cells, computed with the GENERATED operations: every
   path the interpreter selects is one of the syntactic paths the theorems quantify over, and in every
   cell that can be set up:  the operation is still pending at quiescence EXACTLY in the D6 class (the
   context exit is then pending too, and only a deadline ends it);  otherwise the operation ends with a
   termination error and the call with exactly the error the property asks for -- also the context exit
   entered after a connection-level event (the former finding D35, repaired) -- except the cells that ask
   for a refused call (ProtocolError). *)
Theorem matrix_pending_is_exactly_d6 :
  forall c, In c all_cells ->
    let p := predict client_ops c in
    p_inpaths p = true /\ p_setup p <> SError /\
    (p_setup p = SOk ->
       is_pending (p_op p) = d6_class c p /\
       is_pending (p_op p) = p_missed p /\
       (is_pending (p_ctx p) = true -> is_pending (p_op p) = true) /\
       is_pending (p_late p) = (is_pending (p_op p) && negb (c_deadline c)) /\
       (is_pending (p_op p) = false ->
          if misuse_class c then p_op p = OProtocol
          else is_term_error (p_op p) = true /\ p_ctx p = expected_ctx c)).
Proof.
  intros c Hin p.
  pose proof (proj1 (forallb_forall _ _) matrix_check_b c Hin) as H.
  unfold cell_check in H. fold p in H.
  apply andb_prop in H. destruct H as [H H3]. apply andb_prop in H. destruct H as [H1 H2].
  split; [exact H1|]. split.
  - intro E. rewrite E in H2. discriminate.
  - intro E. rewrite E in H3. simpl in H3.
    apply andb_prop in H3. destruct H3 as [H3 H8].
    apply andb_prop in H3. destruct H3 as [H3 H7]. apply andb_prop in H3. destruct H3 as [H3 H6].
    apply andb_prop in H3. destruct H3 as [H4 H5].
    apply eqb_prop in H4. apply eqb_prop in H5. apply eqb_prop in H7.
    repeat split; try assumption.
    + intro Hc. rewrite Hc in H6. simpl in H6. rewrite orb_false_r in H6. exact H6.
    + intro Hp. rewrite Hp in H8. simpl in H8.
      destruct (misuse_class c); [apply outcome_eqb_eq; exact H8|].
      apply andb_prop in H8. destruct H8 as [A B]. split; [exact A | apply outcome_eqb_eq; exact B].
Qed.

(* The former finding D35 (repaired in the code, so now a theorem): the server had answered NOT_FOUND
   (trailers), the connection is lost, the body ends normally: the implicit finish is refused by the
   wrapper and __aexit__ raises the explaining GRPCError(5). *)
Definition quiet_exit_cell : cell :=
  {| c_op := KAx; c_reason := RPaused; c_event := VLost; c_during := false; c_deadline := false;
     c_status := StTrailers 5; c_variant := VaBase |}.

Theorem context_exit_after_conn_event_raises :
  let p := predict client_ops quiet_exit_cell in
  p_setup p = SOk /\ p_registered p = true /\ p_werr p = OTerminated /\ p_op p = OGrpc 5
  /\ p_ctx p = OGrpc 5 /\ expected_ctx quiet_exit_cell = OGrpc 5.
Proof.
  vm_compute. repeat split; reflexivity.
Qed.
