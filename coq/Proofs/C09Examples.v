(* Non-vacuity examples for C09: concrete scenarios satisfy the hypotheses of the theorems and
   exercise every branch of the life-cycle.  Everything is decided by vm_compute. *)
From Coq Require Import List Bool Arith.
From GV Require Import Model.ServerLife Proofs.C09Proofs.
Import ListNotations.

(* two connections (one idle), three handlers: one reset by its client while it waits for a message,
   one sleeping, one blocked in send_message; then Server.close(), wait_closed(), the connections drop *)
Definition ex_ops : list op :=
  [Start; Connect; Connect; Connect;
   Open 0 0 [AR; AS] (Honour 2) false; Open 0 1 [AS; AS] (Honour 1) true; Open 1 0 [AW] Swallow false;
   Run 0 0; Run 0 1; Run 1 0;
   Rst 0 0; Run 0 0;                       (* 0.0 enters its 2-step cleanup *)
   Tick; Run 0 0; Run 0 1; Tick; Run 0 0; Run 0 1;   (* 0.0 finishes its cleanup, 0.1 ends normally *)
   SrvClose; WaitClosed; Run 1 0;           (* 1.0 swallows the cancellation and returns *)
   Lost 0; Lost 1; Lost 2; RunW; RunW; RunW].

Definition ex_s : state := run_ops ex_ops init.

Example ex_calm : calm ex_ops init.
Proof. vm_compute. repeat split; intros; try discriminate; repeat (match goal with H : _ \/ _ |- _ => destruct H end); subst; try reflexivity; try contradiction. Qed.

Example ex_final :
  map (fun t => (tc t, ti t, ph t, ncancel t, nhit t, cleanup_done t, registered t, nrel t)) (tasks ex_s) =
  [(0, 0, Finished, 1, 0, true, false, 1); (0, 1, Finished, 0, 0, false, false, 1);
   (1, 0, Finished, 1, 0, false, false, 1)] /\ wst ex_s = WDone.
Proof. vm_compute. split; reflexivity. Qed.

(* hypotheses of single_cause_one_delivery: a running task without a pending cancel, then a cause *)
Example ex_single_cause :
  let s := run_ops [Start; Connect; Open 0 0 [AR; AS] (Honour 2) false; Run 0 0] init in
  exists t, In t (tasks s) /\ started_t t = true /\ cancel_req t = false /\ is_cause (Rst 0 0) = true /\
            forallb (fun o => negb (is_cause o)) [Run 0 0; Tick; Msg 0 0; Run 0 0; Tick; Run 0 0] = true.
Proof. vm_compute. eexists. split; [left; reflexivity|]. repeat split; reflexivity. Qed.

(* hypotheses of wait_closed_live *)
Example ex_wait_live :
  let s := run_ops [Start; Connect; Open 0 0 [AS] (Honour 0) false; Run 0 0; SrvClose; WaitClosed;
                    Run 0 0; Lost 0] init in
  wait_started (wst s) = true /\ latch (srv s) = true /\ listening (srv s) = false /\
  all_lost (conns s) = true /\ forallb (fun t => negb (unfinished t)) (tasks s) = true.
Proof. vm_compute. repeat split; reflexivity. Qed.

(* the witness of cancelled_once_refuted, step by step: phase, cancels seen, of which in the cleanup *)
Example ex_d20_trace :
  map (fun n => match find_task 0 0 (tasks (run_ops (firstn n d20_ops) init)) with
                | Some t => Some (ph t, ncancel t, nhit t, cleanup_done t, late t)
                | None => None end) [4; 5; 6; 7; 8] =
  [Some (Running AS [], 0, 0, false, false);      (* sleeping *)
   Some (Running AS [], 0, 0, false, false);      (* Server.close(): cancel requested *)
   Some (Cleanup 1, 1, 0, false, false);          (* CancelledError at the sleep: cleanup starts *)
   Some (Cleanup 1, 1, 0, false, true);           (* connection_lost: cancelled again, in the cleanup *)
   Some (Finished, 2, 1, false, true)].           (* second CancelledError: cleanup abandoned *)
Proof. vm_compute. reflexivity. Qed.

(* the only second cause that is applied and does NOT land: RST (pop from _tasks) then Server.close() *)
Example ex_rst_then_srvclose_safe : pair_lands CRst CSrvClose = false /\ pair_lands CSrvClose CRst = true.
Proof. vm_compute. split; reflexivity. Qed.

(* the window of the repaired D91, step by step: the reset finds the stream registered but the task
   collected; nothing happens to it, and the done-callback then releases the stream *)
Example ex_gc_window :
  let s0 := run_ops (removelast (removelast gc_window_ops)) init in
  let s1 := run_ops (removelast gc_window_ops) init in
  let s2 := run_ops gc_window_ops init in
  (exists t, find_task 0 8 (tasks s0) = Some t /\ ph t = Finished /\ registered t = true /\
             cb_pending t = true /\ in_tasks t = false /\ h2reset t = false) /\
  (exists t, find_task 0 8 (tasks s1) = Some t /\ ph t = Finished /\ registered t = true /\
             cancel_req t = false /\ in_cancelled t = false) /\
  conns s1 = conns s0 /\
  (exists t, find_task 0 8 (tasks s2) = Some t /\ registered t = false /\ nrel t = 1 /\ ncancel t = 0).
Proof. vm_compute. repeat split; try (eexists; repeat split; reflexivity). Qed.

(* graceful_exit *)
Example ex_graceful :
  fold_left (fun st sg => exit_handler sg st) [2; 15; 2] (mkGS [mkG true 0; mkG true 0] false []) =
  mkGS [mkG true 1; mkG true 1] true [130; 143] /\
  fold_left (fun st sg => exit_handler sg st) [2] (mkGS [mkG true 0; mkG false 0] false []) =
  mkGS [mkG true 1; mkG false 0] false [130].
Proof. vm_compute. split; reflexivity. Qed.

(* two tasks inside one wrapper, leaving in the order they entered (not LIFO): the one still inside is
   cancelled, the one that left is not, a later entry is refused *)
Example ex_wrapper_two_tasks :
  let w := wrun [WEnter 0; WEnter 1; WExit 0; WEnter 0; WExit 0; WCancel; WEnter 2] in
  wcancelled w = [1] /\ wrefused w = [2] /\ wspec 1 [WEnter 0; WEnter 1; WExit 0; WEnter 0; WExit 0] = true.
Proof. vm_compute. repeat split; reflexivity. Qed.
