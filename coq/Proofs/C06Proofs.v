(* C06, part 2: consequences of the closure theorem (Proofs/C06Closure.v) that need no recomputation *)
From Coq Require Import List Bool PArith NArith.
From GV Require Import Lib.Reach Model.StreamIR Model.StreamSem Gen.StreamOps Proofs.C06Closure.
Import ListNotations.

Lemma flags_eqb_eq x y : flags_eqb x y = true -> x = y.
Proof.
  destruct x, y. unfold flags_eqb. rewrite !andb_true_iff. intro H.
  repeat match goal with H : _ /\ _ |- _ => destruct H end.
  repeat match goal with H : eqb _ _ = true |- _ => apply eqb_true_eq in H end. congruence.
Qed.

(* a refused call is silent: on every transition out of a reachable state whose result is a refusal
   (ProtocolError), no frame was emitted and no flag changed *)
Theorem refusal_is_silent :
  forall sd cs ss remote g c g' r fr,
    reachable sd cs ss remote g ->
    In (g', r, fr) (gstep sd (tbl_of sd) cs ss g c) ->
    r = RRefused -> fr = [] /\ g_fl g' = g_fl g.
Proof.
  intros sd cs ss remote g c g' r fr Hr Hin Hrr.
  assert (Hr' : reachable sd cs ss remote g').
  { eapply reach_step; [exact Hr | apply all_calls_complete |].
    unfold sys_step, step. apply in_map_iff. exists (g', r, fr). split; [reflexivity | exact Hin]. }
  pose proof (any_call_order_is_wellformed sd cs ss remote g' Hr') as Hg.
  unfold good in Hg. apply andb_prop in Hg. destruct Hg as [Hv _].
  destruct c as [o a_end a_ok|].
  - cbn [gstep] in Hin. destruct (lookup o (tbl_of sd)) as [body|].
    + apply in_map_iff in Hin. destruct Hin as [[s1 ct] [Heq _]].
      cbv zeta in Heq. cbn [fst snd] in Heq. injection Heq as Hg' Hcl Hfr. rewrite Hrr in Hcl.
      destruct ct as [| |e]; cbn [classify] in Hcl; try discriminate.
      destruct e as [|k]; cbn [classify] in Hcl; try discriminate.
      subst g'. cbn [g_viol g_fl] in Hv |- *.
      rewrite negb_true_iff in Hv. apply orb_false_elim in Hv. destruct Hv as [Hv _].
      apply orb_false_elim in Hv. destruct Hv as [_ Hb].
      rewrite negb_false_iff in Hb. apply andb_prop in Hb. destruct Hb as [Hf Hfl].
      split.
      * subst fr. destruct (rev (out s1)); [reflexivity | discriminate].
      * apply flags_eqb_eq. exact Hfl.
    + cbn [In] in Hin. destruct Hin as [Heq | []]. injection Heq as -> _ <-. split; reflexivity.
  - cbn [gstep In] in Hin. destruct Hin as [Heq | []]. injection Heq as _ <- _. discriminate.
Qed.

(* number of reachable states per configuration (for the evidence) *)
Definition reachable_count (sd : side) (cs ss remote : bool) : nat :=
  length (states gstate (fst (explore sd cs ss remote))).
