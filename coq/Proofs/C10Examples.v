(* C10 -- non-vacuity examples: concrete histories that satisfy the hypotheses of the theorems
   (all by vm_compute). *)
From Coq Require Import ZArith List Bool Arith Lia.
From GV Require Import Model.Registry Proofs.C10Proofs.
Import ListNotations.
#[local] Open Scope Z_scope.

Definition allb (p : call -> bool) (s : state) : bool := forallb p (calls s).

(* a mixed history on one connection with limit 2: call 0 ok (unary), call 1 non-OK trailers + RST,
   call 2 waits for a slot, call 3 is cancelled by the client, everything exits *)
Definition mixed : list op :=
  [ COpenTry 0 false; COpenTry 1 false; COpenTry 2 false;      (* 2 blocks: limit 2 *)
    CSendEnd 0; DeliverC2S 0; DeliverC2S 0;
    STrailers 0 false; SExit 0 KOk; DeliverS2C 0; CExit 0;      (* call 0 ok; release wakes 2 *)
    COpenTry 2 false;                                           (* 2 proceeds *)
    DeliverC2S 1; SExit 1 KErr; DeliverS2C 1; DeliverS2C 1; CExit 1;
    COpenTry 3 false; CCancel 3; CExit 3; DeliverC2S 3; DeliverC2S 3; SExit 3 KErr;
    DeliverC2S 2; CPause; CExit 2; CResume; DeliverC2S 2; SExit 2 KBase ].

Example mixed_all_exited :
  let s := run mixed (init 4 2) in
  allb is_cexited s = true /\ allb (fun k => negb (is_running k)) s = true /\
  allb (fun k => match k_qc k with [] => true | _ => false end) s = true /\
  cpaused s = false /\
  creg s = [] /\ sreg s = [] /\ open_out s = 0%nat /\ open_in s = 0%nat.
Proof. vm_compute. repeat split; reflexivity. Qed.

Example mixed_outputs :
  firstn 3 (snd (run_out mixed (init 4 2))) = [OOpened; OOpened; OBlocked].
Proof. vm_compute. reflexivity. Qed.

(* the regression input of the repaired defect D17: limit 1, one long call, one waiter; the limit is
   raised to 5: the waiter is woken at that instant and starts *)
Definition d17 : list op :=
  [COpenTry 0 false; DeliverC2S 0; COpenTry 1 false; SSettings 5; DeliverSettings].

Example d17_waiter_blocked_then_woken :
  l_waiting (snap (run (firstn 3 d17) (init 2 1))) = [1%nat] /\
  quiescent (run (firstn 3 d17) (init 2 1)) = true /\
  l_waiting (snap (run d17 (init 2 1))) = [] /\ l_woken (snap (run d17 (init 2 1))) = [1%nat] /\
  snd (step (run d17 (init 2 1)) (COpenTry 1 false)) = OOpened.
Proof. vm_compute. repeat split; reflexivity. Qed.

(* the D4 witness: the handler ended, the client has ended its half, nothing is in flight -- and the
   stream still counts on both sides, so with limit 1 the next call can never start *)
Example d4_blocks_next_call :
  let s := run d4_witness (init 2 1) in
  quiescent s = true /\ l_leak (snap s) = [0%nat] /\
  snd (step s (COpenTry 1 false)) = OBlocked /\
  quiescent (fst (step s (COpenTry 1 false))) = true.
Proof. vm_compute. repeat split; reflexivity. Qed.

(* three runnable waiters, one slot: whoever runs first wins, the two others re-block; after the winner
   and the long call are released one after the other everybody has run *)
Definition three_waiters : state :=
  run [COpenTry 0 false; COpenTry 1 false; COpenTry 2 false; COpenTry 3 false; CExit 0] (init 4 1).

Example three_waiters_hyp :
  l_woken (snap three_waiters) = [1; 2; 3]%nat /\ (Z.of_nat (open_out three_waiters) + 1 = maxc three_waiters).
Proof. vm_compute. split; reflexivity. Qed.

Example three_waiters_any_first :
  l_opened (snap (retry [(2%nat, false); (1%nat, false); (3%nat, false)] three_waiters)) = [2%nat] /\
  l_waiting (snap (retry [(2%nat, false); (1%nat, false); (3%nat, false)] three_waiters)) = [1; 3]%nat.
Proof. vm_compute. split; reflexivity. Qed.

Definition ord_all (s : state) : list (nat * bool) :=
  map (fun c => (c, false)) (rev (idx_where is_nw (calls s))).
Definition pick_first (s : state) : option nat := hd_error (idx_where is_opened (calls s)).

Example three_waiters_all_proceed :
  phi three_waiters = 6%nat /\
  pending_count (rounds 6 ord_all pick_first three_waiters) = 0%nat /\
  opened_count (rounds 6 ord_all pick_first three_waiters) = 0%nat /\
  allb is_cexited (rounds 6 ord_all pick_first three_waiters) = true.
Proof. vm_compute. repeat split; reflexivity. Qed.

(* the two scheduling parameters of the example satisfy the fairness hypotheses *)
Lemma idx_where_from_in {A} (p : A -> bool) l i c :
  In c (idx_where_from p i l) <->
  exists j k, c = (i + j)%nat /\ nth_error l j = Some k /\ p k = true.
Proof.
  revert i c; induction l as [|x r IH]; intros i c; simpl.
  - split; [intros []|]. intros (j & k & _ & E & _). destruct j; discriminate.
  - rewrite in_app_iff, IH. split.
    + intros [H|(j & k & -> & E & P)].
      * destruct (p x) eqn:Px; [|inversion H]. destruct H as [<-|[]].
        exists 0%nat, x. repeat split; auto.
      * exists (S j), k. repeat split; auto. lia.
    + intros ([|j] & k & -> & E & P); simpl in E.
      * left. inversion E; subst x. rewrite P. left. lia.
      * right. exists j, k. repeat split; auto. lia.
Qed.

Lemma idx_where_in {A} (p : A -> bool) l c :
  In c (idx_where p l) <-> exists k, nth_error l c = Some k /\ p k = true.
Proof.
  unfold idx_where. rewrite idx_where_from_in. split.
  - intros (j & k & -> & E & P); eauto.
  - intros (k & E & P); exists c, k; repeat split; auto.
Qed.

Lemma ord_all_fair : fair_ord ord_all.
Proof.
  intros s c H. unfold ord_all. rewrite map_map. simpl. rewrite map_id.
  rewrite <- in_rev. apply idx_where_in. exact H.
Qed.

Lemma pick_first_fair : fair_pick pick_first.
Proof.
  split.
  - intros s c H. unfold pick_first in H. destruct (idx_where is_opened (calls s)) as [|x r] eqn:E; [discriminate|].
    simpl in H; inversion H; subst x. apply idx_where_in. rewrite E. left; reflexivity.
  - intros s H. unfold pick_first in H. destruct (idx_where is_opened (calls s)) as [|x r] eqn:E; [|discriminate].
    unfold opened_count. apply count_zero. intros c k E1. destruct (is_opened k) eqn:O; auto.
    assert (In c (idx_where is_opened (calls s))) by (apply idx_where_in; eauto).
    rewrite E in H0. inversion H0.
Qed.
