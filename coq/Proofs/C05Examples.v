(* C05 -- non-vacuity examples: concrete schedules / requests satisfying the hypotheses of the
   theorems in Props/C05.v, evaluated by vm_compute. *)
From Coq Require Import ZArith List Bool.
From Flocq Require Import Core IEEE754.BinarySingleNaN IEEE754.Binary IEEE754.Bits.
From GV Require Import Lib.Str Gen.Facts Gen.StreamOps Model.StreamIR Model.StreamSem Model.Timeout
     Model.Deadline Model.ServerDeadline.
Import ListNotations.
Open Scope Z_scope.

Definition S30 : Z := 2 ^ 30.
Definition cx_ss : pctx :=
  {| x_cs := true; x_end := false; x_deadline := true; x_has_gs := false; x_got_msg := true;
     x_status_err := false |}.
Definition fl_sent : flags := set_flag no_flags F_send_request_done true.

(* a stream-stream call with a 5 s timeout made at t = 1 s: send_request completes at once,
   recv_message finds the peer silent for ever *)
Definition ex_ops : list op :=
  scenario_ops 60 [(WRecvHeaders, None)] (100 * S30) S30 (request_deadline S30 (Some (5 * S30)) None)
    [{| s_path := cpath client_ops OpSendRequest cx_ss no_flags; s_fd := false |};
     {| s_path := cpath client_ops OpRecvMessage cx_ss fl_sent; s_fd := false |}].
Definition ex_state : state := run ex_ops (init S30 (Some (6 * S30))).

Example ex_schedule_ok : forallb op_ok ex_ops = true /\ forallb no_ext ex_ops = true.
Proof. vm_compute. split; reflexivity. Qed.

Example ex_blocked_op_times_out_at_deadline :
  ph ex_state = Entered /\ deadline ex_state = Some (6 * S30) /\ now ex_state = 6 * S30 /\
  quiescent ex_state = true /\
  map ts (tasks ex_state) = [Done RReturn S30; Done (RRaise KTimeout) (6 * S30)] /\
  wire ex_state = [(S30, Some (S30, 5 * S30))] /\ hdr_string (5 * S30) = Ok [53; 48; 48; 48; 109].
Proof. vm_compute. repeat split; reflexivity. Qed.

(* the same call without a timeout: still waiting at the horizon, no timer anywhere *)
Definition ex_ops_nodl : list op :=
  scenario_ops 60 [(WRecvHeaders, None)] (100 * S30) S30 None
    [{| s_path := cpath client_ops OpSendRequest
                        {| x_cs := true; x_end := false; x_deadline := false; x_has_gs := false;
                           x_got_msg := true; x_status_err := false |} no_flags; s_fd := false |};
     {| s_path := cpath client_ops OpRecvMessage cx_ss fl_sent; s_fd := false |}].
Example ex_no_deadline_never_interrupted :
  let s := run ex_ops_nodl (init S30 None) in
  forallb op_ok ex_ops_nodl = true /\ timer s = None /\ werr s = None /\ quiescent s = true /\
  map ts (tasks s) = [Done RReturn S30; Blocked] /\ wire s = [(S30, None)].
Proof. vm_compute. repeat split; reflexivity. Qed.

(* the peer answers 1 s before the deadline: the operation completes then, the exit disarms the timer *)
Definition ex_ops_answer : list op :=
  scenario_ops 80 [(WRecvHeaders, Some (5 * S30)); (WRecvMessage, Some (5 * S30));
                   (WRecvTrailers, Some (5 * S30))] (100 * S30) S30 (Some (6 * S30))
    [{| s_path := cpath client_ops OpSendRequest cx_ss no_flags; s_fd := false |};
     {| s_path := cpath client_ops OpRecvMessage cx_ss fl_sent; s_fd := false |};
     {| s_path := fst (caexit client_ops cx_ss
                         (set_flag (set_flag fl_sent F_recv_initial_metadata_done true) F_end_done true)
                         false false); s_fd := true |}].
Example ex_answer_before_deadline :
  let s := run ex_ops_answer (init S30 (Some (6 * S30))) in
  forallb op_ok ex_ops_answer = true /\ ph s = Exited /\ timer s = None /\ werr s = None /\
  map ts (tasks s) = [Done RReturn S30; Done RReturn (5 * S30); Done RReturn (5 * S30)].
Proof. vm_compute. repeat split; reflexivity. Qed.

(* server *)
Definition f3 : f64 := b64_of_bits 4613937818241073152.      (* 3.0 *)
Definition f4 : f64 := b64_of_bits 4616189618054758400.      (* 4.0 *)
Definition f5 : f64 := b64_of_bits 4617315517961601024.      (* 5.0 *)
Definition f05 : f64 := b64_of_bits 4602678819172646912.     (* 0.5 *)
Definition hdr (v : list Z) : list Z * list Z := (grpc_timeout_name, v).
Definition h_slow (c : cancel_kind) : handler :=
  {| h_dur := f5; h_fin := FReturn; h_cancel := c; h_trailers_first := false |}.

(* two headers 2S and 1S arriving at t = 3: deadline 4; a 5 s handler is cancelled at 4 *)
Example ex_server_smallest_header_governs :
  let o := serve f3 [hdr [50; 83]; hdr [49; 83]] (h_slow CHonour) false in
  o_status o = StDeadline /\ o_started o = true /\
  option_map bits_of_b64 (o_timer o) = Some (bits_of_b64 f4) /\
  option_map bits_of_b64 (o_cancel_at o) = Some (bits_of_b64 f4) /\
  bits_of_b64 (o_end_at o) = bits_of_b64 f4.
Proof. vm_compute. repeat split; reflexivity. Qed.

Example ex_server_swallowed_cancellation :
  let o := serve f3 [hdr [49; 83]] (h_slow (CSwallow f05 FRaiseOther)) false in
  o_status o = StDeadline /\ option_map bits_of_b64 (o_cancel_at o) = Some (bits_of_b64 f4) /\
  bits_of_b64 (o_end_at o) = 4616752568008179712.              (* 4.5 *)
Proof. vm_compute. repeat split; reflexivity. Qed.

Example ex_server_fast_handler_ok :
  let o := serve f3 [hdr [49; 48; 83]]
                 {| h_dur := f05; h_fin := FReturn; h_cancel := CHonour; h_trailers_first := false |} false in
  o_status o = StOK /\ o_cancel_at o = None /\ o_started o = true.
Proof. vm_compute. repeat split; reflexivity. Qed.

Example ex_server_expired_on_arrival :
  forall rs, serve f3 [hdr [48; 110]] (h_slow CHonour) rs =
  {| o_status := StDeadline; o_started := false; o_timer := None; o_cancel_at := None; o_end_at := f3 |}.
Proof. intros [|]; vm_compute; reflexivity. Qed.

Example ex_server_invalid_header :
  o_status (serve f3 [hdr [49; 83]; hdr [49; 115]] (h_slow CHonour) true) = StUnknown /\
  o_started (serve f3 [hdr [49; 83]; hdr [49; 115]] (h_slow CHonour) true) = false.
Proof. vm_compute. split; reflexivity. Qed.

Example ex_server_own_timeout_unknown :
  o_status (serve f3 [hdr [49; 48; 83]]
              {| h_dur := f05; h_fin := FRaiseTimeout; h_cancel := CHonour;
                 h_trailers_first := false |} true) = StUnknown.
Proof. vm_compute. reflexivity. Qed.
