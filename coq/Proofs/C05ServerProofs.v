(* C05 -- lemmas about the server-side deadline model (Model/ServerDeadline.v); the derivation of
   the deadline from the headers reuses C15's theorems (hence its real-number axioms). *)
From Coq Require Import ZArith List Bool Lia ZifyBool Reals Lra.
From Flocq Require Import Core IEEE754.BinarySingleNaN IEEE754.Binary IEEE754.Bits.
From GV Require Import Lib.Str Gen.Facts Gen.FactsC05 Model.Timeout Model.ServerDeadline Proofs.C15Proofs.
Import ListNotations.
Open Scope Z_scope.
#[local] Ltac Zify.zify_post_hook ::= Z.div_mod_to_equations.

#[local] Instance prec53_ : Prec_gt_0 53 := prec53.
#[local] Instance emax1024_ : Prec_lt_emax 53 1024 := emax1024.
#[local] Instance fexp_valid : Valid_exp (SpecFloat.fexp 53 1024) := fexp_correct 53 1024 prec53.

(* what decode_timeout returns on the grammar: a small non-negative int or a finite float *)
Lemma decoded_value_shape v m : in_grammar v -> decode_timeout v = Ok m ->
  (exists z, m = PyInt z /\ 0 <= z < 2 ^ 53) \/ (exists f, m = PyFloat f /\ fin f = true).
Proof.
  intros (ds & u & -> & Hl & Hd & Hu) Hm.
  destruct (unit_letters_scale u Hu) as (a & b & Hs).
  destruct (decode_accepts ds u a b Hl Hd Hs) as (_ & v & Hv & H1 & H2).
  rewrite Hm in Hv. injection Hv as <-.
  pose proof (parse_dec_bound8 ds Hl Hd) as HN.
  destruct (Z.eq_dec b 1) as [E|E].
  - left. exists (parse_dec ds * a). split; [exact (H1 E)|].
    unfold grammar_scale in Hs. cbn [In] in Hs.
    destruct Hs as [Hs|[Hs|[Hs|[Hs|[Hs|[Hs|[]]]]]]]; inversion Hs; subst; try lia.
  - right. destruct (H2 E) as (f & -> & Hf & _). exists f. auto.
Qed.

Lemma py_add_float_total a m :
  (exists z, m = PyInt z /\ 0 <= z < 2 ^ 53) \/ (exists f, m = PyFloat f /\ fin f = true) ->
  exists ts, py_add_float a m = Ok ts.
Proof.
  intros [(z & -> & Hz)|(f & -> & Hf)]; cbn.
  - unfold float_of_int. destruct (f_of_Z_exact z ltac:(lia)) as [_ Hfin].
    unfold fin in Hfin. rewrite Hfin. eexists. reflexivity.
  - eexists. reflexivity.
Qed.

(* source facts: `with deadline_wrapper, wrapper:` and start()'s expired branch cancels, then raises;
   hence an expired deadline is answered DEADLINE_EXCEEDED whether or not the reply path suspends *)
Lemma source_order_facts :
  handler_with_order = [CMDeadline; CMWrapper] /\ start_expired = [SA_cancel; SA_raise].
Proof. repeat split; reflexivity. Qed.

Lemma expired_status_deadline rs : expired_status rs = StDeadline.
Proof. destruct rs; vm_compute; reflexivity. Qed.

(* the model is sensitive to both facts: wrapper entered first + a suspending reply path = no answer
   at all; start() without self.cancel(error) = UNKNOWN (the repaired defect D7) *)
Lemma expired_status_other_orders :
  expired_status_of [CMWrapper; CMDeadline] start_expired true = StNoAnswer /\
  expired_status_of [CMWrapper; CMDeadline] start_expired false = StDeadline /\
  (forall rs, expired_status_of handler_with_order [SA_raise] rs = StUnknown).
Proof. repeat split; try (intros [|]); vm_compute; reflexivity. Qed.

(* (a) a value outside the grammar in ANY grpc-timeout header: UNKNOWN, the handler never runs *)
Lemma serve_invalid a hs h rs :
  Exists (fun v => ~ in_grammar v) (timeout_values hs) ->
  serve a hs h rs = {| o_status := StUnknown; o_started := false; o_timer := None;
                    o_cancel_at := None; o_end_at := a |}.
Proof.
  intro H. destruct (from_headers_min hs) as (_ & A & _). unfold serve. rewrite (A H). reflexivity.
Qed.

(* (b) no grpc-timeout header: no timer, no cancellation -- the handler's own outcome *)
Lemma serve_no_header a hs h rs :
  timeout_values hs = [] ->
  let o := serve a hs h rs in
  o_timer o = None /\ o_cancel_at o = None /\ o_started o = true /\
  o_status o = final_status h (own_status (h_fin h)) /\ o_end_at o = fadd a (h_dur h).
Proof.
  intro H. destruct (from_headers_min hs) as (A & _). unfold serve. rewrite (A H). cbn. auto.
Qed.

(* (c) valid headers: the smallest value m governs; expired -> DEADLINE_EXCEEDED without running
   the handler; otherwise a timer for `when`; a handler not finished strictly before `when` sees
   CancelledError at exactly `when` and the answer is DEADLINE_EXCEEDED whatever it does next
   (honours, swallows and returns / raises / raises GRPCError / raises TimeoutError) *)
Lemma serve_deadline a hs h rs :
  timeout_values hs <> [] -> Forall in_grammar (timeout_values hs) ->
  exists m ts,
    from_headers_timeout hs = Ok (Some m) /\
    (exists v, In v (timeout_values hs) /\ decode_timeout v = Ok m) /\
    (forall v x, In v (timeout_values hs) -> decode_timeout v = Ok x -> (Rnum m <= Rnum x)%R) /\
    py_add_float a m = Ok ts /\
    let o := serve a hs h rs in
    match time_remaining ts a with
    | None => o_status o = StDeadline /\ o_started o = false /\ o_timer o = None /\
              o_cancel_at o = None /\ o_end_at o = a
    | Some rem =>
        let when := fadd a rem in
        o_started o = true /\ o_timer o = Some when /\
        (flt (fadd a (h_dur h)) when = true ->
           o_cancel_at o = None /\ o_status o = final_status h (own_status (h_fin h)) /\
           o_end_at o = fadd a (h_dur h)) /\
        (flt (fadd a (h_dur h)) when = false ->
           o_cancel_at o = Some when /\ o_status o = final_status h StDeadline /\
           o_end_at o = match h_cancel h with CHonour => when
                                         | CSwallow extra _ => fadd when extra end)
    end.
Proof.
  intros Hne Hall. destruct (from_headers_min hs) as (_ & _ & A).
  destruct (A Hne Hall) as (m & Hm & (v & Hv & Hdv) & Hmin).
  assert (Hg : in_grammar v) by (rewrite Forall_forall in Hall; now apply Hall).
  destruct (py_add_float_total a m (decoded_value_shape v m Hg Hdv)) as [ts Hts].
  exists m, ts. split; [exact Hm|]. split; [exists v; auto|]. split; [exact Hmin|].
  split; [exact Hts|]. unfold serve. rewrite Hm, Hts.
  destruct (time_remaining ts a) as [rem|]; cbn zeta.
  - destruct (flt (fadd a (h_dur h)) (fadd a rem)) eqn:E; cbn;
      repeat split; try reflexivity; intros; try discriminate.
  - rewrite expired_status_deadline. cbn. auto.
Qed.

(* (d) the handler's own TimeoutError, with no deadline involvement, is NOT reported as
   DEADLINE_EXCEEDED (it is an application error: UNKNOWN) *)
Lemma serve_own_timeout a hs h rs :
  h_fin h = FRaiseTimeout -> h_trailers_first h = false ->
  let o := serve a hs h rs in o_cancel_at o = None -> o_started o = true -> o_status o = StUnknown.
Proof.
  intros Hf Ht. unfold serve.
  destruct (from_headers_timeout hs) as [[m|]|[|]]; cbn; try discriminate.
  - destruct (py_add_float a m) as [ts|]; cbn; try discriminate.
    destruct (time_remaining ts a) as [rem|]; cbn; try discriminate.
    destruct (flt _ _); cbn; try discriminate.
    unfold final_status. rewrite Ht, Hf. reflexivity.
  - unfold final_status. rewrite Ht, Hf. reflexivity.
Qed.

(* (e) DEADLINE_EXCEEDED is answered only when there is a deadline: never without a header *)
Lemma serve_deadline_status_needs_header a hs h rs :
  o_status (serve a hs h rs) = StDeadline -> timeout_values hs <> [].
Proof.
  intros H E. destruct (serve_no_header a hs h rs E) as (_ & _ & _ & Hs & _).
  rewrite Hs in H. unfold final_status in H.
  destruct (h_trailers_first h); [discriminate|]. destruct (h_fin h); discriminate.
Qed.

(* the float subtraction ts - a for non-negative instants with ts <= a: no overflow, result <= 0 *)
Lemma fsub_nonpos ts a : fin ts = true -> fin a = true ->
  (0 <= R64 ts)%R -> (R64 ts <= R64 a)%R ->
  fin (fsub ts a) = true /\ (R64 (fsub ts a) <= 0)%R.
Proof.
  intros Ft Fa H0 Hle.
  pose proof (Bminus_correct 53 1024 prec53 emax1024 binop_nan_pl64 mode_NE ts a Ft Fa) as H.
  set (rr := round radix2 (SpecFloat.fexp 53 1024) (round_mode mode_NE)
                   (B2R 53 1024 ts - B2R 53 1024 a)) in *.
  assert (Hab : (Rabs rr <= Rabs (R64 a))%R).
  { unfold rr. apply abs_round_le_generic; auto with typeclass_instances.
    - apply generic_format_abs. apply generic_format_B2R.
    - unfold R64 in *. rewrite (Rabs_pos_eq (B2R 53 1024 a)) by lra.
      rewrite Rabs_left1 by lra. lra. }
  assert (Hlt : Rlt_bool (Rabs rr) (bpow radix2 1024) = true).
  { apply Rlt_bool_true. eapply Rle_lt_trans; [exact Hab|]. apply abs_B2R_lt_emax. }
  rewrite Hlt in H. destruct H as [H1 [H2 _]]. split; [exact H2|].
  unfold R64 at 1. unfold fsub. rewrite H1. fold rr.
  unfold rr. rewrite <- (round_0 radix2 (SpecFloat.fexp 53 1024) (round_mode mode_NE)).
  apply round_le; auto with typeclass_instances. unfold R64 in *. lra.
Qed.

(* nothing remains (time_remaining gives the int 0) whenever the deadline instant is not after now *)
Lemma time_remaining_none ts a : fin ts = true -> fin a = true ->
  (0 <= R64 ts)%R -> (R64 ts <= R64 a)%R -> time_remaining ts a = None.
Proof.
  intros Ft Fa H0 Hle. destruct (fsub_nonpos ts a Ft Fa H0 Hle) as [Fx Hx].
  unfold time_remaining, fpos. rewrite (cmp_float_q_correct _ 0 1 ltac:(lia) Fx).
  destruct (Rcompare_spec (R64 (fsub ts a)) (0 / 1)); try reflexivity. lra.
Qed.

(* grpc-timeout: 0<unit> -- the decoded value is zero, the deadline is `now`: always expired *)
Lemma fadd_zero_r a z : fin a = true -> fin z = true -> R64 z = 0%R ->
  fin (fadd a z) = true /\ R64 (fadd a z) = R64 a.
Proof.
  intros Fa Fz Hz.
  pose proof (Bplus_correct 53 1024 prec53 emax1024 binop_nan_pl64 mode_NE a z Fa Fz) as H.
  unfold R64 in Hz. rewrite Hz, Rplus_0_r in H.
  rewrite round_generic in H; auto with typeclass_instances; [|apply generic_format_B2R].
  rewrite Rlt_bool_true in H by apply abs_B2R_lt_emax.
  destruct H as [H1 [H2 _]]. split; [exact H2|exact H1].
Qed.

(* (f) a governing grpc-timeout of value zero ('0n', '0S', ...): the deadline has passed on
   arrival at EVERY arrival instant -- DEADLINE_EXCEEDED, the handler never runs *)
Lemma serve_zero_timeout a hs h rs m :
  fin a = true -> (0 <= R64 a)%R ->
  from_headers_timeout hs = Ok (Some m) -> finnum m = true -> Rnum m = 0%R ->
  serve a hs h rs = {| o_status := StDeadline; o_started := false; o_timer := None;
                    o_cancel_at := None; o_end_at := a |}.
Proof.
  intros Fa Ha Hm Fm Rm. unfold serve. rewrite Hm.
  assert (X : exists ts, py_add_float a m = Ok ts /\ fin ts = true /\ R64 ts = R64 a).
  { destruct m as [z|f]; cbn in *.
    - apply eq_IZR in Rm. subst z. unfold float_of_int.
      destruct (f_of_Z_exact 0 ltac:(lia)) as [Hr Hf]. unfold fin in Hf. rewrite Hf.
      destruct (fadd_zero_r a (f_of_Z 0) Fa Hf Hr) as [A B]. eexists. split; [reflexivity|auto].
    - destruct (fadd_zero_r a f Fa Fm Rm) as [A B]. eexists. split; [reflexivity|auto]. }
  destruct X as (ts & Hts & Ft & Rt). rewrite Hts.
  rewrite (time_remaining_none ts a Ft Fa); [rewrite expired_status_deadline; reflexivity|lra|lra].
Qed.

(* a deadline instant not after the arrival instant, however it came about (tiny values absorbed
   by the float addition at a large clock value): expired as well *)
Lemma serve_expired a hs h rs m ts :
  fin a = true -> fin ts = true -> (0 <= R64 ts <= R64 a)%R ->
  from_headers_timeout hs = Ok (Some m) -> py_add_float a m = Ok ts ->
  serve a hs h rs = {| o_status := StDeadline; o_started := false; o_timer := None;
                    o_cancel_at := None; o_end_at := a |}.
Proof.
  intros Fa Ft Hr Hm Hts. unfold serve. rewrite Hm, Hts.
  rewrite (time_remaining_none ts a Ft Fa); [rewrite expired_status_deadline; reflexivity|lra|lra].
Qed.
