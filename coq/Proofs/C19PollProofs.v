(* Proofs for Props/C19.v, part 4: whoever is subscribed to a ServiceCheck is served by a live poll task,
   for ALL interleavings of subscribe / unsubscribe (suspended in `await task`) / poll task end. *)
From Coq Require Import ZArith List Bool Lia Arith.
From GV Require Import Gen.FactsC19 Model.Health.
Import ListNotations.

Definition poll_ok (s : pstate) : Prop :=
  p_err s = false /\
  (forall t, p_poll s = Some t -> In (t, false) (p_live s)) /\
  (p_events s = 0%nat <-> p_poll s = None).

Lemma pinit_ok : poll_ok pinit.
Proof. repeat split; cbn; try discriminate; auto. Qed.

Lemma in_mark_other t t' l : t' <> t -> In (t', false) l -> In (t', false) (mark_cancel t l).
Proof.
  intros N H. unfold mark_cancel. apply in_map_iff. exists (t', false). split; [|exact H].
  cbn. destruct (Nat.eqb t' t) eqn:E; [apply Nat.eqb_eq in E; congruence | reflexivity].
Qed.

Lemma pstep_ok s op : poll_ok s -> poll_ok (pstep s op).
Proof.
  intros [He [Hp Hz]]. destruct op as [| |t|t]; cbn [pstep].
  - (* PSub *) change subscribe_starts_poll_when_none with true. cbn match.
    destruct (p_poll s) as [t|] eqn:P; cbn [p_err p_poll p_live p_events].
    + split; [exact He|]. split; [intros t' E; apply Hp; exact E|].
      split; discriminate.
    + split; [exact He|]. split.
      * intros t' E. injection E as <-. apply in_or_app. right. left. reflexivity.
      * split; discriminate.
  - (* PUnsub *) destruct (p_events s) as [|[|n]] eqn:E.
    + split; [exact He|]. split; [exact Hp|]. rewrite E. exact Hz.
    + destruct (p_poll s) as [t|] eqn:P.
      * change poll_cleared_before_await with true. cbn [p_err p_poll p_live p_events].
        split; [exact He|]. split; [discriminate|]. split; reflexivity.
      * exfalso. destruct Hz as [_ Hz]. specialize (Hz eq_refl). discriminate.
    + cbn [p_err p_poll p_live p_events]. split; [exact He|]. split; [exact Hp|].
      split; [discriminate|]. intro P. apply Hz in P. discriminate.
  - (* PTaskEnd *) cbn [p_err p_poll p_live p_events]. split; [exact He|]. split; [|exact Hz].
    intros t' E. apply filter_In. split; [apply Hp, E|]. cbn. rewrite andb_false_r. reflexivity.
  - (* PUnsubResume *)
    destruct (nat_mem t (p_waiting s) && negb (is_live t (p_live s))).
    + change poll_cleared_before_await with true. cbn [p_err p_poll p_live p_events].
      split; [exact He|]. split; [exact Hp | exact Hz].
    + split; [exact He|]. split; [exact Hp | exact Hz].
Qed.

Lemma prun_ok s ops : poll_ok s -> poll_ok (prun s ops).
Proof. revert s. induction ops as [|op r IH]; intros s H; [exact H|]. apply IH, pstep_ok, H. Qed.

(* subscribers non-empty => self._poll_task is a live poll task whose cancellation was not requested;
   nobody subscribed => no poll task is remembered; the assert in __unsubscribe__ never fails *)
Theorem poll_alive ops :
  let s := prun pinit ops in
  p_err s = false /\
  ((0 < p_events s)%nat -> exists t, p_poll s = Some t /\ In (t, false) (p_live s)) /\
  (p_events s = 0%nat -> p_poll s = None).
Proof.
  intro s. destruct (prun_ok pinit ops pinit_ok) as [He [Hp Hz]]. fold s in He, Hp, Hz.
  split; [exact He|]. split; [|apply Hz].
  intro H. destruct (p_poll s) as [t|].
  - exists t. split; [reflexivity | apply Hp, eq_refl].
  - destruct Hz as [_ Hz]. specialize (Hz eq_refl). lia.
Qed.

(* the adjacent-iterations case: the last watcher leaves, the next one joins while that __unsubscribe__
   is still suspended, in either order of the following steps *)
Example poll_handover :
  let s := prun pinit [PSub; PUnsub; PSub; PTaskEnd 0; PUnsubResume 0] in
  p_events s = 1%nat /\ p_poll s = Some 1%nat /\ p_live s = [(1%nat, false)] /\ p_waiting s = [] /\ p_err s = false.
Proof. vm_compute. repeat split. Qed.

Example poll_handover_settle :
  let s := psettle (prun pinit [PSub; PSub; PUnsub; PUnsub; PSub]) in
  p_events s = 1%nat /\ p_poll s = Some 1%nat /\ live_pollers s = 1%nat /\ p_waiting s = [].
Proof. vm_compute. repeat split. Qed.
