(* Non-vacuity examples for C07: concrete histories, decided by vm_compute, that satisfy the
   hypotheses of the theorems in Props/C07.v; and the witness that refutes the per-sender
   completion bound of DESIGN section 2 (C07, item 5). *)
From Coq Require Import ZArith List Bool Lia.
From GV Require Import Model.FlowSend Proofs.C07Proofs.
Import ListNotations.
Open Scope Z_scope.

(* two senders: 100 bytes and 10 bytes, stream windows 50, connection window 65535 *)
Definition ex_cfg : list (Z * Z) := [(100, 50); (10, 50)].
Definition ex_init : state := init ex_cfg 65535 50 16384.

Example ex_wf : wf_cfg ex_cfg 16384.
Proof. split; [lia|]. repeat constructor; cbn; lia. Qed.

(* first FIFO run: sender 0 sends its 50 bytes of stream credit and starves, sender 1 completes *)
Example ex_first_run :
  snd (fifo_result None ex_init) = [mkChunk 0 0 50; mkChunk 1 0 10] /\
  map s_pc (senders (fst (fifo_result None ex_init))) = [WaitWindow; Done] /\
  quiescent (fst (fifo_result None ex_init)) = true.
Proof. vm_compute. auto. Qed.

Definition ex_s1 : state := fst (fifo_result None ex_init).

Example ex_s1_reachable : reachable ex_cfg 65535 50 16384 ex_s1.
Proof.
  split; [exact ex_wf|]. destruct (fifo_is_schedule None ex_init) as [ops [_ H]].
  exists ops. unfold ex_s1. now rewrite <- H.
Qed.

(* the starved sender is exactly in the situation described by progress / no_lost_wakeup *)
Example ex_starved :
  exists x, nth_error (senders ex_s1) 0 = Some x /\ s_pc x = WaitWindow /\ local_window ex_s1 x = 0.
Proof. eexists; vm_compute; auto. Qed.

(* history with every kind of peer action: stream update, pause, connection update while paused,
   resume, SETTINGS lowering the window below zero and raising it again, larger frames *)
Definition ex_ops : list op :=
  [Run 0; Run 0; Run 0; Run 0; Run 1; Run 1;          (* = ex_first_run *)
   WinStream 0 30; Run 0; Run 0; Run 0; Run 0;        (* 30 more bytes, starves again *)
   Pause; WinStream 0 5; Run 0;                       (* woken while paused: blocks on write_ready *)
   SetInitWin 0; Resume; Run 0; Run 0;                (* windows negative: starves *)
   SetMaxFrame 32768; SetInitWin 65535; Run 0; Run 0; Run 0].

Example ex_history :
  let (s, tr) := run ex_init ex_ops in
  tr = [mkChunk 0 0 50; mkChunk 1 0 10; mkChunk 0 50 30; mkChunk 0 80 20] /\
  map s_pc (senders s) = [Done; Done] /\ map s_win (senders s) = [65470; 65525] /\
  cwin s = 65425 /\ broken s = false.
Proof. vm_compute. auto. Qed.

(* in the middle of it the stream windows are negative and nothing is sent *)
Example ex_negative_window :
  let s := fst (run ex_init (firstn 18 ex_ops)) in
  map s_win (senders s) = [-45; -10] /\ map s_pc (senders s) = [WaitWindow; Done] /\
  quiescent s = true.
Proof. vm_compute. auto. Qed.

(* a granted round in the sense of `rounds` *)
Example ex_round : rounds 0 1 ex_s1 (fst (run ex_s1 [WinStream 0 30; Run 0; Run 0; Run 0; Run 0])).
Proof.
  apply (rounds_S 0 0 ex_s1 [WinStream 0 30] [Run 0; Run 0; Run 0; Run 0]).
  - split; [reflexivity|]. split; [reflexivity|]. eexists. split; [vm_compute; reflexivity|].
    split; [discriminate|]. vm_compute. reflexivity.
  - reflexivity.
  - vm_compute. reflexivity.
  - apply rounds_0.
Qed.

(* ample credit *)
Example ex_ample :
  ample (fst (run ex_s1 [WinStream 0 1000])).
Proof.
  remember (fst (run ex_s1 [WinStream 0 1000])) as s eqn:Hs. vm_compute in Hs. subst s.
  split; [reflexivity|]. split; [reflexivity|]. split; [vm_compute; discriminate|].
  repeat constructor; vm_compute; intros; try discriminate; congruence.
Qed.

(* an empty message needs a positive window and produces one empty DATA frame *)
Example ex_empty_message :
  snd (fifo_result None (init [(0, 0)] 10 0 16384)) = [] /\
  snd (fifo_result None (fst (run (init [(0, 0)] 10 0 16384) [Run 0; Run 0; WinStream 0 1])))
    = [mkChunk 0 0 0].
Proof. vm_compute. auto. Qed.

(* a sender woken by resume_writing sends one chunk even if the transport paused again before it
   ran, then blocks (asyncio: a woken waiter runs even if the flag was cleared meanwhile) *)
Example ex_woken_then_paused :
  let s0 := init [(40000, 65535)] 65535 65535 16384 in
  let (s, tr) := run s0 [Pause; Run 0; Resume; Pause; Run 0; Run 0] in
  tr = [mkChunk 0 0 16384] /\ map s_pc (senders s) = [WaitWrite].
Proof. vm_compute. auto. Qed.

(* the transport pausing from inside its second write() *)
Example ex_sync_pause :
  let s0 := init [(40000, 65535)] 65535 65535 16384 in
  snd (fifo_result (Some 1%nat) s0) = [mkChunk 0 0 16384; mkChunk 0 16384 16384] /\
  map s_pc (senders (fst (fifo_result (Some 1%nat) s0))) = [WaitWrite].
Proof. vm_compute. auto. Qed.

(* REFUTED: "a sender whose local window the peer makes positive progresses at the next
   quiescence" (DESIGN section 2, C07 item 5 claimed `i finishes within remaining_i wake-ups`).
   Two senders on an exhausted connection window; the peer grants 10 bytes of connection credit;
   both are woken, the FIFO order (= registry order) runs sender 0 first, which uses all of it. *)
Definition cx_init : state := init [(100, 65535); (5, 65535)] 0 65535 16384.
Definition cx_s : state := fst (run (fst (fifo_result None cx_init)) [WinConn 10]).

Example competitor_uses_the_grant :
  granted cx_s 1 /\
  (let r := fifo_result None cx_s in
   quiescent (fst r) = true /\ snd r = [mkChunk 0 0 10] /\
   exists x, nth_error (senders (fst r)) 1 = Some x /\ s_pos x = 0 /\ s_pc x = WaitWindow).
Proof.
  split.
  - split; [reflexivity|]. split; [reflexivity|]. eexists. split; [vm_compute; reflexivity|].
    split; [discriminate|]. vm_compute. reflexivity.
  - vm_compute. repeat split; auto. eexists; repeat split; reflexivity.
Qed.

(* The class "reset while paused, resume that re-pauses inside its flush, then credit returns":
   a sender starved of stream credit; the transport pauses; another call is cancelled (reset_nowait
   queues an RST_STREAM in h2); the transport resumes and pauses again from inside the write of
   that RST; the peer grants credit.  The sender is woken, finds write_ready clear, writes nothing. *)
Definition rp_ops : list cop :=
  [Op (Run 0); Op (Run 0); Op (Run 0); Op (Run 0);      (* 50 bytes sent, starved *)
   Op Pause; ResetAux; ResumeP; Op (WinStream 0 1000)].
Definition rp_c : conn := fst (crun (cinit [(40000, 50)] 65535 50 16384) rp_ops).

Example ex_reset_resume_repause :
  snd (crun (cinit [(40000, 50)] 65535 50 16384) rp_ops) = [mkChunk 0 0 50] /\
  tpaused rp_c = true /\ wready (core rp_c) = false /\ hq rp_c = false /\
  snd (cfifo None rp_c) = [] /\
  map s_pc (senders (core (fst (cfifo None rp_c)))) = [WaitWrite] /\
  (* and after a real resume the backlog goes out *)
  snd (cfifo None (fst (cstep (fst (cfifo None rp_c)) (Op Resume))))
    = [mkChunk 0 50 1000].
Proof. vm_compute. repeat split; reflexivity. Qed.

(* with nothing queued the transport has nothing to write in resume_writing and cannot re-pause *)
Example ex_resume_p_without_queue :
  let c := fst (crun (cinit [(40000, 50)] 65535 50 16384) [Op Pause; ResumeP]) in
  tpaused c = false /\ wready (core c) = true.
Proof. vm_compute. auto. Qed.
