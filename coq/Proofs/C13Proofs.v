(* Proofs for Props/C13.v: base64 (grpclib "-bin" values) and metadata round trips.
   Axiom-free; every lemma used by Props/C13.v is closed under the global context. *)
From Coq Require Import String ZArith List Bool Lia ZifyBool.
From GV Require Import Lib.Str Gen.Facts Model.Base64 Model.Metadata.
Import ListNotations.
Open Scope Z_scope.

(* let lia see through / and mod by constants *)
#[local] Ltac Zify.zify_post_hook ::= Z.div_mod_to_equations.

(* ------------------------------------------------------------------------------------------ *)
(** * Generic helpers *)

(* induction over lists by steps of three *)
Lemma list_ind3 {A} (P : list A -> Prop) :
  P [] -> (forall a, P [a]) -> (forall a b, P [a; b]) ->
  (forall a b c r, P r -> P (a :: b :: c :: r)) ->
  forall l, P l.
Proof.
  intros Hnil Hone Htwo Hstep.
  fix IH 1. intros [|a [|b [|c r]]].
  - exact Hnil.
  - apply Hone.
  - apply Htwo.
  - apply Hstep. apply IH.
Qed.

Lemma bytes_ok_cons a l :
  bytes_ok (a :: l) = true -> 0 <= a <= 255 /\ bytes_ok l = true.
Proof.
  unfold bytes_ok. cbn [forallb]. intros Hall.
  apply andb_true_iff in Hall as [Ha Hl]. split; [|exact Hl].
  unfold is_byte, in_range in Ha. lia.
Qed.

(* ------------------------------------------------------------------------------------------ *)
(** * The base64 alphabet *)

Lemma b64_val_char v : 0 <= v < 64 -> b64_val (b64_char v) = Some v.
Proof.
  intros Hv. unfold b64_char.
  destruct (v <? 26) eqn:E26.
  { unfold b64_val. replace (in_range 65 90 (65 + v)) with true by (unfold in_range; lia).
    f_equal. lia. }
  destruct (v <? 52) eqn:E52.
  { unfold b64_val.
    replace (in_range 65 90 (97 + (v - 26))) with false by (unfold in_range; lia).
    replace (in_range 97 122 (97 + (v - 26))) with true by (unfold in_range; lia).
    f_equal. lia. }
  destruct (v <? 62) eqn:E62.
  { unfold b64_val.
    replace (in_range 65 90 (48 + (v - 52))) with false by (unfold in_range; lia).
    replace (in_range 97 122 (48 + (v - 52))) with false by (unfold in_range; lia).
    replace (in_range 48 57 (48 + (v - 52))) with true by (unfold in_range; lia).
    f_equal. lia. }
  destruct (v =? 62) eqn:E62'.
  { assert (v = 62) as -> by lia. reflexivity. }
  assert (v = 63) as -> by lia. reflexivity.
Qed.

(* every property of the 64 alphabet characters can be checked on the five ranges *)
Lemma b64_char_cases v :
  0 <= v < 64 ->
  let c := b64_char v in
  65 <= c <= 90 \/ 97 <= c <= 122 \/ 48 <= c <= 57 \/ c = 43 \/ c = 47.
Proof.
  intros Hv. unfold b64_char. cbv zeta.
  destruct (v <? 26) eqn:E26; [lia|].
  destruct (v <? 52) eqn:E52; [lia|].
  destruct (v <? 62) eqn:E62; [lia|].
  destruct (v =? 62) eqn:E62'; lia.
Qed.

Lemma b64_char_not_pad v : 0 <= v < 64 -> (b64_char v =? PAD) = false.
Proof. intros Hv. pose proof (b64_char_cases v Hv) as Hc. cbv zeta in Hc. unfold PAD. lia. Qed.

Lemma b64_char_alphabet v : 0 <= v < 64 -> b64_alphabet (b64_char v) = true.
Proof.
  intros Hv. pose proof (b64_char_cases v Hv) as Hc. cbv zeta in Hc.
  unfold b64_alphabet, in_range. lia.
Qed.

Lemma b64_char_ascii v : 0 <= v < 64 -> in_range 0 127 (b64_char v) = true.
Proof.
  intros Hv. pose proof (b64_char_cases v Hv) as Hc. cbv zeta in Hc.
  unfold in_range. lia.
Qed.

(* ------------------------------------------------------------------------------------------ *)
(** * The encoder without padding, and [rstrip_pad] *)

Fixpoint b64encode_nopad (l : list Z) : list Z :=
  match l with
  | [] => []
  | [a] => [b64_char (a / 4); b64_char ((a mod 4) * 16)]
  | [a; b] => [b64_char (a / 4); b64_char ((a mod 4) * 16 + b / 16); b64_char ((b mod 16) * 4)]
  | a :: b :: c :: r =>
      b64_char (a / 4) :: b64_char ((a mod 4) * 16 + b / 16)
      :: b64_char ((b mod 16) * 4 + c / 64) :: b64_char (c mod 64) :: b64encode_nopad r
  end.

Lemma b64encode_quad a b c r :
  b64encode (a :: b :: c :: r) =
  b64_char (a / 4) :: b64_char ((a mod 4) * 16 + b / 16)
  :: b64_char ((b mod 16) * 4 + c / 64) :: b64_char (c mod 64) :: b64encode r.
Proof. reflexivity. Qed.

Lemma b64encode_nopad_quad a b c r :
  b64encode_nopad (a :: b :: c :: r) =
  b64_char (a / 4) :: b64_char ((a mod 4) * 16 + b / 16)
  :: b64_char ((b mod 16) * 4 + c / 64) :: b64_char (c mod 64) :: b64encode_nopad r.
Proof. reflexivity. Qed.

Lemma rstrip_pad_cons_nonpad x l :
  (x =? PAD) = false -> rstrip_pad (x :: l) = x :: rstrip_pad l.
Proof.
  intros Hx. cbn [rstrip_pad]. destruct (rstrip_pad l); [rewrite Hx|]; reflexivity.
Qed.

Lemma rstrip_b64encode l :
  bytes_ok l = true -> rstrip_pad (b64encode l) = b64encode_nopad l.
Proof.
  induction l as [|a|a b|a b c r IH] using list_ind3; intros Hok.
  - reflexivity.
  - apply bytes_ok_cons in Hok as [Ha _].
    cbn [b64encode b64encode_nopad].
    rewrite !rstrip_pad_cons_nonpad by (apply b64_char_not_pad; lia).
    reflexivity.
  - apply bytes_ok_cons in Hok as [Ha Hok]. apply bytes_ok_cons in Hok as [Hb _].
    cbn [b64encode b64encode_nopad].
    rewrite !rstrip_pad_cons_nonpad by (apply b64_char_not_pad; lia).
    reflexivity.
  - apply bytes_ok_cons in Hok as [Ha Hok]. apply bytes_ok_cons in Hok as [Hb Hok].
    apply bytes_ok_cons in Hok as [Hc Hok].
    rewrite b64encode_quad, b64encode_nopad_quad.
    rewrite !rstrip_pad_cons_nonpad by (apply b64_char_not_pad; lia).
    rewrite (IH Hok). reflexivity.
Qed.

(* any per-character property of the alphabet holds of the whole unpadded encoding *)
Lemma b64encode_nopad_forallb (P : Z -> bool) :
  (forall v, 0 <= v < 64 -> P (b64_char v) = true) ->
  forall l, bytes_ok l = true -> forallb P (b64encode_nopad l) = true.
Proof.
  intros HP.
  induction l as [|a|a b|a b c r IH] using list_ind3; intros Hok.
  - reflexivity.
  - apply bytes_ok_cons in Hok as [Ha _].
    cbn [b64encode_nopad forallb]. rewrite !HP by lia. reflexivity.
  - apply bytes_ok_cons in Hok as [Ha Hok]. apply bytes_ok_cons in Hok as [Hb _].
    cbn [b64encode_nopad forallb]. rewrite !HP by lia. reflexivity.
  - apply bytes_ok_cons in Hok as [Ha Hok]. apply bytes_ok_cons in Hok as [Hb Hok].
    apply bytes_ok_cons in Hok as [Hc Hok].
    rewrite b64encode_nopad_quad. cbn [forallb]. rewrite !HP by lia. rewrite (IH Hok).
    reflexivity.
Qed.

Lemma encode_bin_value_alphabet b :
  bytes_ok b = true -> forallb b64_alphabet (encode_bin_value b) = true.
Proof.
  intros Hok. unfold encode_bin_value. rewrite rstrip_b64encode by exact Hok.
  apply b64encode_nopad_forallb; [exact b64_char_alphabet | exact Hok].
Qed.

Lemma encode_bin_value_ascii b :
  bytes_ok b = true -> ascii_ok (encode_bin_value b) = true.
Proof.
  intros Hok. unfold ascii_ok, encode_bin_value. rewrite rstrip_b64encode by exact Hok.
  apply b64encode_nopad_forallb; [exact b64_char_ascii | exact Hok].
Qed.

(* ------------------------------------------------------------------------------------------ *)
(** * The decoder, one character at a time *)

Lemma a2b_step0 v r lc pads out :
  0 <= v < 64 -> a2b (b64_char v :: r) 0 lc pads out = a2b r 1 v 0 out.
Proof.
  intros Hv. cbn [a2b]. rewrite (b64_char_not_pad v Hv), (b64_val_char v Hv). reflexivity.
Qed.

Lemma a2b_step1 v r lc pads out :
  0 <= v < 64 ->
  a2b (b64_char v :: r) 1 lc pads out = a2b r 2 (v mod 16) 0 ((lc * 4 + v / 16) :: out).
Proof.
  intros Hv. cbn [a2b]. rewrite (b64_char_not_pad v Hv), (b64_val_char v Hv). reflexivity.
Qed.

Lemma a2b_step2 v r lc pads out :
  0 <= v < 64 ->
  a2b (b64_char v :: r) 2 lc pads out = a2b r 3 (v mod 4) 0 ((lc * 16 + v / 4) :: out).
Proof.
  intros Hv. cbn [a2b]. rewrite (b64_char_not_pad v Hv), (b64_val_char v Hv). reflexivity.
Qed.

Lemma a2b_step3 v r lc pads out :
  0 <= v < 64 ->
  a2b (b64_char v :: r) 3 lc pads out = a2b r 0 0 0 ((lc * 64 + v) :: out).
Proof.
  intros Hv. cbn [a2b]. rewrite (b64_char_not_pad v Hv), (b64_val_char v Hv). reflexivity.
Qed.

(* two data characters then "==" ; three data characters then "=" (anything may follow) *)
Lemma a2b_pad2 r lc out : a2b (PAD :: PAD :: r) 2 lc 0 out = Some (rev out).
Proof. reflexivity. Qed.

Lemma a2b_pad3 r lc out : a2b (PAD :: r) 3 lc 0 out = Some (rev out).
Proof. reflexivity. Qed.

(* a whole quad decodes to its three bytes and returns to the initial state *)
Lemma a2b_quad a b c r out :
  0 <= a <= 255 -> 0 <= b <= 255 -> 0 <= c <= 255 ->
  a2b (b64_char (a / 4) :: b64_char ((a mod 4) * 16 + b / 16)
       :: b64_char ((b mod 16) * 4 + c / 64) :: b64_char (c mod 64) :: r) 0 0 0 out
  = a2b r 0 0 0 (c :: b :: a :: out).
Proof.
  intros Ha Hb Hc.
  rewrite a2b_step0, a2b_step1, a2b_step2, a2b_step3 by lia.
  assert (a / 4 * 4 + (a mod 4 * 16 + b / 16) / 16 = a) as -> by lia.
  assert ((a mod 4 * 16 + b / 16) mod 16 * 16 + (b mod 16 * 4 + c / 64) / 4 = b) as -> by lia.
  assert ((b mod 16 * 4 + c / 64) mod 4 * 64 + c mod 64 = c) as -> by lia.
  reflexivity.
Qed.

Lemma rev_snoc3 {A} (out r : list A) a b c :
  rev (c :: b :: a :: out) ++ r = rev out ++ a :: b :: c :: r.
Proof. cbn [rev]. rewrite <- !app_assoc. reflexivity. Qed.

(* ------------------------------------------------------------------------------------------ *)
(** * repad *)

Lemma repad_quad x0 x1 x2 x3 l :
  repad (x0 :: x1 :: x2 :: x3 :: l) = x0 :: x1 :: x2 :: x3 :: repad l.
Proof.
  unfold repad. cbn [List.length app].
  replace (S (S (S (S (List.length l))))) with (List.length l + 1 * 4)%nat by lia.
  rewrite Nat.mod_add by lia. reflexivity.
Qed.

(* ------------------------------------------------------------------------------------------ *)
(** * base64 round trips *)

Lemma a2b_repad_nopad l :
  bytes_ok l = true ->
  forall out, a2b (repad (b64encode_nopad l)) 0 0 0 out = Some (rev out ++ l).
Proof.
  induction l as [|a|a b|a b c r IH] using list_ind3; intros Hok out.
  - change (a2b (repad (b64encode_nopad [])) 0 0 0 out) with (Some (rev out)).
    rewrite app_nil_r. reflexivity.
  - apply bytes_ok_cons in Hok as [Ha _].
    change (repad (b64encode_nopad [a]))
      with [b64_char (a / 4); b64_char ((a mod 4) * 16); PAD; PAD].
    rewrite a2b_step0, a2b_step1 by lia. rewrite a2b_pad2. cbn [rev].
    assert (a / 4 * 4 + a mod 4 * 16 / 16 = a) as -> by lia.
    reflexivity.
  - apply bytes_ok_cons in Hok as [Ha Hok]. apply bytes_ok_cons in Hok as [Hb _].
    change (repad (b64encode_nopad [a; b]))
      with [b64_char (a / 4); b64_char ((a mod 4) * 16 + b / 16); b64_char ((b mod 16) * 4);
            PAD; PAD; PAD].
    rewrite a2b_step0, a2b_step1, a2b_step2 by lia. rewrite a2b_pad3. cbn [rev].
    assert (a / 4 * 4 + (a mod 4 * 16 + b / 16) / 16 = a) as -> by lia.
    assert ((a mod 4 * 16 + b / 16) mod 16 * 16 + b mod 16 * 4 / 4 = b) as -> by lia.
    rewrite <- app_assoc. reflexivity.
  - apply bytes_ok_cons in Hok as [Ha Hok]. apply bytes_ok_cons in Hok as [Hb Hok].
    apply bytes_ok_cons in Hok as [Hc Hok].
    rewrite b64encode_nopad_quad, repad_quad, a2b_quad by assumption.
    rewrite (IH Hok). rewrite rev_snoc3. reflexivity.
Qed.

Lemma repad_b64encode l : repad (b64encode l) = b64encode l.
Proof.
  induction l as [|a|a b|a b c r IH] using list_ind3.
  - reflexivity.
  - reflexivity.
  - reflexivity.
  - rewrite b64encode_quad, repad_quad, IH. reflexivity.
Qed.

Lemma a2b_padded l :
  bytes_ok l = true ->
  forall out, a2b (b64encode l) 0 0 0 out = Some (rev out ++ l).
Proof.
  induction l as [|a|a b|a b c r IH] using list_ind3; intros Hok out.
  - change (a2b (b64encode []) 0 0 0 out) with (Some (rev out)).
    rewrite app_nil_r. reflexivity.
  - apply bytes_ok_cons in Hok as [Ha _].
    cbn [b64encode].
    rewrite a2b_step0, a2b_step1 by lia. rewrite a2b_pad2. cbn [rev].
    assert (a / 4 * 4 + a mod 4 * 16 / 16 = a) as -> by lia.
    reflexivity.
  - apply bytes_ok_cons in Hok as [Ha Hok]. apply bytes_ok_cons in Hok as [Hb _].
    cbn [b64encode].
    rewrite a2b_step0, a2b_step1, a2b_step2 by lia. rewrite a2b_pad3. cbn [rev].
    assert (a / 4 * 4 + (a mod 4 * 16 + b / 16) / 16 = a) as -> by lia.
    assert ((a mod 4 * 16 + b / 16) mod 16 * 16 + b mod 16 * 4 / 4 = b) as -> by lia.
    rewrite <- app_assoc. reflexivity.
  - apply bytes_ok_cons in Hok as [Ha Hok]. apply bytes_ok_cons in Hok as [Hb Hok].
    apply bytes_ok_cons in Hok as [Hc Hok].
    rewrite b64encode_quad, a2b_quad by assumption.
    rewrite (IH Hok). rewrite rev_snoc3. reflexivity.
Qed.

Lemma b64_roundtrip :
  forall b, bytes_ok b = true -> decode_bin_value (encode_bin_value b) = Some b.
Proof.
  intros b Hok. unfold decode_bin_value, b64decode, encode_bin_value.
  rewrite rstrip_b64encode by exact Hok.
  rewrite a2b_repad_nopad by exact Hok. reflexivity.
Qed.

Lemma b64_padded_roundtrip :
  forall b, bytes_ok b = true -> decode_bin_value (b64encode b) = Some b.
Proof.
  intros b Hok. unfold decode_bin_value, b64decode.
  rewrite repad_b64encode. rewrite a2b_padded by exact Hok. reflexivity.
Qed.

(* ------------------------------------------------------------------------------------------ *)
(** * Metadata: equations of the models *)

Definition enc_item (k : list Z) (v : mval) : res enc_err (list Z * list Z) :=
  if is_bin_key k then
    match v with
    | VBytes b => Ok (k, encode_bin_value b)
    | _ => Err ETypeError
    end
  else
    match v with
    | VStr s => if value_re_fullmatch s then Ok (k, s) else Err EValueError
    | _ => Err ETypeError
    end.

Lemma encode_metadata_cons k v r :
  encode_metadata ((k, v) :: r) =
  if enc_key_bad k then Err EValueError
  else match enc_item k v with
       | Err e => Err e
       | Ok h => match encode_metadata r with
                 | Ok hs => Ok (h :: hs)
                 | Err e => Err e
                 end
       end.
Proof. reflexivity. Qed.

Definition dec_item (k v : list Z) : res dec_err (list Z * mval) :=
  if is_bin_key k then
    if ascii_ok v then
      match decode_bin_value v with
      | Some b => Ok (k, VBytes b)
      | None => Err DBinascii
      end
    else Err DUnicode
  else Ok (k, VStr v).

Lemma decode_metadata_cons k v r :
  decode_metadata ((k, v) :: r) =
  if reserved k then decode_metadata r
  else match dec_item k v with
       | Err e => Err e
       | Ok m => match decode_metadata r with
                 | Ok ms => Ok (m :: ms)
                 | Err e => Err e
                 end
       end.
Proof. reflexivity. Qed.

Lemma md_valid_cons kv r : md_valid (kv :: r) = item_valid kv && md_valid r.
Proof. reflexivity. Qed.

Lemma md_typed_cons k v r :
  md_typed ((k, v) :: r) = (match v with VBytes b => bytes_ok b | _ => true end) && md_typed r.
Proof. reflexivity. Qed.

Lemma item_valid_eq k v :
  item_valid (k, v) =
  key_re_fullmatch k && negb (reserved k) &&
  (if is_bin_key k then match v with VBytes b => bytes_ok b | _ => false end
   else match v with VStr s => value_re_fullmatch s | _ => false end).
Proof. reflexivity. Qed.

(* ------------------------------------------------------------------------------------------ *)
(** * Metadata: keys *)

(* a key accepted by _KEY_RE cannot start with ':' *)
Lemma key_re_no_colon k : key_re_fullmatch k = true -> starts_with [58] k = false.
Proof.
  destruct k as [|c k']; intros Hre; [reflexivity|].
  unfold key_re_fullmatch in Hre. cbn [forallb] in Hre.
  apply andb_true_iff in Hre as [Hc _].
  cbn [starts_with]. unfold key_char, in_range in Hc.
  destruct (58 =? c) eqn:E; [|reflexivity]. lia.
Qed.

Lemma key_good_enc k :
  key_re_fullmatch k = true -> reserved k = false -> enc_key_bad k = false.
Proof.
  intros Hre Hres. unfold reserved in Hres. unfold enc_key_bad.
  apply orb_false_iff in Hres as [Hres Hsp]. apply orb_false_iff in Hres as [_ Hgrpc].
  rewrite Hre, Hsp, Hgrpc. reflexivity.
Qed.

Lemma enc_key_good k :
  enc_key_bad k = false -> key_re_fullmatch k = true /\ reserved k = false.
Proof.
  intros Hbad. unfold enc_key_bad in Hbad.
  apply orb_false_iff in Hbad as [Hbad Hre]. apply orb_false_iff in Hbad as [Hsp Hgrpc].
  apply negb_false_iff in Hre. split; [exact Hre|].
  unfold reserved. rewrite (key_re_no_colon k Hre), Hsp, Hgrpc. reflexivity.
Qed.

(* ------------------------------------------------------------------------------------------ *)
(** * Metadata round trip *)

Lemma metadata_roundtrip :
  forall md, md_valid md = true ->
  exists hs, encode_metadata md = Ok hs /\ decode_metadata hs = Ok md.
Proof.
  induction md as [|[k v] r IH]; intros Hvalid.
  - exists []. split; reflexivity.
  - rewrite md_valid_cons in Hvalid. apply andb_true_iff in Hvalid as [Hitem Hr].
    destruct (IH Hr) as (hs & Henc & Hdec).
    rewrite item_valid_eq in Hitem.
    apply andb_true_iff in Hitem as [Hkey Hval]. apply andb_true_iff in Hkey as [Hre Hres].
    apply negb_true_iff in Hres.
    rewrite encode_metadata_cons, (key_good_enc k Hre Hres), Henc. unfold enc_item.
    destruct (is_bin_key k) eqn:Hbin.
    + destruct v as [s|b|]; try discriminate Hval.
      exists ((k, encode_bin_value b) :: hs). split; [reflexivity|].
      rewrite decode_metadata_cons, Hres, Hdec. unfold dec_item.
      rewrite Hbin, (encode_bin_value_ascii b Hval), (b64_roundtrip b Hval). reflexivity.
    + destruct v as [s|b|]; try discriminate Hval.
      rewrite Hval. exists ((k, s) :: hs). split; [reflexivity|].
      rewrite decode_metadata_cons, Hres, Hdec. unfold dec_item.
      rewrite Hbin. reflexivity.
Qed.

Lemma decode_skips_reserved proto hs :
  forallb (fun h : list Z * list Z => reserved (fst h)) proto = true ->
  decode_metadata (proto ++ hs) = decode_metadata hs.
Proof.
  induction proto as [|[k v] proto IH]; intros Hproto.
  - reflexivity.
  - cbn [forallb fst] in Hproto. apply andb_true_iff in Hproto as [Hk Hproto].
    cbn [app]. rewrite decode_metadata_cons, Hk. exact (IH Hproto).
Qed.

Lemma roundtrip_behind_protocol_headers :
  forall md proto, md_valid md = true ->
  forallb (fun h => reserved (fst h)) proto = true ->
  exists hs, encode_metadata md = Ok hs /\ decode_metadata (proto ++ hs) = Ok md.
Proof.
  intros md proto Hvalid Hproto.
  destruct (metadata_roundtrip md Hvalid) as (hs & Henc & Hdec).
  exists hs. split; [exact Henc|].
  rewrite (decode_skips_reserved proto hs Hproto). exact Hdec.
Qed.

(* ------------------------------------------------------------------------------------------ *)
(** * Total validation *)

(* an item that the encoder accepts is valid (given the typing invariant on bytes) and the
   header it produces is wire safe *)
Lemma enc_item_ok k v h :
  enc_key_bad k = false ->
  match v with VBytes b => bytes_ok b | _ => true end = true ->
  enc_item k v = Ok h ->
  item_valid (k, v) = true /\ wire_safe h = true.
Proof.
  intros Hbad Htyped Hitem.
  destruct (enc_key_good k Hbad) as [Hre Hres].
  rewrite item_valid_eq, Hre, Hres. unfold enc_item in Hitem.
  destruct (is_bin_key k) eqn:Hbin.
  - destruct v as [s|b|]; try discriminate Hitem.
    injection Hitem as <-. unfold wire_safe. rewrite Hre, Hres, Hbin, Htyped.
    rewrite (encode_bin_value_alphabet b Htyped). split; reflexivity.
  - destruct v as [s|b|]; try discriminate Hitem.
    destruct (value_re_fullmatch s) eqn:Hval; try discriminate Hitem.
    injection Hitem as <-. unfold wire_safe. rewrite Hre, Hres, Hbin, Hval.
    split; reflexivity.
Qed.

Lemma invalid_rejected :
  forall md, md_typed md = true -> md_valid md = false ->
  exists e, encode_metadata md = Err e.
Proof.
  induction md as [|[k v] r IH]; intros Htyped Hinvalid.
  - discriminate Hinvalid.
  - rewrite md_typed_cons in Htyped. apply andb_true_iff in Htyped as [Hv Hr].
    rewrite encode_metadata_cons.
    destruct (enc_key_bad k) eqn:Hbad; [exists EValueError; reflexivity|].
    destruct (enc_item k v) as [h|e] eqn:Hitem; [|exists e; reflexivity].
    destruct (enc_item_ok k v h Hbad Hv Hitem) as [Hvalid _].
    rewrite md_valid_cons, Hvalid in Hinvalid. cbn [andb] in Hinvalid.
    destruct (IH Hr Hinvalid) as [e He]. rewrite He. exists e. reflexivity.
Qed.

Lemma encoded_is_wire_safe :
  forall md hs, md_typed md = true -> encode_metadata md = Ok hs -> forallb wire_safe hs = true.
Proof.
  induction md as [|[k v] r IH]; intros hs Htyped Henc.
  - injection Henc as <-. reflexivity.
  - rewrite md_typed_cons in Htyped. apply andb_true_iff in Htyped as [Hv Hr].
    rewrite encode_metadata_cons in Henc.
    destruct (enc_key_bad k) eqn:Hbad; [discriminate Henc|].
    destruct (enc_item k v) as [h|e] eqn:Hitem; [|discriminate Henc].
    destruct (encode_metadata r) as [hs'|e] eqn:Hencr; [|discriminate Henc].
    injection Henc as <-.
    destruct (enc_item_ok k v h Hbad Hv Hitem) as [_ Hsafe].
    cbn [forallb]. rewrite Hsafe, (IH hs' Hr eq_refl). reflexivity.
Qed.

(* ------------------------------------------------------------------------------------------ *)
(** * Protocol headers are hidden *)

Lemma dec_item_key k v m : dec_item k v = Ok m -> fst m = k.
Proof.
  unfold dec_item. intros Hitem.
  destruct (is_bin_key k).
  - destruct (ascii_ok v); [|discriminate Hitem].
    destruct (decode_bin_value v); [|discriminate Hitem].
    injection Hitem as <-. reflexivity.
  - injection Hitem as <-. reflexivity.
Qed.

Lemma decode_hides_protocol_headers :
  forall hs md, decode_metadata hs = Ok md ->
  forallb (fun kv => negb (reserved (fst kv))) md = true.
Proof.
  induction hs as [|[k v] r IH]; intros md Hdec.
  - injection Hdec as <-. reflexivity.
  - rewrite decode_metadata_cons in Hdec.
    destruct (reserved k) eqn:Hres; [exact (IH md Hdec)|].
    destruct (dec_item k v) as [m|e] eqn:Hitem; [|discriminate Hdec].
    destruct (decode_metadata r) as [ms|e] eqn:Hdecr; [|discriminate Hdec].
    injection Hdec as <-.
    cbn [forallb]. rewrite (dec_item_key k v m Hitem), Hres, (IH ms eq_refl). reflexivity.
Qed.

(* ------------------------------------------------------------------------------------------ *)
(** * Facts about the source *)

(* the code points below 128 that satisfy a predicate, ascending: the shape in which Gen.Facts states the
   character set of a compiled regular expression *)
Definition chars_of (p : Z -> bool) : list Z := filter p (map Z.of_nat (seq 0 128)).

Lemma in_chars_of (p : Z -> bool) c :
  (p c = true -> 0 <= c < 128) -> (In c (chars_of p) <-> p c = true).
Proof.
  intros Hb; unfold chars_of; rewrite filter_In; split; [tauto|].
  intros Hp; split; [|exact Hp].
  apply in_map_iff; exists (Z.to_nat c); split; [apply Z2Nat.id; apply Hb in Hp; lia|].
  apply in_seq; apply Hb in Hp; lia.
Qed.

Lemma key_char_bound c : key_char c = true -> 0 <= c < 128.
Proof. unfold key_char, in_range; intros H; lia. Qed.

Lemma value_char_bound c : value_char c = true -> 0 <= c < 128.
Proof. unfold value_char, in_range; intros H; lia. Qed.

(* _KEY_RE and _VALUE_RE, as compiled and as used in the source (whole-string match, mode 0), are "one or
   more characters of the set", and the set is exactly the model's predicate; the reserved names the property
   lists are in _SPECIAL *)
Lemma source_facts :
  key_re_sem = ([(chars_of key_char, 1, -1)], 0, []) /\
  value_re_sem = ([(chars_of value_char, 1, -1)], 0, []) /\
  (forall c, In c (chars_of key_char) <-> key_char c = true) /\
  (forall c, In c (chars_of value_char) <-> value_char c = true) /\
  mem_str (s2z "te") special = true /\ mem_str (s2z "content-type") special = true /\
  mem_str (s2z "user-agent") special = true.
Proof.
  split; [vm_compute; reflexivity|]. split; [vm_compute; reflexivity|].
  split; [intros c; apply in_chars_of, key_char_bound|].
  split; [intros c; apply in_chars_of, value_char_bound|].
  repeat split; vm_compute; reflexivity.
Qed.
