(* C05 -- the grpc-timeout value a client puts on the wire.  Reuses the float model and the bounds
   of C15 (Proofs/C15Proofs.v), hence the standard-library real-number axioms Flocq needs. *)
From Coq Require Import ZArith List Bool Lia ZifyBool Reals Lra.
From Flocq Require Import Core IEEE754.BinarySingleNaN IEEE754.Binary IEEE754.Bits.
From GV Require Import Lib.Str Gen.Facts Gen.StreamOps Model.StreamIR Model.StreamSem Model.Timeout
     Model.Deadline Proofs.C15Proofs Proofs.C05Proofs.
Import ListNotations.
Open Scope Z_scope.
#[local] Ltac Zify.zify_post_hook ::= Z.div_mod_to_equations.

(* ticks -> float is exact for every tick count below 2^53 (about 97 days) *)
Lemma f64_of_ticks_exact k : (Z.abs k < 2 ^ 53)%Z ->
  R64 (f64_of_ticks k) = (IZR k * bpow radix2 (-30))%R /\ fin (f64_of_ticks k) = true.
Proof.
  intros Hz.
  pose proof (binary_normalize_correct 53 1024 prec53 emax1024 mode_NE k (-30) false) as H.
  assert (HF : F2R (Float radix2 k (-30)) = (IZR k * bpow radix2 (-30))%R) by reflexivity.
  rewrite HF in H.
  assert (Hr : round radix2 (SpecFloat.fexp 53 1024) (round_mode mode_NE)
                     (IZR k * bpow radix2 (-30)) = (IZR k * bpow radix2 (-30))%R).
  { apply round_generic; auto with typeclass_instances.
    apply generic_format_FLT. exists (Float radix2 k (-30)).
    - reflexivity.
    - simpl. exact Hz.
    - vm_compute. discriminate. }
  rewrite Hr in H.
  rewrite Rlt_bool_true in H.
  - destruct H as [H1 [H2 _]]. split; [exact H1|exact H2].
  - rewrite Rabs_mult. rewrite (Rabs_pos_eq (bpow radix2 (-30))); [|apply bpow_ge_0].
    rewrite <- abs_IZR.
    apply Rlt_le_trans with (IZR (2 ^ 53) * bpow radix2 (-30))%R.
    + apply Rmult_lt_compat_r; [apply bpow_gt_0|]. apply IZR_lt. exact Hz.
    + change (IZR (2 ^ 53)) with (bpow radix2 53). rewrite <- bpow_plus. apply bpow_le. lia.
Qed.

Definition secs (ticks : Z) : R := (IZR ticks * bpow radix2 (-30))%R.

Lemma secs_bound r : (0 < r < 2 ^ 53)%Z -> (0 < secs r <= 99999999)%R.
Proof.
  intros [H1 H2]. unfold secs. split.
  - apply Rmult_lt_0_compat; [apply IZR_lt; lia|apply bpow_gt_0].
  - apply Rle_trans with (IZR (2 ^ 53) * bpow radix2 (-30))%R.
    + apply Rmult_le_compat_r; [apply bpow_ge_0|]. apply IZR_le. lia.
    + change (IZR (2 ^ 53)) with (bpow radix2 53). rewrite <- bpow_plus.
      change (53 + -30)%Z with 23%Z. change (bpow radix2 23) with (IZR (2 ^ 23)).
      apply IZR_le. vm_compute. discriminate.
Qed.

(* the header string computed from `rem` ticks of remaining time: spec-valid, and its value is at
   most the remaining time, up to the rounding of C15's one float product (class D14) *)
Lemma header_value_bound rem : (rem < 2 ^ 53)%Z ->
  exists s q, hdr_string rem = Ok s /\ in_grammar s /\ wire_q s = Some q /\
    (q2r q <= secs (Z.max 0 rem) \/
     q2r q - secs (Z.max 0 rem) < secs (Z.max 0 rem) * bpow radix2 (-52))%R.
Proof.
  intro Hlt. unfold hdr_string, hdr_num. destruct (rem <=? 0) eqn:E.
  - destruct (enc_int_spec 0 ltac:(lia)) as (s & q & H1 & H2 & H3 & H4).
    exists s, q. repeat split; try assumption. left.
    replace (Z.max 0 rem) with 0%Z by lia. unfold secs. rewrite H4. lra.
  - assert (Hr : (0 < rem < 2 ^ 53)%Z) by lia.
    destruct (f64_of_ticks_exact rem ltac:(lia)) as [HR HF].
    destruct (secs_bound rem Hr) as [Hs1 Hs2].
    destruct (enc_float_spec (f64_of_ticks rem) HF) as (s & q & H1 & H2 & H3 & _ & H5).
    { rewrite HR. fold (secs rem). lra. }
    exists s, q. repeat split; try assumption.
    replace (Z.max 0 rem) with rem by lia. rewrite HR in H5. exact H5.
Qed.

(* every HEADERS frame of every schedule: the header was computed at an instant c no later than
   the send instant a, from the time remaining at c *)
Lemma wire_entries n0 dl ops :
  forallb op_ok ops = true ->
  let s := run ops (init n0 dl) in
  forall a c r, In (a, Some (c, r)) (wire s) ->
    exists D, dl = Some D /\ c <= a <= now s /\ r = Z.max 0 (D - c).
Proof.
  intros Hok s a c r Hin.
  destruct (run_all ops _ (init_all n0 dl) Hok) as (_ & _ & _ & [_ HW]). fold s in HW.
  rewrite Forall_forall in HW. destruct (HW _ Hin) as [A B]. cbn in A, B.
  destruct B as [B1 [D [B2 B3]]].
  assert (Hds : deadline s = dl) by (unfold s; apply run_deadline).
  exists D. rewrite <- Hds. repeat split; assumption || lia.
Qed.

Lemma wire_value_bound n0 dl ops :
  forallb op_ok ops = true ->
  let s := run ops (init n0 dl) in
  forall a c r, In (a, Some (c, r)) (wire s) -> (r < 2 ^ 53)%Z ->
    exists D str q, dl = Some D /\ c <= a /\ r = Z.max 0 (D - c) /\
      hdr_string r = Ok str /\ in_grammar str /\ wire_q str = Some q /\
      (q2r q <= secs r \/ q2r q - secs r < secs r * bpow radix2 (-52))%R.
Proof.
  intros Hok s a c r Hin Hr.
  destruct (wire_entries n0 dl ops Hok a c r Hin) as (D & HD & Hca & Hrr).
  destruct (header_value_bound r Hr) as (str & q & H1 & H2 & H3 & H4).
  exists D, str, q. repeat split; try assumption; try lia.
  replace (Z.max 0 r) with r in H4 by lia. exact H4.
Qed.

(* D8: the value on the wire can exceed the time remaining when the HEADERS are sent *)
Definition d8_cx : pctx :=
  {| x_cs := true; x_end := false; x_deadline := true; x_has_gs := false; x_got_msg := false;
     x_status_err := false |}.
Definition S30 : Z := 2 ^ 30.
Definition d8_ops : list op :=
  scenario_ops 40 [(WSendRequest, Some (6 * S30))] (100 * S30) 0 (Some (10 * S30))
               [{| s_path := cpath client_ops OpSendRequest d8_cx no_flags; s_fd := false |}].

Lemma wire_value_at_send_refuted :
  exists ops D,
    forallb op_ok ops = true /\ forallb no_ext ops = true /\
    let s := run ops (init 0 (Some D)) in
    exists a c r str q,
      In (a, Some (c, r)) (wire s) /\ hdr_string r = Ok str /\ wire_q str = Some q /\
      exceeds q (D - a) = true /\
      (* concretely: computed at 0 with 10 s left, sent at 6 s with 4 s left, '10000m' *)
      a = 6 * S30 /\ c = 0 /\ r = 10 * S30 /\ str = [49; 48; 48; 48; 48; 109] /\ q = (10000, 1000).
Proof.
  exists d8_ops, (10 * S30).
  split; [vm_compute; reflexivity|]. split; [vm_compute; reflexivity|].
  exists (6 * S30), 0, (10 * S30), [49; 48; 48; 48; 48; 109], (10000, 1000).
  vm_compute. repeat split; auto.
Qed.

(* what holds instead: when nothing made send_request wait after the header was computed (the
   computation instant IS the send instant), the value is bounded by the time remaining then *)
Lemma wire_value_at_send_partial n0 dl ops :
  forallb op_ok ops = true ->
  let s := run ops (init n0 dl) in
  forall a c r, In (a, Some (c, r)) (wire s) -> (r < 2 ^ 53)%Z -> c = a ->
    exists D str q, dl = Some D /\ hdr_string r = Ok str /\ wire_q str = Some q /\
      (q2r q <= secs (Z.max 0 (D - a)) \/
       q2r q - secs (Z.max 0 (D - a)) < secs (Z.max 0 (D - a)) * bpow radix2 (-52))%R.
Proof.
  intros Hok s a c r Hin Hr Hca.
  destruct (wire_value_bound n0 dl ops Hok a c r Hin Hr) as (D & str & q & H1 & H2 & H3 & H4 & _ & H6 & H7).
  exists D, str, q. subst c. rewrite <- H3. repeat split; assumption.
Qed.
