(* Proofs for Props/C19.v: the health aggregate, the Watch loop, ServiceCheck.__check__.
   Axiom-free; every lemma used by Props/C19.v is closed under the global context. *)
From Coq Require Import ZArith List Bool Lia ZifyBool Arith.
From GV Require Import Gen.FactsC19 Model.Health.
Import ListNotations.
Open Scope Z_scope.

#[local] Ltac Zify.zify_post_hook ::= Z.div_mod_to_equations.

(* ================================================================================================ *)
(** * Part 1: the aggregate *)

Lemma st_eqb_eq a b : st_eqb a b = true <-> a = b.
Proof. destruct a, b; simpl; split; intro H; try reflexivity; discriminate. Qed.

Lemma st_eqb_refl a : st_eqb a a = true.
Proof. destruct a; reflexivity. Qed.

Lemma st_code_inj a b : st_code a = st_code b -> a = b.
Proof. destruct a, b; simpl; intro H; try reflexivity; discriminate. Qed.

Lemma zmem_In x l : zmem x l = true <-> In x l.
Proof.
  induction l as [|y r IH]; simpl.
  - split; [discriminate | tauto].
  - rewrite orb_true_iff, IH, Z.eqb_eq. split; intros [H|H]; auto.
Qed.

Lemma mk_set_In x l : In x (mk_set l) <-> In x l.
Proof.
  induction l as [|y r IH]; simpl; [tauto|].
  destruct (zmem y (mk_set r)) eqn:E.
  - rewrite IH. split; [auto|]. intros [H|H]; [|exact H]. subst y.
    apply zmem_In in E. apply IH. exact E.
  - simpl. rewrite IH. tauto.
Qed.

Lemma forallb_ext_In {A} (f : A -> bool) l1 l2 :
  (forall x, In x l1 <-> In x l2) -> forallb f l1 = forallb f l2.
Proof.
  intro H. destruct (forallb f l1) eqn:E1; destruct (forallb f l2) eqn:E2; try reflexivity.
  - rewrite forallb_forall in E1. assert (forallb f l2 = true) as X.
    { apply forallb_forall. intros x Hx. apply E1, H, Hx. } congruence.
  - rewrite forallb_forall in E2. assert (forallb f l1 = true) as X.
    { apply forallb_forall. intros x Hx. apply E2, H, Hx. } congruence.
Qed.

Lemma zmem_ext x l1 l2 : (forall y, In y l1 <-> In y l2) -> zmem x l1 = zmem x l2.
Proof.
  intro H. destruct (zmem x l1) eqn:E1; destruct (zmem x l2) eqn:E2; try reflexivity.
  - apply zmem_In, H, zmem_In in E1. congruence.
  - apply zmem_In, H, zmem_In in E2. congruence.
Qed.

Lemma forallb_fext {A} (f g : A -> bool) l : (forall x, f x = g x) -> forallb f l = forallb g l.
Proof. intro H. induction l as [|a r IH]; simpl; [reflexivity|]. rewrite H, IH. reflexivity. Qed.

(* set equality only sees membership *)
Lemma set_eq_ext a a' b : (forall x, In x a <-> In x a') -> set_eq a b = set_eq a' b.
Proof.
  intro H. unfold set_eq. f_equal.
  - apply forallb_ext_In, H.
  - apply forallb_fext. intros x. apply zmem_ext, H.
Qed.

Lemma eval_chain_ext a a' ch d :
  (forall x, In x a <-> In x a') -> eval_chain a ch d = eval_chain a' ch d.
Proof.
  intro H. induction ch as [|[lit r] rest IH]; simpl; [reflexivity|].
  rewrite (set_eq_ext a a' lit H), IH. reflexivity.
Qed.

(* the aggregate depends only on the SET of statuses: order and multiplicity are irrelevant *)
Lemma agg_status_set l1 l2 :
  (forall s, In s l1 <-> In s l2) -> agg_status l1 = agg_status l2.
Proof.
  intro H. unfold agg_status. f_equal. apply eval_chain_ext. intro x.
  rewrite !mk_set_In, !in_map_iff. split; intros [s [E I]]; exists s; split; auto; apply H; auto.
Qed.

Definition all_st (v : st) (l : list st) : bool := forallb (st_eqb v) l.

Lemma code_eqb a c : (st_code a =? st_code c) = st_eqb c a.
Proof. destruct a, c; reflexivity. Qed.

Lemma set_eq_single l c :
  set_eq (mk_set (map st_code l)) [st_code c] =
  match l with [] => false | _ => all_st c l end.
Proof.
  rewrite (set_eq_ext _ (map st_code l)) by (intro; apply mk_set_In).
  unfold set_eq. cbn [forallb]. rewrite andb_true_r.
  assert (A : forallb (fun x => zmem x [st_code c]) (map st_code l) = all_st c l).
  { unfold all_st. induction l as [|a r IH]; [reflexivity|]. cbn [map forallb].
    rewrite IH. cbn [zmem]. rewrite orb_false_r, code_eqb. reflexivity. }
  assert (B : zmem (st_code c) (map st_code l) = existsb (st_eqb c) l).
  { clear A. induction l as [|a r IH]; [reflexivity|]. cbn [map zmem existsb]. rewrite IH.
    rewrite Z.eqb_sym, code_eqb. reflexivity. }
  rewrite A, B. destruct l as [|a r]; [reflexivity|].
  unfold all_st. simpl. destruct (st_eqb c a); simpl; [|reflexivity].
  apply andb_true_r.
Qed.

Definition agg_spec (l : list st) : resp :=
  match l with
  | [] => R_NOT_SERVING
  | _ => if all_st SNone l then R_UNKNOWN else if all_st STrue l then R_SERVING else R_NOT_SERVING
  end.

(* the chain copied from the source decides exactly the truth table of the property *)
Lemma agg_status_spec l : agg_status l = agg_spec l.
Proof.
  unfold agg_status, status_chain, status_else. simpl eval_chain.
  change [2] with [st_code SNone]. change [1] with [st_code STrue].
  rewrite !set_eq_single. destruct l as [|a r]; [reflexivity|].
  unfold agg_spec. destruct (all_st SNone (a :: r)); [reflexivity|].
  destruct (all_st STrue (a :: r)); reflexivity.
Qed.

Lemma all_st_forall v l : all_st v l = true <-> (forall s, In s l -> s = v).
Proof.
  unfold all_st. rewrite forallb_forall. split; intros H s Hs.
  - symmetry. apply st_eqb_eq, H, Hs.
  - apply st_eqb_eq. symmetry. apply H, Hs.
Qed.

Lemma all_st_excl a r : all_st SNone (a :: r) = true -> all_st STrue (a :: r) = true -> False.
Proof.
  unfold all_st. simpl. destruct a; simpl; discriminate.
Qed.

Lemma agg_serving_iff l :
  agg_status l = R_SERVING <-> l <> [] /\ (forall s, In s l -> s = STrue).
Proof.
  rewrite agg_status_spec. destruct l as [|a r]; cbn [agg_spec].
  - split; [discriminate | intros [H _]; congruence].
  - rewrite <- all_st_forall. destruct (all_st SNone (a :: r)) eqn:N; destruct (all_st STrue (a :: r)) eqn:T.
    + exfalso. eapply all_st_excl; eauto.
    + split; [discriminate | intros [_ H]; discriminate].
    + split; [intros _; split; [discriminate | reflexivity] | reflexivity].
    + split; [discriminate | intros [_ H]; discriminate].
Qed.

Lemma agg_unknown_iff l :
  agg_status l = R_UNKNOWN <-> l <> [] /\ (forall s, In s l -> s = SNone).
Proof.
  rewrite agg_status_spec. destruct l as [|a r]; cbn [agg_spec].
  - split; [discriminate | intros [H _]; congruence].
  - rewrite <- all_st_forall. destruct (all_st SNone (a :: r)) eqn:N.
    + split; [intros _; split; [discriminate | reflexivity] | reflexivity].
    + destruct (all_st STrue (a :: r)); split; try discriminate; intros [_ H]; discriminate.
Qed.

Lemma agg_three l :
  agg_status l = R_SERVING \/ agg_status l = R_UNKNOWN \/ agg_status l = R_NOT_SERVING.
Proof.
  rewrite agg_status_spec. destruct l as [|a r]; cbn [agg_spec]; [auto|].
  destruct (all_st SNone (a :: r)); [auto|]. destruct (all_st STrue (a :: r)); auto.
Qed.

Lemma agg_not_serving_iff l :
  agg_status l = R_NOT_SERVING <->
  ~ (l <> [] /\ (forall s, In s l -> s = STrue)) /\ ~ (l <> [] /\ (forall s, In s l -> s = SNone)).
Proof.
  rewrite <- agg_serving_iff, <- agg_unknown_iff.
  destruct (agg_three l) as [H|[H|H]]; rewrite H.
  - split; [discriminate|]. intros [A _]. exfalso. apply A. reflexivity.
  - split; [discriminate|]. intros [_ A]. exfalso. apply A. reflexivity.
  - split; [|reflexivity]. intros _. split; discriminate.
Qed.

(* ---- Health.Check ------------------------------------------------------------------------------ *)

Lemma check_unregistered reg vals name :
  lookup reg name = None -> check_rpc reg vals name = CA_Status 5.
Proof. intro H. unfold check_rpc. rewrite H. reflexivity. Qed.

Lemma check_registered reg vals name cs :
  lookup reg name = Some cs ->
  exists r, check_rpc reg vals name = CA_Resp r /\
    (r = R_SERVING <-> (forall i, In i cs -> val_of vals i = STrue)) /\
    (r = R_UNKNOWN <-> cs <> [] /\ (forall i, In i cs -> val_of vals i = SNone)) /\
    (r = R_SERVING \/ r = R_UNKNOWN \/ r = R_NOT_SERVING).
Proof.
  intro H. unfold check_rpc. rewrite H. destruct cs as [|c cs'].
  - exists R_SERVING. split; [reflexivity|]. split; [|split].
    + split; [intros _ i [] | reflexivity].
    + split; [discriminate | intros [A _]; congruence].
    + auto.
  - set (l := map (val_of vals) (c :: cs')). exists (agg_status l). split; [reflexivity|].
    assert (Hin : forall P : st -> Prop, (forall s, In s l -> P s) <-> (forall i, In i (c :: cs') -> P (val_of vals i))).
    { intro P. unfold l. split.
      - intros A i Hi. apply A. apply in_map. exact Hi.
      - intros A s Hs. apply in_map_iff in Hs. destruct Hs as [i [E Hi]]. subst s. apply A, Hi. }
    split; [|split].
    + rewrite agg_serving_iff. rewrite (Hin (fun s => s = STrue)). split; [tauto|].
      intro A. split; [unfold l; simpl; discriminate | exact A].
    + rewrite agg_unknown_iff. rewrite (Hin (fun s => s = SNone)). split.
      * intros [_ A]. split; [discriminate | exact A].
      * intros [_ A]. split; [unfold l; simpl; discriminate | exact A].
    + apply agg_three.
Qed.

(* ---- Health.__init__ ---------------------------------------------------------------------------- *)

Lemma nat_mem_In x l : nat_mem x l = true <-> In x l.
Proof.
  induction l as [|y r IH]; simpl; [split; [discriminate | tauto]|].
  rewrite orb_true_iff, IH, Nat.eqb_eq. split; intros [H|H]; auto.
Qed.

Lemma dedup_In x l : In x (dedup l) <-> In x l.
Proof.
  induction l as [|y r IH]; simpl; [tauto|].
  destruct (nat_mem y (dedup r)) eqn:E.
  - rewrite IH. split; [auto|]. intros [H|H]; [|exact H]. subst y. apply IH, nat_mem_In, E.
  - simpl. rewrite IH. tauto.
Qed.

Lemma lookup_app_last r k v name :
  lookup (r ++ [(k, v)]) name = if k =? name then Some v else lookup r name.
Proof.
  induction r as [|[k' v'] rest IH]; cbn [app lookup].
  - destruct (k =? name); reflexivity.
  - rewrite IH. destruct (k =? name); [reflexivity|]. reflexivity.
Qed.

Lemma lookup_map (f : list nat -> list nat) r name :
  lookup (map (fun kv => (fst kv, f (snd kv))) r) name = option_map f (lookup r name).
Proof.
  induction r as [|[k v] rest IH]; [reflexivity|]. cbn [map lookup fst snd]. rewrite IH.
  destruct (lookup rest name); [reflexivity|]. cbn [option_map]. destruct (k =? name); reflexivity.
Qed.

(* no mapping given: only OVERALL, with no checks *)
Lemma health_init_none name :
  lookup (health_init None) name = if overall =? name then Some [] else None.
Proof. reflexivity. Qed.

(* OVERALL not given: it is the union of all check lists; the named services keep their own sets *)
Lemma health_init_default (cfg : list (Z * list nat)) name :
  existsb (fun kv => fst kv =? overall) cfg = false ->
  lookup (health_init (Some cfg)) name =
  if overall =? name then Some (dedup (concat (map snd cfg))) else option_map dedup (lookup cfg name).
Proof.
  intro H. unfold health_init. rewrite H, lookup_map, lookup_app_last.
  destruct (overall =? name); reflexivity.
Qed.

Lemma health_init_explicit (cfg : list (Z * list nat)) name :
  existsb (fun kv => fst kv =? overall) cfg = true ->
  lookup (health_init (Some cfg)) name = option_map dedup (lookup cfg name).
Proof. intro H. unfold health_init. rewrite H, lookup_map. reflexivity. Qed.

Lemma overall_default_members (cfg : list (Z * list nat)) i :
  In i (dedup (concat (map snd cfg))) <-> exists kv, In kv cfg /\ In i (snd kv).
Proof.
  rewrite dedup_In, in_concat. split.
  - intros [l [Hl Hi]]. apply in_map_iff in Hl. destruct Hl as [kv [E Hkv]]. subst l. exists kv. auto.
  - intros [kv [Hkv Hi]]. exists (snd kv). split; [apply in_map, Hkv | exact Hi].
Qed.

(* the source facts the model is instantiated with (Gen.FactsC19 is regenerated from /repo on every run) *)
Lemma source_facts :
  status_chain = [([2], 0); ([1], 1)] /\ status_else = 2 /\
  check_unregistered_grpc_status = 5 /\ check_empty_resp = 1 /\
  watch_unregistered_resp = 3 /\ watch_empty_resp = 1 /\
  watch_first_completed = true /\ reset_when_absent_or_done = true /\ reset_clears_then_waits = true /\
  ttl_cmp = 0 /\ latch_cleared_before_run = true /\ latch_set_in_finally = true /\ func_guarded = true /\
  nonbool_is_type_error = true /\ check_failure_value = 0 /\
  check_notifies_on_change = true /\ set_notifies_on_change = true /\
  default_check_ttl = 30 /\ default_check_timeout = 10 /\
  map snd serving_status_enum = [0; 1; 2; 3] /\
  subscribe_starts_poll_when_none = true /\ poll_cleared_before_await = true.
Proof. repeat split. Qed.

Lemma registry_default_overall :
  forall (cfg : list (Z * list nat)) name,
  existsb (fun kv => fst kv =? overall) cfg = false ->
  lookup (health_init (Some cfg)) name =
    (if overall =? name then Some (dedup (concat (map snd cfg))) else option_map dedup (lookup cfg name)) /\
  (forall i, In i (dedup (concat (map snd cfg))) <-> exists kv, In kv cfg /\ In i (snd kv)).
Proof. intros cfg name H. split; [exact (health_init_default cfg name H) | exact (overall_default_members cfg)]. Qed.
