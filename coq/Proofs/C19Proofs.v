(* Proofs for Props/C19.v: the health aggregate, the Watch loop, ServiceCheck.__check__.
   Axiom-free; every lemma used by Props/C19.v is closed under the global context. *)
From Coq Require Import ZArith List Bool Lia ZifyBool Arith.
From GV Require Import Gen.FactsC19 Model.Health.
Import ListNotations.
Open Scope Z_scope.

#[local] Ltac Zify.zify_post_hook ::= Z.div_mod_to_equations.

(* ================================================================================================ *)
(** * Part 1: the aggregate *)

Lemma st_eqb_eq a b : st_eqb a b = true <-> a = b.
Proof. destruct a, b; simpl; split; intro H; try reflexivity; discriminate. Qed.

Lemma st_eqb_refl a : st_eqb a a = true.
Proof. destruct a; reflexivity. Qed.

Lemma st_code_inj a b : st_code a = st_code b -> a = b.
Proof. destruct a, b; simpl; intro H; try reflexivity; discriminate. Qed.

Definition all_st (v : st) (l : list st) : bool := forallb (st_eqb v) l.

Lemma has_In v l : has v l = true <-> In v l.
Proof.
  unfold has. rewrite existsb_exists. split.
  - intros [x [Hin E]]. apply st_eqb_eq in E. subst x. exact Hin.
  - intro H. exists v. split; [exact H | apply st_eqb_refl].
Qed.

Lemma has_ext v l1 l2 : (forall s, In s l1 <-> In s l2) -> has v l1 = has v l2.
Proof.
  intro H. destruct (has v l1) eqn:E1; destruct (has v l2) eqn:E2; try reflexivity.
  - apply has_In, H, has_In in E1. congruence.
  - apply has_In, H, has_In in E2. congruence.
Qed.

(* the aggregate depends only on the SET of statuses: order and multiplicity are irrelevant *)
Lemma agg_status_set l1 l2 :
  (forall s, In s l1 <-> In s l2) -> agg_status l1 = agg_status l2.
Proof.
  intro H. destruct l1 as [|a r1]; destruct l2 as [|b r2]; try reflexivity.
  - exfalso. apply (proj2 (H b)). left. reflexivity.
  - exfalso. apply (proj1 (H a)). left. reflexivity.
  - unfold agg_status, sig_of. rewrite (has_ext STrue _ _ H), (has_ext SFalse _ _ H), (has_ext SNone _ _ H).
    reflexivity.
Qed.

Lemma all_st_has l :
  all_st STrue l = negb (has SFalse l) && negb (has SNone l) /\
  all_st SNone l = negb (has STrue l) && negb (has SFalse l).
Proof.
  unfold all_st, has. induction l as [|a r [IH1 IH2]]; [split; reflexivity|].
  cbn [forallb existsb]. rewrite IH1, IH2. destruct a; cbn;
    destruct (existsb (st_eqb STrue) r), (existsb (st_eqb SFalse) r), (existsb (st_eqb SNone) r); split; reflexivity.
Qed.

Definition agg_spec (l : list st) : resp :=
  match l with
  | [] => R_NOT_SERVING
  | _ => if all_st SNone l then R_UNKNOWN else if all_st STrue l then R_SERVING else R_NOT_SERVING
  end.

(* the table observed on the code is exactly the truth table of the property *)
Lemma agg_status_spec l : agg_status l = agg_spec l.
Proof.
  destruct l as [|a r]; [reflexivity|]. unfold agg_status, agg_spec.
  destruct (all_st_has (a :: r)) as [E1 E2]. rewrite E1, E2. unfold sig_of.
  assert (N : has STrue (a :: r) || has SFalse (a :: r) || has SNone (a :: r) = true).
  { unfold has. cbn [existsb]. destruct a; cbn; repeat rewrite orb_true_r; reflexivity. }
  destruct (has STrue (a :: r)), (has SFalse (a :: r)), (has SNone (a :: r)); try discriminate; reflexivity.
Qed.

Lemma all_st_forall v l : all_st v l = true <-> (forall s, In s l -> s = v).
Proof.
  unfold all_st. rewrite forallb_forall. split; intros H s Hs.
  - symmetry. apply st_eqb_eq, H, Hs.
  - apply st_eqb_eq. symmetry. apply H, Hs.
Qed.

Lemma all_st_excl a r : all_st SNone (a :: r) = true -> all_st STrue (a :: r) = true -> False.
Proof.
  unfold all_st. simpl. destruct a; simpl; discriminate.
Qed.

Lemma agg_serving_iff l :
  agg_status l = R_SERVING <-> l <> [] /\ (forall s, In s l -> s = STrue).
Proof.
  rewrite agg_status_spec. destruct l as [|a r]; cbn [agg_spec].
  - split; [discriminate | intros [H _]; congruence].
  - rewrite <- all_st_forall. destruct (all_st SNone (a :: r)) eqn:N; destruct (all_st STrue (a :: r)) eqn:T.
    + exfalso. eapply all_st_excl; eauto.
    + split; [discriminate | intros [_ H]; discriminate].
    + split; [intros _; split; [discriminate | reflexivity] | reflexivity].
    + split; [discriminate | intros [_ H]; discriminate].
Qed.

Lemma agg_unknown_iff l :
  agg_status l = R_UNKNOWN <-> l <> [] /\ (forall s, In s l -> s = SNone).
Proof.
  rewrite agg_status_spec. destruct l as [|a r]; cbn [agg_spec].
  - split; [discriminate | intros [H _]; congruence].
  - rewrite <- all_st_forall. destruct (all_st SNone (a :: r)) eqn:N.
    + split; [intros _; split; [discriminate | reflexivity] | reflexivity].
    + destruct (all_st STrue (a :: r)); split; try discriminate; intros [_ H]; discriminate.
Qed.

Lemma agg_three l :
  agg_status l = R_SERVING \/ agg_status l = R_UNKNOWN \/ agg_status l = R_NOT_SERVING.
Proof.
  rewrite agg_status_spec. destruct l as [|a r]; cbn [agg_spec]; [auto|].
  destruct (all_st SNone (a :: r)); [auto|]. destruct (all_st STrue (a :: r)); auto.
Qed.

Lemma agg_not_serving_iff l :
  agg_status l = R_NOT_SERVING <->
  ~ (l <> [] /\ (forall s, In s l -> s = STrue)) /\ ~ (l <> [] /\ (forall s, In s l -> s = SNone)).
Proof.
  rewrite <- agg_serving_iff, <- agg_unknown_iff.
  destruct (agg_three l) as [H|[H|H]]; rewrite H.
  - split; [discriminate|]. intros [A _]. exfalso. apply A. reflexivity.
  - split; [discriminate|]. intros [_ A]. exfalso. apply A. reflexivity.
  - split; [|reflexivity]. intros _. split; discriminate.
Qed.

(* ---- Health.Check ------------------------------------------------------------------------------ *)

Lemma check_unregistered reg vals name :
  lookup reg name = None -> check_rpc reg vals name = CA_Status 5.
Proof. intro H. unfold check_rpc. rewrite H. reflexivity. Qed.

Lemma check_registered reg vals name cs :
  lookup reg name = Some cs ->
  exists r, check_rpc reg vals name = CA_Resp r /\
    (r = R_SERVING <-> (forall i, In i cs -> val_of vals i = STrue)) /\
    (r = R_UNKNOWN <-> cs <> [] /\ (forall i, In i cs -> val_of vals i = SNone)) /\
    (r = R_SERVING \/ r = R_UNKNOWN \/ r = R_NOT_SERVING).
Proof.
  intro H. unfold check_rpc. rewrite H. destruct cs as [|c cs'].
  - exists R_SERVING. split; [reflexivity|]. split; [|split].
    + split; [intros _ i [] | reflexivity].
    + split; [discriminate | intros [A _]; congruence].
    + auto.
  - set (l := map (val_of vals) (c :: cs')). exists (agg_status l). split; [reflexivity|].
    assert (Hin : forall P : st -> Prop, (forall s, In s l -> P s) <-> (forall i, In i (c :: cs') -> P (val_of vals i))).
    { intro P. unfold l. split.
      - intros A i Hi. apply A. apply in_map. exact Hi.
      - intros A s Hs. apply in_map_iff in Hs. destruct Hs as [i [E Hi]]. subst s. apply A, Hi. }
    split; [|split].
    + rewrite agg_serving_iff. rewrite (Hin (fun s => s = STrue)). split; [tauto|].
      intro A. split; [unfold l; simpl; discriminate | exact A].
    + rewrite agg_unknown_iff. rewrite (Hin (fun s => s = SNone)). split.
      * intros [_ A]. split; [discriminate | exact A].
      * intros [_ A]. split; [unfold l; simpl; discriminate | exact A].
    + apply agg_three.
Qed.

(* ---- Health.__init__ ---------------------------------------------------------------------------- *)

Lemma nat_mem_In x l : nat_mem x l = true <-> In x l.
Proof.
  induction l as [|y r IH]; simpl; [split; [discriminate | tauto]|].
  rewrite orb_true_iff, IH, Nat.eqb_eq. split; intros [H|H]; auto.
Qed.

Lemma dedup_In x l : In x (dedup l) <-> In x l.
Proof.
  induction l as [|y r IH]; simpl; [tauto|].
  destruct (nat_mem y (dedup r)) eqn:E.
  - rewrite IH. split; [auto|]. intros [H|H]; [|exact H]. subst y. apply IH, nat_mem_In, E.
  - simpl. rewrite IH. tauto.
Qed.

Lemma lookup_app_last r k v name :
  lookup (r ++ [(k, v)]) name = if k =? name then Some v else lookup r name.
Proof.
  induction r as [|[k' v'] rest IH]; cbn [app lookup].
  - destruct (k =? name); reflexivity.
  - rewrite IH. destruct (k =? name); [reflexivity|]. reflexivity.
Qed.

Lemma lookup_map (f : list nat -> list nat) r name :
  lookup (map (fun kv => (fst kv, f (snd kv))) r) name = option_map f (lookup r name).
Proof.
  induction r as [|[k v] rest IH]; [reflexivity|]. cbn [map lookup fst snd]. rewrite IH.
  destruct (lookup rest name); [reflexivity|]. cbn [option_map]. destruct (k =? name); reflexivity.
Qed.

(* no mapping given: only OVERALL, with no checks *)
Lemma health_init_none name :
  lookup (health_init None) name = if overall =? name then Some [] else None.
Proof. reflexivity. Qed.

(* OVERALL not given: it is the union of all check lists; the named services keep their own sets *)
Lemma health_init_default (cfg : list (Z * list nat)) name :
  existsb (fun kv => fst kv =? overall) cfg = false ->
  lookup (health_init (Some cfg)) name =
  if overall =? name then Some (dedup (concat (map snd cfg))) else option_map dedup (lookup cfg name).
Proof.
  intro H. unfold health_init. rewrite H, lookup_map, lookup_app_last.
  destruct (overall =? name); reflexivity.
Qed.

Lemma health_init_explicit (cfg : list (Z * list nat)) name :
  existsb (fun kv => fst kv =? overall) cfg = true ->
  lookup (health_init (Some cfg)) name = option_map dedup (lookup cfg name).
Proof. intro H. unfold health_init. rewrite H, lookup_map. reflexivity. Qed.

Lemma overall_default_members (cfg : list (Z * list nat)) i :
  In i (dedup (concat (map snd cfg))) <-> exists kv, In kv cfg /\ In i (snd kv).
Proof.
  rewrite dedup_In, in_concat. split.
  - intros [l [Hl Hi]]. apply in_map_iff in Hl. destruct Hl as [kv [E Hkv]]. subst l. exists kv. auto.
  - intros [kv [Hkv Hi]]. exists (snd kv). split; [apply in_map, Hkv | exact Hi].
Qed.

(* the source facts the model is instantiated with (Gen.FactsC19 is regenerated from /repo on every run) *)
Lemma source_facts :
  status_table = [((true, true, true), 2); ((true, true, false), 2); ((true, false, true), 2); ((true, false, false), 1);
                  ((false, true, true), 2); ((false, true, false), 2); ((false, false, true), 0)] /\
  check_unregistered_grpc_status = 5 /\ check_empty_resp = 1 /\
  watch_unregistered_resp = 3 /\ watch_empty_resp = 1 /\
  watch_first_completed = true /\ reset_when_absent_or_done = true /\ reset_clears_then_waits = true /\
  watch_segment_atomic = true /\
  ttl_cmp = 0 /\ latch_cleared_before_run = true /\ latch_set_in_finally = true /\ func_guarded = true /\
  nonbool_is_type_error = true /\ check_failure_value = 0 /\
  check_notifies_on_change = true /\ set_notifies_on_change = true /\
  map snd serving_status_enum = [0; 1; 2; 3] /\
  subscribe_starts_poll_when_none = true /\ poll_cleared_before_await = true.
Proof. repeat split. Qed.

Lemma registry_default_overall :
  forall (cfg : list (Z * list nat)) name,
  existsb (fun kv => fst kv =? overall) cfg = false ->
  lookup (health_init (Some cfg)) name =
    (if overall =? name then Some (dedup (concat (map snd cfg))) else option_map dedup (lookup cfg name)) /\
  (forall i, In i (dedup (concat (map snd cfg))) <-> exists kv, In kv cfg /\ In i (snd kv)).
Proof. intros cfg name H. split; [exact (health_init_default cfg name H) | exact (overall_default_members cfg)]. Qed.
