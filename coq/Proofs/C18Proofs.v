(* Proofs for Props/C18.v: listener dispatch (grpclib/events.py) -- order, interruption, payload
   composition, read-only rule, identity fast path, use sites.
   Axiom-free; every lemma used by Props/C18.v is closed under the global context. *)
From Coq Require Import String ZArith List Bool Lia.
From GV Require Import Lib.Str Gen.Facts Gen.FactsC18 Model.Events.
Import ListNotations.
Open Scope Z_scope.

(* ------------------------------------------------------------------------------------------ *)
(** * Strings, membership, association lists *)

Lemma zlist_eqb_refl a : zlist_eqb a a = true.
Proof. induction a as [|x a IH]; cbn [zlist_eqb]; [reflexivity|]. rewrite Z.eqb_refl, IH. reflexivity. Qed.

Lemma zlist_eqb_eq a b : zlist_eqb a b = true -> a = b.
Proof.
  revert b; induction a as [|x a IH]; intros [|y b] H; cbn [zlist_eqb] in H; try discriminate.
  - reflexivity.
  - apply andb_true_iff in H as [H1 H2]. apply Z.eqb_eq in H1. subst. f_equal. auto.
Qed.

Lemma zlist_eqb_sym a b : zlist_eqb a b = zlist_eqb b a.
Proof.
  destruct (zlist_eqb a b) eqn:E.
  - apply zlist_eqb_eq in E. subst. symmetry. apply zlist_eqb_refl.
  - destruct (zlist_eqb b a) eqn:E'; [|reflexivity].
    apply zlist_eqb_eq in E'. subst. rewrite zlist_eqb_refl in E. discriminate.
Qed.

Lemma zlist_eqb_neq a b : zlist_eqb a b = false -> a <> b.
Proof. intros H E. subst. rewrite zlist_eqb_refl in H. discriminate. Qed.

Lemma mem_str_In k l : mem_str k l = true <-> In k l.
Proof.
  unfold mem_str. rewrite existsb_exists. split.
  - intros [x [Hx E]]. apply zlist_eqb_eq in E. subst. exact Hx.
  - intros H. exists k. split; [exact H|apply zlist_eqb_refl].
Qed.

Lemma mem_str_false_In k l : mem_str k l = false -> ~ In k l.
Proof. intros H HI. apply mem_str_In in HI. congruence. Qed.

Lemma mem_str_filter k (p : list Z -> bool) l :
  mem_str k (filter p l) = mem_str k l && p k.
Proof.
  induction l as [|x l IH]; [reflexivity|].
  cbn [filter]. destruct (p x) eqn:Px.
  - unfold mem_str in *. cbn [existsb]. rewrite IH.
    destruct (zlist_eqb k x) eqn:E.
    + apply zlist_eqb_eq in E. subst. rewrite Px. reflexivity.
    + reflexivity.
  - rewrite IH. unfold mem_str. cbn [existsb].
    destruct (zlist_eqb k x) eqn:E.
    + apply zlist_eqb_eq in E. subst. rewrite Px. rewrite andb_false_r. reflexivity.
    + reflexivity.
Qed.

Lemma mem_str_app k a b : mem_str k (a ++ b) = mem_str k a || mem_str k b.
Proof. unfold mem_str. apply existsb_app. Qed.

Lemma assoc_str_app {A} k (a b : list (list Z * A)) :
  assoc_str k (a ++ b) = match assoc_str k a with Some v => Some v | None => assoc_str k b end.
Proof.
  induction a as [|[k' v] a IH]; [reflexivity|].
  cbn [app assoc_str]. destruct (zlist_eqb k k'); [reflexivity|exact IH].
Qed.

Lemma assoc_str_map_self {A} (g : list Z -> A) k l :
  mem_str k l = true -> assoc_str k (map (fun f => (f, g f)) l) = Some (g k).
Proof.
  induction l as [|x l IH]; intros H; [discriminate|].
  cbn [map assoc_str]. unfold mem_str in H. cbn [existsb] in H.
  destruct (zlist_eqb k x) eqn:E.
  - apply zlist_eqb_eq in E. subst. reflexivity.
  - apply IH. exact H.
Qed.

Lemma assoc_str_in_keys {A} k (l : list (list Z * A)) :
  mem_str k (map fst l) = true -> exists v, assoc_str k l = Some v.
Proof.
  induction l as [|[k' v] l IH]; intros H; [discriminate|].
  cbn [map fst assoc_str]. unfold mem_str in H. cbn [map existsb fst] in H.
  destruct (zlist_eqb k k') eqn:E.
  - eauto.
  - apply IH. exact H.
Qed.

Lemma nodup_str_app_l a b : nodup_str (a ++ b) = true -> nodup_str a = true.
Proof.
  induction a as [|x a IH]; intros H; [reflexivity|].
  cbn [app nodup_str] in *. apply andb_true_iff in H as [H1 H2].
  rewrite mem_str_app in H1. apply negb_true_iff in H1. apply orb_false_iff in H1 as [H1 _].
  rewrite H1. cbn. auto.
Qed.

(* ------------------------------------------------------------------------------------------ *)
(** * upto: the prefix up to and including the first element satisfying p *)

Lemma upto_prefix {A} (p : A -> bool) l : exists rest, l = upto p l ++ rest.
Proof.
  induction l as [|x l [rest IH]].
  - exists []. reflexivity.
  - cbn [upto]. destruct (p x).
    + exists l. reflexivity.
    + exists rest. cbn [app]. f_equal. exact IH.
Qed.

Lemma upto_spec {A} (p : A -> bool) l :
  (upto p l = l /\ forallb (fun x => negb (p x)) (removelast l) = true)
  \/ (exists pre x post, l = pre ++ x :: post /\ upto p l = pre ++ [x] /\ p x = true
                          /\ forallb (fun y => negb (p y)) pre = true).
Proof.
  induction l as [|x l IH].
  - left. split; reflexivity.
  - cbn [upto]. destruct (p x) eqn:Px.
    + right. exists [], x, l. cbn. auto.
    + destruct IH as [[E F]|[pre [y [post [E [U [Py F]]]]]]].
      * left. rewrite E. split; [reflexivity|].
        destruct l as [|z l']; [reflexivity|].
        change (removelast (x :: z :: l')) with (x :: removelast (z :: l')).
        cbn [forallb]. rewrite Px. exact F.
      * right. exists (x :: pre), y, post. rewrite E at 1. rewrite U.
        cbn [app forallb]. rewrite Px. auto.
Qed.

Lemma upto_none {A} (p : A -> bool) l : forallb (fun x => negb (p x)) l = true -> upto p l = l.
Proof.
  induction l as [|x l IH]; intros H; [reflexivity|].
  cbn [forallb] in H. apply andb_true_iff in H as [H1 H2]. apply negb_true_iff in H1.
  cbn [upto]. rewrite H1, IH by exact H2. reflexivity.
Qed.

Lemma upto_ext {A} (p q : A -> bool) l : (forall x, In x l -> p x = q x) -> upto p l = upto q l.
Proof.
  induction l as [|x l IH]; intros H; [reflexivity|].
  cbn [upto]. rewrite (H x (or_introl eq_refl)). rewrite IH; [reflexivity|].
  intros y Hy. apply H. right. exact Hy.
Qed.

(* ------------------------------------------------------------------------------------------ *)
(** * The read-only rule *)

Lemma readonly_mem c f :
  mem_str f (readonly c) = mem_str f (ec_fields c) && negb (mem_str f (ec_payload c)).
Proof. unfold readonly. apply (mem_str_filter f (fun g => negb (mem_str g (ec_payload c)))). Qed.

Lemma field_kind_slot c f :
  field_kind c f = FSlot <-> (mem_str f (ec_fields c) = true /\ mem_str f (ec_payload c) = true).
Proof.
  unfold field_kind. rewrite readonly_mem.
  destruct (mem_str f (ec_fields c)), (mem_str f (ec_payload c)); cbn;
    try destruct (zlist_eqb f interrupted_name); split; intros H; try discriminate;
    try (destruct H; discriminate); auto.
Qed.

Lemma field_kind_nonpayload c f :
  mem_str f (ec_payload c) = false -> zlist_eqb f interrupted_name = false ->
  field_kind c f = FReadOnly \/ field_kind c f = FNone.
Proof.
  intros Hp Hi. unfold field_kind. rewrite readonly_mem, Hp, Hi.
  destruct (mem_str f (ec_fields c)); cbn; auto.
Qed.

Lemma field_kind_readonly c f :
  mem_str f (ec_fields c) = true -> mem_str f (ec_payload c) = false -> field_kind c f = FReadOnly.
Proof. intros Hf Hp. unfold field_kind. rewrite readonly_mem, Hf, Hp. reflexivity. Qed.

(* assigning a field that is not in __payload__ is refused and leaves the event as it was *)
Lemma nonpayload_refused ev f v :
  mem_str f (ec_payload (ev_cls ev)) = false -> zlist_eqb f interrupted_name = false ->
  set_field ev f v = None.
Proof.
  intros Hp Hi. unfold set_field.
  destruct (field_kind_nonpayload _ _ Hp Hi) as [E|E]; rewrite E; reflexivity.
Qed.

Lemma nonpayload_action_refused ev f v g :
  mem_str f (ec_payload (ev_cls ev)) = false -> zlist_eqb f interrupted_name = false ->
  run_action ev (ASet f v g) = (ev, g, if g then None else Some XAttr)
  /\ run_action ev (AApp f v g) = (ev, g, if g then None else Some XAttr).
Proof.
  intros Hp Hi. cbn [run_action]. rewrite (nonpayload_refused ev f v Hp Hi).
  destruct (field_kind_nonpayload _ _ Hp Hi) as [E|E]; rewrite E; unfold refuse; destruct g; auto.
Qed.

Lemma nonpayload_refused_all ev f v g :
  mem_str f (ec_payload (ev_cls ev)) = false -> zlist_eqb f interrupted_name = false ->
  set_field ev f v = None
  /\ run_action ev (ASet f v g) = (ev, g, if g then None else Some XAttr)
  /\ run_action ev (AApp f v g) = (ev, g, if g then None else Some XAttr).
Proof.
  intros Hp Hi. split.
  - exact (nonpayload_refused ev f v Hp Hi).
  - exact (nonpayload_action_refused ev f v g Hp Hi).
Qed.

(* ... while a payload field takes the value and gives it back *)
Lemma payload_assign ev f v :
  mem_str f (ec_fields (ev_cls ev)) = true -> mem_str f (ec_payload (ev_cls ev)) = true ->
  exists ev', set_field ev f v = Some ev' /\ get_field ev' f = Some v
              /\ ev_cls ev' = ev_cls ev /\ ev_int ev' = ev_int ev.
Proof.
  intros Hf Hp. assert (K : field_kind (ev_cls ev) f = FSlot) by (apply field_kind_slot; auto).
  unfold set_field. rewrite K. eexists. split; [reflexivity|].
  unfold get_field, with_val. cbn [ev_cls ev_vals ev_int assoc_str]. rewrite Hf, zlist_eqb_refl. auto.
Qed.

(* ------------------------------------------------------------------------------------------ *)
(** * One statement, one listener: control effect, class and well-formedness are preserved *)

Lemma wf_assoc ev f :
  wf_event ev = true -> mem_str f (ec_fields (ev_cls ev)) = true ->
  exists v, assoc_str f (ev_vals ev) = Some v.
Proof.
  unfold wf_event. intros W M. apply mem_str_In in M.
  rewrite forallb_forall in W. specialize (W f M).
  destruct (assoc_str f (ev_vals ev)); [eauto|discriminate].
Qed.

Lemma wf_with_val ev f v : wf_event ev = true -> wf_event (with_val ev f v) = true.
Proof.
  unfold wf_event, with_val. cbn [ev_cls ev_vals]. intros W.
  rewrite forallb_forall in *. intros g Hg. cbn [assoc_str].
  destruct (zlist_eqb g f); [reflexivity|auto].
Qed.

Definition ctl_holds (ev : event) (r : event * bool * option exn) (c : ctl) : Prop :=
  match r with
  | (ev', _, x) =>
      match c with
      | CNone => x = None /\ ev_int ev' = ev_int ev
      | CFlag b => x = None /\ ev_int ev' = b
      | CRaise e => x = Some e /\ ev' = ev
      end
  end.

Lemma refuse_ctl_holds ev g : ctl_holds ev (refuse ev g) (refuse_ctl g).
Proof. unfold refuse, refuse_ctl. destruct g; cbn; auto. Qed.

Lemma refuse_keeps ev g : fst (fst (refuse ev g)) = ev.
Proof. unfold refuse. destruct g; reflexivity. Qed.

Lemma run_action_ctl ev a :
  wf_event ev = true ->
  ctl_holds ev (run_action ev a) (action_ctl (ev_cls ev) a)
  /\ ev_cls (fst (fst (run_action ev a))) = ev_cls ev
  /\ wf_event (fst (fst (run_action ev a))) = true.
Proof.
  intros W. destruct a as [f v g|f v g|].
  - cbn [run_action action_ctl]. unfold set_field.
    destruct (field_kind (ev_cls ev) f) eqn:K.
    + rewrite refuse_keeps. split; [apply refuse_ctl_holds|auto].
    + cbn. split; [auto|]. split; [reflexivity|]. apply wf_with_val. exact W.
    + cbn. auto.
    + rewrite refuse_keeps. split; [apply refuse_ctl_holds|auto].
  - cbn [run_action action_ctl].
    destruct (field_kind (ev_cls ev) f) eqn:K.
    + rewrite refuse_keeps. split; [apply refuse_ctl_holds|auto].
    + apply field_kind_slot in K as [Hf Hp].
      destruct (wf_assoc ev f W Hf) as [old Hold].
      unfold get_field. rewrite Hf, Hold. unfold set_field.
      assert (K : field_kind (ev_cls ev) f = FSlot) by (apply field_kind_slot; auto).
      rewrite K. cbn. split; [auto|]. split; [reflexivity|]. apply wf_with_val. exact W.
    + cbn. auto.
    + rewrite refuse_keeps. split; [apply refuse_ctl_holds|auto].
  - cbn. auto.
Qed.

Lemma run_actions_ctl acts : forall i ev,
  wf_event ev = true ->
  acts_ctl (ev_cls ev) acts (ev_int ev)
    = (ev_int (fst (fst (run_actions i acts ev))), snd (run_actions i acts ev))
  /\ ev_cls (fst (fst (run_actions i acts ev))) = ev_cls ev
  /\ wf_event (fst (fst (run_actions i acts ev))) = true.
Proof.
  induction acts as [|a r IH]; intros i ev W.
  - cbn. auto.
  - cbn [run_actions acts_ctl].
    destruct (run_action_ctl ev a W) as [C [Hc Hw]].
    destruct (run_action ev a) as [[ev' refused] x] eqn:RA. cbn [fst snd] in Hc, Hw.
    unfold ctl_holds in C.
    destruct (action_ctl (ev_cls ev) a) eqn:AC.
    + destruct C as [-> Hi].
      specialize (IH (i + 1) ev' Hw). rewrite Hc, Hi in IH.
      destruct (run_actions (i + 1) r ev') as [[ev'' errs] x'] eqn:RS. cbn [fst snd] in *.
      destruct IH as [I1 [I2 I3]]. rewrite I1. rewrite I2. auto.
    + destruct C as [-> Hi].
      specialize (IH (i + 1) ev' Hw). rewrite Hc, Hi in IH.
      destruct (run_actions (i + 1) r ev') as [[ev'' errs] x'] eqn:RS. cbn [fst snd] in *.
      destruct IH as [I1 [I2 I3]]. rewrite I1. rewrite I2. auto.
    + destruct C as [-> ->]. cbn [fst snd]. auto.
Qed.

(* ------------------------------------------------------------------------------------------ *)
(** * The dispatch loop: who is invoked *)

Lemma dispatch_log ls : forall ev,
  wf_event ev = true -> ev_int ev = false ->
  d_log (dispatch ls ev) = map l_id (upto (l_stops (ev_cls ev)) ls).
Proof.
  induction ls as [|l rest IH]; intros ev W I; [reflexivity|].
  cbn [dispatch upto map].
  destruct (run_actions_ctl (l_acts l) 0 ev W) as [C [Hc Hw]]. rewrite I in C.
  unfold l_stops, l_interrupts, l_raises. rewrite C.
  destruct (run_actions 0 (l_acts l) ev) as [[ev' errs] x] eqn:RS. cbn [fst snd] in *.
  destruct x as [e|].
  - cbn. rewrite orb_true_r. reflexivity.
  - cbn [is_some]. rewrite orb_false_r. destruct (ev_int ev') eqn:I'.
    + reflexivity.
    + cbn [d_log]. rewrite (IH ev' Hw I'). rewrite Hc. reflexivity.
Qed.

(* ... and what comes back *)

Lemma effect_cons l r ev : effect (l :: r) ev = effect r (ev_after l ev).
Proof. reflexivity. Qed.

Lemma dispatch_out ls : forall ev,
  wf_event ev = true -> ev_int ev = false ->
  d_out (dispatch ls ev) =
    match first_raise (ev_cls ev) (upto (l_stops (ev_cls ev)) ls) with
    | Some e => inr e
    | None => payload_out (effect (upto (l_stops (ev_cls ev)) ls) ev)
    end.
Proof.
  induction ls as [|l rest IH]; intros ev W I; [reflexivity|].
  cbn [dispatch upto first_raise].
  destruct (run_actions_ctl (l_acts l) 0 ev W) as [C [Hc Hw]]. rewrite I in C.
  rewrite effect_cons. unfold ev_after.
  unfold l_stops, l_interrupts, l_raises. rewrite C.
  destruct (run_actions 0 (l_acts l) ev) as [[ev' errs] x] eqn:RS. cbn [fst snd] in *.
  destruct x as [e|].
  - reflexivity.
  - cbn [is_some]. rewrite orb_false_r. destruct (ev_int ev') eqn:I'.
    + reflexivity.
    + cbn [d_out]. rewrite (IH ev' Hw I'). rewrite Hc. reflexivity.
Qed.

(* the class and well-formedness survive any number of listeners *)
Lemma effect_keeps ls : forall ev,
  wf_event ev = true -> ev_cls (effect ls ev) = ev_cls ev /\ wf_event (effect ls ev) = true.
Proof.
  induction ls as [|l r IH]; intros ev W; [auto|].
  unfold effect. cbn [fold_left]. fold (effect r (ev_after l ev)).
  destruct (run_actions_ctl (l_acts l) 0 ev W) as [_ [Hc Hw]].
  destruct (IH (ev_after l ev) Hw) as [E1 E2]. unfold ev_after in *. rewrite E1, Hc. auto.
Qed.

(* ------------------------------------------------------------------------------------------ *)
(** * Field by field: the returned value is the composition of the writes, in order *)

Lemma field_or_nil_with_val ev f g v :
  field_or_nil (with_val ev g v) f = if zlist_eqb f g then v else field_or_nil ev f.
Proof. unfold field_or_nil, with_val. cbn [ev_vals assoc_str]. destruct (zlist_eqb f g); reflexivity. Qed.

Lemma run_action_field ev a f :
  wf_event ev = true -> field_kind (ev_cls ev) f = FSlot ->
  field_or_nil (fst (fst (run_action ev a))) f = write_of f (field_or_nil ev f) a.
Proof.
  intros W K. destruct a as [f' v g|f' v g|]; cbn [run_action write_of].
  - unfold set_field. destruct (field_kind (ev_cls ev) f') eqn:K'.
    + rewrite refuse_keeps. destruct (zlist_eqb f' f) eqn:E; [|reflexivity].
      apply zlist_eqb_eq in E. subst. congruence.
    + cbn [fst]. rewrite field_or_nil_with_val. rewrite (zlist_eqb_sym f f'). reflexivity.
    + cbn [fst]. destruct (zlist_eqb f' f) eqn:E; [|reflexivity].
      apply zlist_eqb_eq in E. subst. congruence.
    + rewrite refuse_keeps. destruct (zlist_eqb f' f) eqn:E; [|reflexivity].
      apply zlist_eqb_eq in E. subst. congruence.
  - destruct (field_kind (ev_cls ev) f') eqn:K'.
    + rewrite refuse_keeps. destruct (zlist_eqb f' f) eqn:E; [|reflexivity].
      apply zlist_eqb_eq in E. subst. congruence.
    + pose proof K' as K2. apply field_kind_slot in K2 as [Hf Hp].
      destruct (wf_assoc ev f' W Hf) as [old Hold].
      unfold get_field. rewrite Hf, Hold. unfold set_field. rewrite K'. cbn [fst].
      rewrite field_or_nil_with_val. rewrite (zlist_eqb_sym f f').
      destruct (zlist_eqb f' f) eqn:E; [|reflexivity].
      apply zlist_eqb_eq in E. subst. unfold field_or_nil. rewrite Hold. reflexivity.
    + cbn [fst]. destruct (zlist_eqb f' f) eqn:E; [|reflexivity].
      apply zlist_eqb_eq in E. subst. congruence.
    + rewrite refuse_keeps. destruct (zlist_eqb f' f) eqn:E; [|reflexivity].
      apply zlist_eqb_eq in E. subst. congruence.
  - reflexivity.
Qed.

Lemma run_actions_field acts f : forall i ev,
  wf_event ev = true -> field_kind (ev_cls ev) f = FSlot ->
  snd (run_actions i acts ev) = None ->
  field_or_nil (fst (fst (run_actions i acts ev))) f = final_value f acts (field_or_nil ev f).
Proof.
  induction acts as [|a r IH]; intros i ev W K N; [reflexivity|].
  cbn [run_actions] in *. unfold final_value. cbn [fold_left]. fold (final_value f r).
  pose proof (run_action_field ev a f W K) as RF.
  destruct (run_action_ctl ev a W) as [_ [Hc Hw]].
  destruct (run_action ev a) as [[ev' refused] x] eqn:RA. cbn [fst snd] in *.
  destruct x as [e|]; [discriminate|].
  specialize (IH (i + 1) ev' Hw). rewrite Hc in IH. specialize (IH K).
  destruct (run_actions (i + 1) r ev') as [[ev'' errs] x'] eqn:RS. cbn [fst snd] in *.
  rewrite IH by exact N. rewrite RF. reflexivity.
Qed.

Lemma final_value_app f a b v : final_value f (a ++ b) v = final_value f b (final_value f a v).
Proof. unfold final_value. apply fold_left_app. Qed.

(* whether a listener raises does not depend on the incoming flag *)
Lemma acts_ctl_snd c acts : forall b1 b2, snd (acts_ctl c acts b1) = snd (acts_ctl c acts b2).
Proof.
  induction acts as [|a r IH]; intros b1 b2; [reflexivity|].
  cbn [acts_ctl]. destruct (action_ctl c a); auto.
Qed.

Lemma effect_field ls f : forall ev,
  wf_event ev = true -> field_kind (ev_cls ev) f = FSlot ->
  (forall l, In l ls -> l_raises (ev_cls ev) l = None) ->
  field_or_nil (effect ls ev) f = final_value f (acts_of ls) (field_or_nil ev f).
Proof.
  induction ls as [|l r IH]; intros ev W K NR; [reflexivity|].
  unfold effect. cbn [fold_left]. fold (effect r (ev_after l ev)).
  unfold acts_of. cbn [flat_map]. fold (acts_of r). rewrite final_value_app.
  destruct (run_actions_ctl (l_acts l) 0 ev W) as [C [Hc Hw]].
  assert (N : snd (run_actions 0 (l_acts l) ev) = None).
  { specialize (NR l (or_introl eq_refl)). unfold l_raises in NR.
    rewrite (acts_ctl_snd _ _ false (ev_int ev)) in NR. rewrite C in NR. exact NR. }
  unfold ev_after in *.
  rewrite IH.
  - rewrite (run_actions_field (l_acts l) f 0 ev W K N). reflexivity.
  - exact Hw.
  - rewrite Hc. exact K.
  - intros l' Hl'. rewrite Hc. apply NR. right. exact Hl'.
Qed.

Lemma payload_vals_all vals names :
  (forall n, In n names -> exists v, assoc_str n vals = Some v) ->
  payload_vals vals names
    = Some (map (fun n => match assoc_str n vals with Some v => v | None => [] end) names).
Proof.
  induction names as [|n r IH]; intros H; [reflexivity|].
  cbn [payload_vals map]. destruct (H n (or_introl eq_refl)) as [v Hv]. rewrite Hv.
  rewrite IH; [reflexivity|]. intros m Hm. apply H. right. exact Hm.
Qed.

Lemma payload_out_wf ev :
  wf_event ev = true -> class_ok (ev_cls ev) = true ->
  payload_out ev = inl (map (field_or_nil ev) (ec_payload (ev_cls ev))).
Proof.
  intros W CO. unfold payload_out. rewrite payload_vals_all; [reflexivity|].
  intros n Hn. apply wf_assoc; [exact W|].
  unfold class_ok in CO. apply andb_true_iff in CO as [CO _]. apply andb_true_iff in CO as [CO _].
  rewrite forallb_forall in CO. apply CO. exact Hn.
Qed.

Lemma first_raise_none c ls : (forall l, In l ls -> l_raises c l = None) -> first_raise c ls = None.
Proof.
  induction ls as [|l r IH]; intros H; [reflexivity|].
  cbn [first_raise]. rewrite (H l (or_introl eq_refl)). apply IH. intros l' Hl'. apply H. right. exact Hl'.
Qed.

Lemma In_upto {A} (p : A -> bool) l x : In x (upto p l) -> In x l.
Proof.
  destruct (upto_prefix p l) as [rest E]. intros H. rewrite E. apply in_or_app. left. exact H.
Qed.

Lemma payload_slot c p :
  class_ok c = true -> In p (ec_payload c) -> field_kind c p = FSlot.
Proof.
  intros CO Hp. apply field_kind_slot. split.
  - unfold class_ok in CO. apply andb_true_iff in CO as [CO _]. apply andb_true_iff in CO as [CO _].
    rewrite forallb_forall in CO. apply CO. exact Hp.
  - apply mem_str_In. exact Hp.
Qed.

Lemma dispatch_fieldwise ls ev :
  wf_event ev = true -> ev_int ev = false -> class_ok (ev_cls ev) = true ->
  (forall l, In l ls -> l_raises (ev_cls ev) l = None) ->
  d_out (dispatch ls ev) =
    inl (map (fun p => final_value p (acts_of (upto (l_stops (ev_cls ev)) ls)) (field_or_nil ev p))
             (ec_payload (ev_cls ev))).
Proof.
  intros W I CO NR. rewrite (dispatch_out ls ev W I).
  set (inv := upto (l_stops (ev_cls ev)) ls).
  assert (NR' : forall l, In l inv -> l_raises (ev_cls ev) l = None).
  { intros l Hl. apply NR. eapply In_upto. exact Hl. }
  rewrite (first_raise_none _ _ NR').
  destruct (effect_keeps inv ev W) as [Ec Ew].
  rewrite (payload_out_wf _ Ew) by (rewrite Ec; exact CO).
  rewrite Ec. f_equal. apply map_ext_in. intros p Hp.
  apply effect_field; auto. apply payload_slot; auto.
Qed.

(* last write wins: with constant assignments only, the value of a field is the one of the last
   assignment to it, or the original one *)

Lemma last_write_wins f acts : forall v0,
  no_app acts = true ->
  final_value f acts v0 = match last_set f acts with Some v => v | None => v0 end.
Proof.
  induction acts as [|a r IH]; intros v0 NA; [reflexivity|].
  cbn [no_app forallb] in NA. apply andb_true_iff in NA as [Na NA].
  unfold final_value in *. cbn [fold_left last_set].
  rewrite IH by exact NA.
  destruct (last_set f r); [reflexivity|].
  destruct a as [f' w g|f' w g|]; cbn [write_of]; try discriminate; try reflexivity.
  destruct (zlist_eqb f' f); reflexivity.
Qed.

(* ------------------------------------------------------------------------------------------ *)
(** * No listeners = listeners that change nothing *)

Lemma inert_actions acts : forall i ev,
  forallb (inert_action (ev_cls ev)) acts = true ->
  fst (fst (run_actions i acts ev)) = ev /\ snd (run_actions i acts ev) = None.
Proof.
  induction acts as [|a r IH]; intros i ev H; [auto|].
  cbn [forallb] in H. apply andb_true_iff in H as [Ha H].
  cbn [run_actions].
  assert (RA : run_action ev a = (ev, true, None)).
  { destruct a as [f v g|f v g|]; cbn [inert_action] in Ha; try discriminate;
      apply andb_true_iff in Ha as [-> K]; cbn [run_action]; unfold set_field;
      destruct (field_kind (ev_cls ev) f); try discriminate; reflexivity. }
  rewrite RA. specialize (IH (i + 1) ev H).
  destruct (run_actions (i + 1) r ev) as [[ev'' errs] x']. cbn [fst snd] in *. exact IH.
Qed.

Lemma dispatch_inert ls : forall ev,
  ev_int ev = false -> forallb (inert (ev_cls ev)) ls = true ->
  d_log (dispatch ls ev) = map l_id ls /\ d_out (dispatch ls ev) = d_out (dispatch [] ev).
Proof.
  induction ls as [|l r IH]; intros ev I H; [auto|].
  cbn [forallb] in H. apply andb_true_iff in H as [Hl H].
  cbn [dispatch]. destruct (inert_actions (l_acts l) 0 ev Hl) as [E1 E2].
  destruct (run_actions 0 (l_acts l) ev) as [[ev' errs] x]. cbn [fst snd] in *. subst.
  rewrite I. cbn [d_log d_out map]. destruct (IH ev I H) as [L O]. rewrite L, O. auto.
Qed.

(* listeners that only interrupt and assign payload fields: stopping = calling interrupt() *)
Lemma plain_ctl c acts : forall flag,
  forallb (plain_action c) acts = true ->
  acts_ctl c acts flag
    = (flag || existsb (fun a => match a with AInterrupt => true | _ => false end) acts, None).
Proof.
  induction acts as [|a r IH]; intros flag H.
  - cbn. rewrite orb_false_r. reflexivity.
  - cbn [forallb] in H. apply andb_true_iff in H as [Ha H]. cbn [acts_ctl existsb].
    destruct a as [f v g|f v g|]; cbn [plain_action action_ctl] in *.
    + destruct (field_kind c f); try discriminate. rewrite IH by exact H. reflexivity.
    + destruct (field_kind c f); try discriminate. rewrite IH by exact H. reflexivity.
    + rewrite IH by exact H. cbn. rewrite orb_true_r. reflexivity.
Qed.

Lemma plain_stops c l : plain c l = true -> l_stops c l = calls_interrupt l /\ l_raises c l = None.
Proof.
  intros H. unfold l_stops, l_interrupts, l_raises, calls_interrupt.
  rewrite (plain_ctl c (l_acts l) false H). cbn. rewrite orb_false_r. auto.
Qed.

Lemma dispatch_plain ls ev :
  wf_event ev = true -> ev_int ev = false -> class_ok (ev_cls ev) = true ->
  forallb (plain (ev_cls ev)) ls = true ->
  d_log (dispatch ls ev) = map l_id (upto calls_interrupt ls)
  /\ d_errs (dispatch ls ev) = []
  /\ d_out (dispatch ls ev) =
       inl (map (fun p => final_value p (acts_of (upto calls_interrupt ls)) (field_or_nil ev p))
                (ec_payload (ev_cls ev))).
Proof.
  intros W I CO P. rewrite forallb_forall in P.
  assert (U : upto (l_stops (ev_cls ev)) ls = upto calls_interrupt ls).
  { apply upto_ext. intros l Hl. apply plain_stops. apply P. exact Hl. }
  split; [|split].
  - rewrite (dispatch_log ls ev W I). rewrite U. reflexivity.
  - clear U. revert ev W I CO P. induction ls as [|l r IH]; intros ev W I CO P; [reflexivity|].
    cbn [dispatch].
    assert (Pl : plain (ev_cls ev) l = true) by (apply P; left; reflexivity).
    destruct (run_actions_ctl (l_acts l) 0 ev W) as [C [Hc Hw]].
    assert (NE : snd (fst (run_actions 0 (l_acts l) ev)) = []).
    { clear - Pl W. unfold plain in Pl. revert Pl W. generalize 0. generalize (l_acts l). clear.
      intros acts. revert ev. induction acts as [|a r IH]; intros ev i Pl W; [reflexivity|].
      cbn [forallb] in Pl. apply andb_true_iff in Pl as [Pa Pl]. cbn [run_actions].
      destruct (run_action_ctl ev a W) as [_ [Hc Hw]].
      assert (R : snd (fst (run_action ev a)) = false /\ snd (run_action ev a) = None).
      { destruct a as [f v g|f v g|]; cbn [plain_action] in Pa; cbn [run_action].
        - unfold set_field. destruct (field_kind (ev_cls ev) f); try discriminate. auto.
        - destruct (field_kind (ev_cls ev) f) eqn:K; try discriminate.
          pose proof K as K2. apply field_kind_slot in K2 as [Hf Hp].
          destruct (wf_assoc ev f W Hf) as [old Hold].
          unfold get_field. rewrite Hf, Hold. unfold set_field. rewrite K. auto.
        - auto. }
      destruct (run_action ev a) as [[ev' refused] x]. cbn [fst snd] in *.
      destruct R as [-> ->].
      specialize (IH ev' (i + 1)). rewrite Hc in IH. specialize (IH Pl Hw).
      destruct (run_actions (i + 1) r ev') as [[ev'' errs] x']. cbn [fst snd] in *.
      rewrite IH. reflexivity. }
    destruct (run_actions 0 (l_acts l) ev) as [[ev' errs] x] eqn:RS. cbn [fst snd] in *.
    subst errs. destruct x; [reflexivity|]. destruct (ev_int ev') eqn:I'; [reflexivity|].
    cbn [d_errs map app]. apply IH; auto.
    + rewrite Hc. exact CO.
    + intros l' Hl'. rewrite Hc. apply P. right. exact Hl'.
  - rewrite <- U. apply dispatch_fieldwise; auto.
    intros l Hl. apply plain_stops. apply P. exact Hl.
Qed.

(* ------------------------------------------------------------------------------------------ *)
(** * Dispatch objects: add_listener and the identity fast path *)

Lemma find_by_key {A} (key : A -> name) (hs : list A) h :
  nodup_str (map key hs) = true -> In h hs ->
  find (fun x => zlist_eqb (key h) (key x)) hs = Some h.
Proof.
  induction hs as [|x r IH]; intros ND HI; [contradiction|].
  cbn [map nodup_str] in ND. apply andb_true_iff in ND as [N1 N2]. apply negb_true_iff in N1.
  cbn [find]. destruct HI as [->|HI].
  - rewrite zlist_eqb_refl. reflexivity.
  - destruct (zlist_eqb (key h) (key x)) eqn:E.
    + apply zlist_eqb_eq in E. exfalso. apply (mem_str_false_In _ _ N1).
      rewrite <- E. apply in_map. exact HI.
    + apply IH; assumption.
Qed.

Lemma find_hook_self hs h :
  hooks_distinct hs = true -> In h hs -> find_hook hs (h_meth h) = Some h.
Proof.
  intros D HI. apply andb_true_iff in D as [D _]. unfold find_hook.
  apply (find_by_key h_meth hs h D HI).
Qed.

Lemma hook_for_event_self hs h :
  hooks_distinct hs = true -> In h hs -> hook_for_event hs (h_event h) = Some h.
Proof.
  intros D HI. apply andb_true_iff in D as [_ D]. unfold hook_for_event.
  apply (find_by_key h_event hs h D HI).
Qed.

Lemma add_listener_hooks d e l d' : add_listener d e l = Some d' -> do_hooks d' = do_hooks d.
Proof.
  unfold add_listener. destruct (hook_for_event (do_hooks d) e); intros H; inversion H. reflexivity.
Qed.

Lemma register_hooks regs : forall d, do_hooks (register d regs) = do_hooks d.
Proof.
  induction regs as [|[e l] r IH]; intros d; [reflexivity|].
  cbn [register]. rewrite IH. destruct (add_listener d e l) eqn:A; [|reflexivity].
  eapply add_listener_hooks. exact A.
Qed.

Lemma listeners_of_add d e l d' e' :
  add_listener d e l = Some d' ->
  listeners_of d' e' = listeners_of d e' ++ (if zlist_eqb e e' then [l] else []).
Proof.
  unfold add_listener. destruct (hook_for_event (do_hooks d) e); intros H; inversion H.
  unfold listeners_of. cbn [do_reg]. rewrite filter_app, map_app. cbn [filter fst].
  destruct (zlist_eqb e e'); reflexivity.
Qed.

(* add_listener: KeyError exactly for an event class the object has no hook for; otherwise the
   callback goes to the end of that class's list, other lists are untouched, and the hook's
   identity shadow is gone *)
Lemma add_listener_spec d e l :
  match add_listener d e l with
  | None => hook_for_event (do_hooks d) e = None
  | Some d' =>
      exists h, hook_for_event (do_hooks d) e = Some h
                /\ listeners_of d' e = listeners_of d e ++ [l]
                /\ (forall e', zlist_eqb e e' = false -> listeners_of d' e' = listeners_of d e')
                /\ mem_str (h_meth h) (do_fast d') = false
                /\ do_hooks d' = do_hooks d
  end.
Proof.
  destruct (add_listener d e l) as [d'|] eqn:A.
  - pose proof (listeners_of_add d e l d') as LA.
    unfold add_listener in A. destruct (hook_for_event (do_hooks d) e) as [h|] eqn:HE; [|discriminate].
    exists h. split; [reflexivity|]. split; [|split; [|split]].
    + rewrite (LA e) by (unfold add_listener; rewrite HE; exact A). rewrite zlist_eqb_refl. reflexivity.
    + intros e' Ne. rewrite (LA e') by (unfold add_listener; rewrite HE; exact A).
      rewrite Ne. apply app_nil_r.
    + inversion A. cbn [do_fast].
      rewrite (mem_str_filter (h_meth h) (fun m => negb (zlist_eqb m (h_meth h)))).
      rewrite zlist_eqb_refl. apply andb_false_r.
    + inversion A. reflexivity.
  - unfold add_listener in A. destruct (hook_for_event (do_hooks d) e); [discriminate|reflexivity].
Qed.

Definition fast_inv (d : dobj) : Prop :=
  forall h, In h (do_hooks d) -> mem_str (h_meth h) (do_fast d) = true ->
            listeners_of d (h_event h) = [].

Lemma fast_inv_new hs : fast_inv (new_dobj hs).
Proof. intros h _ _. reflexivity. Qed.

Lemma fast_inv_add d e l d' :
  hooks_distinct (do_hooks d) = true -> fast_inv d -> add_listener d e l = Some d' -> fast_inv d'.
Proof.
  intros D Inv A h HI HF.
  rewrite (add_listener_hooks _ _ _ _ A) in HI.
  rewrite (listeners_of_add _ _ _ _ (h_event h) A).
  unfold add_listener in A. destruct (hook_for_event (do_hooks d) e) as [h0|] eqn:HE; [|discriminate].
  inversion A as [A']. rewrite <- A' in HF. cbn [do_fast] in HF.
  rewrite (mem_str_filter (h_meth h) (fun m => negb (zlist_eqb m (h_meth h0)))) in HF.
  apply andb_true_iff in HF as [HF1 HF2]. apply negb_true_iff in HF2.
  rewrite (Inv h HI HF1). cbn [app].
  destruct (zlist_eqb e (h_event h)) eqn:E; [|reflexivity].
  apply zlist_eqb_eq in E. subst e.
  rewrite (hook_for_event_self _ _ D HI) in HE. inversion HE. subst h0.
  rewrite zlist_eqb_refl in HF2. discriminate.
Qed.

Lemma fast_inv_register regs : forall d,
  hooks_distinct (do_hooks d) = true -> fast_inv d -> fast_inv (register d regs).
Proof.
  induction regs as [|[e l] r IH]; intros d D Inv; [exact Inv|].
  cbn [register]. destruct (add_listener d e l) as [d'|] eqn:A.
  - apply IH.
    + rewrite (add_listener_hooks _ _ _ _ A). exact D.
    + eapply fast_inv_add; eauto.
  - apply IH; assumption.
Qed.

(* ---- the slow path with no listeners returns its positional arguments ---- *)

Lemma combine_eqb_eq (a : list name) : forall b,
  length a = length b ->
  forallb (fun pq => zlist_eqb (fst pq) (snd pq)) (combine a b) = true -> a = b.
Proof.
  induction a as [|x a IH]; intros [|y b] L H; cbn in L; try discriminate; [reflexivity|].
  cbn [combine forallb fst snd] in H. apply andb_true_iff in H as [H1 H2].
  apply zlist_eqb_eq in H1. subst. f_equal. apply IH; [congruence|exact H2].
Qed.

Lemma ctor_shape (ct : list (name * name)) : forall fs,
  length ct = length fs ->
  forallb (fun kf => zlist_eqb (fst (fst kf)) (snd kf) && zlist_eqb (snd (fst kf)) (snd kf))
          (combine ct fs) = true ->
  ct = map (fun f => (f, f)) fs.
Proof.
  induction ct as [|[k a] ct IH]; intros [|f fs] L H; cbn in L; try discriminate; [reflexivity|].
  cbn [combine forallb fst snd] in H. apply andb_true_iff in H as [H1 H2].
  apply andb_true_iff in H1 as [Hk Ha]. apply zlist_eqb_eq in Hk, Ha. subst.
  cbn [map]. f_equal. apply IH; [congruence|exact H2].
Qed.

Lemma bind_ctor_self fs env :
  (forall f, In f fs -> exists v, assoc_str f env = Some v) ->
  bind_ctor (map (fun f => (f, f)) fs) env
    = Some (map (fun f => (f, match assoc_str f env with Some v => v | None => [] end)) fs).
Proof.
  induction fs as [|f fs IH]; intros H; [reflexivity|].
  cbn [map bind_ctor]. destruct (H f (or_introl eq_refl)) as [v Hv]. rewrite Hv.
  rewrite IH; [reflexivity|]. intros g Hg. apply H. right. exact Hg.
Qed.

Lemma assoc_combine_some f ps : forall (vs : list value),
  length ps = length vs -> mem_str f ps = true -> exists v, assoc_str f (combine ps vs) = Some v.
Proof.
  induction ps as [|p ps IH]; intros [|v vs] L M; cbn in L; try discriminate.
  cbn [combine assoc_str]. unfold mem_str in M. cbn [existsb] in M.
  destruct (zlist_eqb f p); [eauto|]. apply IH; [congruence|exact M].
Qed.

Lemma assoc_combine_nodup ps : forall (vs : list value) rest,
  nodup_str ps = true -> length ps = length vs ->
  map (fun p => assoc_str p (combine ps vs ++ rest)) ps = map Some vs.
Proof.
  induction ps as [|p ps IH]; intros [|v vs] rest ND L; cbn in L; try discriminate; [reflexivity|].
  cbn [nodup_str] in ND. apply andb_true_iff in ND as [N1 N2]. apply negb_true_iff in N1.
  cbn [combine app map assoc_str]. rewrite zlist_eqb_refl. f_equal.
  rewrite <- (IH vs rest N2) by congruence.
  apply map_ext_in. intros q Hq.
  destruct (zlist_eqb q p) eqn:E; [|reflexivity].
  apply zlist_eqb_eq in E. subst. exfalso. exact (mem_str_false_In _ _ N1 Hq).
Qed.

Lemma map_some_default (env : list (name * value)) ps : forall vs,
  map (fun p => assoc_str p env) ps = map Some vs ->
  map (fun p => match assoc_str p env with Some v => v | None => [] end) ps = vs.
Proof.
  induction ps as [|p ps IH]; intros [|v vs] H; cbn [map] in H; try discriminate; [reflexivity|].
  inversion H as [[H1 H2]]. cbn [map]. rewrite H1. f_equal. apply IH. exact H2.
Qed.

Lemma slow_empty h pos kw :
  hook_ok h = true -> good_call h pos kw = true ->
  exists env ev, bind_args h pos kw = Some env /\ mk_event h env = Some ev
                 /\ payload_out ev = inl pos /\ wf_event ev = true /\ ev_int ev = false
                 /\ find_class (h_event h) = Some (ev_cls ev).
Proof.
  unfold hook_ok, good_call. intros HO GC.
  destruct (find_class (h_event h)) as [c|] eqn:FC; [|discriminate].
  apply andb_true_iff in HO as [HO Hsub]. apply andb_true_iff in HO as [HO Hnd].
  apply andb_true_iff in HO as [HO Hct]. apply andb_true_iff in HO as [HO Hctl].
  apply andb_true_iff in HO as [HO Hpp]. apply andb_true_iff in HO as [HO Hpl].
  apply andb_true_iff in GC as [GC Hkwnd]. apply andb_true_iff in GC as [GC Hsame].
  apply Nat.eqb_eq in Hpl, Hctl, GC.
  pose proof (combine_eqb_eq _ _ Hpl Hpp) as Epos.
  pose proof (ctor_shape _ _ Hctl Hct) as Ector.
  set (env := combine (h_pos h) pos ++ kw).
  assert (BA : bind_args h pos kw = Some env).
  { unfold bind_args. rewrite GC, Nat.eqb_refl. cbn [negb]. rewrite Hsame. reflexivity. }
  assert (Henv : forall f, In f (ec_fields c) -> exists v, assoc_str f env = Some v).
  { intros f Hf. rewrite forallb_forall in Hsub. specialize (Hsub f Hf).
    rewrite mem_str_app in Hsub. unfold env. rewrite assoc_str_app.
    destruct (mem_str f (h_pos h)) eqn:Mp.
    - destruct (assoc_combine_some f (h_pos h) pos (eq_sym GC) Mp) as [v Hv].
      exists v. cbv delta [name value] in *. rewrite Hv. reflexivity.
    - cbn [orb] in Hsub. destruct (assoc_str f (combine (h_pos h) pos)); [eauto|].
      apply assoc_str_in_keys.
      unfold same_names in Hsame. apply andb_true_iff in Hsame as [Hs1 Hs2].
      rewrite forallb_forall in Hs2. apply Hs2. apply mem_str_In. exact Hsub. }
  set (g := fun f => match assoc_str f env with Some v => v | None => [] end).
  set (ev := {| ev_cls := c; ev_vals := map (fun f => (f, g f)) (ec_fields c); ev_int := false |}).
  exists env, ev. split; [exact BA|]. split; [|split; [|split; [|split]]].
  - unfold mk_event. rewrite FC, Hctl, Nat.eqb_refl. cbn [negb].
    assert (F : forallb (fun kv : name * name => mem_str (fst kv) (ec_fields c)) (h_ctor h) = true).
    { rewrite Ector. apply forallb_forall. intros kv Hkv. apply in_map_iff in Hkv as [f [<- Hf]].
      cbn [fst]. apply mem_str_In. exact Hf. }
    replace (forallb _ (h_ctor h)) with true by (symmetry; exact F).
    cbn [negb]. rewrite Ector. rewrite (bind_ctor_self _ env Henv). reflexivity.
  - unfold payload_out. cbn [ev_cls ev_vals ev].
    unfold class_ok in HO. apply andb_true_iff in HO as [HO _]. apply andb_true_iff in HO as [HO _].
    rewrite forallb_forall in HO.
    rewrite payload_vals_all.
    + f_equal. f_equal. rewrite <- Epos.
      transitivity (map g (h_pos h)).
      * apply map_ext_in. intros p Hp. rewrite assoc_str_map_self; [reflexivity|].
        apply HO. rewrite <- Epos. exact Hp.
      * unfold g. apply map_some_default. unfold env.
        apply assoc_combine_nodup; [|congruence].
        eapply nodup_str_app_l. exact Hnd.
    + intros n Hn. exists (g n). apply assoc_str_map_self. apply HO. exact Hn.
  - unfold wf_event. cbn [ev_cls ev_vals ev]. apply forallb_forall. intros f Hf.
    rewrite assoc_str_map_self; [reflexivity|]. apply mem_str_In. exact Hf.
  - reflexivity.
  - reflexivity.
Qed.

(* the fast path agrees with the slow path in every reachable dispatch object *)
Lemma fast_path_agrees hs regs h pos kw :
  hooks_distinct hs = true -> forallb hook_ok hs = true ->
  In h hs -> good_call h pos kw = true ->
  call_hook (register (new_dobj hs) regs) (h_meth h) pos kw
    = call_slow (register (new_dobj hs) regs) h pos kw.
Proof.
  intros D HO HI GC. set (d := register (new_dobj hs) regs).
  assert (Hd : do_hooks d = hs) by (unfold d; rewrite register_hooks; reflexivity).
  assert (Inv : fast_inv d).
  { unfold d. apply fast_inv_register; [exact D|apply fast_inv_new]. }
  unfold call_hook. destruct (mem_str (h_meth h) (do_fast d)) eqn:F.
  - rewrite forallb_forall in HO.
    destruct (slow_empty h pos kw (HO h HI) GC) as [env [ev [BA [ME [PO _]]]]].
    unfold call_slow. rewrite BA, ME.
    rewrite (Inv h) by (rewrite ?Hd; assumption). cbn [dispatch]. rewrite PO. reflexivity.
  - rewrite Hd. rewrite (find_hook_self hs h D HI). reflexivity.
Qed.

(* with no listener ever registered for the event, the hook returns its positional arguments,
   invokes nobody -- whether or not the shadow is still installed *)
Lemma no_listeners_identity hs regs h pos kw :
  hooks_distinct hs = true -> forallb hook_ok hs = true ->
  In h hs -> good_call h pos kw = true ->
  listeners_of (register (new_dobj hs) regs) (h_event h) = [] ->
  call_hook (register (new_dobj hs) regs) (h_meth h) pos kw
    = HRes {| d_log := []; d_errs := []; d_out := inl pos |}.
Proof.
  intros D HO HI GC NL. rewrite (fast_path_agrees hs regs h pos kw D HO HI GC).
  rewrite forallb_forall in HO.
  destruct (slow_empty h pos kw (HO h HI) GC) as [env [ev [BA [ME [PO _]]]]].
  unfold call_slow. rewrite BA, ME, NL. cbn [dispatch]. rewrite PO. reflexivity.
Qed.

(* a hook call on a reachable object IS a dispatch over the listeners registered for its event, on
   a well-formed, un-interrupted event of the hook's class -- so every dispatch theorem applies *)
Lemma hook_call_is_dispatch hs regs h pos kw :
  hooks_distinct hs = true -> forallb hook_ok hs = true ->
  In h hs -> good_call h pos kw = true ->
  exists ev, call_hook (register (new_dobj hs) regs) (h_meth h) pos kw
               = HRes (dispatch (listeners_of (register (new_dobj hs) regs) (h_event h)) ev)
             /\ wf_event ev = true /\ ev_int ev = false
             /\ find_class (h_event h) = Some (ev_cls ev) /\ class_ok (ev_cls ev) = true
             /\ payload_out ev = inl pos.
Proof.
  intros D HO HI GC. rewrite (fast_path_agrees hs regs h pos kw D HO HI GC).
  rewrite forallb_forall in HO. pose proof (HO h HI) as HOh.
  destruct (slow_empty h pos kw HOh GC) as [env [ev [BA [ME [PO [W [I FC]]]]]]].
  exists ev. unfold call_slow. rewrite BA, ME. repeat split; auto.
  unfold hook_ok in HOh. rewrite FC in HOh.
  do 6 (apply andb_true_iff in HOh as [HOh _]). exact HOh.
Qed.

(* ------------------------------------------------------------------------------------------ *)
(** * Facts about the source as it is now (Gen.Facts / Gen.FactsC18, regenerated every run) *)

Lemma interrupted_name_text : interrupted_name = s2z "__interrupted__".
Proof. reflexivity. Qed.

Lemma classes_ok : forallb class_ok classes = true.
Proof. vm_compute. reflexivity. Qed.

Lemma hooks_ok :
  forallb hook_ok hooks = true
  /\ hooks_distinct (side_hooks Client) = true /\ hooks_distinct (side_hooks Server) = true
  /\ forallb hook_ok (side_hooks Client) = true /\ forallb hook_ok (side_hooks Server) = true.
Proof. vm_compute. repeat split; reflexivity. Qed.

Definition payload_of_class (n : string) : option (list name) :=
  option_map ec_payload (find_class (s2z n)).
Definition readonly_of_class (n : string) : option (list name) :=
  option_map readonly (find_class (s2z n)).

(* the mutable fields are the ones the property names: metadata / message / method_func *)
Lemma payload_table :
  payload_of_class "SendRequest" = Some [s2z "metadata"]
  /\ payload_of_class "SendMessage" = Some [s2z "message"]
  /\ payload_of_class "RecvMessage" = Some [s2z "message"]
  /\ payload_of_class "RecvInitialMetadata" = Some [s2z "metadata"]
  /\ payload_of_class "RecvTrailingMetadata" = Some [s2z "metadata"]
  /\ payload_of_class "RecvRequest" = Some [s2z "metadata"; s2z "method_func"]
  /\ payload_of_class "SendInitialMetadata" = Some [s2z "metadata"]
  /\ payload_of_class "SendTrailingMetadata" = Some [s2z "metadata"].
Proof. vm_compute. repeat split; reflexivity. Qed.

Lemma side_events :
  same_names (map h_event (side_hooks Client))
             [s2z "SendRequest"; s2z "SendMessage"; s2z "RecvMessage"; s2z "RecvInitialMetadata";
              s2z "RecvTrailingMetadata"] = true
  /\ same_names (map h_event (side_hooks Server))
             [s2z "RecvRequest"; s2z "RecvMessage"; s2z "SendMessage"; s2z "SendInitialMetadata";
              s2z "SendTrailingMetadata"] = true.
Proof. vm_compute. split; reflexivity. Qed.

Lemma sites_consumed :
  (forall s, In s hook_sites -> site_ok s = true)
  /\ side_covered Client = true /\ side_covered Server = true.
Proof.
  split; [|split]; [apply forallb_forall|..]; vm_compute; reflexivity.
Qed.

(* ------------------------------------------------------------------------------------------ *)
(** * The same, for the dispatch objects of Channel (Client) and Server as the source defines them *)

Lemma side_hooks_good s :
  hooks_distinct (side_hooks s) = true /\ forallb hook_ok (side_hooks s) = true.
Proof. destruct hooks_ok as [_ [D1 [D2 [O1 O2]]]]. destruct s; auto. Qed.

Lemma side_fast_path_agrees s regs h pos kw :
  In h (side_hooks s) -> good_call h pos kw = true ->
  call_hook (register (obj_for s) regs) (h_meth h) pos kw
    = call_slow (register (obj_for s) regs) h pos kw.
Proof. destruct (side_hooks_good s) as [D O]. apply fast_path_agrees; assumption. Qed.

Lemma side_no_listeners_identity s regs h pos kw :
  In h (side_hooks s) -> good_call h pos kw = true ->
  listeners_of (register (obj_for s) regs) (h_event h) = [] ->
  call_hook (register (obj_for s) regs) (h_meth h) pos kw
    = HRes {| d_log := []; d_errs := []; d_out := inl pos |}.
Proof. destruct (side_hooks_good s) as [D O]. apply no_listeners_identity; assumption. Qed.

Lemma side_hook_call_is_dispatch s regs h pos kw :
  In h (side_hooks s) -> good_call h pos kw = true ->
  exists ev, call_hook (register (obj_for s) regs) (h_meth h) pos kw
               = HRes (dispatch (listeners_of (register (obj_for s) regs) (h_event h)) ev)
             /\ wf_event ev = true /\ ev_int ev = false
             /\ find_class (h_event h) = Some (ev_cls ev) /\ class_ok (ev_cls ev) = true
             /\ payload_out ev = inl pos.
Proof. destruct (side_hooks_good s) as [D O]. apply hook_call_is_dispatch; assumption. Qed.

(* listeners registered on one dispatch object are not seen by another one: the result of a hook
   call is a function of the object's own registrations *)
Lemma listeners_of_register regs : forall d e,
  listeners_of (register d regs) e
  = listeners_of d e
    ++ map snd (filter (fun r => zlist_eqb (fst r) e
                                 && is_some (hook_for_event (do_hooks d) (fst r))) regs).
Proof.
  induction regs as [|[e0 l] r IH]; intros d e.
  - cbn. rewrite app_nil_r. reflexivity.
  - cbn [register filter fst].
    destruct (add_listener d e0 l) as [d'|] eqn:A.
    + rewrite IH. rewrite (listeners_of_add _ _ _ _ e A). rewrite (add_listener_hooks _ _ _ _ A).
      unfold add_listener in A. destruct (hook_for_event (do_hooks d) e0) eqn:HE; [|discriminate].
      cbn [is_some]. rewrite andb_true_r. rewrite <- app_assoc.
      destruct (zlist_eqb e0 e); reflexivity.
    + rewrite IH. unfold add_listener in A.
      destruct (hook_for_event (do_hooks d) e0) eqn:HE; [discriminate|].
      cbn [is_some]. rewrite andb_false_r. reflexivity.
Qed.
