(* Proofs/C16Source.v -- the source text Model/Channel.v was transcribed from; compared with the text
   regenerated from /repo on every run (Gen/FactsC16.v, tools/facts_C16.py). *)
From Coq Require Import ZArith List String.
From GV Require Import Lib.Str Gen.FactsC16.
Import ListNotations.
Open Scope string_scope.

Definition exp_Channel_connected : list string :=
  ["return self._protocol is not None and (not self._protocol.handler.connection_lost) and (not self._protocol.connection.is_closing())"].
Definition exp_Channel_connect : list string :=
  ["if not self._connected:";
   "    async with self._connect_lock:";
   "        self._state = _ChannelState.CONNECTING";
   "        if not self._connected:";
   "            try:";
   "                self._protocol = await self._create_connection()";
   "            except Exception:";
   "                self._state = _ChannelState.TRANSIENT_FAILURE";
   "                raise";
   "            else:";
   "                self._state = _ChannelState.READY";
   "return cast(H2Protocol, self._protocol)"].
Definition exp_Channel_close : list string :=
  ["if self._protocol is not None:";
   "    self._protocol.processor.close()";
   "    del self._protocol";
   "self._state = _ChannelState.IDLE"].
Definition exp_Channel_aexit : list string :=
  ["self.close()"].
Definition exp_Channel_del : list string :=
  ["if self._protocol is not None:";
   "    message = 'Unclosed connection: {!r}'.format(self)";
   "    warnings.warn(message, ResourceWarning)";
   "    if self._loop.is_closed():";
   "        return";
   "    else:";
   "        self.close()";
   "        self._loop.call_exception_handler({'message': message})"].
Definition exp_Handler_close : list string :=
  ["self.connection_lost = True"].
Definition exp_EventsProcessor_close : list string :=
  ["self.connection.close()";
   "self.handler.close()";
   "for stream in self.streams.values():";
   "    stream.__terminated__(reason)";
   "if hasattr(self, 'processors'):";
   "    del self.processors"].
Definition exp_EventsProcessor_process_connection_terminated : list string :=
  ["self.close(reason='Received GOAWAY frame, closing connection; error_code: {}'.format(event.error_code))"].
Definition exp_H2Protocol_connection_lost : list string :=
  ["self.processor.close(reason='Connection lost')"].
Definition exp_Connection_is_closing : list string :=
  ["if hasattr(self, '_transport'):";
   "    return self._transport.is_closing()";
   "else:";
   "    return True"].
Definition exp_Connection_close : list string :=
  ["if hasattr(self, '_transport'):";
   "    self._transport.close()";
   "    del self._transport";
   "    if hasattr(self._connection, '_frame_dispatch_table'):";
   "        del self._connection._frame_dispatch_table";
   "if self._ping_handle is not None:";
   "    self._ping_handle.cancel()";
   "if self._close_by_ping_handler is not None:";
   "    self._close_by_ping_handler.cancel()"].

Lemma source_as_transcribed :
  src_Channel_connected = map s2z exp_Channel_connected /\
  src_Channel_connect = map s2z exp_Channel_connect /\
  src_Channel_close = map s2z exp_Channel_close /\
  src_Channel_aexit = map s2z exp_Channel_aexit /\
  src_Channel_del = map s2z exp_Channel_del /\
  src_Handler_close = map s2z exp_Handler_close /\
  src_EventsProcessor_close = map s2z exp_EventsProcessor_close /\
  src_EventsProcessor_process_connection_terminated = map s2z exp_EventsProcessor_process_connection_terminated /\
  src_H2Protocol_connection_lost = map s2z exp_H2Protocol_connection_lost /\
  src_Connection_is_closing = map s2z exp_Connection_is_closing /\
  src_Connection_close = map s2z exp_Connection_close /\
  async_Channel_connect = true /\
  dec_Channel_connected = [s2z "property"] /\
  async_Channel_close = false /\
  channel_protocol_class_attr = s2z "None" /\
  handler_connection_lost_class_attr = s2z "False".
Proof. vm_compute. repeat split; reflexivity. Qed.
