(* Proofs/C16Source.v -- what Model/Channel.v assumes about the source, as MEANING (paths / effects), compared
   with the facts regenerated from /repo on every run (Gen/FactsC16.v, tools/facts_C16.py).

   event codes of the paths of Channel.__connect__ (helpers inlined, tests in NNF):
     T1=1 T0=2 (connected property true / false)  ACQ=3 REL=4 (the channel's asyncio.Lock)
     CREATE=5 (await loop.create_connection / create_unix_connection)  OK=6  EXC=7 (Exception caught)
     ESC=8 (BaseException not caught)  STORE=9 (result stored as the channel's protocol)  RERAISE=10  RET=11
     (return the stored protocol attribute, no re-check)  RAISE_OTHER=12  CLEAR=13 *)
From Coq Require Import ZArith List.
From GV Require Import Gen.FactsC16.
Import ListNotations.
Open Scope Z_scope.

(* Model/Channel.v `enter` / `locked_section` / `attempt` / `run_caller`(PAttempt) / `ret`:
   - fast path: connected -> return the protocol, no suspension                          [T1; RET]
   - else take the lock; RE-CHECK; connected meanwhile -> release, return                [T0; ACQ; T1; REL; RET]
   - else exactly one connection attempt inside the lock, nothing else awaited there;
     on success the protocol is stored at once, lock released, returned WITHOUT re-check [T0; ACQ; T0; CREATE; OK; STORE; REL; RET]
   - an Exception is re-raised to this caller, lock released, nothing stored             [T0; ACQ; T0; CREATE; EXC; RERAISE; REL]
   - a BaseException (CancelledError) escapes, lock released, nothing stored             [T0; ACQ; T0; CREATE; ESC; REL] *)
Definition exp_connect_paths : list (list Z) :=
  [[1; 11];
   [2; 3; 1; 4; 11];
   [2; 3; 2; 5; 6; 9; 4; 11];
   [2; 3; 2; 5; 7; 10; 4];
   [2; 3; 2; 5; 8; 4]].

(* `connected` = protocol present /\ handler not closed /\ connection not closing, probed on real objects in the
   states: fresh | connection_lost delivered | Connection.close() ran | transport closing |
           GOAWAY (NO_ERROR,0) | (NO_ERROR,2^31-1) | (NO_ERROR,2^31-1,debug) | (INTERNAL,1) | (ENHANCE_YOUR_CALM,2^31-1,debug) *)
Definition exp_connected_by_state : list Z := [1; 0; 0; 0; 0; 0; 0; 0; 0].
(* per state: every registered stream terminated, transport.close() called, connection.is_closing():
   connection_lost and every GOAWAY run processor.close() (model: conn_lost / proc_close); keepalive's
   Connection.close() closes the transport WITHOUT terminating the streams (model: KAClose) *)
Definition exp_effects_by_state : list (list Z) :=
  [[0; 0; 0]; [1; 1; 1]; [0; 1; 1]; [0; 0; 1]; [1; 1; 1]; [1; 1; 1]; [1; 1; 1]; [1; 1; 1]; [1; 1; 1]].
(* Channel.close() in EVERY state (not only when connected): all registered streams terminated, transport closed
   exactly once, the channel holds no protocol and is not connected, a second close() changes nothing, the lock
   object (and with it the queue of waiters) is kept (model: ChClose) *)
Definition exp_close_row : list Z := [1; 1; 1; 0; 1; 1].
Definition exp_aexit_row : list Z := [1; 1; 1; 0; 1].

Lemma source_meaning :
  connect_paths = exp_connect_paths /\
  connected_by_state = exp_connected_by_state /\
  effects_by_state = exp_effects_by_state /\
  close_by_state = repeat exp_close_row 9 /\
  aexit_by_state = repeat exp_aexit_row 9 /\
  close_without_protocol = [1; 0] /\
  connection_close_twice = [1; 1; 0; 1; 1; 0].
Proof. vm_compute. repeat split; reflexivity. Qed.
