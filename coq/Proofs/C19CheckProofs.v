(* Proofs for Props/C19.v, part 3: ServiceCheck.__check__ (TTL cache, single flight, timeout).
   One invariant over every reachable state of the timed state machine, for ALL op lists: any number of
   callers arriving at any time, any function results and durations, cancellations at any point
   (including the one that coincides with the timeout), any passage of time. *)
From Coq Require Import ZArith List Bool Lia ZifyBool Arith.
From GV Require Import Gen.FactsC19 Model.Health Proofs.C19Proofs Proofs.C19WatchProofs.
Import ListNotations.
Open Scope Z_scope.

(* ------------------------------------------------------------------------------------------------ *)
(** * the definitions with the source facts resolved *)

Lemma fail_value_eq : fail_value = SFalse.
Proof. reflexivity. Qed.

Lemma ttl_test_eq e t : ttl_test e t = (e <? t).
Proof. reflexivity. Qed.

Lemma value_of_fres_eq r :
  value_of_fres r = match r with FTrue => STrue | FNone => SNone | _ => SFalse end.
Proof. destruct r; reflexivity. Qed.

Lemma note_eq k prev v :
  note k prev v = if negb (st_eqb v prev) then (k_now k, v) :: k_notes k else k_notes k.
Proof. unfold note. rewrite andb_true_r. reflexivity. Qed.

Definition end_callers (f : cst) (now : Z) (l : list cst) : list cst :=
  map (fun c => match c with CRun _ => f | CWait => CWoken | x => x end) l.

Lemma finish_eq k v h :
  finish k v h =
  match k_run k with
  | None => k
  | Some (start, _, prev) =>
    mkK (k_ttl k) (k_tmo k) (k_now k) v (Some (k_now k)) true None
        (end_callers (CRet v (k_now k)) (k_now k) (k_callers k))
        ((start, k_now k, h) :: k_log k) (note k prev v)
  end.
Proof. reflexivity. Qed.

Lemma abort_eq k :
  abort k =
  match k_run k with
  | None => k
  | Some (start, _, _) =>
    mkK (k_ttl k) (k_tmo k) (k_now k) (k_value k) (k_last k) true None
        (end_callers (CCancelled (k_now k)) (k_now k) (k_callers k))
        ((start, k_now k, HAborted) :: k_log k) (k_notes k)
  end.
Proof. reflexivity. Qed.

Lemma k_call_eq k :
  k_call k =
  if cached k then add_caller k (CRet (k_value k) (k_now k))
  else if negb (k_lock k) then add_caller k CWait
  else if k_tmo k <=? 0 then
    mkK (k_ttl k) (k_tmo k) (k_now k) SFalse (Some (k_now k)) true None
        (k_callers k ++ [CRet SFalse (k_now k)]) (k_log k) (note k (k_value k) SFalse)
  else
    mkK (k_ttl k) (k_tmo k) (k_now k) (k_value k) (k_last k) false
        (Some (k_now k, Some (k_now k + k_tmo k), k_value k))
        (k_callers k ++ [CRun false]) (k_log k) (k_notes k).
Proof. reflexivity. Qed.

(* ------------------------------------------------------------------------------------------------ *)
(** * the invariant *)

Definition is_run (c : cst) : bool := match c with CRun _ => true | _ => false end.
Definition is_wait (c : cst) : bool := match c with CWait => true | _ => false end.
Definition count_run (l : list cst) : nat := length (filter is_run l).

Definition e_start (x : Z * Z * how) : Z := fst (fst x).
Definition e_end (x : Z * Z * how) : Z := snd (fst x).
Definition e_done (x : Z * Z * how) : Prop := snd x <> HAborted.     (* the run produced a status *)

Fixpoint log_sorted (ttl : Z) (log : list (Z * Z * how)) : Prop :=
  match log with
  | [] => True
  | x :: r =>
    (forall y, In y r -> e_end y <= e_start x /\ (e_done y -> e_end y + ttl <= e_start x)) /\
    log_sorted ttl r
  end.

Record kinv (k : sck) : Prop := mkInv {
  i_lock : k_lock k = true <-> k_run k = None;
  i_runner : count_run (k_callers k) = match k_run k with Some _ => 1%nat | None => 0%nat end;
  i_wait : existsb is_wait (k_callers k) = true -> k_run k <> None;
  i_run : forall s dl p, k_run k = Some (s, dl, p) ->
          dl = Some (s + k_tmo k) /\ 0 < k_tmo k /\ s <= k_now k <= s + k_tmo k /\ p = k_value k /\
          (forall y, In y (k_log k) -> e_end y <= s /\ (e_done y -> e_end y + k_ttl k <= s));
  i_last : forall l, k_last k = Some l -> l <= k_now k;
  i_done : forall y, In y (k_log k) -> e_done y -> exists l, k_last k = Some l /\ e_end y <= l;
  i_time : forall y, In y (k_log k) ->
           e_start y <= e_end y <= k_now k /\ e_end y <= e_start y + k_tmo k /\ 0 < k_tmo k;
  i_sorted : log_sorted (k_ttl k) (k_log k)
}.

Lemma kinit_inv ttl tmo t0 : kinv (kinit ttl tmo t0).
Proof.
  constructor; cbn; try tauto; try discriminate; try (intros; contradiction); try (split; reflexivity).
Qed.

(* ---- callers bookkeeping *)

Lemma count_run_app l c : count_run (l ++ [c]) = (count_run l + if is_run c then 1 else 0)%nat.
Proof.
  unfold count_run. rewrite filter_app, app_length. cbn [filter]. destruct (is_run c); simpl; lia.
Qed.

Lemma is_wait_app l c : existsb is_wait (l ++ [c]) = existsb is_wait l || is_wait c.
Proof. rewrite existsb_app. cbn. rewrite orb_false_r. reflexivity. Qed.

Lemma count_run_upd k f l :
  (forall x, is_run (f x) = is_run x) -> count_run (upd_nth k f l) = count_run l.
Proof.
  intro H. unfold count_run. revert k. induction l as [|x r IH]; intros [|k]; cbn [upd_nth filter]; try reflexivity.
  - rewrite H. destruct (is_run x); reflexivity.
  - destruct (is_run x); cbn [length]; rewrite IH; reflexivity.
Qed.

Lemma is_wait_upd k f l :
  (forall x, is_wait (f x) = true -> is_wait x = true) ->
  existsb is_wait (upd_nth k f l) = true -> existsb is_wait l = true.
Proof.
  intro H. revert k. induction l as [|x r IH]; intros [|k]; cbn [upd_nth existsb]; try tauto.
  - intro E. apply orb_true_iff in E. apply orb_true_iff. destruct E as [E|E]; [left; apply H, E | right; exact E].
  - intro E. apply orb_true_iff in E. apply orb_true_iff. destruct E as [E|E]; [left; exact E | right; eapply IH, E].
Qed.

Lemma count_run_end f now l : is_run f = false -> count_run (end_callers f now l) = 0%nat.
Proof.
  intro H. unfold count_run, end_callers. induction l as [|x r IH]; [reflexivity|].
  cbn [map filter]. destruct x; cbn [is_run]; try exact IH. rewrite H. exact IH.
Qed.

Lemma is_wait_end f now l : is_wait f = false -> existsb is_wait (end_callers f now l) = false.
Proof.
  intro H. unfold end_callers. induction l as [|x r IH]; [reflexivity|].
  cbn [map existsb]. destruct x; cbn [is_wait]; try exact IH. rewrite H. exact IH.
Qed.

Lemma count_run_one_has l : count_run l = 1%nat -> exists b, In (CRun b) l.
Proof.
  unfold count_run. induction l as [|x r IH]; [discriminate|]. cbn [filter].
  destruct x; cbn [is_run]; try (intro H; destruct (IH H) as [b' Hb]; exists b'; right; exact Hb).
  intros _. exists cancelling. left. reflexivity.
Qed.

Lemma count_run_zero_none l b : count_run l = 0%nat -> ~ In (CRun b) l.
Proof.
  unfold count_run. induction l as [|x r IH]; [intros _ []|]. cbn [filter].
  destruct x; cbn [is_run]; try (intros H [E|E]; [discriminate | exact (IH H E)]).
  discriminate.
Qed.

Lemma is_wait_In l : existsb is_wait l = true <-> In CWait l.
Proof.
  rewrite existsb_exists. split.
  - intros [x [Hin E]]. destruct x; try discriminate. exact Hin.
  - intro H. exists CWait. split; [exact H | reflexivity].
Qed.

(* ---- runner_state / deadline_of under the invariant *)

Lemma runner_state_none k : k_run k = None -> runner_state k = None.
Proof. unfold runner_state. intros ->. reflexivity. Qed.

Lemma runner_state_some k b : runner_state k = Some b -> exists s dl p, k_run k = Some (s, dl, p).
Proof.
  unfold runner_state. destruct (k_run k) as [[[s dl] p]|]; [|discriminate]. intros _. eauto.
Qed.

Lemma deadline_inv k s dl p : kinv k -> k_run k = Some (s, dl, p) -> deadline_of k = Some (s + k_tmo k).
Proof.
  intros I H. destruct (i_run k I s dl p H) as [E _]. unfold deadline_of. rewrite H, E. reflexivity.
Qed.

(* ------------------------------------------------------------------------------------------------ *)
(** * every step preserves the invariant *)

Lemma finish_inv k v h :
  kinv k -> k_run k <> None -> h <> HAborted -> kinv (finish k v h).
Proof.
  intros I R Hh. rewrite finish_eq. destruct (k_run k) as [[[s dl] p]|] eqn:E; [|congruence].
  destruct (i_run k I s dl p E) as [Edl [Ht [Hn [Ep Hlog]]]].
  constructor; cbn [k_ttl k_tmo k_now k_value k_last k_lock k_run k_callers k_log k_notes].
  - tauto.
  - apply count_run_end. reflexivity.
  - rewrite is_wait_end by reflexivity. discriminate.
  - discriminate.
  - intros l [= <-]. lia.
  - intros y [<-|Hy] _; (exists (k_now k); split; [reflexivity|]).
    + unfold e_end. cbn. lia.
    + destruct (i_time k I y Hy) as [A _]. lia.
  - intros y [<-|Hy].
    + unfold e_start, e_end. cbn. lia.
    + apply (i_time k I y Hy).
  - split; [|apply (i_sorted k I)]. intros y Hy. unfold e_start at 1 2. cbn [fst]. apply Hlog, Hy.
Qed.

Lemma abort_inv k : kinv k -> k_run k <> None -> kinv (abort k).
Proof.
  intros I R. rewrite abort_eq. destruct (k_run k) as [[[s dl] p]|] eqn:E; [|congruence].
  destruct (i_run k I s dl p E) as [Edl [Ht [Hn [Ep Hlog]]]].
  constructor; cbn [k_ttl k_tmo k_now k_value k_last k_lock k_run k_callers k_log k_notes].
  - tauto.
  - apply count_run_end. reflexivity.
  - rewrite is_wait_end by reflexivity. discriminate.
  - discriminate.
  - apply (i_last k I).
  - intros y [<-|Hy] D; [exfalso; apply D; reflexivity|]. apply (i_done k I y Hy D).
  - intros y [<-|Hy].
    + unfold e_start, e_end. cbn. lia.
    + apply (i_time k I y Hy).
  - split; [|apply (i_sorted k I)]. intros y Hy. unfold e_start at 1 2. cbn [fst]. apply Hlog, Hy.
Qed.

Lemma add_caller_inv k c :
  kinv k -> is_run c = false -> (is_wait c = true -> k_run k <> None) -> kinv (add_caller k c).
Proof.
  intros I Hr Hw. unfold add_caller.
  constructor; cbn [k_ttl k_tmo k_now k_value k_last k_lock k_run k_callers k_log k_notes];
    try apply I.
  - rewrite count_run_app, Hr, (i_runner k I). lia.
  - rewrite is_wait_app. intro E. apply orb_true_iff in E. destruct E as [E|E]; [apply (i_wait k I E) | apply Hw, E].
Qed.

Lemma k_call_inv k : kinv k -> kinv (k_call k).
Proof.
  intro I. rewrite k_call_eq. destruct (cached k) eqn:C.
  { apply add_caller_inv; [exact I | reflexivity | discriminate]. }
  destruct (k_lock k) eqn:L; cbn [negb].
  2:{ apply add_caller_inv; [exact I | reflexivity|]. intros _ R. apply (i_lock k I) in R. congruence. }
  assert (R : k_run k = None) by (apply (i_lock k I); exact L).
  assert (NW : existsb is_wait (k_callers k) = false).
  { destruct (existsb is_wait (k_callers k)) eqn:E; [|reflexivity]. exfalso. apply (i_wait k I E R). }
  pose proof (i_runner k I) as CR. rewrite R in CR.
  destruct (k_tmo k <=? 0) eqn:T.
  - constructor; cbn [k_ttl k_tmo k_now k_value k_last k_lock k_run k_callers k_log k_notes].
    + tauto.
    + rewrite count_run_app, CR. reflexivity.
    + rewrite is_wait_app, NW. discriminate.
    + discriminate.
    + intros l [= <-]. lia.
    + intros y Hy _. exists (k_now k). split; [reflexivity|]. destruct (i_time k I y Hy) as [A _]. lia.
    + apply (i_time k I).
    + apply (i_sorted k I).
  - constructor; cbn [k_ttl k_tmo k_now k_value k_last k_lock k_run k_callers k_log k_notes].
    + split; discriminate.
    + rewrite count_run_app, CR. reflexivity.
    + discriminate.
    + intros s dl p [= <- <- <-]. split; [reflexivity|]. split; [lia|]. split; [lia|]. split; [reflexivity|].
      intros y Hy. destruct (i_time k I y Hy) as [A _]. split; [lia|]. intro D.
      destruct (i_done k I y Hy D) as [l [El Hl]].
      unfold cached in C. rewrite El, ttl_test_eq in C. lia.
    + apply (i_last k I).
    + apply (i_done k I).
    + apply (i_time k I).
    + apply (i_sorted k I).
Qed.

Lemma kstep_inv k op : kinv k -> kinv (kstep k op).
Proof.
  intro I. destruct op as [|c|r| |c| |dt]; cbn [kstep].
  - apply k_call_inv, I.
  - (* KResume *)
    constructor; cbn [k_ttl k_tmo k_now k_value k_last k_lock k_run k_callers k_log k_notes]; try apply I.
    + rewrite count_run_upd; [apply I|]. intros [] ; reflexivity.
    + intro E. apply (i_wait k I). eapply is_wait_upd; [|exact E]. intros []; cbn; auto; discriminate.
  - (* KFuncEnd *)
    destruct (runner_state k) as [[|]|] eqn:RS; try exact I.
    destruct (runner_state_some k _ RS) as [s [dl [p E]]].
    apply finish_inv; [exact I | congruence | discriminate].
  - (* KTimeout *)
    destruct (runner_state k) as [b|] eqn:RS; [|exact I].
    destruct (deadline_of k) as [dl|]; [|exact I].
    destruct (dl <=? k_now k); [|exact I].
    destruct (runner_state_some k _ RS) as [s [dl' [p E]]].
    apply finish_inv; [exact I | congruence | discriminate].
  - (* KCancel *)
    constructor; cbn [k_ttl k_tmo k_now k_value k_last k_lock k_run k_callers k_log k_notes]; try apply I.
    + rewrite count_run_upd; [apply I|]. intros []; reflexivity.
    + intro E. apply (i_wait k I). eapply is_wait_upd; [|exact E]. intros []; cbn; auto; discriminate.
  - (* KDeliver *)
    destruct (runner_state k) as [[|]|] eqn:RS; try exact I.
    destruct (runner_state_some k _ RS) as [s [dl [p E]]].
    apply abort_inv; [exact I | congruence].
  - (* KAdvance *)
    destruct (dt <=? 0) eqn:D; [exact I|].
    set (t := match deadline_of k with
              | Some dl => Z.min (k_now k + dt) (Z.max (k_now k) dl)
              | None => k_now k + dt end).
    assert (T1 : k_now k <= t) by (unfold t; destruct (deadline_of k); lia).
    assert (T2 : forall s dl p, k_run k = Some (s, dl, p) -> t <= s + k_tmo k).
    { intros s dl p E. unfold t. rewrite (deadline_inv k s dl p I E).
      destruct (i_run k I s dl p E) as [_ [_ [Hn _]]]. lia. }
    clearbody t.
    constructor; cbn [k_ttl k_tmo k_now k_value k_last k_lock k_run k_callers k_log k_notes]; try apply I.
    + intros s dl p E. destruct (i_run k I s dl p E) as [Edl [Ht [Hn [Ep Hlog]]]]. specialize (T2 _ _ _ E).
      split; [exact Edl|]. split; [exact Ht|]. split; [lia|]. split; [exact Ep | exact Hlog].
    + intros l El. pose proof (i_last k I l El). lia.
    + intros y Hy. destruct (i_time k I y Hy) as [A [B C]]. split; [lia|]. split; assumption.
Qed.

Lemma krun_inv k ops : kinv k -> kinv (krun k ops).
Proof. revert k. induction ops as [|op r IH]; intros k I; [exact I|]. apply IH, kstep_inv, I. Qed.

Lemma kstep_params k op : k_ttl (kstep k op) = k_ttl k /\ k_tmo (kstep k op) = k_tmo k.
Proof.
  destruct op as [|c|r| |c| |dt]; cbn [kstep]; try (split; reflexivity).
  - rewrite k_call_eq. unfold add_caller. destruct (cached k); [split; reflexivity|].
    destruct (negb (k_lock k)); [split; reflexivity|]. destruct (k_tmo k <=? 0); split; reflexivity.
  - destruct (runner_state k) as [[|]|]; try (split; reflexivity). rewrite finish_eq.
    destruct (k_run k) as [[[s dl] p]|]; split; reflexivity.
  - destruct (runner_state k); [|split; reflexivity]. destruct (deadline_of k); [|split; reflexivity].
    destruct (z <=? k_now k); [|split; reflexivity]. rewrite finish_eq.
    destruct (k_run k) as [[[s dl] p]|]; split; reflexivity.
  - destruct (runner_state k) as [[|]|]; try (split; reflexivity). rewrite abort_eq.
    destruct (k_run k) as [[[s dl] p]|]; split; reflexivity.
  - destruct (dt <=? 0); split; reflexivity.
Qed.

Lemma krun_params k ops : k_ttl (krun k ops) = k_ttl k /\ k_tmo (krun k ops) = k_tmo k.
Proof.
  revert k. induction ops as [|op r IH]; intros k; [split; reflexivity|].
  cbn [krun fold_left]. fold (krun (kstep k op) r). destruct (IH (kstep k op)) as [A B].
  destruct (kstep_params k op) as [C D]. split; congruence.
Qed.

(* ------------------------------------------------------------------------------------------------ *)
(** * what the invariant says about the runs of the function *)

Definition i_start' (x : Z * option Z * option how) : Z := fst (fst x).

(* newest first: every older run has ended, before the newer one started *)
Fixpoint no_overlap (l : list (Z * option Z * option how)) : Prop :=
  match l with
  | [] => True
  | x :: r => (forall y, In y r -> exists e, snd (fst y) = Some e /\ e <= fst (fst x)) /\ no_overlap r
  end.

(* ... and, when the older run produced a status, at least check_ttl before *)
Fixpoint ttl_spaced (ttl : Z) (l : list (Z * option Z * option how)) : Prop :=
  match l with
  | [] => True
  | x :: r =>
    (forall y e h, In y r -> snd (fst y) = Some e -> snd y = Some h -> h <> HAborted ->
                   e + ttl <= fst (fst x)) /\ ttl_spaced ttl r
  end.

Definition fin (e : Z * Z * how) : Z * option Z * option how :=
  match e with (s, e', h) => (s, Some e', Some h) end.

Lemma In_fin y log : In y (map fin log) -> exists x, In x log /\ y = (e_start x, Some (e_end x), Some (snd x)).
Proof.
  intro H. apply in_map_iff in H. destruct H as [[[s e] h] [E Hin]]. exists (s, e, h). split; [exact Hin|].
  subst y. reflexivity.
Qed.

Lemma sorted_no_overlap ttl log : log_sorted ttl log -> no_overlap (map fin log) /\ ttl_spaced ttl (map fin log).
Proof.
  induction log as [|x r IH]; [split; exact I|]. intros [H S]. destruct (IH S) as [IH1 IH2].
  cbn [map no_overlap ttl_spaced]. split; split; auto.
  - intros y Hy. destruct (In_fin y r Hy) as [z [Hz ->]]. exists (e_end z). split; [reflexivity|].
    destruct x as [[s e] h]. cbn. apply (H z Hz).
  - intros y e h Hy E1 E2 D. destruct (In_fin y r Hy) as [z [Hz ->]]. cbn in E1, E2.
    injection E1 as <-. injection E2 as <-. destruct x as [[s e'] h']. cbn. apply (H z Hz). exact D.
Qed.

Lemma invocations_eq k :
  invocations k = (match k_run k with Some (s, _, _) => [(s, None, None)] | None => [] end) ++ map fin (k_log k).
Proof. reflexivity. Qed.

Lemma inv_no_overlap k : kinv k -> no_overlap (invocations k) /\ ttl_spaced (k_ttl k) (invocations k).
Proof.
  intro I. rewrite invocations_eq. destruct (sorted_no_overlap _ _ (i_sorted k I)) as [A B].
  destruct (k_run k) as [[[s dl] p]|] eqn:E; [|split; assumption].
  destruct (i_run k I s dl p E) as [_ [_ [_ [_ Hlog]]]].
  cbn [app no_overlap ttl_spaced]. split; split; auto.
  - intros y Hy. destruct (In_fin y _ Hy) as [z [Hz ->]]. exists (e_end z). split; [reflexivity|].
    cbn. apply (Hlog z Hz).
  - intros y e h Hy E1 E2 D. destruct (In_fin y _ Hy) as [z [Hz ->]]. cbn in E1, E2.
    injection E1 as <-. injection E2 as <-. cbn. apply (Hlog z Hz). exact D.
Qed.

(* single flight: never two callers inside the function, the runs never overlap *)
Theorem check_single_flight ttl tmo t0 ops :
  let k := krun (kinit ttl tmo t0) ops in
  (count_run (k_callers k) <= 1)%nat /\ no_overlap (invocations k).
Proof.
  intro k. assert (I : kinv k) by (apply krun_inv, kinit_inv). split.
  - rewrite (i_runner k I). destruct (k_run k); lia.
  - apply (inv_no_overlap k I).
Qed.

(* at most one run per TTL: a run that produced a status is followed by the next run no earlier than
   check_ttl after it ended (an aborted run cached nothing and is exempt) *)
Theorem check_once_per_ttl ttl tmo t0 ops :
  ttl_spaced ttl (invocations (krun (kinit ttl tmo t0) ops)).
Proof.
  set (k := krun (kinit ttl tmo t0) ops). assert (I : kinv k) by (apply krun_inv, kinit_inv).
  destruct (krun_params (kinit ttl tmo t0) ops) as [A _]. cbn in A. fold k in A. rewrite <- A.
  apply (inv_no_overlap k I).
Qed.

(* while the cached result is fresh, a call returns it and the function is not run *)
Theorem check_cached_no_run k :
  cached k = true ->
  let k' := kstep k KCall in
  k_run k' = k_run k /\ k_log k' = k_log k /\ k_value k' = k_value k /\
  k_callers k' = k_callers k ++ [CRet (k_value k) (k_now k)].
Proof. intro C. cbn [kstep]. rewrite k_call_eq, C. repeat split. Qed.

(* every run is over by start + check_timeout; check_timeout > 0 whenever the function runs *)
Theorem check_timeout_bound ttl tmo t0 ops :
  let k := krun (kinit ttl tmo t0) ops in
  forall s e h, In (s, e, h) (invocations k) ->
  0 < tmo /\ match e with Some e' => s <= e' <= s + tmo | None => s <= k_now k <= s + tmo end.
Proof.
  intros k s e h Hin. assert (I : kinv k) by (apply krun_inv, kinit_inv).
  destruct (krun_params (kinit ttl tmo t0) ops) as [_ B]. cbn in B. fold k in B.
  rewrite invocations_eq in Hin. apply in_app_or in Hin. destruct Hin as [Hin|Hin].
  - destruct (k_run k) as [[[s' dl] p]|] eqn:E; [|contradiction].
    destruct Hin as [[= <- <- <-]|[]]. destruct (i_run k I s' dl p E) as [_ [Ht [Hn _]]]. lia.
  - destruct (In_fin _ _ Hin) as [z [Hz [= -> -> ->]]]. destruct (i_time k I z Hz) as [X [Y Z0]]. lia.
Qed.

(* a caller is suspended only while a run is in flight, and that run is over by start + check_timeout:
   nobody waits for a check beyond its timeout *)
Theorem check_callers_not_blocked ttl tmo t0 ops :
  let k := krun (kinit ttl tmo t0) ops in
  (In CWait (k_callers k) \/ exists b, In (CRun b) (k_callers k)) ->
  exists s p, k_run k = Some (s, Some (s + tmo), p) /\ s <= k_now k <= s + tmo /\ k_lock k = false.
Proof.
  intros k H. assert (I : kinv k) by (apply krun_inv, kinit_inv).
  destruct (krun_params (kinit ttl tmo t0) ops) as [_ B]. cbn in B. fold k in B.
  assert (R : k_run k <> None).
  { destruct H as [H|[b H]].
    - apply (i_wait k I). apply is_wait_In, H.
    - intro R. pose proof (i_runner k I) as C. rewrite R in C. apply (count_run_zero_none _ b C H). }
  destruct (k_run k) as [[[s dl] p]|] eqn:E; [|congruence].
  destruct (i_run k I s dl p E) as [Edl [_ [Hn _]]]. exists s, p. rewrite Edl, <- B.
  split; [reflexivity|]. split; [lia|].
  destruct (k_lock k) eqn:L; [|reflexivity]. apply (i_lock k I) in L. congruence.
Qed.

(* ------------------------------------------------------------------------------------------------ *)
(** * failures count as failing; cancellation; recovery; notification *)

Definition run_over (k : sck) : Prop :=
  k_run k = None /\ k_lock k = true /\ ~ In CWait (k_callers k) /\ (forall b, ~ In (CRun b) (k_callers k)).

Lemma end_callers_clean f now l :
  is_run f = false -> is_wait f = false ->
  ~ In CWait (end_callers f now l) /\ (forall b, ~ In (CRun b) (end_callers f now l)).
Proof.
  intros Hr Hw. split.
  - intro H. apply is_wait_In in H. rewrite is_wait_end in H by exact Hw. discriminate.
  - intros b. apply count_run_zero_none, count_run_end, Hr.
Qed.

(* the function raises or returns a non-boolean: the check counts as failing, every caller is released *)
Theorem check_failure_is_false k r :
  kinv k -> runner_state k = Some false -> r = FRaise \/ r = FNonBool ->
  let k' := kstep k (KFuncEnd r) in
  k_value k' = SFalse /\ k_last k' = Some (k_now k) /\ run_over k' /\
  (forall c b, nth_error (k_callers k) c = Some (CRun b) -> nth_error (k_callers k') c = Some (CRet SFalse (k_now k))).
Proof.
  intros I RS Hr. cbn [kstep]. rewrite RS, finish_eq.
  destruct (runner_state_some k _ RS) as [s [dl [p E]]]. rewrite E.
  assert (V : value_of_fres r = SFalse) by (destruct Hr as [-> | ->]; reflexivity). rewrite V.
  cbn [k_value k_last k_run k_lock k_callers]. split; [reflexivity|]. split; [reflexivity|]. split.
  - split; [reflexivity|]. split; [reflexivity|]. apply end_callers_clean; reflexivity.
  - intros c b N. unfold end_callers. rewrite nth_error_map, N. reflexivity.
Qed.

(* the function runs until the deadline: the timer ends the run, the check counts as failing -- also when
   the caller's own cancellation was requested in the same instant (that cancellation is lost) *)
Theorem check_timeout_is_false k b s p :
  kinv k -> runner_state k = Some b -> k_run k = Some (s, Some (s + k_tmo k), p) -> k_now k = s + k_tmo k ->
  let k' := kstep k KTimeout in
  k_value k' = SFalse /\ k_last k' = Some (k_now k) /\ run_over k' /\
  In (s, Some (s + k_tmo k), Some HTimeout) (invocations k') /\
  (forall c b', nth_error (k_callers k) c = Some (CRun b') -> nth_error (k_callers k') c = Some (CRet SFalse (k_now k))) /\
  (* and time cannot pass the deadline while the run is in flight *)
  (forall dt, k_now (kstep k (KAdvance dt)) = k_now k).
Proof.
  intros I RS E Hn. cbn [kstep]. rewrite RS.
  assert (DL : deadline_of k = Some (s + k_tmo k)) by (unfold deadline_of; rewrite E; reflexivity).
  rewrite DL. replace (s + k_tmo k <=? k_now k) with true by lia. rewrite finish_eq, E, fail_value_eq.
  cbn [k_value k_last k_run k_lock k_callers]. split; [reflexivity|]. split; [reflexivity|]. split; [|split; [|split]].
  - split; [reflexivity|]. split; [reflexivity|]. apply end_callers_clean; reflexivity.
  - rewrite invocations_eq. cbn [k_run k_log app map fin]. left. rewrite Hn. reflexivity.
  - intros c b' N. unfold end_callers. rewrite nth_error_map, N. reflexivity.
  - intros dt. destruct (dt <=? 0) eqn:D; [reflexivity|]. cbn [k_now]. lia.
Qed.

(* check_timeout <= 0: wrapper.start raises at once, the function is not even called *)
Theorem check_zero_timeout k :
  kinv k -> cached k = false -> k_lock k = true -> k_tmo k <= 0 ->
  let k' := kstep k KCall in
  k_value k' = SFalse /\ k_log k' = k_log k /\ k_run k' = None /\
  k_callers k' = k_callers k ++ [CRet SFalse (k_now k)].
Proof.
  intros I C L T. cbn [kstep]. rewrite k_call_eq, C, L. cbn [negb].
  replace (k_tmo k <=? 0) with true by lia. repeat split.
Qed.

(* a cancelled run leaves no trace but its log entry: value and _last_check as before, latch released *)
Theorem check_abort_invisible k :
  kinv k -> runner_state k = Some true ->
  let k' := kstep k KDeliver in
  k_value k' = k_value k /\ k_last k' = k_last k /\ k_notes k' = k_notes k /\ run_over k'.
Proof.
  intros I RS. cbn [kstep]. rewrite RS, abort_eq.
  destruct (runner_state_some k _ RS) as [s [dl [p E]]]. rewrite E.
  cbn [k_value k_last k_run k_lock k_callers k_notes]. repeat split; try reflexivity; apply end_callers_clean; reflexivity.
Qed.

(* no sticky error: whatever happened before, once the cached result has expired and no run is in flight,
   a run that returns True in time makes the check pass again *)
Theorem check_recovers k :
  kinv k -> cached k = false -> k_lock k = true -> 0 < k_tmo k ->
  let k' := krun k [KCall; KFuncEnd FTrue] in
  k_value k' = STrue /\ k_callers k' = end_callers (CRet STrue (k_now k)) (k_now k) (k_callers k) ++ [CRet STrue (k_now k)] /\
  run_over k'.
Proof.
  intros I C L T. cbn [krun fold_left kstep]. rewrite k_call_eq, C, L. cbn [negb].
  replace (k_tmo k <=? 0) with false by lia.
  assert (R : k_run k = None) by (apply (i_lock k I); exact L).
  pose proof (i_runner k I) as CR. rewrite R in CR.
  assert (RS : forall k2, k_run k2 = Some (k_now k, Some (k_now k + k_tmo k), k_value k) ->
                          k_callers k2 = k_callers k ++ [CRun false] -> runner_state k2 = Some false).
  { intros k2 E1 E2. unfold runner_state. rewrite E1, E2. rewrite fold_right_app. cbn [fold_right].
    clear - CR. induction (k_callers k) as [|x r IH]; [reflexivity|]. cbn [fold_right].
    unfold count_run in CR. cbn [filter] in CR. destruct x; cbn [is_run] in CR; try discriminate; apply IH, CR. }
  match goal with |- context [runner_state ?x] => rewrite (RS x eq_refl eq_refl) end. rewrite finish_eq. cbn [k_run k_now k_value k_callers k_lock].
  split; [reflexivity|]. split.
  - unfold end_callers. rewrite map_app. reflexivity.
  - split; [reflexivity|]. split; [reflexivity|]. apply end_callers_clean; reflexivity.
Qed.

(* the value changes only together with a notification of the watchers (this is the OSet of part 2) *)
Theorem check_change_notifies k op :
  kinv k -> k_value (kstep k op) <> k_value k ->
  k_notes (kstep k op) = (k_now k, k_value (kstep k op)) :: k_notes k.
Proof.
  intros I H. destruct op as [|c|r| |c| |dt]; cbn [kstep] in *.
  - rewrite k_call_eq in *. unfold add_caller in *. destruct (cached k); [cbn in H; congruence|].
    destruct (negb (k_lock k)); [cbn in H; congruence|]. destruct (k_tmo k <=? 0); [|cbn in H; congruence].
    cbn [k_value k_notes] in *. rewrite note_eq. destruct (st_eqb SFalse (k_value k)) eqn:E; [|reflexivity].
    apply st_eqb_eq in E. congruence.
  - cbn in H. congruence.
  - destruct (runner_state k) as [[|]|] eqn:RS; try congruence.
    destruct (runner_state_some k _ RS) as [s [dl [p E]]]. rewrite finish_eq, E in *.
    destruct (i_run k I s dl p E) as [_ [_ [_ [Ep _]]]]. subst p.
    cbn [k_value k_notes] in *. rewrite note_eq.
    destruct (st_eqb (value_of_fres r) (k_value k)) eqn:X; [|reflexivity]. apply st_eqb_eq in X. congruence.
  - destruct (runner_state k) as [b|] eqn:RS; [|congruence]. destruct (deadline_of k); [|congruence].
    destruct (z <=? k_now k); [|congruence].
    destruct (runner_state_some k _ RS) as [s [dl [p E]]]. rewrite finish_eq, E in *.
    destruct (i_run k I s dl p E) as [_ [_ [_ [Ep _]]]]. subst p.
    cbn [k_value k_notes] in *. rewrite note_eq.
    destruct (st_eqb fail_value (k_value k)) eqn:X; [|reflexivity]. apply st_eqb_eq in X. congruence.
  - cbn in H. congruence.
  - destruct (runner_state k) as [[|]|] eqn:RS; try congruence.
    destruct (runner_state_some k _ RS) as [s [dl [p E]]]. rewrite abort_eq, E in *. cbn in H. congruence.
  - destruct (dt <=? 0); cbn in H; congruence.
Qed.

(* ------------------------------------------------------------------------------------------------ *)
(** * two full-strength statements that are FALSE of the faithful model (findings) *)

(* strict reading of "at most once per TTL": ANY two runs are check_ttl apart *)
Fixpoint strict_spaced (ttl : Z) (l : list (Z * option Z * option how)) : Prop :=
  match l with
  | [] => True
  | x :: r => (forall y e, In y r -> snd (fst y) = Some e -> e + ttl <= fst (fst x)) /\ strict_spaced ttl r
  end.

(* a caller that is cancelled while it runs the function takes the shared run down with it; nothing is
   cached, so the very next call runs the function again: two runs 8 ticks apart with check_ttl = 240 *)
Definition rerun_witness : list kop := [KCall; KAdvance 8; KCancel 0; KDeliver; KAdvance 8; KCall].

Lemma once_per_ttl_strict_refuted :
  exists ttl tmo ops, 0 < ttl /\ 0 < tmo /\ ~ strict_spaced ttl (invocations (krun (kinit ttl tmo 0) ops)).
Proof.
  exists 240, 80, rerun_witness. split; [lia|]. split; [lia|].
  assert (E : invocations (krun (kinit 240 80 0) rerun_witness) = [(16, None, None); (0, Some 8, Some HAborted)])
    by (vm_compute; reflexivity).
  rewrite E. intros [H _]. specialize (H (0, Some 8, Some HAborted) 8 (or_introl eq_refl) eq_refl).
  cbn in H. lia.
Qed.

(* "a caller whose task was cancelled before it finished never returns a value": false when the
   cancellation is requested in the instant the deadline timer fires (Wrapper.__exit__ replaces the
   CancelledError by the TimeoutError, which __check__ swallows) *)
Definition lost_cancel_witness : list kop := [KCall; KAdvance 80; KCancel 0; KTimeout].

Lemma cancel_reaches_caller_refuted :
  exists ttl tmo ops1 c ops2,
    nth_error (k_callers (krun (kinit ttl tmo 0) ops1)) c = Some (CRun false) /\
    nth_error (k_callers (krun (kinit ttl tmo 0) (ops1 ++ [KCancel c]))) c = Some (CRun true) /\
    nth_error (k_callers (krun (kinit ttl tmo 0) (ops1 ++ KCancel c :: ops2))) c = Some (CRet SFalse 80).
Proof.
  exists 240, 80, [KCall; KAdvance 80], 0%nat, [KTimeout]. repeat split; vm_compute; reflexivity.
Qed.

Lemma runner_flag l c b :
  count_run l = 1%nat -> nth_error l c = Some (CRun b) ->
  fold_right (fun x acc => match x with CRun b' => Some b' | _ => acc end) None l = Some b.
Proof.
  unfold count_run. revert c. induction l as [|x r IH]; intros [|c] C N; cbn in N; try discriminate.
  - injection N as ->. reflexivity.
  - cbn [filter] in C. cbn [fold_right]. destruct x; cbn [is_run] in C; try (apply (IH c C N)).
    cbn [length] in C. exfalso. assert (Z0 : count_run r = 0%nat) by (unfold count_run; lia).
    eapply count_run_zero_none; [exact Z0|]. eapply nth_error_In, N.
Qed.

(* ... true whenever the cancelled caller's task gets to run before the deadline: then the only step
   that touches it is the delivery of the CancelledError *)
Lemma cancel_reaches_caller_partial k c op :
  kinv k -> nth_error (k_callers k) c = Some (CRun true) ->
  (forall s dl p, k_run k = Some (s, dl, p) -> k_now k < s + k_tmo k) ->
  nth_error (k_callers (kstep k op)) c = Some (CRun true) \/
  nth_error (k_callers (kstep k op)) c = Some (CCancelled (k_now k)).
Proof.
  intros I N Hd.
  assert (R : k_run k <> None).
  { intro R. pose proof (i_runner k I) as C. rewrite R in C.
    eapply count_run_zero_none; [exact C|]. eapply nth_error_In, N. }
  destruct (k_run k) as [[[s dl] p]|] eqn:E; [|congruence]. clear R.
  assert (RS : runner_state k = Some true).
  { unfold runner_state. rewrite E. apply (runner_flag _ c); [|exact N].
    pose proof (i_runner k I) as C. rewrite E in C. exact C. }
  assert (L : k_lock k = false).
  { destruct (k_lock k) eqn:L; [|reflexivity]. apply (i_lock k I) in L. congruence. }
  assert (Hlen : (c < length (k_callers k))%nat) by (apply nth_error_Some; congruence).
  destruct op as [|c'|r| |c'| |dt]; cbn [kstep].
  - left. rewrite k_call_eq. unfold add_caller. destruct (cached k); cbn [k_callers].
    + rewrite nth_error_app1 by exact Hlen. exact N.
    + rewrite L. cbn [negb k_callers]. rewrite nth_error_app1 by exact Hlen. exact N.
  - left. cbn [k_callers]. rewrite nth_error_upd_nth, N. destruct (Nat.eqb c c'); reflexivity.
  - left. rewrite RS. exact N.
  - left. rewrite RS, (deadline_inv k s dl p I E). specialize (Hd s dl p eq_refl).
    replace (s + k_tmo k <=? k_now k) with false by lia. exact N.
  - left. cbn [k_callers]. rewrite nth_error_upd_nth, N. destruct (Nat.eqb c c'); reflexivity.
  - right. rewrite RS, abort_eq, E. cbn [k_callers]. unfold end_callers. rewrite nth_error_map, N. reflexivity.
  - left. destruct (dt <=? 0); [exact N|]. cbn [k_callers]. exact N.
Qed.

(* ------------------------------------------------------------------------------------------------ *)
(** * the same, stated for reachable states *)

Definition kreach (k : sck) : Prop := exists ttl tmo t0 ops, k = krun (kinit ttl tmo t0) ops.

Lemma kreach_inv k : kreach k -> kinv k.
Proof. intros [ttl [tmo [t0 [ops ->]]]]. apply krun_inv, kinit_inv. Qed.

Lemma r_failure_is_false k r :
  kreach k -> runner_state k = Some false -> r = FRaise \/ r = FNonBool ->
  let k' := kstep k (KFuncEnd r) in
  k_value k' = SFalse /\ k_last k' = Some (k_now k) /\ run_over k' /\
  (forall c b, nth_error (k_callers k) c = Some (CRun b) -> nth_error (k_callers k') c = Some (CRet SFalse (k_now k))).
Proof. intro H. apply check_failure_is_false, kreach_inv, H. Qed.

Lemma r_timeout_is_false k b s p :
  kreach k -> runner_state k = Some b -> k_run k = Some (s, Some (s + k_tmo k), p) -> k_now k = s + k_tmo k ->
  let k' := kstep k KTimeout in
  k_value k' = SFalse /\ k_last k' = Some (k_now k) /\ run_over k' /\
  In (s, Some (s + k_tmo k), Some HTimeout) (invocations k') /\
  (forall c b', nth_error (k_callers k) c = Some (CRun b') -> nth_error (k_callers k') c = Some (CRet SFalse (k_now k))) /\
  (forall dt, k_now (kstep k (KAdvance dt)) = k_now k).
Proof. intro H. apply check_timeout_is_false, kreach_inv, H. Qed.

Lemma r_zero_timeout k :
  kreach k -> cached k = false -> k_lock k = true -> k_tmo k <= 0 ->
  let k' := kstep k KCall in
  k_value k' = SFalse /\ k_log k' = k_log k /\ k_run k' = None /\
  k_callers k' = k_callers k ++ [CRet SFalse (k_now k)].
Proof. intro H. apply check_zero_timeout, kreach_inv, H. Qed.

Lemma r_abort_invisible k :
  kreach k -> runner_state k = Some true ->
  let k' := kstep k KDeliver in
  k_value k' = k_value k /\ k_last k' = k_last k /\ k_notes k' = k_notes k /\ run_over k'.
Proof. intro H. apply check_abort_invisible, kreach_inv, H. Qed.

Lemma r_recovers k :
  kreach k -> cached k = false -> k_lock k = true -> 0 < k_tmo k ->
  let k' := krun k [KCall; KFuncEnd FTrue] in
  k_value k' = STrue /\ k_callers k' = end_callers (CRet STrue (k_now k)) (k_now k) (k_callers k) ++ [CRet STrue (k_now k)] /\
  run_over k'.
Proof. intro H. apply check_recovers, kreach_inv, H. Qed.

Lemma r_change_notifies k op :
  kreach k -> k_value (kstep k op) <> k_value k ->
  k_notes (kstep k op) = (k_now k, k_value (kstep k op)) :: k_notes k.
Proof. intro H. apply check_change_notifies, kreach_inv, H. Qed.

Lemma r_cancel_partial k c op :
  kreach k -> nth_error (k_callers k) c = Some (CRun true) ->
  (forall s dl p, k_run k = Some (s, dl, p) -> k_now k < s + k_tmo k) ->
  nth_error (k_callers (kstep k op)) c = Some (CRun true) \/
  nth_error (k_callers (kstep k op)) c = Some (CCancelled (k_now k)).
Proof. intro H. apply cancel_reaches_caller_partial, kreach_inv, H. Qed.
