(* Proofs for Props/C02.v.
   Part A  the abstraction alpha on ALL strings: dict(headers), :status, content-type, grpc-status
           (through the int() grammar of Model/PyInt.v and the generated Status table).
   Part B  the bounded abstract domain closed by vm_compute + forallb: the table of the statement cell
           by cell, soundness of success, the refuted cells (D2c..D2g) with their witnesses.
   Part C  for ALL scripts, kinds and bodies (induction, no bound): a call never hangs once the response
           was effectively cut or carried trailers.
   Axiom-free; every lemma used by Props/C02.v is closed under the global context. *)
From Coq Require Import ZArith List Bool Lia ZifyBool String.
From GV Require Import Lib.Str Gen.Facts Gen.FactsC02 Model.Base64 Model.Metadata Model.PyInt
  Model.ClientCall.
Import ListNotations.
Open Scope Z_scope.
#[local] Ltac Zify.zify_post_hook ::= Z.div_mod_to_equations.

(* ================================================================================================ *)
(** * Part A: the abstraction on all strings *)

Lemma zlist_eqb_refl a : zlist_eqb a a = true.
Proof. induction a as [|x a IH]; cbn [zlist_eqb]; [reflexivity|]. rewrite Z.eqb_refl, IH. reflexivity. Qed.

Lemma zlist_eqb_true a : forall b, zlist_eqb a b = true -> a = b.
Proof.
  induction a as [|x a IH]; intros [|y b] H; cbn [zlist_eqb] in H; try discriminate; [reflexivity|].
  apply andb_true_iff in H as [H1 H2]. apply Z.eqb_eq in H1. apply IH in H2. subst. reflexivity.
Qed.

Lemma zlist_eqb_iff a b : zlist_eqb a b = true <-> a = b.
Proof. split; [apply zlist_eqb_true|]. intros ->. apply zlist_eqb_refl. Qed.

(* ---- dict(headers).get ---- *)
Lemma dict_get_app_last k v hs : dict_get k (hs ++ [(k, v)]) = Some v.
Proof.
  induction hs as [|[k' v'] r IH]; cbn [dict_get app].
  - rewrite zlist_eqb_refl. reflexivity.
  - rewrite IH. reflexivity.
Qed.

Lemma dict_get_some_in k hs v : dict_get k hs = Some v -> In (k, v) hs.
Proof.
  induction hs as [|[k' v'] r IH]; cbn [dict_get]; [discriminate|].
  destruct (dict_get k r) as [w|] eqn:E.
  - intros H. injection H as <-. right. apply IH. reflexivity.
  - destruct (zlist_eqb k k') eqn:Ek; [|discriminate].
    intros H. injection H as <-. apply zlist_eqb_true in Ek. subst. left. reflexivity.
Qed.

Lemma dict_get_none_iff k hs : dict_get k hs = None <-> forall v, ~ In (k, v) hs.
Proof.
  induction hs as [|[k' v'] r IH]; cbn [dict_get].
  - split; [intros _ v []|reflexivity].
  - destruct (dict_get k r) as [w|] eqn:E.
    + split; [discriminate|]. intros H. exfalso. apply (H w). right.
      apply dict_get_some_in. exact E.
    + destruct (zlist_eqb k k') eqn:Ek.
      * split; [discriminate|]. intros H. exfalso. apply zlist_eqb_true in Ek. subst.
        apply (H v'). left. reflexivity.
      * split; [|reflexivity]. intros _ v [Hin|Hin].
        -- injection Hin as -> ->. rewrite zlist_eqb_refl in Ek. discriminate.
        -- destruct IH as [IH1 _]. apply (IH1 eq_refl v Hin).
Qed.

(* the last pair with that name wins *)
Lemma dict_get_last_wins k v hs1 hs2 :
  (forall w, ~ In (k, w) hs2) -> dict_get k (hs1 ++ (k, v) :: hs2) = Some v.
Proof.
  intros Hno. induction hs1 as [|[k' v'] r IH]; cbn [dict_get app].
  - apply dict_get_none_iff in Hno. rewrite Hno, zlist_eqb_refl. reflexivity.
  - rewrite IH. reflexivity.
Qed.

(* ---- Status(int(..)) ---- *)
Lemma status_values : map snd status_members = [0;1;2;3;4;5;6;7;8;9;10;11;12;13;14;15;16].
Proof. vm_compute. reflexivity. Qed.

Lemma status_member_range k : status_member k = true <-> 0 <= k <= 16.
Proof.
  unfold status_member. rewrite existsb_exists. split.
  - intros [m [Hin Hk]]. apply Z.eqb_eq in Hk. apply (in_map snd) in Hin.
    rewrite status_values in Hin. rewrite Hk in Hin. cbn [In] in Hin. lia.
  - intros Hr.
    assert (Hin : In k (map snd status_members)).
    { rewrite status_values. cbn [In]. lia. }
    apply in_map_iff in Hin as [m [Hm Hin]]. exists m. split; [exact Hin|]. apply Z.eqb_eq. exact Hm.
Qed.

Lemma grpc_status_valid_iff v k :
  grpc_status_of_value v = GsvValid k <-> py_int v = Some k /\ 0 <= k <= 16.
Proof.
  unfold grpc_status_of_value. destruct (py_int v) as [n|].
  - destruct (status_member n) eqn:E.
    + apply status_member_range in E. split.
      * intros H. injection H as <-. split; [reflexivity|exact E].
      * intros [H _]. injection H as <-. reflexivity.
    + split; [discriminate|]. intros [H Hr]. injection H as <-.
      apply status_member_range in Hr. rewrite Hr in E. discriminate.
  - split; [discriminate|]. intros [H _]. discriminate.
Qed.

Lemma grpc_status_invalid_iff v :
  grpc_status_of_value v = GsvInvalid <->
  py_int v = None \/ exists k, py_int v = Some k /\ ~ (0 <= k <= 16).
Proof.
  unfold grpc_status_of_value. destruct (py_int v) as [n|].
  - destruct (status_member n) eqn:E.
    + split; [discriminate|]. intros [H|[k [H Hr]]]; [discriminate|]. injection H as <-.
      apply status_member_range in E. contradiction.
    + split; [|reflexivity]. intros _. right. exists n. split; [reflexivity|].
      intros Hr. apply status_member_range in Hr. rewrite Hr in E. discriminate.
  - split; [|reflexivity]. intros _. left. reflexivity.
Qed.

Lemma grpc_status_never_absent v : grpc_status_of_value v <> GsvAbsent.
Proof. unfold grpc_status_of_value. destruct (py_int v); [destruct (status_member z)|]; discriminate. Qed.

(* the canonical spelling a conforming server sends *)
Lemma grpc_status_canonical k : 0 <= k <= 16 -> grpc_status_of_value (py_str_nat k) = GsvValid k.
Proof.
  intros H.
  assert (Hk : k = 0 \/ k = 1 \/ k = 2 \/ k = 3 \/ k = 4 \/ k = 5 \/ k = 6 \/ k = 7 \/ k = 8 \/ k = 9 \/
               k = 10 \/ k = 11 \/ k = 12 \/ k = 13 \/ k = 14 \/ k = 15 \/ k = 16) by lia.
  repeat (destruct Hk as [-> | Hk]; [vm_compute; reflexivity|]). subst. vm_compute. reflexivity.
Qed.

(* the grpc-status class of a header block *)
Lemma alpha_gs_absent csub hs : hi_gs (alpha_h csub hs) = GsAbsent <-> dict_get K_GS hs = None.
Proof.
  cbn [alpha_h hi_gs]. unfold grpc_status_val. destruct (dict_get K_GS hs) as [v|].
  - split; [|discriminate]. intros H. exfalso.
    destruct (grpc_status_of_value v) as [|k|] eqn:E; cbn [gs_class_of] in H.
    + exact (grpc_status_never_absent v E).
    + destruct (k =? 0); discriminate.
    + discriminate.
  - split; reflexivity.
Qed.

Lemma alpha_gs_ok csub hs :
  hi_gs (alpha_h csub hs) = GsOk <-> exists v, dict_get K_GS hs = Some v /\ py_int v = Some 0.
Proof.
  cbn [alpha_h hi_gs]. unfold grpc_status_val. destruct (dict_get K_GS hs) as [v|].
  - destruct (grpc_status_of_value v) as [|k|] eqn:E; cbn [gs_class_of].
    + exfalso. exact (grpc_status_never_absent v E).
    + apply grpc_status_valid_iff in E as [E Hr]. destruct (k =? 0) eqn:Ek.
      * apply Z.eqb_eq in Ek. subst. split; [|reflexivity]. intros _. exists v. split; [reflexivity|exact E].
      * split; [discriminate|]. intros [w [Hw Hi]]. injection Hw as <-. rewrite E in Hi.
        injection Hi as ->. rewrite Z.eqb_refl in Ek. discriminate.
    + split; [discriminate|]. intros [w [Hw Hi]]. injection Hw as <-.
      apply grpc_status_invalid_iff in E as [E|[k [E Hr]]]; rewrite E in Hi; [discriminate|].
      injection Hi as ->. lia.
  - split; [discriminate|]. intros [w [Hw _]]. discriminate.
Qed.

Lemma alpha_gs_err csub hs :
  hi_gs (alpha_h csub hs) = GsErr <->
  exists v k, dict_get K_GS hs = Some v /\ py_int v = Some k /\ 1 <= k <= 16.
Proof.
  cbn [alpha_h hi_gs]. unfold grpc_status_val. destruct (dict_get K_GS hs) as [v|].
  - destruct (grpc_status_of_value v) as [|k|] eqn:E; cbn [gs_class_of].
    + exfalso. exact (grpc_status_never_absent v E).
    + apply grpc_status_valid_iff in E as [E Hr]. destruct (k =? 0) eqn:Ek.
      * apply Z.eqb_eq in Ek. subst. split; [discriminate|]. intros [w [n [Hw [Hi Hn]]]].
        injection Hw as <-. rewrite E in Hi. injection Hi as <-. lia.
      * apply Z.eqb_neq in Ek. split; [|reflexivity]. intros _. exists v, k.
        split; [reflexivity|]. split; [exact E|lia].
    + split; [discriminate|]. intros [w [n [Hw [Hi Hn]]]]. injection Hw as <-.
      apply grpc_status_invalid_iff in E as [E|[k [E Hr]]]; rewrite E in Hi; [discriminate|].
      injection Hi as ->. lia.
  - split; [discriminate|]. intros [w [n [Hw _]]]. discriminate.
Qed.

Lemma alpha_gs_invalid csub hs :
  hi_gs (alpha_h csub hs) = GsInvalid <->
  exists v, dict_get K_GS hs = Some v /\
            (py_int v = None \/ exists k, py_int v = Some k /\ ~ (0 <= k <= 16)).
Proof.
  cbn [alpha_h hi_gs]. unfold grpc_status_val. destruct (dict_get K_GS hs) as [v|].
  - destruct (grpc_status_of_value v) as [|k|] eqn:E; cbn [gs_class_of].
    + exfalso. exact (grpc_status_never_absent v E).
    + apply grpc_status_valid_iff in E as [E Hr].
      split.
      * destruct (k =? 0); discriminate.
      * intros [w [Hw [Hi|[n [Hi Hn]]]]]; injection Hw as <-; rewrite E in Hi; [discriminate|].
        injection Hi as <-. contradiction.
    + split; [|reflexivity]. intros _. exists v. split; [reflexivity|].
      apply grpc_status_invalid_iff. exact E.
  - split; [discriminate|]. intros [w [Hw _]]. discriminate.
Qed.

(* trailers: the same classification *)
Lemma alpha_t_gs csub ts : ti_gs (alpha_t ts) = hi_gs (alpha_h csub ts).
Proof. reflexivity. Qed.

(* ---- :status ---- *)
Lemma alpha_status_200 csub hs :
  hi_st (alpha_h csub hs) = S200 <-> dict_get K_STATUS hs = Some h2_ok.
Proof.
  cbn [alpha_h hi_st]. unfold http_status_error. destruct (dict_get K_STATUS hs) as [v|].
  - destruct (zlist_eqb v h2_ok) eqn:E.
    + apply zlist_eqb_true in E. subst. split; reflexivity.
    + split; [discriminate|]. intros H. injection H as ->. rewrite zlist_eqb_refl in E. discriminate.
  - split; discriminate.
Qed.

(* the status raised for a non-200 response: the table entry, else the default; a missing :status
   counts as non-200 *)
Lemma http_status_error_spec hs st :
  http_status_error hs = Some st <->
  (exists v, dict_get K_STATUS hs = Some v /\ v <> h2_ok /\
             st = match assoc_str v h2_to_grpc_status_map with Some s => s | None => non200_default_status end)
  \/ (dict_get K_STATUS hs = None /\ st = non200_default_status).
Proof.
  unfold http_status_error. destruct (dict_get K_STATUS hs) as [v|].
  - destruct (zlist_eqb v h2_ok) eqn:E.
    + apply zlist_eqb_true in E. subst. split; [discriminate|].
      intros [[w [Hw [Hne _]]]|[Hn _]]; [|discriminate]. injection Hw as <-. contradiction.
    + split.
      * intros H. injection H as <-. left. exists v. split; [reflexivity|]. split; [|reflexivity].
        intros ->. rewrite zlist_eqb_refl in E. discriminate.
      * intros [[w [Hw [_ Hst]]]|[Hn _]]; [|discriminate]. injection Hw as <-. subst. reflexivity.
  - split.
    + intros H. injection H as <-. right. split; reflexivity.
    + intros [[w [Hw _]]|[_ ->]]; [discriminate|reflexivity].
Qed.

(* the generated table is the one of the gRPC specification (doc/http-grpc-status-mapping.md) *)
Lemma http_table_is_spec :
  h2_ok = s2z "200" /\ non200_default_status = 2 /\
  forall v, assoc_str v h2_to_grpc_status_map =
            assoc_str v [(s2z "400", 13); (s2z "401", 16); (s2z "403", 7); (s2z "404", 12);
                         (s2z "502", 14); (s2z "503", 14); (s2z "504", 14); (s2z "429", 14)].
Proof. split; [vm_compute; reflexivity|]. split; [vm_compute; reflexivity|]. intros v. reflexivity. Qed.

(* ---- content-type ---- *)
Definition no_plus (s : list Z) : Prop := ~ In 43 s.

Lemma partition_plus_spec s :
  match partition_plus s with
  | (a, None) => s = a /\ no_plus a
  | (a, Some b) => s = a ++ 43 :: b /\ no_plus a
  end.
Proof.
  induction s as [|c r IH]; cbn [partition_plus].
  - split; [reflexivity|]. intros [].
  - destruct (c =? 43) eqn:E.
    + apply Z.eqb_eq in E. subst. split; [reflexivity|]. intros [].
    + apply Z.eqb_neq in E. destruct (partition_plus r) as [a [b|]].
      * destruct IH as [-> Hn]. split; [reflexivity|]. intros [H|H]; [congruence|]. exact (Hn H).
      * destruct IH as [-> Hn]. split; [reflexivity|]. intros [H|H]; [congruence|]. exact (Hn H).
Qed.

Lemma partition_plus_no_plus a : no_plus a -> partition_plus a = (a, None).
Proof.
  induction a as [|c r IH]; intros Hn; cbn [partition_plus]; [reflexivity|].
  destruct (c =? 43) eqn:E.
  - apply Z.eqb_eq in E. subst. exfalso. apply Hn. left. reflexivity.
  - rewrite IH; [reflexivity|]. intros H. apply Hn. right. exact H.
Qed.

Lemma partition_plus_app a b : no_plus a -> partition_plus (a ++ 43 :: b) = (a, Some b).
Proof.
  induction a as [|c r IH]; intros Hn; cbn [partition_plus app]; [reflexivity|].
  destruct (c =? 43) eqn:E.
  - apply Z.eqb_eq in E. subst. exfalso. apply Hn. left. reflexivity.
  - rewrite IH; [reflexivity|]. intros H. apply Hn. right. exact H.
Qed.

Lemma grpc_ct_no_plus : no_plus grpc_content_type.
Proof. unfold no_plus. vm_compute. intuition discriminate. Qed.

(* the value of the content-type header the client accepts when its codec's subtype is "proto":
   exactly application/grpc, application/grpc+ and application/grpc+proto *)
Definition ct_value_ok (csub v : list Z) : bool :=
  let '(base, sub) := partition_plus v in
  let sub1 := match sub with Some (x :: r) => x :: r | _ => proto_content_subtype end in
  zlist_eqb base grpc_content_type && zlist_eqb sub1 csub.

Lemma content_type_class_ok csub hs :
  content_type_class csub hs = CtOk <-> exists v, dict_get K_CT hs = Some v /\ ct_value_ok csub v = true.
Proof.
  unfold content_type_class, ct_value_ok. destruct (dict_get K_CT hs) as [v|].
  - destruct (partition_plus v) as [base sub] eqn:Ep.
    destruct (zlist_eqb base grpc_content_type && _) eqn:E.
    + split; [|reflexivity]. intros _. exists v. split; [reflexivity|]. rewrite Ep. exact E.
    + split; [discriminate|]. intros [w [Hw Hok]]. injection Hw as <-. rewrite Ep, E in Hok. discriminate.
  - split; [discriminate|]. intros [w [Hw _]]. discriminate.
Qed.

Lemma content_type_class_missing csub hs :
  content_type_class csub hs = CtMissing <-> dict_get K_CT hs = None.
Proof.
  unfold content_type_class. destruct (dict_get K_CT hs) as [v|]; [|split; reflexivity].
  destruct (partition_plus v) as [base sub]. destruct (_ && _); split; discriminate.
Qed.

Lemma ct_value_ok_proto v :
  ct_value_ok proto_content_subtype v = true <->
  v = grpc_content_type \/ v = grpc_content_type ++ [43] \/
  v = grpc_content_type ++ 43 :: proto_content_subtype.
Proof.
  unfold ct_value_ok. pose proof (partition_plus_spec v) as Hs.
  destruct (partition_plus v) as [base [sub|]].
  - destruct Hs as [-> Hn]. split.
    + intros H. apply andb_true_iff in H as [H1 H2]. apply zlist_eqb_true in H1. subst base.
      destruct sub as [|x r].
      * right. left. reflexivity.
      * apply zlist_eqb_true in H2. rewrite H2. right. right. reflexivity.
    + intros [H|[H|H]].
      * exfalso. apply grpc_ct_no_plus. rewrite <- H. apply in_or_app. right. left. reflexivity.
      * assert (Hp := partition_plus_app grpc_content_type [] grpc_ct_no_plus).
        assert (Hq := partition_plus_app base sub Hn). rewrite H in Hq. rewrite Hp in Hq.
        injection Hq as <- <-. rewrite !zlist_eqb_refl. reflexivity.
      * assert (Hp := partition_plus_app grpc_content_type proto_content_subtype grpc_ct_no_plus).
        assert (Hq := partition_plus_app base sub Hn). rewrite H in Hq. rewrite Hp in Hq.
        injection Hq as <- <-. vm_compute. reflexivity.
  - destruct Hs as [-> Hn]. split.
    + intros H. apply andb_true_iff in H as [H1 _]. apply zlist_eqb_true in H1. left. exact H1.
    + intros [H|[H|H]].
      * subst. rewrite !zlist_eqb_refl. reflexivity.
      * exfalso. apply Hn. rewrite H. apply in_or_app. right. left. reflexivity.
      * exfalso. apply Hn. rewrite H. apply in_or_app. right. left. reflexivity.
Qed.

(* for EVERY codec subtype: the accepted values are application/grpc+<subtype> (subtype not empty) and,
   when the subtype is the default one ("proto"), also application/grpc and application/grpc+ *)
Lemma ct_value_ok_all_subtypes csub v :
  ct_value_ok csub v = true <->
  (csub = proto_content_subtype /\ (v = grpc_content_type \/ v = grpc_content_type ++ [43]))
  \/ (csub <> [] /\ v = grpc_content_type ++ 43 :: csub).
Proof.
  unfold ct_value_ok. pose proof (partition_plus_spec v) as Hs.
  destruct (partition_plus v) as [base [sub|]].
  - destruct Hs as [-> Hn]. split.
    + intros H. apply andb_true_iff in H as [H1 H2]. apply zlist_eqb_true in H1. subst base.
      destruct sub as [|x r].
      * apply zlist_eqb_true in H2. left. split; [symmetry; exact H2|]. right. reflexivity.
      * apply zlist_eqb_true in H2. right. split; [rewrite <- H2; discriminate|]. rewrite H2. reflexivity.
    + intros [[Hc [H|H]]|[Hc H]].
      * exfalso. apply grpc_ct_no_plus. rewrite <- H. apply in_or_app. right. left. reflexivity.
      * assert (Hp := partition_plus_app grpc_content_type [] grpc_ct_no_plus).
        assert (Hq := partition_plus_app base sub Hn). rewrite H in Hq. rewrite Hp in Hq.
        injection Hq as <- <-. subst csub. rewrite !zlist_eqb_refl. reflexivity.
      * assert (Hp := partition_plus_app grpc_content_type csub grpc_ct_no_plus).
        assert (Hq := partition_plus_app base sub Hn). rewrite H in Hq. rewrite Hp in Hq.
        injection Hq as <- <-. destruct csub as [|x r]; [contradiction|]. rewrite !zlist_eqb_refl. reflexivity.
  - destruct Hs as [-> Hn]. split.
    + intros H. apply andb_true_iff in H as [H1 H2]. apply zlist_eqb_true in H1. apply zlist_eqb_true in H2.
      left. split; [symmetry; exact H2|]. left. exact H1.
    + intros [[Hc [H|H]]|[Hc H]].
      * subst. rewrite !zlist_eqb_refl. reflexivity.
      * exfalso. apply Hn. rewrite H. apply in_or_app. right. left. reflexivity.
      * exfalso. apply Hn. rewrite H. apply in_or_app. right. left. reflexivity.
Qed.

(* ---- what the source says (Gen.FactsC02 is regenerated from /repo on every run) ---- *)
Lemma source_facts :
  grpc_content_type = s2z "application/grpc" /\ proto_content_subtype = s2z "proto" /\
  non200_default_status = 2 /\ content_type_status = 2 /\ grpc_status_error_status = 2 /\
  (* recv_initial_metadata consults :status, then content-type, then grpc-status (+ message, details) *)
  ri_keys = map s2z [":status"; "content-type"; "grpc-status"; "grpc-message"; "grpc-status-details-bin"]%string /\
  rt_keys = map s2z ["grpc-status"; "grpc-message"; "grpc-status-details-bin"]%string /\
  (* context exit: both implicit receives, only StreamTerminatedError is upgraded, from :status then grpc-status *)
  exit_events = map s2z
    ["call recv_initial_metadata"; "call recv_trailing_metadata"; "isinstance StreamTerminatedError";
     "key :status"; "key grpc-status"; "key grpc-message"; "key grpc-status-details-bin"]%string /\
  rt_caught = map s2z ["Exception"; "ValueError"]%string /\
  exit_caught = map s2z ["Exception"; "ValueError"]%string /\
  call_uu = map s2z ["open"; "send_message"; "recv_message"; "assert-not-none"]%string /\
  call_us = map s2z ["open"; "send_message"; "aiter"]%string /\
  call_su = map s2z ["open"; "send_message"; "send_request"; "recv_message"; "assert-not-none"]%string /\
  call_ss = map s2z ["open"; "send_message"; "send_request"; "aiter"]%string.
Proof. repeat split; vm_compute; reflexivity. Qed.

(* ================================================================================================ *)
(** * Part B: the bounded abstract domain, closed by computation *)

Definition forall_scripts (maxd : nat) (trs : list trigger) (P : list batch -> bool) : bool :=
  forallb (fun es => forallb (fun c => forallb P (timings trs es c)) all_cuts) (all_layouts maxd).
Definition exists_scripts (maxd : nat) (trs : list trigger) (P : list batch -> bool) : bool :=
  existsb (fun es => existsb (fun c => existsb P (timings trs es c)) all_cuts) (all_layouts maxd).

Lemma forall_scripts_sound maxd trs P :
  forall_scripts maxd trs P = true -> forall bs, In bs (all_scripts maxd trs) -> P bs = true.
Proof.
  unfold forall_scripts, all_scripts. intros H bs Hin.
  apply in_flat_map in Hin as [es [Hes Hin]]. apply in_flat_map in Hin as [c [Hc Hin]].
  rewrite forallb_forall in H. specialize (H es Hes).
  rewrite forallb_forall in H. specialize (H c Hc).
  rewrite forallb_forall in H. exact (H bs Hin).
Qed.

Lemma exists_scripts_sound maxd trs P :
  exists_scripts maxd trs P = true -> exists bs, In bs (all_scripts maxd trs) /\ P bs = true.
Proof.
  unfold exists_scripts, all_scripts. intros H.
  apply existsb_exists in H as [es [Hes H]]. apply existsb_exists in H as [c [Hc H]].
  apply existsb_exists in H as [bs [Hbs H]]. exists bs. split; [|exact H].
  apply in_flat_map. exists es. split; [exact Hes|]. apply in_flat_map. exists c. split; assumption.
Qed.

Definition forall_cases (cs : list config) (P : listeners -> kind -> list batch -> bool) : bool :=
  forallb (fun c => let '(lis, k, m) := c in forall_scripts m (triggers_of c) (P lis k)) cs.
Lemma forall_cases_sound cs P :
  forall_cases cs P = true ->
  forall lis k m bs, In (lis, k, m) cs -> In bs (cases_of (lis, k, m)) -> P lis k bs = true.
Proof.
  unfold forall_cases. intros H lis k m bs Hk Hbs. rewrite forallb_forall in H. specialize (H _ Hk).
  cbv beta iota in H. unfold cases_of in Hbs. exact (forall_scripts_sound _ _ _ H bs Hbs).
Qed.

(* every check takes the outcome r = outcome lis k bs as an argument, so that it is computed once per cell *)
Definition chk_table (k : kind) (bs : list batch) (r : result) : bool := defect k bs || spec_allows bs r.
Definition chk_ok (k : kind) (bs : list batch) (r : result) : bool :=
  match r with ROk _ => status_ok_received bs | _ => true end.
Definition chk_hang (k : kind) (bs : list batch) (r : result) : bool :=
  match r with
  | RHang => negb (ev_ended (events bs) || ev_cut (events bs) false)
  | _ => true
  end.
Definition chk_exc (k : kind) (bs : list batch) (r : result) : bool :=
  match r with
  | RExc XProtocol => false
  | RExc XAssertion => d2d k bs
  | RExc (XMetadata _) => d2c k bs
  | RStuck => false
  | _ => true
  end.
Definition is_not200 (h : option hinfo) : bool :=
  match h with Some h => match hi_st h with SNot200 => true | S200 => false end | None => false end.
Definition exn_eqb (a b : exn) : bool :=
  match a, b with
  | XHttpStatus, XHttpStatus | XContentType, XContentType | XTerminated, XTerminated
  | XProtocol, XProtocol | XAssertion, XAssertion => true
  | XBadGrpcStatus BHdr, XBadGrpcStatus BHdr | XBadGrpcStatus BTrl, XBadGrpcStatus BTrl
  | XServer BHdr, XServer BHdr | XServer BTrl, XServer BTrl
  | XMetadata BHdr, XMetadata BHdr | XMetadata BTrl, XMetadata BTrl => true
  | _, _ => false
  end.
Definition raises (r : result) (e : exn) : bool := match r with RExc e' => exn_eqb e' e | _ => false end.
(* rows of the table with their exact outcome *)
Definition row_non200_hyp (k : kind) (bs : list batch) : bool :=
  is_not200 (ev_hdr (events bs)).
Definition chk_row_non200 (k : kind) (bs : list batch) (r : result) : bool :=
  implb (row_non200_hyp k bs) (raises r XHttpStatus).
Definition row_server_trl_hyp (k : kind) (bs : list batch) : bool :=
  let es := events bs in
  acceptable (ev_hdr es) && negb (defect k bs)
  && gs_eqb (h_gs (ev_hdr es)) GsAbsent && gs_eqb (t_gs (ev_trl es)) GsErr.
Definition row_server_hdr_hyp (k : kind) (bs : list batch) : bool :=
  let es := events bs in
  acceptable (ev_hdr es) && negb (defect k bs)
  && gs_eqb (h_gs (ev_hdr es)) GsErr && negb (has_trl_ev es).
Definition chk_row_server (k : kind) (bs : list batch) (r : result) : bool :=
  implb (row_server_trl_hyp k bs) (raises r (XServer BTrl))
  && implb (row_server_hdr_hyp k bs) (raises r (XServer BHdr)).
(* the response was cut before END_STREAM and before any grpc-status (or anything unacceptable) arrived *)
Definition row_nothing_hyp (k : kind) (bs : list batch) : bool :=
  let es := events bs in
  ev_cut es false && negb (ev_ended es) && negb (d2c k bs)
  && match ev_hdr es with None => true | Some h => acceptable (Some h) && gs_eqb (hi_gs h) GsAbsent end
  && negb (has_trl_ev es).
Definition chk_row_nothing (k : kind) (bs : list batch) (r : result) : bool :=
  implb (row_nothing_hyp k bs) (raises r XTerminated).
(* a complete, acceptable response whose only grpc-status is OK *)
Definition row_success_hyp (k : kind) (bs : list batch) : bool :=
  let es := events bs in
  acceptable (ev_hdr es) && negb (ev_cut es false) && negb (defect k bs) && ev_ended es
  && ((gs_eqb (h_gs (ev_hdr es)) GsOk && negb (has_trl_ev es))
      || (gs_eqb (h_gs (ev_hdr es)) GsAbsent && gs_eqb (t_gs (ev_trl es)) GsOk)).
Definition chk_row_success (k : kind) (bs : list batch) (r : result) : bool :=
  implb (row_success_hyp k bs) (match r with ROk _ => true | _ => false end).

(* an acceptable response that ends with END_STREAM without trailers and without grpc-status, not cut *)
Definition row_missing_status_hyp (k : kind) (bs : list batch) : bool :=
  let es := events bs in
  acceptable (ev_hdr es) && negb (defect k bs) && ev_ended es && negb (ev_cut es false)
  && negb (has_trl_ev es) && gs_eqb (h_gs (ev_hdr es)) GsAbsent.
Definition chk_row_missing_status (k : kind) (bs : list batch) (r : result) : bool :=
  implb (row_missing_status_hyp k bs) (raises r (XBadGrpcStatus BTrl)).

Definition checks (k : kind) (bs : list batch) (r : result) : bool :=
  wf_script bs && chk_row_missing_status k bs r
  && chk_table k bs r && chk_ok k bs r && chk_hang k bs r && chk_exc k bs r
  && chk_row_non200 k bs r && chk_row_server k bs r && chk_row_nothing k bs r && chk_row_success k bs r.
Definition all_checks (lis : listeners) (k : kind) (bs : list batch) : bool := checks k bs (outcome lis k bs).

Lemma open_cardinality_irrelevant lis cs ss cs' ss' p bs :
  outcome lis (Open cs ss p) bs = outcome lis (Open cs' ss' p) bs /\
  defect (Open cs ss p) bs = defect (Open cs' ss' p) bs.
Proof. split; reflexivity. Qed.

(* THE enumeration (Model/ClientCall.v: configs): the 4 __call__ kinds and 8 open() bodies, (a) without
   listeners, up to 2 messages, (b) with suspending listeners on all three receive events, up to 1
   message and the extra trigger TL (delivery during a listener suspension); every layout
   with up to 2 messages, every cut, every split point, both batchings, every trigger *)
Lemma domain_checked : forall_cases configs all_checks = true.
Proof. vm_cast_no_check (eq_refl true). Qed.

Lemma domain lis k m bs : In (lis, k, m) configs -> In bs (cases_of (lis, k, m)) -> all_checks lis k bs = true.
Proof. apply forall_cases_sound. exact domain_checked. Qed.

Ltac split_checks H :=
  unfold all_checks, checks in H; repeat (apply andb_true_iff in H; let H' := fresh "Hc" in destruct H as [H H']).

(* ---- the theorems read off the enumeration ---- *)

(* every cell of the table, outside the three recorded defect classes *)
Lemma table_partial lis k m bs :
  In (lis, k, m) configs -> In bs (cases_of (lis, k, m)) -> defect k bs = false ->
  spec_allows bs (outcome lis k bs) = true.
Proof.
  intros Hk Hbs Hd. pose proof (domain lis k m bs Hk Hbs) as H. split_checks H.
  unfold chk_table in Hc6. rewrite Hd in Hc6. exact Hc6.
Qed.

(* success only on grpc-status OK on an acceptable response: full strength, every kind *)
Lemma ok_sound lis k m bs n :
  In (lis, k, m) configs -> In bs (cases_of (lis, k, m)) -> outcome lis k bs = ROk n ->
  status_ok_received bs = true.
Proof.
  intros Hk Hbs Ho. pose proof (domain lis k m bs Hk Hbs) as H. split_checks H.
  unfold chk_ok in Hc5. rewrite Ho in Hc5. exact Hc5.
Qed.

(* the call finishes whenever the script ends in END_STREAM or a cut *)
Lemma no_hang_enumerated lis k m bs :
  In (lis, k, m) configs -> In bs (cases_of (lis, k, m)) ->
  ev_ended (events bs) || ev_cut (events bs) false = true ->
  outcome lis k bs <> RHang.
Proof.
  intros Hk Hbs He Ho. pose proof (domain lis k m bs Hk Hbs) as H. split_checks H.
  unfold chk_hang in Hc4. rewrite Ho, He in Hc4. discriminate.
Qed.

(* nothing but GRPCError / StreamTerminatedError escapes, except in the classes D2c, D2d *)
Lemma only_grpc_errors_partial lis k m bs e :
  In (lis, k, m) configs -> In bs (cases_of (lis, k, m)) -> d2c k bs = false -> d2d k bs = false ->
  outcome lis k bs = RExc e ->
  e <> XProtocol /\ e <> XAssertion /\ (forall b, e <> XMetadata b).
Proof.
  intros Hk Hbs Hdc Hdd Ho. pose proof (domain lis k m bs Hk Hbs) as H. split_checks H.
  unfold chk_exc in Hc3. rewrite Ho in Hc3.
  split; [|split; [|intros b]]; intros ->; rewrite ?Hdc, ?Hdd in Hc3; discriminate.
Qed.

Lemma never_stuck lis k m bs : In (lis, k, m) configs -> In bs (cases_of (lis, k, m)) -> outcome lis k bs <> RStuck.
Proof.
  intros Hk Hbs Ho. pose proof (domain lis k m bs Hk Hbs) as H. split_checks H.
  unfold chk_exc in Hc3. rewrite Ho in Hc3. discriminate.
Qed.

Lemma enumerated_scripts_wf lis k m bs : In (lis, k, m) configs -> In bs (cases_of (lis, k, m)) -> wf_script bs = true.
Proof. intros Hk Hbs. pose proof (domain lis k m bs Hk Hbs) as H. split_checks H. exact H. Qed.

Lemma raises_eq r e : raises r e = true -> r = RExc e.
Proof.
  destruct r as [n|e'| |]; cbn [raises]; try discriminate.
  destruct e' as [| |[]|[]| | | |[]], e as [| |[]|[]| | | |[]]; cbn [exn_eqb]; try discriminate; reflexivity.
Qed.

(* rows with their exact outcome *)
Lemma row_non200 lis k m bs :
  In (lis, k, m) configs -> In bs (cases_of (lis, k, m)) -> row_non200_hyp k bs = true ->
  outcome lis k bs = RExc XHttpStatus.
Proof.
  intros Hk Hbs Hh. pose proof (domain lis k m bs Hk Hbs) as H. split_checks H.
  unfold chk_row_non200 in Hc2. rewrite Hh in Hc2. apply raises_eq. exact Hc2.
Qed.

Lemma row_server_trailers lis k m bs :
  In (lis, k, m) configs -> In bs (cases_of (lis, k, m)) -> row_server_trl_hyp k bs = true ->
  outcome lis k bs = RExc (XServer BTrl).
Proof.
  intros Hk Hbs Hh. pose proof (domain lis k m bs Hk Hbs) as H. split_checks H.
  unfold chk_row_server in Hc1. apply andb_true_iff in Hc1 as [H1 _]. rewrite Hh in H1.
  apply raises_eq. exact H1.
Qed.

Lemma row_server_headers lis k m bs :
  In (lis, k, m) configs -> In bs (cases_of (lis, k, m)) -> row_server_hdr_hyp k bs = true ->
  outcome lis k bs = RExc (XServer BHdr).
Proof.
  intros Hk Hbs Hh. pose proof (domain lis k m bs Hk Hbs) as H. split_checks H.
  unfold chk_row_server in Hc1. apply andb_true_iff in Hc1 as [_ H2]. rewrite Hh in H2.
  apply raises_eq. exact H2.
Qed.

Lemma row_nothing lis k m bs :
  In (lis, k, m) configs -> In bs (cases_of (lis, k, m)) -> row_nothing_hyp k bs = true ->
  outcome lis k bs = RExc XTerminated.
Proof.
  intros Hk Hbs Hh. pose proof (domain lis k m bs Hk Hbs) as H. split_checks H.
  unfold chk_row_nothing in Hc0. rewrite Hh in Hc0. apply raises_eq. exact Hc0.
Qed.

Lemma row_success lis k m bs :
  In (lis, k, m) configs -> In bs (cases_of (lis, k, m)) -> row_success_hyp k bs = true ->
  exists n, outcome lis k bs = ROk n.
Proof.
  intros Hk Hbs Hh. pose proof (domain lis k m bs Hk Hbs) as H. split_checks H.
  unfold chk_row_success in Hc. rewrite Hh in Hc. cbn [implb] in Hc.
  destruct (outcome lis k bs) as [n| | |]; try discriminate. exists n. reflexivity.
Qed.

Lemma row_missing_status lis k m bs :
  In (lis, k, m) configs -> In bs (cases_of (lis, k, m)) -> row_missing_status_hyp k bs = true ->
  outcome lis k bs = RExc (XBadGrpcStatus BTrl).
Proof.
  intros Hk Hbs Hh. pose proof (domain lis k m bs Hk Hbs) as H. split_checks H.
  unfold chk_row_missing_status in Hc7. rewrite Hh in Hc7. apply raises_eq. exact Hc7.
Qed.

(* ---- the refuted cells: the full-strength statements are false of the faithful model ---- *)
Definition H_ok (g : gs_class) (m : md_class) : hinfo :=
  {| hi_st := S200; hi_ct := CtOk; hi_gs := g; hi_md := m |}.
Definition T_of (g : gs_class) : tinfo := {| ti_gs := g; ti_md := MdOk |}.
Definition one (es : list aevent) : list batch := [{| b_trig := TB; b_events := es |}].

(* D2c: malformed user -bin metadata in an otherwise perfect OK response: binascii.Error escapes *)
Lemma d2c_refuted :
  let bs := one [AH (H_ok GsAbsent MdBad) false; AD false; AT (T_of GsOk)] in
  wf_script bs = true /\ outcome no_listeners (Call false false) bs = RExc (XMetadata BHdr) /\
  spec_allows bs (outcome no_listeners (Call false false) bs) = false.
Proof. vm_compute. repeat split. Qed.

(* D2d: grpc-status OK without a message on a unary-reply call: AssertionError escapes *)
Lemma d2d_refuted :
  let bs := one [AH (H_ok GsOk MdOk) true] in
  wf_script bs = true /\ outcome no_listeners (Call false false) bs = RExc XAssertion /\
  spec_allows bs (outcome no_listeners (Call false false) bs) = false.
Proof. vm_compute. repeat split. Qed.

(* (repaired D2e) the response ends with END_STREAM on DATA or on the HEADERS, no trailers: the call
   finishes with UNKNOWN "Missing grpc-status" *)
Lemma end_stream_without_trailers :
  let bs := one [AH (H_ok GsAbsent MdOk) false; AD true] in
  let bs' := one [AH (H_ok GsAbsent MdOk) true] in
  wf_script bs = true /\ ev_ended (events bs) = true /\
  outcome no_listeners (Call false false) bs = RExc (XBadGrpcStatus BTrl) /\
  outcome no_listeners (Call false true) bs = RExc (XBadGrpcStatus BTrl) /\
  outcome no_listeners (Call false false) bs' = RExc (XBadGrpcStatus BTrl) /\
  outcome no_listeners (Open false true [RI; IT]) bs' = RExc (XBadGrpcStatus BTrl) /\
  spec_allows bs (RExc (XBadGrpcStatus BTrl)) = true.
Proof. vm_compute. repeat split. Qed.

(* (repaired D2f) open() body read one message; trailers with a non-OK status and GOAWAY arrive
   before the exit: the implicit receive fails at once and is upgraded to the server's status; a body
   that received nothing before the connection was lost ends in StreamTerminatedError; an exchange whose
   trailers were already consumed exits cleanly *)
Lemma closing_before_exit :
  let bs := [{| b_trig := TB; b_events := [AH (H_ok GsAbsent MdOk) false; AD false] |};
             {| b_trig := TS 1; b_events := [AT (T_of GsErr); AGoaway] |}] in
  let done := [{| b_trig := TB; b_events := [AH (H_ok GsAbsent MdOk) false; AD false; AT (T_of GsOk)] |};
               {| b_trig := TS 3; b_events := [AGoaway] |}] in
  wf_script bs = true /\ outcome no_listeners (Open false false [RM]) bs = RExc (XServer BTrl) /\
  outcome no_listeners (Open false false []) [{| b_trig := TS 0; b_events := [ALost] |}] = RExc XTerminated /\
  outcome no_listeners (Open false false [RI; RM; RT]) done = ROk 1.
Proof. vm_compute. repeat split. Qed.

(* D2g: text/html with grpc-status in the headers, then RST_STREAM: the server's status, not UNKNOWN *)
Lemma d2g_refuted :
  let bs := one [AH {| hi_st := S200; hi_ct := CtBad; hi_gs := GsErr; hi_md := MdOk |} false; ARst] in
  wf_script bs = true /\ outcome no_listeners (Call false false) bs = RExc (XServer BHdr) /\
  spec_allows bs (outcome no_listeners (Call false false) bs) = false /\
  (* without the reset the same headers give UNKNOWN, as the statement says *)
  outcome no_listeners (Call false false) (one [AH {| hi_st := S200; hi_ct := CtBad; hi_gs := GsErr; hi_md := MdOk |} false])
  = RExc XContentType.
Proof. vm_compute. repeat split. Qed.

(* the cut arrives while a RecvTrailingMetadata / RecvMessage / RecvInitialMetadata listener is
   suspended: the operation ends in StreamTerminatedError, __aexit__ upgrades it to the status that had
   arrived (recv_trailing_metadata sets its done-flag BEFORE it dispatches, so an upgrade that skipped
   "already received" trailers would lose the status) *)
Lemma cut_during_listener :
  let resp := [{| b_trig := TB; b_events := [AH (H_ok GsAbsent MdOk) false; AD false; AT (T_of GsErr)] |}] in
  let lt := {| l_init := false; l_msg := false; l_trail := true |} in
  outcome lt (Call false false) (resp ++ [{| b_trig := TL; b_events := [ALost] |}]) = RExc (XServer BTrl) /\
  outcome lt (Open true true [RI; IT; RT]) (resp ++ [{| b_trig := TL; b_events := [ARst] |}])
  = RExc (XServer BTrl) /\
  outcome all_listeners (Call false true)
          [{| b_trig := TB; b_events := [AH (H_ok GsErr MdOk) false] |}; {| b_trig := TL; b_events := [AGoaway] |}]
  = RExc (XServer BHdr) /\
  outcome all_listeners (Call true false)
          [{| b_trig := TB; b_events := [AH (H_ok GsAbsent MdOk) false; AD false] |};
           {| b_trig := TL; b_events := [ALost] |}]
  = RExc XTerminated /\
  (* without a listener the same TL batch only arrives once the client blocks: the call completes *)
  outcome no_listeners (Call false false) (resp ++ [{| b_trig := TL; b_events := [ALost] |}])
  = RExc (XServer BTrl).
Proof. vm_compute. repeat split. Qed.

(* the full-strength table is therefore false on the enumerated domain *)
Lemma table_refuted :
  exists lis k m bs, In (lis, k, m) configs /\ wf_script bs = true /\ spec_allows bs (outcome lis k bs) = false.
Proof.
  exists no_listeners, (Call false false), 2%nat, (one [AH (H_ok GsOk MdOk) true]).
  split; [left; reflexivity|]. vm_compute. split; reflexivity.
Qed.

(* ================================================================================================ *)
(** * Part C: no hang -- every script, every kind, every body (no bound) *)

(* the state after everything that is still pending has been delivered *)
Definition final (s : state) (bs : list batch) : state :=
  fold_left (fun s b => apply_batch b s) bs s.

(* the part of the state the peer writes; the client only changes q and its own flags *)
Definition weq (a b : state) : Prop :=
  hdr a = hdr b /\ eof a = eof b /\ trl a = trl b /\ werr a = werr b /\ closing a = closing b /\
  h2closed a = h2closed b.

Lemma weq_refl a : weq a a.
Proof. repeat split. Qed.

Lemma weq_apply_event a b e : weq a b -> weq (apply_event a e) (apply_event b e).
Proof.
  intros (H1 & H2 & H3 & H4 & H5 & H6). unfold apply_event. rewrite H5.
  destruct (closing b) eqn:Eb; [repeat split; congruence|].
  destruct e; unfold weq; cbn; rewrite ?H6; try destruct (h2closed b) eqn:Eh; cbn; repeat split; congruence.
Qed.

Lemma weq_fold_events es : forall a b, weq a b -> weq (fold_left apply_event es a) (fold_left apply_event es b).
Proof.
  induction es as [|e r IH]; intros a b H; cbn [fold_left]; [exact H|].
  apply IH. apply weq_apply_event. exact H.
Qed.

Lemma weq_final bs : forall a b, weq a b -> weq (final a bs) (final b bs).
Proof.
  unfold final. induction bs as [|x r IH]; intros a b H; cbn [fold_left]; [exact H|].
  apply IH. unfold apply_batch. apply weq_fold_events. exact H.
Qed.

(* everything a receive operation can wait for is there, or the wrapper carries the error *)
Definition good (s : state) : bool := werr s || (has_hdr s && eof s).

Lemma good_weq a b : weq a b -> good a = good b.
Proof.
  intros (H1 & H2 & H3 & H4 & H5 & H6). unfold good, has_hdr. rewrite H1, H2, H4. reflexivity.
Qed.

Lemma weq_set_ri s : weq (set_ri s) s. Proof. repeat split. Qed.
Lemma weq_set_tonly s : weq (set_tonly s) s. Proof. repeat split. Qed.
Lemma weq_set_rt s : weq (set_rt s) s. Proof. repeat split. Qed.
Lemma weq_pop_msg s : weq (pop_msg s) s. Proof. repeat split. Qed.

Lemma good_final_weq a b bs : weq a b -> good (final a bs) = good (final b bs).
Proof. intros H. apply good_weq. apply weq_final. exact H. Qed.

(* ---- wait ---- *)
Lemma wait_hang cond : forall bs s,
  werr s = false -> wait cond s bs = WHang ->
  cond (final s bs) = false /\ werr (final s bs) = false.
Proof.
  induction bs as [|b r IH]; intros s Hw H; cbn [wait] in H.
  - destruct (cond s) eqn:E; [discriminate|]. cbn. split; assumption.
  - destruct (cond s) eqn:E; [discriminate|].
    destruct (werr (apply_batch b s)) eqn:E'; [discriminate|].
    unfold final. cbn [fold_left]. apply IH; assumption.
Qed.

Lemma wait_ready cond : forall bs s s' bs',
  wait cond s bs = WReady s' bs' -> final s' bs' = final s bs /\ cond s' = true.
Proof.
  induction bs as [|b r IH]; intros s s' bs' H; cbn [wait] in H.
  - destruct (cond s) eqn:E; [|discriminate]. injection H as <- <-. split; [reflexivity|exact E].
  - destruct (cond s) eqn:E.
    + injection H as <- <-. split; [reflexivity|exact E].
    + destruct (werr (apply_batch b s)) eqn:E'; [discriminate|].
      apply IH in H. unfold final at 2. cbn [fold_left]. exact H.
Qed.

Lemma wait_term cond : forall bs s s' bs',
  wait cond s bs = WTerm s' bs' -> final s' bs' = final s bs.
Proof.
  induction bs as [|b r IH]; intros s s' bs' H; cbn [wait] in H.
  - destruct (cond s); discriminate.
  - destruct (cond s) eqn:E; [discriminate|].
    destruct (werr (apply_batch b s)) eqn:E'.
    + injection H as <- <-. reflexivity.
    + apply IH in H. unfold final at 2. cbn [fold_left]. exact H.
Qed.

Lemma good_cond (cond : state -> bool) F :
  (cond = has_hdr \/ cond = data_ready \/ cond = trl_ready) ->
  good F = true -> werr F = false -> cond F = true.
Proof.
  intros Hc Hg Hw. unfold good in Hg. rewrite Hw in Hg. cbn [orb] in Hg.
  apply andb_true_iff in Hg as [Hh He].
  destruct Hc as [ -> | [ -> | -> ] ]; [exact Hh| |].
  - unfold data_ready. rewrite He. apply orb_true_r.
  - unfold trl_ready. rewrite He. apply orb_true_r.
Qed.

(* ---- the receive operations keep the invariant and do not hang ---- *)
Definition safe {A} (m : step A) : Prop :=
  match m with
  | Ret _ s bs => good (final s bs) = true
  | Raise _ s bs => good (final s bs) = true
  | Hangs => False
  | Stuck => True
  end.

Lemma safe_bind {A B} (m : step A) (f : A -> state -> list batch -> step B) :
  safe m -> (forall a s bs, good (final s bs) = true -> safe (f a s bs)) -> safe (bind m f).
Proof. destruct m as [a s bs|e s bs| |]; cbn [bind safe]; intros Hm Hf; auto. Qed.

Ltac weq_good :=
  repeat match goal with
         | |- context [good (final (set_ri ?s) ?bs)] =>
             rewrite (good_final_weq (set_ri s) s bs (weq_set_ri s))
         | |- context [good (final (set_tonly ?s) ?bs)] =>
             rewrite (good_final_weq (set_tonly s) s bs (weq_set_tonly s))
         | |- context [good (final (set_rt ?s) ?bs)] =>
             rewrite (good_final_weq (set_rt s) s bs (weq_set_rt s))
         | |- context [good (final (pop_msg ?s) ?bs)] =>
             rewrite (good_final_weq (pop_msg s) s bs (weq_pop_msg s))
         end.

Lemma listen_then_safe {A} on s bs (k : state -> list batch -> step A) :
  good (final s bs) = true ->
  (forall s' bs', good (final s' bs') = true -> safe (k s' bs')) ->
  safe (listen_then on s bs k).
Proof.
  intros Hg Hk. unfold listen_then. destruct on; [|apply Hk; exact Hg].
  destruct bs as [|b r]; [apply Hk; exact Hg|].
  destruct (b_trig b); try (apply Hk; exact Hg).
  assert (Hf : final (apply_batch b s) r = final s (b :: r)) by reflexivity.
  destruct (werr (apply_batch b s)); [cbn [safe]|apply Hk]; rewrite Hf; exact Hg.
Qed.

Lemma recv_initial_safe lis s bs : good (final s bs) = true -> safe (recv_initial lis s bs).
Proof.
  intros Hg. unfold recv_initial.
  destruct (ri_done s); [exact Hg|]. destruct (werr s) eqn:Hw; [exact Hg|].
  destruct (wait has_hdr s bs) as [s' bs'|s' bs'|] eqn:Ewait.
  - apply wait_ready in Ewait as [Ef _]. rewrite <- Ef in Hg.
    destruct (hdr s') as [h|]; [|exact I].
    assert (Hg1 : good (final (set_ri s') bs') = true) by (weq_good; exact Hg).
    assert (Hg2 : good (final (set_tonly (set_ri s')) bs') = true) by (weq_good; exact Hg).
    destruct (hi_st h); [|exact Hg1]. destruct (hi_ct h); try exact Hg1.
    destruct (hi_gs h).
    + destruct (hi_md h); [|exact Hg1]. apply listen_then_safe; [exact Hg1|]. intros s3 bs3 H3. exact H3.
    + apply listen_then_safe; [exact Hg2|]. intros s2 bs2 H2.
      destruct (hi_md h); [|exact H2]. apply listen_then_safe; [exact H2|]. intros s3 bs3 H3. exact H3.
    + apply listen_then_safe; [exact Hg2|]. intros s2 bs2 H2.
      destruct (hi_md h); [|exact H2]. apply listen_then_safe; [exact H2|]. intros s3 bs3 H3. exact H3.
    + apply listen_then_safe; [exact Hg2|]. intros s2 bs2 H2. exact H2.
  - apply wait_term in Ewait. cbn [safe]. rewrite Ewait. exact Hg.
  - apply (wait_hang _ _ _ Hw) in Ewait as [Hc Hwf].
    rewrite (good_cond has_hdr _ (or_introl eq_refl) Hg Hwf) in Hc. discriminate.
Qed.

Lemma recv_message_safe lis s bs : good (final s bs) = true -> safe (recv_message lis s bs).
Proof.
  intros Hg. unfold recv_message. apply safe_bind.
  - destruct (ri_done s); [exact Hg|]. apply recv_initial_safe. exact Hg.
  - clear s bs Hg. intros _ s bs Hg. destruct (werr s) eqn:Hw; [exact Hg|].
    destruct (wait data_ready s bs) as [s' bs'|s' bs'|] eqn:Ewait.
    + apply wait_ready in Ewait as [Ef _]. rewrite <- Ef in Hg.
      destruct (0 <? Z.of_nat (q s')); [|exact Hg].
      apply listen_then_safe; [weq_good; exact Hg|]. intros s3 bs3 H3. exact H3.
    + apply wait_term in Ewait. cbn [safe]. rewrite Ewait. exact Hg.
    + apply (wait_hang _ _ _ Hw) in Ewait as [Hc Hwf].
      rewrite (good_cond data_ready _ (or_intror (or_introl eq_refl)) Hg Hwf) in Hc. discriminate.
Qed.

Lemma recv_trailing_safe lis s bs : good (final s bs) = true -> safe (recv_trailing lis s bs).
Proof.
  intros Hg. unfold recv_trailing.
  destruct (negb (ri_done s)); [exact Hg|]. destruct (rt_done s); [exact Hg|].
  destruct (tonly s); [cbn [safe]; weq_good; exact Hg|].
  destruct (werr s) eqn:Hw; [exact Hg|].
  destruct (wait trl_ready s bs) as [s' bs'|s' bs'|] eqn:Ewait.
  - apply wait_ready in Ewait as [Ef _]. rewrite <- Ef in Hg.
    assert (Hg1 : good (final (set_rt s') bs') = true) by (weq_good; exact Hg).
    destruct (trl s') as [t|]; [|exact Hg1].
    destruct (ti_gs t); try exact Hg1; (destruct (ti_md t); [|exact Hg1]);
      (apply listen_then_safe; [exact Hg1|]); intros s3 bs3 H3; exact H3.
  - apply wait_term in Ewait. cbn [safe]. rewrite Ewait. exact Hg.
  - apply (wait_hang _ _ _ Hw) in Ewait as [Hc Hwf].
    rewrite (good_cond trl_ready _ (or_intror (or_intror eq_refl)) Hg Hwf) in Hc. discriminate.
Qed.

Lemma iterate_safe lis fuel : forall n s bs, good (final s bs) = true -> safe (iterate lis fuel n s bs).
Proof.
  induction fuel as [|f IH]; intros n s bs Hg; cbn [iterate]; [exact I|].
  apply safe_bind; [apply recv_message_safe; exact Hg|].
  intros got s1 bs1 Hg1. destruct got; [apply IH; exact Hg1|exact Hg1].
Qed.

Lemma run_op_safe lis fuel o got s bs : good (final s bs) = true -> safe (run_op lis fuel o got s bs).
Proof.
  intros Hg. destruct o; cbn [run_op].
  - apply safe_bind; [apply recv_initial_safe; exact Hg|]. intros _ s1 bs1 H. exact H.
  - apply safe_bind; [apply recv_message_safe; exact Hg|]. intros m s1 bs1 H. exact H.
  - apply iterate_safe. exact Hg.
  - apply safe_bind; [apply recv_trailing_safe; exact Hg|]. intros _ s1 bs1 H. exact H.
Qed.

Lemma deliver_before_final k : forall bs s s' bs',
  deliver_before k s bs = (s', bs') -> final s' bs' = final s bs.
Proof.
  induction bs as [|b r IH]; intros s s' bs' H; cbn [deliver_before] in H.
  - injection H as <- <-. reflexivity.
  - destruct (b_trig b) as [|k'|].
    + injection H as <- <-. reflexivity.
    + destruct (Nat.leb k' k).
      * apply IH in H. unfold final at 2. cbn [fold_left]. exact H.
      * injection H as <- <-. reflexivity.
    + injection H as <- <-. reflexivity.
Qed.

Lemma run_prog_safe lis fuel : forall ops k got s bs,
  good (final s bs) = true -> safe (run_prog lis fuel k ops got s bs).
Proof.
  induction ops as [|o r IH]; intros k got s bs Hg; cbn [run_prog];
    destruct (deliver_before k s bs) as [s0 bs0] eqn:Ed;
    apply deliver_before_final in Ed; rewrite <- Ed in Hg.
  - exact Hg.
  - apply safe_bind; [apply run_op_safe; exact Hg|]. intros g s1 bs1 H. apply IH. exact H.
Qed.

Lemma maybe_finish_safe lis s bs : good (final s bs) = true -> safe (maybe_finish lis s bs).
Proof.
  intros Hg. unfold maybe_finish.
  apply safe_bind.
  - destruct (ri_done s); [exact Hg|]. apply recv_initial_safe. exact Hg.
  - intros _ s1 bs1 H. destruct (rt_done s1); [exact H|]. apply recv_trailing_safe. exact H.
Qed.

Lemma finish_no_hang {A} lis (body : step A) (ok : A -> result) :
  safe body -> (forall a, ok a <> RHang) -> finish lis body ok <> RHang.
Proof.
  intros Hs Hok. destruct body as [a s bs|e s bs| |]; cbn [finish safe] in *.
  - unfold aexit. pose proof (maybe_finish_safe lis s bs Hs) as Hm.
    destruct (maybe_finish lis s bs) as [u s' bs'|e s' bs'| |]; cbn [safe] in Hm;
      [apply Hok|discriminate|contradiction|discriminate].
  - cbn [aexit]. discriminate.
  - contradiction.
  - discriminate.
Qed.

Lemma outcome_no_hang lis k bs : good (final init bs) = true -> outcome lis k bs <> RHang.
Proof.
  intros Hg. destruct k as [cs [|]|cs ss prog]; cbn [outcome]; apply finish_no_hang.
  - apply iterate_safe. exact Hg.
  - discriminate.
  - apply recv_message_safe. exact Hg.
  - intros [|]; discriminate.
  - apply run_prog_safe. exact Hg.
  - discriminate.
Qed.

(* ---- sufficient conditions on the script itself ---- *)
Lemma final_events : forall bs s, final s bs = fold_left apply_event (events bs) s.
Proof.
  unfold final, events. induction bs as [|b r IH]; intros s; cbn [fold_left flat_map]; [reflexivity|].
  rewrite fold_left_app. apply IH.
Qed.

Definition cw (s : state) : Prop := closing s = true -> werr s = true.

Lemma cw_apply s e : cw s -> cw (apply_event s e).
Proof.
  unfold cw, apply_event. intros H. destruct (closing s) eqn:Ec; [rewrite Ec; exact H|].
  destruct e; try (destruct (h2closed s)); cbn; try rewrite Ec; intros; try discriminate; reflexivity.
Qed.

Lemma werr_mono s e : werr s = true -> werr (apply_event s e) = true.
Proof.
  unfold apply_event. intros H. destruct (closing s); [exact H|].
  destruct e; try (destruct (h2closed s)); cbn; auto.
Qed.

Lemma werr_mono_fold es : forall s, werr s = true -> werr (fold_left apply_event es s) = true.
Proof. induction es as [|e r IH]; intros s H; cbn [fold_left]; [exact H|]. apply IH. apply werr_mono. exact H. Qed.

Lemma good_mono s e : good s = true -> good (apply_event s e) = true.
Proof.
  unfold good, apply_event. intros H. destruct (closing s); [exact H|].
  destruct (werr s) eqn:Hw.
  - destruct e; try (destruct (h2closed s)); cbn; rewrite ?Hw; reflexivity.
  - cbn [orb] in H. apply andb_true_iff in H as [Hh He].
    unfold has_hdr in *.
    destruct e; try (destruct (h2closed s)); cbn; rewrite ?Hw, ?He, ?Hh; cbn;
      rewrite ?Hh, ?orb_true_r; reflexivity.
Qed.

Lemma good_mono_fold es : forall s, good s = true -> good (fold_left apply_event es s) = true.
Proof. induction es as [|e r IH]; intros s H; cbn [fold_left]; [exact H|]. apply IH. apply good_mono. exact H. Qed.

Lemma werr_good s : werr s = true -> good s = true.
Proof. unfold good. intros ->. reflexivity. Qed.

(* an effective cut sets the wrapper error *)
Lemma cut_sets_werr : forall es s e,
  cw s -> (h2closed s = true -> e = true \/ werr s = true) ->
  ev_cut es e = true -> werr (fold_left apply_event es s) = true.
Proof.
  induction es as [|x r IH]; intros s e Hcw Hh Hcut; cbn [ev_cut] in Hcut; [discriminate|].
  cbn [fold_left].
  destruct (werr s) eqn:Hw; [apply werr_mono_fold; apply werr_mono; exact Hw|].
  assert (Hc : closing s = false).
  { destruct (closing s) eqn:Ec; [|reflexivity]. rewrite (Hcw Ec) in Hw. discriminate. }
  assert (Hcw' : cw (apply_event s x)) by (apply cw_apply; exact Hcw).
  destruct x as [h e'|e'|t| | |].
  - apply (IH _ (e || e')); [exact Hcw'| |exact Hcut].
    unfold apply_event. rewrite Hc. cbn. intros H. apply orb_true_iff in H as [H|H].
    + destruct (Hh H) as [ -> | Hx ]; [left; reflexivity|discriminate].
    + left. rewrite H. apply orb_true_r.
  - apply (IH _ (e || e')); [exact Hcw'| |exact Hcut].
    unfold apply_event. rewrite Hc. cbn. intros H. apply orb_true_iff in H as [H|H].
    + destruct (Hh H) as [ -> | Hx ]; [left; reflexivity|discriminate].
    + left. rewrite H. apply orb_true_r.
  - apply (IH _ (e || true)); [exact Hcw'| |exact Hcut].
    intros _. left. apply orb_true_r.
  - destruct e.
    + apply (IH _ true); [exact Hcw'| |exact Hcut]. intros _. left. reflexivity.
    + apply werr_mono_fold. unfold apply_event. rewrite Hc.
      destruct (h2closed s) eqn:E2; [|reflexivity].
      destruct (Hh eq_refl) as [Hx|Hx]; discriminate.
  - apply werr_mono_fold. unfold apply_event. rewrite Hc. reflexivity.
  - apply werr_mono_fold. unfold apply_event. rewrite Hc. reflexivity.
Qed.

Lemma wf_after_cut r seen ended : wf_events r seen ended true = true -> r = [].
Proof. destruct r as [|x r]; [reflexivity|]. cbn [wf_events negb andb]. discriminate. Qed.

Lemma hdr_or_werr_apply s e :
  has_hdr s = true \/ werr s = true -> has_hdr (apply_event s e) = true \/ werr (apply_event s e) = true.
Proof.
  unfold apply_event, has_hdr. intros H. destruct (closing s); [exact H|].
  destruct e; try (destruct (h2closed s)); cbn; auto.
Qed.

(* END_STREAM in a well-formed script: the headers and the end of the stream are there at the end *)
Lemma ended_makes_good : forall es s seen ended,
  cw s -> wf_events es seen ended false = true ->
  (seen = true -> has_hdr s = true \/ werr s = true) ->
  ev_ended es = true -> good (fold_left apply_event es s) = true.
Proof.
  unfold ev_ended.
  induction es as [|x r IH]; intros s seen ended Hcw Hwf Hseen Ht; cbn [existsb] in Ht; [discriminate|].
  cbn [fold_left]. cbn [wf_events negb andb] in Hwf.
  assert (Hcw' : cw (apply_event s x)) by (apply cw_apply; exact Hcw).
  destruct x as [h e'|e'|t| | |]; cbn [ev_end] in Ht.
  - apply andb_true_iff in Hwf as [Hwf Hr]. destruct e'.
    + apply good_mono_fold. unfold apply_event. destruct (closing s) eqn:Ec.
      * apply werr_good. apply Hcw. exact Ec.
      * unfold good, has_hdr. cbn. rewrite ?orb_true_r. reflexivity.
    + cbn [orb] in Ht. apply (IH _ true false); [exact Hcw'|exact Hr| |exact Ht].
      intros _. unfold apply_event. destruct (closing s) eqn:Ec.
      * right. apply Hcw. exact Ec.
      * left. reflexivity.
  - apply andb_true_iff in Hwf as [Hwf Hr]. apply andb_true_iff in Hwf as [Hs _]. destruct e'.
    + apply good_mono_fold. destruct (Hseen Hs) as [Hh|Hw].
      * unfold apply_event. destruct (closing s) eqn:Ec.
        -- apply werr_good. apply Hcw. exact Ec.
        -- unfold good, has_hdr in *. cbn. rewrite Hh, ?orb_true_r. reflexivity.
      * apply werr_good. apply werr_mono. exact Hw.
    + cbn [orb] in Ht. apply (IH _ seen false); [exact Hcw'|exact Hr| |exact Ht].
      intros Hx. apply hdr_or_werr_apply. apply Hseen. exact Hx.
  - apply andb_true_iff in Hwf as [Hwf Hr]. apply andb_true_iff in Hwf as [Hs _].
    apply good_mono_fold. destruct (Hseen Hs) as [Hh|Hw].
    + unfold apply_event. destruct (closing s) eqn:Ec.
      * apply werr_good. apply Hcw. exact Ec.
      * unfold good, has_hdr in *. cbn. rewrite Hh, ?orb_true_r. reflexivity.
    + apply werr_good. apply werr_mono. exact Hw.
  - apply wf_after_cut in Hwf. subst r. discriminate.
  - apply wf_after_cut in Hwf. subst r. discriminate.
  - apply wf_after_cut in Hwf. subst r. discriminate.
Qed.

Lemma cw_init : cw init. Proof. unfold cw. cbn. discriminate. Qed.

(* THE liveness theorem: for every kind of call, every body of an open() context, every set of suspending
   listeners and every delivery
   schedule -- once the response was effectively cut (GOAWAY, connection loss, RST_STREAM before
   END_STREAM), or is well-formed and ends in END_STREAM (on the headers, on DATA or on trailers), the
   call finishes *)
Lemma no_hang_general lis k bs :
  ev_cut (events bs) false = true \/ (wf_script bs = true /\ ev_ended (events bs) = true) ->
  outcome lis k bs <> RHang.
Proof.
  intros H. apply outcome_no_hang. rewrite final_events. destruct H as [Hcut|[Hwf Ht]].
  - apply werr_good. apply (cut_sets_werr _ _ false cw_init); [|exact Hcut]. cbn. discriminate.
  - apply (ended_makes_good _ _ false false cw_init Hwf); [discriminate|exact Ht].
Qed.
